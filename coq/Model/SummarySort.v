(** C11 model of internal/reporter/reporter.go (as it is after fixes 980af37, 1588b37, d8f60c6, 346020d and bc86063), json.go and the skeleton of
    console.go:  Report, isEqual, Summary.Report/hasReport, SortReports (diagnostic sort + 8-key stable sort
    incl. cmpDiagnostics), Dedup, CountBySeverity, JSON / console rendering.

    [Model/Summary.v] (C05) has a smaller record; this file carries every field that equality, ordering,
    folding or rendering reads.  Executable definitions only. *)
From Coq Require Import List String Ascii ZArith NArith Bool Lia.
From PintV Require Import Common.Bytes Common.Sorting Gen.Tables Model.Severity.
Import ListNotations.
Local Open Scope Z_scope.

(** diags.Diagnostic.  [dg_extra] stands for [Pos]: the harness numbers the distinct PositionRanges values of a
    stream by their rank under the comparison cmpDiags uses (slices.CompareFunc by Line, FirstColumn, LastColumn),
    so equal numbers = equal Pos and N.compare = that comparison; the rendered order of diagnostics is observable
    through it. *)
Record diag := { dg_msg : string; dg_first : Z; dg_last : Z; dg_extra : N }.

(** reporter.Report.  [r_rule] = class of [Report.Rule] under [parser.Rule.IsSame] (an equality of projections:
    kind flags, Error, Lines), computed by the harness with the real IsSame; [r_name] = Rule.Name().
    ModifiedLines is read by nothing in this pipeline (the harness uses it to trace identity). *)
Record report := {
  r_path : string; r_target : string; r_owner : string; r_rule : N; r_name : string;
  r_reporter : string; r_summary : string; r_details : string;
  r_diags : list diag; r_lfirst : Z; r_llast : Z; r_sev : Z; r_anchor_before : bool;
  r_rfirst : Z; r_rlast : Z   (* Report.Rule.Lines.First/Last: sort keys since fix bc86063 *) }.

(* ---------------------------------------------------------------------------------------------- *)
(** * Equality *)

(** the test inside isSameDiagnostics (since 1588b37 it also requires slices.Equal(a.Pos, b.Pos)) *)
Definition diag_eqb (a b : diag) : bool :=
  (dg_first a =? dg_first b) && (dg_last a =? dg_last b) && String.eqb (dg_msg a) (dg_msg b) &&
  N.eqb (dg_extra a) (dg_extra b).

(** isSameDiagnostics(sa, sb) *)
Definition is_same_diags (sa sb : list diag) : bool :=
  Nat.eqb (List.length sa) (List.length sb) && forallb (fun a => existsb (fun b => diag_eqb a b) sb) sa.

(** isSameDiagnosticsMessage(sa, sb) *)
Definition is_same_diags_msg (sa sb : list diag) : bool :=
  Nat.eqb (List.length sa) (List.length sb) &&
  forallb (fun a => existsb (fun b => String.eqb (dg_msg a) (dg_msg b)) sb) sa.

(** r.isEqual(nr) *)
Definition is_equal (r nr : report) : bool :=
  String.eqb (r_target nr) (r_target r) &&
  String.eqb (r_path nr) (r_path r) &&
  String.eqb (r_owner nr) (r_owner r) &&
  (r_lfirst r =? r_lfirst nr) &&
  (r_llast r =? r_llast nr) &&
  String.eqb (r_details r) (r_details nr) &&
  N.eqb (r_rule nr) (r_rule r) &&
  String.eqb (r_reporter nr) (r_reporter r) &&
  String.eqb (r_summary nr) (r_summary r) &&
  is_same_diags (r_diags nr) (r_diags r) &&
  (r_sev nr =? r_sev r).

(** r.isSameIssue(nr) *)
Definition is_same_issue (r nr : report) : bool :=
  String.eqb (r_reporter nr) (r_reporter r) &&
  String.eqb (r_summary nr) (r_summary r) &&
  (r_sev nr =? r_sev r) &&
  is_same_diags_msg (r_diags r) (r_diags nr).

(** Summary.hasReport / Summary.Report *)
Definition has_report (s : list report) (r : report) : bool := existsb (fun er => is_equal er r) s.
Definition summary_report (s : list report) (r : report) : list report :=
  if has_report s r then s else (s ++ [r])%list.
(** the Summary after a whole arrival stream *)
Definition collect (stream : list report) : list report := fold_left summary_report stream [].

(* ---------------------------------------------------------------------------------------------- *)
(** * Ordering *)

Definition cmpf (A : Type) := A -> A -> comparison.
Definition lex {A} (c1 c2 : cmpf A) : cmpf A := fun a b => match c1 a b with Eq => c2 a b | r => r end.
Definition on {A B} (f : A -> B) (c : cmpf B) : cmpf A := fun a b => c (f a) (f b).
Definition zflip : cmpf Z := fun a b => Z.compare b a.

(** cmpDiags, the comparator of the per-report diagnostic sort and of cmpDiagnostics:
    cmp.Or(Compare(b.FirstColumn, a.FirstColumn), Compare(a.LastColumn, b.LastColumn), Compare(a.Message, b.Message),
           slices.CompareFunc(a.Pos, b.Pos, ..)) *)
Definition dcmp : cmpf diag :=
  lex (on dg_first zflip) (lex (on dg_last Z.compare) (lex (on dg_msg String.compare) (on dg_extra N.compare))).
Definition diag_lt (a b : diag) : bool := match dcmp a b with Lt => true | _ => false end.

(** slices.SortStableFunc(diagnostics, cmpDiags).  [dcmp] is a total preorder, for which every stable sort
    returns the same list; the insertion sort (= Go's algorithm up to 20 elements) is used for all lengths. *)
Definition sort_diags (l : list diag) : list diag := isort diag_lt l.
(** the same call inside cmpDiagnostics (in place, on the slice the stored report shares): on the already sorted
    diagnostics of a normalised report it changes nothing, which the correspondence observes through the final
    diagnostic order of every report *)
Definition fsort (l : list diag) : list diag := isort diag_lt l.

(** first loop of SortReports *)
Definition norm (r : report) : report :=
  {| r_path := r_path r; r_target := r_target r; r_owner := r_owner r; r_rule := r_rule r; r_name := r_name r;
     r_reporter := r_reporter r; r_summary := r_summary r; r_details := r_details r;
     r_diags := sort_diags (r_diags r); r_lfirst := r_lfirst r; r_llast := r_llast r; r_sev := r_sev r;
     r_anchor_before := r_anchor_before r; r_rfirst := r_rfirst r; r_rlast := r_rlast r |}.

(** the first seven keys of the report comparator *)
Definition k7 : cmpf report :=
  lex (on r_path String.compare) (lex (on r_lfirst Z.compare) (lex (on r_llast Z.compare) (lex (on r_sev Z.compare)
  (lex (on r_reporter String.compare) (lex (on r_summary String.compare) (on r_details String.compare)))))).

(** slices.CompareFunc(sa, sb, cmpDiags): element-wise, the shorter list first when one is a prefix of the other *)
Fixpoint lcmp (sa sb : list diag) : comparison :=
  match sa, sb with
  | [], [] => Eq
  | [], _ :: _ => Lt
  | _ :: _, [] => Gt
  | x :: ra, y :: rb => match dcmp x y with Eq => lcmp ra rb | c => c end
  end.

(** cmpDiagnostics(sa, sb) (inlined in [report_lt] below): -1 when sa is empty (also when sb is empty too), 1 when only sb is
    empty, otherwise [lcmp] of the two slices after its two SortStableFunc(.., cmpDiags) calls (fix 346020d; before: only
    sa[0] and sb[0] were compared) *)

(** the four trailing keys (fix bc86063): Rule.Lines.First, Rule.Lines.Last, Owner, Path.SymlinkTarget *)
Definition tcmp : cmpf report :=
  lex (on r_rfirst Z.compare) (lex (on r_rlast Z.compare) (lex (on r_owner String.compare) (on r_target String.compare))).

(** cmp.Or(k1..k7, cmpDiagnostics, t1..t4) < 0.  cmp.Or returns its first non-zero argument and cmpDiagnostics answers
    -1 / 1 as soon as one of the slices is empty, so the trailing keys are only read when both reports have diagnostics. *)
Definition report_lt (a b : report) : bool :=
  match k7 a b with
  | Lt => true
  | Gt => false
  | Eq => match fsort (r_diags a), fsort (r_diags b) with
          | [], _ => true               (* len(sa)==0 -> -1, also when sb is empty *)
          | _ :: _, [] => false         (* 1 *)
          | sa, sb => match lcmp sa sb with
                      | Lt => true
                      | Gt => false
                      | Eq => match tcmp a b with Lt => true | _ => false end
                      end
          end
  end.

(** The sort key as data: seven fields + ALL diagnostics in cmpDiags order (columns, message, Pos) + for reports WITH
    diagnostics the rule's lines, the owner and the symlink target. *)
Definition dkey (d : diag) := (dg_first d, dg_last d, dg_msg d, dg_extra d).
Definition tkey (r : report) : option report := match fsort (r_diags r) with [] => None | _ => Some r end.
Definition sort_key (r : report) :=
  (r_path r, r_lfirst r, r_llast r, r_sev r, r_reporter r, r_summary r, r_details r, map dkey (fsort (r_diags r)),
   option_map (fun x => (r_rfirst x, r_rlast x, r_owner x, r_target x)) (tkey r)).

Definition ocmp {A} (c : cmpf A) : cmpf (option A) := fun a b =>
  match a, b with
  | None, None => Eq
  | None, Some _ => Lt
  | Some _, None => Gt
  | Some x, Some y => c x y
  end.
(** the genuine order the comparator implements when no two compared reports tie *)
Definition kcmp : cmpf report := lex k7 (lex (on (fun r => fsort (r_diags r)) lcmp) (on tkey (ocmp tcmp))).

(** Summary.SortReports *)
Definition sort_reports (l : list report) : list report := go_stable_sort report_lt (map norm l).

(* ---------------------------------------------------------------------------------------------- *)
(** * Dedup *)

Fixpoint upd {A} (l : list A) (i : nat) (v : A) : list A :=
  match l, i with
  | [], _ => []
  | _ :: r, O => v :: r
  | x :: r, S i' => x :: upd r i' v
  end.

Record dstate := { ds_dup : list bool; ds_dups : list (list nat) }.

Definition dedup_inner (rs : list report) (i : nat) (ri : report) (st : dstate) (j : nat) : dstate :=
  if Nat.eqb i j then st
  else if nth j (ds_dup st) false then st
  else if negb (Nat.eqb (List.length (nth j (ds_dups st) [])) 0) then st
  else if is_same_issue ri (nth j rs ri) then
    {| ds_dup := upd (ds_dup st) j true; ds_dups := upd (ds_dups st) i (nth i (ds_dups st) [] ++ [j])%list |}
  else st.

Definition dedup_outer (rs : list report) (st : dstate) (i : nat) : dstate :=
  if nth i (ds_dup st) false then st
  else match nth_error rs i with
       | None => st
       | Some ri => fold_left (dedup_inner rs i ri) (seq 0 (List.length rs)) st
       end.

(** an entry of Summary.Reports() after Dedup: the report, IsDuplicate, indices held in Duplicates *)
Definition entry := (report * bool * list nat)%type.

(** Summary.Dedup *)
Definition dedup (rs : list report) : list entry :=
  let n := List.length rs in
  let st := fold_left (dedup_outer rs) (seq 0 n) {| ds_dup := repeat false n; ds_dups := repeat [] n |} in
  combine (combine rs (ds_dup st)) (ds_dups st).

(** what lint/ci do between checkRules and the reporters *)
Definition process (stream : list report) : list entry := dedup (sort_reports (collect stream)).

(* ---------------------------------------------------------------------------------------------- *)
(** * Rendering and exit status *)

Definition expand (first last : Z) : list Z :=
  map (fun k => first + Z.of_nat k) (seq 0 (Z.to_nat (last - first + 1))).

Record json_report := { j_path : string; j_owner : string; j_reporter : string; j_problem : string;
                        j_details : string; j_severity : string; j_lines : list Z }.

(** JSONReporter.Submit: one object per entry, in order *)
Definition render_json (es : list entry) : list json_report :=
  map (fun e : entry => let '(r, _, _) := e in
         {| j_path := r_path r; j_owner := r_owner r; j_reporter := r_reporter r; j_problem := r_summary r;
            j_details := r_details r; j_severity := severity_string (r_sev r);
            j_lines := expand (r_lfirst r) (r_llast r) |}) es.

(** decimal printing (strconv.Itoa) *)
Definition digit_char (n : N) : ascii := ascii_of_N (48 + n).
Fixpoint digits_pos (fuel : nat) (n : N) (acc : string) : string :=
  match fuel with
  | O => acc
  | S f => let acc' := String (digit_char (N.modulo n 10)) acc in
           if (n <? 10)%N then acc' else digits_pos f (N.div n 10) acc'
  end.
Definition itoa (z : Z) : string :=
  match z with
  | Z0 => "0"%string
  | Zpos p => digits_pos (S (Pos.to_nat (Pos.size p))) (Npos p) ""
  | Zneg p => String "-"%char (digits_pos (S (Pos.to_nat (Pos.size p))) (Npos p) "")
  end.

Definition lines_string (first last : Z) : string :=
  if first =? last then itoa first else (itoa first ++ "-" ++ itoa last)%string.

(** ConsoleReporter.Submit with noColor: the two header lines of every printed report, in order.  The body
    (file lines / InjectDiagnostics) is a function of the entry and the file and is not modelled here. *)
Definition console_header (show_dups : bool) (e : entry) : string * string :=
  let '(r, _, dups) := e in
  ((severity_string (r_sev r) ++ ": " ++ r_summary r ++ " (" ++ r_reporter r ++ ")")%string,
   ("  ---> " ++ r_path r ++
    (if String.eqb (r_path r) (r_target r) then "" else " ~> " ++ r_target r) ++
    ":" ++ lines_string (r_lfirst r) (r_llast r) ++
    (if r_anchor_before r then " (deleted)" else "") ++
    (if String.eqb (r_name r) "" then "" else " -> `" ++ r_name r ++ "`") ++
    (if negb show_dups && negb (Nat.eqb (List.length dups) 0)
     then " [+" ++ itoa (Z.of_nat (List.length dups)) ++ " duplicates]" else ""))%string).

Definition console_visible (min_sev : Z) (show_dups : bool) (e : entry) : bool :=
  let '(r, isdup, _) := e in
  negb (r_sev r <? min_sev) && (show_dups || negb isdup).

Definition render_console (min_sev : Z) (show_dups : bool) (es : list entry) : list (string * string) :=
  map (console_header show_dups) (filter (console_visible min_sev show_dups) es).

(** the diagnostics the console prints for an entry, identified by [dg_extra], in print order *)
Definition entry_diag_order (e : entry) : list N := let '(r, _, _) := e in map dg_extra (r_diags r).

(** Summary.CountBySeverity feeds the exit decision (Model/Severity.v); SortReports/Dedup do not change the
    multiset of severities, lint calls it after them, ci before. *)
Definition exit_status_lint (failOn minSev : Z) (stream : list report) : bool :=
  exit_lint failOn minSev (map r_sev (collect stream)).
Definition exit_status_ci (failOn : Z) (stream : list report) : bool :=
  exit_ci failOn (map r_sev (collect stream)).

(* ---------------------------------------------------------------------------------------------- *)
(** * The monitored hypotheses, as executable checks *)

Definition diag_full_eqb (a b : diag) : bool := diag_eqb a b.

Fixpoint list_eqb {A} (eqb : A -> A -> bool) (l1 l2 : list A) : bool :=
  match l1, l2 with
  | [], [] => true
  | a :: r1, b :: r2 => eqb a b && list_eqb eqb r1 r2
  | _, _ => false
  end.

Definition report_eqb (a b : report) : bool :=
  String.eqb (r_path a) (r_path b) && String.eqb (r_target a) (r_target b) && String.eqb (r_owner a) (r_owner b) &&
  N.eqb (r_rule a) (r_rule b) && String.eqb (r_name a) (r_name b) && String.eqb (r_reporter a) (r_reporter b) &&
  String.eqb (r_summary a) (r_summary b) && String.eqb (r_details a) (r_details b) &&
  list_eqb diag_full_eqb (r_diags a) (r_diags b) && (r_lfirst a =? r_lfirst b) && (r_llast a =? r_llast b) &&
  (r_sev a =? r_sev b) && Bool.eqb (r_anchor_before a) (r_anchor_before b) &&
  (r_rfirst a =? r_rfirst b) && (r_rlast a =? r_rlast b).

Definition forall_pairs {A} (p : A -> A -> bool) (l : list A) : bool :=
  forallb (fun a => forallb (fun b => p a b) l) l.

(** H1: on the stream's elements isEqual is symmetric and implies equality of every rendered field *)
Definition h1b (s : list report) : bool :=
  forall_pairs (fun a b => if is_equal a b then is_equal b a && report_eqb (norm a) (norm b) else true) s.

(** H2: the sort key is injective on isEqual-classes *)
Definition h2b (s : list report) : bool :=
  forall_pairs (fun a b => match kcmp (norm a) (norm b) with Eq => is_equal a b | _ => true end) s.
