(** C13 — executable model of the element callback of streamSampleStream (internal/promapi/range.go): the JSON
    decoder fills ONE reused [model.SampleStream] variable for every element of "result"; the callback turns its
    metric into labels (MetricToLabels), folds its values into [dst] (AppendSampleToRanges under the labels' hash)
    and then RESETS the variable ([sample.Metric = model.Metric{}], a fresh values slice).  Definitions only. *)
From Coq Require Import List String ZArith NArith Bool.
From PintV Require Import Common.Bytes Common.GoTime Model.Range Model.RangeRef.
Import ListNotations.
Open Scope string_scope.

(** model.Metric as decoded: a Go map from label name to value (association list; first binding wins) *)
Definition metric := list (string * string).

Definition has_key (k : string) (m : metric) : bool := existsb (fun kv => String.eqb k (fst kv)) m.

(** json.Unmarshal of a JSON object into an EXISTING Go map: the keys of the object are set, every other entry of
    the map stays.  (Unmarshalling a JSON array into an existing slice, by contrast, first resets its length to 0.) *)
Definition unmarshal_into (cur obj : metric) : metric :=
  (obj ++ filter (fun kv => negb (has_key (fst kv) obj)) cur)%list.

Section Stream.
  (** Fingerprint of a decoded metric: labels.Hash(MetricToLabels(m)).  A Section variable: nothing is assumed
      about it here; the theorems say which series a fingerprint must identify. *)
  Variable hash : metric -> N.
  Variable step : Z.

  (** the elements of "result" in response order: (metric object, ascending sample timestamps) *)
  Definition elem := (metric * list Z)%type.

  (** [cur] = the Metric field of the reused variable when the decoder starts on the next element *)
  Fixpoint stream_elems (cur : metric) (elems : list elem) (dst : list range) : list range :=
    match elems with
    | [] => dst
    | (obj, vals) :: r =>
        let m := unmarshal_into cur obj in                    (* decoder writes into the reused variable *)
        let dst' := append_samples dst (hash m) vals step in  (* lset := MetricToLabels(sample.Metric); Append... *)
        stream_elems [] r dst'                                (* sample.Metric = model.Metric{} *)
    end.

  (** rangeQuery.Run: streamSampleStream, then ExpandRangesEnd *)
  Definition stream_response (elems : list elem) : list range := expand_end (stream_elems [] elems []) step.
End Stream.
