(** The yaml.v3 node forest as pint reads it (DESIGN Appendix E, restricted to what the parser stack needs).

    One [node] = one [yaml.Node] as returned by [yaml.v3]'s decoder:
    kind, ShortTag() (computed by the harness on the real node), Value, Line, Column, Content, the alias
    target (inlined: yaml.v3 refuses cyclic anchors so the unfolding is finite) and, for scalars whose value
    has more than one line break, what [yaml.Unmarshal(value)] returned (used by the relaxed parser's
    "YAML inside YAML" descent).  Comments are NOT part of this model (owned by the Comments model).

    [n_ann] is a harness annotation, not a yaml.Node field: a bitmask with the answers of the external
    library oracles on [n_value] (see Run/ParserRun.v); no model function looks at it. *)
From Coq Require Import List String Ascii NArith Arith Bool Lia.
From PintV Require Import Common.Bytes.
Import ListNotations.
Open Scope string_scope.

Inductive kind := KDocument | KSequence | KMapping | KScalar | KAlias | KZero.

Definition kind_eqb (a b : kind) : bool :=
  match a, b with
  | KDocument, KDocument | KSequence, KSequence | KMapping, KMapping
  | KScalar, KScalar | KAlias, KAlias | KZero, KZero => true
  | _, _ => false
  end.

Lemma kind_eqb_eq a b : kind_eqb a b = true <-> a = b.
Proof. destruct a, b; simpl; split; congruence. Qed.

Inductive node := Node {
  n_kind : kind;
  n_tag : string;              (* ShortTag() *)
  n_value : string;
  n_line : nat;
  n_col : nat;
  n_ann : N;                   (* oracle annotation of n_value (harness); ignored by the models *)
  n_content : list node;
  n_alias : option node;       (* target of an alias node, inlined *)
  n_embedded : option node     (* yaml.Unmarshal(n_value) when it succeeded (only computed when the value has >1 "\n") *)
}.

(** Short constructors used by the case files. *)
Definition Sc (tag value : string) (l c : nat) (a : N) : node := Node KScalar tag value l c a [] None None.
Definition ScE (tag value : string) (l c : nat) (a : N) (e : node) : node := Node KScalar tag value l c a [] None (Some e).
Definition Mp (tag : string) (l c : nat) (a : N) (content : list node) : node := Node KMapping tag "" l c a content None None.
Definition Sq (tag : string) (l c : nat) (a : N) (content : list node) : node := Node KSequence tag "" l c a content None None.
Definition Dc (l c : nat) (a : N) (content : list node) : node := Node KDocument "" "" l c a content None None.
Definition Al (tag : string) (l c : nat) (a : N) (target : node) : node := Node KAlias tag "" l c a [] (Some target) None.
Definition Zr (a : N) : node := Node KZero "!!null" "" 0 0 a [] None None.

(** yaml tags (strict.go constants). *)
Definition nullTag := "!!null".
Definition strTag := "!!str".
Definition intTag := "!!int".
Definition seqTag := "!!seq".
Definition mapTag := "!!map".
Definition binaryTag := "!!binary".
Definition mergeTag := "!!merge".

(** models.go: nodeValue *)
Definition node_value (n : node) : string :=
  match n_alias n with
  | Some t => n_value t
  | None => n_value n
  end.

(** parser.go: isTag *)
Definition is_tag (tag expected : string) : bool :=
  if String.eqb tag nullTag then true else String.eqb tag expected.

(** Size (for fuel): counts every node reachable through content, alias target and embedded document. *)
Fixpoint node_size (n : node) : nat :=
  S ((fix sz (l : list node) : nat := match l with [] => 0 | x :: r => node_size x + sz r end) (n_content n)
     + match n_alias n with Some t => node_size t | None => 0 end
     + match n_embedded n with Some t => node_size t | None => 0 end).

Fixpoint nodes_size (l : list node) : nat :=
  match l with [] => 0 | x :: r => node_size x + nodes_size r end.

Lemma node_size_eq n :
  node_size n = S (nodes_size (n_content n)
                   + match n_alias n with Some t => node_size t | None => 0 end
                   + match n_embedded n with Some t => node_size t | None => 0 end).
Proof.
  destruct n as [k t v l c a content al em]. cbn [node_size n_content n_alias n_embedded].
  assert (H : (fix sz (l0 : list node) : nat := match l0 with [] => 0 | x :: r => node_size x + sz r end) content
               = nodes_size content).
  { induction content as [|x r IH]; cbn [nodes_size]; [reflexivity|]. now rewrite IH. }
  rewrite H. reflexivity.
Qed.

(** parser.go: nodeKeys / hasKey *)
Fixpoint even_values (l : list node) : list string :=
  match l with
  | [] => []
  | k :: r => (if String.eqb (n_value k) "" then [] else [n_value k]) ++
              match r with [] => [] | _ :: r' => even_values r' end
  end.

Definition node_keys (n : node) : list string :=
  match n_kind n with
  | KMapping => even_values (n_content n)
  | _ => []
  end.

Definition has_key (n : node) (key : string) : bool := mem_str key (node_keys n).

(** parser.go: resolveMapAlias(part, parent): a copy of the alias node [part] whose Content is the alias
    target's content without the key/value pairs whose key is already present in [parent]. *)
Fixpoint filter_pairs (parent : node) (l : list node) : list node :=
  match l with
  | [] => []
  | k :: r =>
      let ok := negb (has_key parent (n_value k)) in
      match r with
      | [] => if ok then [k] else []
      | v :: r' => (if ok then [k; v] else []) ++ filter_pairs parent r'
      end
  end.

Definition set_content (n : node) (c : list node) : node :=
  Node (n_kind n) (n_tag n) (n_value n) (n_line n) (n_col n) (n_ann n) c (n_alias n) (n_embedded n).

Definition resolve_map_alias (part parent : node) : node :=
  match n_alias part with
  | Some t => set_content part (filter_pairs parent (n_content t))
  | None => part   (* unreachable: only called when part.Alias != nil *)
  end.

(** parser.go: unpackNodes *)
Fixpoint unpack_loop (self : node) (l : list node) (is_merge : bool) : list node :=
  match l with
  | [] => []
  | part :: r =>
      let is_merge := if (String.eqb (n_tag part) mergeTag && String.eqb (n_value part) "<<")%bool then true else is_merge in
      match n_alias part with
      | Some _ =>
          (if is_merge then n_content (resolve_map_alias part self) else [resolve_map_alias part part])
            ++ unpack_loop self r false
      | None =>
          if is_merge then unpack_loop self r is_merge
          else part :: unpack_loop self r is_merge
      end
  end.

Definition unpack_nodes (n : node) : list node := unpack_loop n (n_content n) false.

(** parser.go: mappingNodes *)
Fixpoint mapping_nodes_l (l : list node) : list (node * node) :=
  match l with
  | k :: v :: r => (k, v) :: mapping_nodes_l r
  | _ => []
  end.

Definition mapping_nodes (n : node) : list (node * node) := mapping_nodes_l (n_content n).

(** Height (fuel bound for the relaxed descent): longest chain through content, alias target, embedded document. *)
Fixpoint node_height (n : node) : nat :=
  S (Nat.max ((fix hs (l : list node) : nat := match l with [] => 0 | x :: r => Nat.max (node_height x) (hs r) end) (n_content n))
       (Nat.max (match n_alias n with Some t => node_height t | None => 0 end)
                (match n_embedded n with Some t => node_height t | None => 0 end))).

Fixpoint nodes_height (l : list node) : nat :=
  match l with [] => 0 | x :: r => Nat.max (node_height x) (nodes_height r) end.

Lemma node_height_eq n :
  node_height n = S (Nat.max (nodes_height (n_content n))
                       (Nat.max (match n_alias n with Some t => node_height t | None => 0 end)
                                (match n_embedded n with Some t => node_height t | None => 0 end))).
Proof.
  destruct n as [k t v l c a content al em]. cbn [node_height n_content n_alias n_embedded].
  assert (H : (fix hs (l0 : list node) : nat := match l0 with [] => 0 | x :: r => Nat.max (node_height x) (hs r) end) content
               = nodes_height content).
  { induction content as [|x r IH]; cbn [nodes_height]; [reflexivity|]. now rewrite IH. }
  rewrite H. reflexivity.
Qed.
