(** PromQL abstract syntax of the fragment analysed by pint's label-flow analyser
    (internal/parser/utils/source.go).  The term is what the REAL Prometheus parser returned
    (serialised by harness/shared_promql); nothing here parses text. *)
From Coq Require Import List String Bool Floats NArith.
From PintV Require Import Common.Bytes.
Import ListNotations.
Open Scope string_scope.

(** labels.MatchType *)
Inductive matchtype := MEq | MNe | MRe | MNre.

Record matcher := { m_type : matchtype; m_name : string; m_value : string }.

Definition matchtype_eqb (a b : matchtype) : bool :=
  match a, b with MEq, MEq | MNe, MNe | MRe, MRe | MNre, MNre => true | _, _ => false end.

(** parser.ValueType (a Go string; [VUnset] is the zero value ""). *)
Inductive vtype := VUnset | VNone | VScalar | VVector | VMatrix | VString.

Definition vtype_eqb (a b : vtype) : bool :=
  match a, b with
  | VUnset, VUnset | VNone, VNone | VScalar, VScalar | VVector, VVector | VMatrix, VMatrix | VString, VString => true
  | _, _ => false end.

(** Aggregation operators (parser.ItemType of AggregateExpr.Op) *)
Inductive aggop := ASum | AMin | AMax | AAvg | AGroup | AStddev | AStdvar | ACount | ACountValues
                 | AQuantile | ATopk | ABottomk | AOther (* limitk, limit_ratio: experimental *).

(** Binary operators *)
Inductive binop := OAdd | OSub | OMul | ODiv | OMod | OPow | OAtan2
                 | OEql | ONeq | OLte | OLss | OGte | OGtr
                 | OAnd | OOr | OUnless.

Definition is_comparison (op : binop) : bool :=
  match op with OEql | ONeq | OLte | OLss | OGte | OGtr => true | _ => false end.

Definition is_setop (op : binop) : bool :=
  match op with OAnd | OOr | OUnless => true | _ => false end.

Definition binop_eqb (a b : binop) : bool :=
  match a, b with
  | OAdd, OAdd | OSub, OSub | OMul, OMul | ODiv, ODiv | OMod, OMod | OPow, OPow | OAtan2, OAtan2
  | OEql, OEql | ONeq, ONeq | OLte, OLte | OLss, OLss | OGte, OGte | OGtr, OGtr
  | OAnd, OAnd | OOr, OOr | OUnless, OUnless => true
  | _, _ => false end.

(** parser.VectorMatchCardinality *)
Inductive card := OneToOne | ManyToOne | OneToMany | ManyToMany.

Definition card_string (c : card) : string :=
  match c with OneToOne => "one-to-one" | ManyToOne => "many-to-one" | OneToMany => "one-to-many"
             | ManyToMany => "many-to-many" end.

(** parser.VectorMatching *)
Record vmatch := { vm_card : card; vm_on : bool; vm_labels : list string; vm_include : list string }.

(** Expressions.  [ECall] carries the callee's declared argument types (parser.Function.ArgTypes),
    which the analyser consults; they are part of the parser's output. *)
Inductive expr :=
| ENum (v : float)
| EStr (s : string)
| ESel (ms : list matcher)                    (* VectorSelector.LabelMatchers, incl. the __name__ matcher *)
| EMatrix (e : expr)                          (* MatrixSelector{VectorSelector: e} *)
| ESubq (e : expr)                            (* SubqueryExpr *)
| EParen (e : expr)
| EUnary (neg : bool) (e : expr)              (* UnaryExpr: neg = (Op == SUB) *)
| EAgg (op : aggop) (without : bool) (grouping : list string) (param : option expr) (e : expr)
| ECall (fname : string) (argtypes : list vtype) (args : list expr)
| EBin (op : binop) (retbool : bool) (vm : option vmatch) (l r : expr).

(** Induction principle with [Forall] over call arguments and the optional aggregation parameter. *)
Section ExprInd.
  Variable P : expr -> Prop.
  Hypothesis HNum : forall v, P (ENum v).
  Hypothesis HStr : forall s, P (EStr s).
  Hypothesis HSel : forall ms, P (ESel ms).
  Hypothesis HMatrix : forall e, P e -> P (EMatrix e).
  Hypothesis HSubq : forall e, P e -> P (ESubq e).
  Hypothesis HParen : forall e, P e -> P (EParen e).
  Hypothesis HUnary : forall b e, P e -> P (EUnary b e).
  Hypothesis HAgg : forall op w g p e, (forall pe, p = Some pe -> P pe) -> P e -> P (EAgg op w g p e).
  Hypothesis HCall : forall f ats args, Forall P args -> P (ECall f ats args).
  Hypothesis HBin : forall op b vm l r, P l -> P r -> P (EBin op b vm l r).

  Fixpoint expr_ind' (e : expr) : P e :=
    match e with
    | ENum v => HNum v
    | EStr s => HStr s
    | ESel ms => HSel ms
    | EMatrix e => HMatrix e (expr_ind' e)
    | ESubq e => HSubq e (expr_ind' e)
    | EParen e => HParen e (expr_ind' e)
    | EUnary b e => HUnary b e (expr_ind' e)
    | EAgg op w g p e =>
        HAgg op w g p e
          (match p return (forall pe, p = Some pe -> P pe) with
           | Some pe => fun pe' H => match H in (_ = y) return (match y with Some z => P z | None => True end) with
                                     | eq_refl => expr_ind' pe end
           | None => fun pe' H => match H in (_ = y) return (match y with Some z => P z | None => True end) with
                                  | eq_refl => I end
           end)
          (expr_ind' e)
    | ECall f ats args =>
        HCall f ats args ((fix go (l : list expr) : Forall P l :=
                             match l with [] => Forall_nil P | a :: r => Forall_cons a (expr_ind' a) (go r) end) args)
    | EBin op b vm l r => HBin op b vm l r (expr_ind' l) (expr_ind' r)
    end.
End ExprInd.

Definition metric_name := "__name__".

(** stringLiteralValue (source.go, fix 53ade46) / the engine's unwrapParenExpr: the value of a string literal, looking through
    any parentheses around it; [None] for anything else *)
Fixpoint lit_val (e : expr) : option string :=
  match e with
  | EParen e' => lit_val e'
  | EStr s => Some s
  | _ => None
  end.

Definition lit_of (e : option expr) : option string :=
  match e with Some a => lit_val a | None => None end.
