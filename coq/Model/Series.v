(** C16 — executable model of the decision tree of SeriesCheck.Check (internal/checks/promql_series.go)
    per checked selector, as a function of a *database* (label sets with visibility intervals), the rule
    set, the comments and the check settings.

    Modelled exactly: duplicate suppression by selector text, disable/snooze (input flags), the ALERTS /
    ALERTS_FOR_STATE special case, step 1 (instant count(selector)), the empty bare selector skip, step 2
    (range count(bare selector) over the lookback window -> no ranges), the recording-rule lookup,
    checkOtherServer (incl. ignoreMatchingElsewhere) and textAndSeverity (ignoreMetrics).  Steps 3-8 are an
    opaque continuation ([Steps3to8]).  The probe queries are evaluated on the database by the selector
    semantics below; the range probe goes through the sliced pipeline of C13 (Model/RangeRef.v [sliced]). *)
From Coq Require Import List String ZArith NArith Bool Lia.
From PintV Require Import Common.Bytes Common.GoTime Model.Range Model.RangeRef.
Import ListNotations.
Open Scope string_scope.
Open Scope Z_scope.

Inductive mtype := MEq | MNe | MRe | MNre.
Record matcher := mkM { m_type : mtype; m_name : string; m_value : string }.

Inductive sev := Information | Warning | Bug | Fatal.
Definition sev_eqb (a b : sev) : bool :=
  match a, b with
  | Information, Information | Warning, Warning | Bug, Bug | Fatal, Fatal => true
  | _, _ => false
  end.

(** one checked vector selector (an element of getNonFallbackSelectors) *)
Record vsel := mkSel {
  vs_str : string;              (* selector.String(): the key of the [done] map *)
  vs_bare_str : string;         (* stripLabels(selector).String() *)
  vs_name : string;             (* VectorSelector.Name *)
  vs_matchers : list matcher;   (* VectorSelector.LabelMatchers (the parser adds __name__="Name") *)
  vs_disabled : bool;           (* isDisabled(rule, selector): a "# pint disable promql/series(...)" comment applies *)
  vs_snoozed : bool             (* isSnoozed(rule, selector) *)
}.

Definition labelset := list (string * string).
(** a stored series: its labels (incl. __name__) and the closed intervals (ns) during which an instant
    selector sees it (sample times widened by the engine's lookback delta) *)
Record tseries := mkTS { ts_labels : labelset; ts_visible : list tr }.
Definition db := list tseries.

(** a rule of the checked set, as far as the check looks at it *)
Record rinfo := mkRI { ri_recording : bool; ri_name : string; ri_error : bool }.

Record settings := mkSet {
  set_lookback : Z;                       (* lookbackRange *)
  set_step : Z;                           (* lookbackStep *)
  set_ignored : list string;              (* bare selector texts matching an ignoreMetrics regexp (table from the harness) *)
  set_ignore_elsewhere : list (list matcher)   (* ignoreMatchingElsewhere, parsed *)
}.

Definition metric_name_label := "__name__".
Definition summary_nonexistent := "query on nonexistent series".
Definition summary_unknown_alert := "unknown alert referenced".

Inductive outcome :=
| Decided (ps : list (string * sev))     (* the problems (summary, severity) emitted for this selector *)
| Steps3to8                              (* metric present in the lookback window but not now: opaque continuation *)
| OutOfFuel.

Section Sem.
  (** Prometheus label matcher regexps: fully anchored match of value against pattern.  No property of it is
      assumed; case files supply a finite table. *)
  Variable re_match : string -> string -> bool.

  Definition label_value (ls : labelset) (n : string) : string :=
    match assoc n ls with Some v => v | None => "" end.

  Definition matches (m : matcher) (ls : labelset) : bool :=
    let v := label_value ls (m_name m) in
    match m_type m with
    | MEq => String.eqb v (m_value m)
    | MNe => negb (String.eqb v (m_value m))
    | MRe => re_match (m_value m) v
    | MNre => negb (re_match (m_value m) v)
    end.

  Definition sel_matches (ms : list matcher) (ls : labelset) : bool := forallb (fun m => matches m ls) ms.

  (** the instant vector the engine returns for the selector at [t] *)
  Definition instant_match (d : db) (t : Z) (ms : list matcher) : list labelset :=
    map ts_labels (filter (fun s => sel_matches ms (ts_labels s) && pres_of (ts_visible s) t) d).

  (** stripLabels: only the __name__ matchers survive *)
  Definition bare_matchers (ms : list matcher) : list matcher :=
    filter (fun m => String.eqb (m_name m) metric_name_label) ms.

  (** count(sel) has a value at t iff some series matches *)
  Definition sel_presence (d : db) (ms : list matcher) : presence :=
    fun t => match instant_match d t ms with [] => false | _ => true end.

  (** metricName of Check: Name, else the first __name__= matcher *)
  Definition metric_name (s : vsel) : string :=
    if String.eqb (vs_name s) "" then
      match find (fun m => String.eqb (m_name m) metric_name_label && match m_type m with MEq => true | _ => false end)
                 (vs_matchers s) with
      | Some m => m_value m
      | None => ""
      end
    else vs_name s.

  Definition is_alerts (s : vsel) : bool :=
    String.eqb (metric_name s) "ALERTS" || String.eqb (metric_name s) "ALERTS_FOR_STATE".

  (** the loop keeps the LAST alertname matcher that is not a regexp matcher (= and != alike) *)
  Definition alertname_of (s : vsel) : string :=
    fold_left (fun acc m => if String.eqb (m_name m) "alertname" &&
                               match m_type m with MRe | MNre => false | _ => true end
                            then m_value m else acc) (vs_matchers s) "".

  Definition has_alerting (rules : list rinfo) (n : string) : bool :=
    existsb (fun r => negb (ri_recording r) && negb (ri_error r) && String.eqb (ri_name r) n) rules.

  Definition has_recording (rules : list rinfo) (n : string) : bool :=
    existsb (fun r => ri_recording r && negb (ri_error r) && String.eqb (ri_name r) n) rules.

  (** the count(...) range probe: one unlabelled series, through RangeQuery's slicing and merging (C13) *)
  Definition count_fp : N := 0%N.

  Definition range_probe (d : db) (now : Z) (st : settings) (ms : list matcher) : option (list range) :=
    let start := now - set_lookback st in
    match query_slices (slice_fuel start now (slice_size (set_step st))) start now (set_lookback st) (set_step st) with
    | None => None
    | Some sl =>
        let l := flat_map (per_slice (set_step st) [(count_fp, sel_presence d ms)]) sl in
        finalize (merge_fuel l) (set_step st) l
    end.

  (** hasSeriesWithSelector: ANY matcher that matches the value of a label of the same name *)
  Definition series_hit (ms : list matcher) (ls : labelset) : bool :=
    existsb (fun m => existsb (fun kv => String.eqb (m_name m) (fst kv) && matches m [kv]) ls) ms.

  (** checkOtherServer: shouldReport = false iff another server returns the selector now and one of its
      series is hit by an ignoreMatchingElsewhere selector *)
  Definition should_report (others : list db) (now : Z) (st : settings) (s : vsel) : bool :=
    negb (existsb (fun od =>
            let res := instant_match od now (vs_matchers s) in
            match res with
            | [] => false
            | _ => existsb (fun ms => existsb (series_hit ms) res) (set_ignore_elsewhere st)
            end) others).

  Definition check_selector (d : db) (others : list db) (now : Z) (st : settings) (rules : list rinfo) (s : vsel) : outcome :=
    if vs_disabled s || vs_snoozed s then Decided []
    else if is_alerts s then
      let an := alertname_of s in
      if String.eqb an "" then Decided []
      else if has_alerting rules an then Decided []
      else Decided [(summary_unknown_alert, Bug)]
    else
      match instant_match d now (vs_matchers s) with
      | _ :: _ => Decided []                                           (* 1. present now *)
      | [] =>
          if String.eqb (vs_bare_str s) "" then Decided []
          else
            match range_probe d now st (bare_matchers (vs_matchers s)) with
            | None => OutOfFuel
            | Some (_ :: _) => Steps3to8
            | Some [] =>                                               (* 2. never there *)
                if has_recording rules (vs_bare_str s) then Decided [(summary_nonexistent, Information)]
                else if should_report others now st s then
                  Decided [(summary_nonexistent, if mem_str (vs_bare_str s) (set_ignored st) then Warning else Bug)]
                else Decided []
            end
      end.

  (** the loop over selectors with its [done] map *)
  Fixpoint check_all (d : db) (others : list db) (now : Z) (st : settings) (rules : list rinfo)
           (sels : list vsel) (done : list string) : list (string * outcome) :=
    match sels with
    | [] => []
    | s :: r =>
        if mem_str (vs_str s) done then check_all d others now st rules r done
        else (vs_str s, check_selector d others now st rules s)
               :: check_all d others now st rules r (vs_str s :: done)
    end.

  Definition check (d : db) (others : list db) (now : Z) (st : settings) (rules : list rinfo) (sels : list vsel) :=
    check_all d others now st rules sels [].
End Sem.
