(** C16 — executable model of the decision tree of SeriesCheck.Check (internal/checks/promql_series.go)
    per checked selector, as a function of a *database* (label sets with visibility intervals), the rule
    set, the comments and the check settings.

    Modelled: duplicate suppression by selector text, disable/snooze (input flags), the ALERTS /
    ALERTS_FOR_STATE special case, step 1 (instant count(selector)), the uptime probe and its dummy fallback,
    the empty bare selector skip, step 2 (range count(bare selector) over the lookback window -> no ranges),
    the recording-rule lookup, checkOtherServer (incl. ignoreMatchingElsewhere), textAndSeverity
    (ignoreMetrics), step 3 (absent(bare{label=~".+"}) per positive label name), the accumulated
    [len(problems) > 0] tests, step 4 (metric disappeared, min-age), steps 5-7 per positive matcher (value never
    there / disappeared / sometimes there) and step 8 (metric sometimes there), FindGaps against the uptime
    ranges.  One sub-case stays undetermined ([Undetermined]): step 6 when both the matcher's gaps and the base
    metric's gaps are non-empty (the gap-vs-gap Overlaps test compares instants taken from two different
    time.Now() readings a few microseconds apart, which a model with one clock cannot reproduce).
    What pint ASKS for is part of the model: [instant_request] (no time parameter) and [range_requests]
    (start/end/step of every slice).  The probes are evaluated on the database by the selector semantics
    below; every range probe goes through the sliced pipeline of C13 (Model/RangeRef.v [sliced]). *)
From Coq Require Import List String ZArith NArith Bool Lia.
From PintV Require Import Common.Bytes Common.GoTime Model.Range Model.RangeRef.
Import ListNotations.
Open Scope string_scope.
Open Scope Z_scope.

Inductive mtype := MEq | MNe | MRe | MNre.
Record matcher := mkM { m_type : mtype; m_name : string; m_value : string }.

Inductive sev := Information | Warning | Bug | Fatal.
Definition sev_eqb (a b : sev) : bool :=
  match a, b with
  | Information, Information | Warning, Warning | Bug, Bug | Fatal, Fatal => true
  | _, _ => false
  end.

(** one checked vector selector (an element of getNonFallbackSelectors) *)
Record vsel := mkSel {
  vs_str : string;              (* selector.String(): the key of the [done] map *)
  vs_bare_str : string;         (* stripLabels(selector).String() *)
  vs_name : string;             (* VectorSelector.Name *)
  vs_matchers : list matcher;   (* VectorSelector.LabelMatchers (the parser adds __name__="Name") *)
  vs_disabled : bool;           (* isDisabled(rule, selector): a "# pint disable promql/series(...)" comment applies *)
  vs_snoozed : bool;            (* isSnoozed(rule, selector) *)
  vs_min_age : Z;               (* getMinAge(rule, selector): 2h unless a "rule/set ... min-age" comment applies *)
  vs_ignored_labels : list string   (* label names with isLabelValueIgnored(settings, rule, selector, name) *)
}.

Definition labelset := list (string * string).
(** a stored series: its labels (incl. __name__) and the closed intervals (ns) during which an instant
    selector sees it (sample times widened by the engine's lookback delta) *)
Record tseries := mkTS { ts_labels : labelset; ts_visible : list tr }.
Definition db := list tseries.

(** a rule of the checked set, as far as the check looks at it *)
Record rinfo := mkRI { ri_recording : bool; ri_name : string; ri_error : bool }.

Record settings := mkSet {
  set_lookback : Z;                       (* lookbackRange *)
  set_step : Z;                           (* lookbackStep *)
  set_ignored : list string;              (* bare selector texts matching an ignoreMetrics regexp (table from the harness) *)
  set_ignore_elsewhere : list (list matcher);  (* ignoreMatchingElsewhere, parsed *)
  set_uptime : string                     (* FailoverGroup.UptimeMetric() *)
}.

Definition metric_name_label := "__name__".
Definition summary_nonexistent := "query on nonexistent series".
Definition summary_unknown_alert := "unknown alert referenced".

Inductive outcome :=
| Decided (ps : list (string * sev))     (* the problems (summary, severity) emitted for this selector, in emission order *)
| Undetermined                           (* depends on sub-millisecond differences between clock readings (step 6,
                                            both gap lists non-empty) or on an earlier undetermined selector *)
| OutOfFuel.

Definition prob_eqb (a b : string * sev) : bool := String.eqb (fst a) (fst b) && sev_eqb (snd a) (snd b).

Fixpoint probs_eqb (a b : list (string * sev)) : bool :=
  match a, b with
  | [], [] => true
  | x :: r, y :: s => prob_eqb x y && probs_eqb r s
  | _, _ => false
  end.

Definition outcome_eqb (a b : outcome) : bool :=
  match a, b with
  | Decided x, Decided y => probs_eqb x y
  | Undetermined, Undetermined | OutOfFuel, OutOfFuel => true
  | _, _ => false
  end.

Section Sem.
  (** Prometheus label matcher regexps: fully anchored match of value against pattern.  No property of it is
      assumed; case files supply a finite table. *)
  Variable re_match : string -> string -> bool.

  Definition label_value (ls : labelset) (n : string) : string :=
    match assoc n ls with Some v => v | None => "" end.

  Definition matches (m : matcher) (ls : labelset) : bool :=
    let v := label_value ls (m_name m) in
    match m_type m with
    | MEq => String.eqb v (m_value m)
    | MNe => negb (String.eqb v (m_value m))
    | MRe => re_match (m_value m) v
    | MNre => negb (re_match (m_value m) v)
    end.

  Definition sel_matches (ms : list matcher) (ls : labelset) : bool := forallb (fun m => matches m ls) ms.

  (** the instant vector the engine returns for the selector at [t] *)
  Definition instant_match (d : db) (t : Z) (ms : list matcher) : list labelset :=
    map ts_labels (filter (fun s => sel_matches ms (ts_labels s) && pres_of (ts_visible s) t) d).

  (** stripLabels: only the __name__ matchers survive *)
  Definition bare_matchers (ms : list matcher) : list matcher :=
    filter (fun m => String.eqb (m_name m) metric_name_label) ms.

  (** count(sel) has a value at t iff some series matches *)
  Definition sel_presence (d : db) (ms : list matcher) : presence :=
    fun t => match instant_match d t ms with [] => false | _ => true end.

  (** metricName of Check: Name, else the first __name__= matcher *)
  Definition metric_name (s : vsel) : string :=
    if String.eqb (vs_name s) "" then
      match find (fun m => String.eqb (m_name m) metric_name_label && match m_type m with MEq => true | _ => false end)
                 (vs_matchers s) with
      | Some m => m_value m
      | None => ""
      end
    else vs_name s.

  Definition is_alerts (s : vsel) : bool :=
    String.eqb (metric_name s) "ALERTS" || String.eqb (metric_name s) "ALERTS_FOR_STATE".

  (** the loop keeps the LAST alertname matcher that is not a regexp matcher (= and != alike) *)
  Definition alertname_of (s : vsel) : string :=
    fold_left (fun acc m => if String.eqb (m_name m) "alertname" &&
                               match m_type m with MRe | MNre => false | _ => true end
                            then m_value m else acc) (vs_matchers s) "".

  Definition has_alerting (rules : list rinfo) (n : string) : bool :=
    existsb (fun r => negb (ri_recording r) && negb (ri_error r) && String.eqb (ri_name r) n) rules.

  Definition has_recording (rules : list rinfo) (n : string) : bool :=
    existsb (fun r => ri_recording r && negb (ri_error r) && String.eqb (ri_name r) n) rules.

  (** * What pint asks the server for (the request parameters that select the evaluation instants)

      instantQuery.Run sends [query], [timeout], [stats] and NO [time] parameter, so a Prometheus-compatible
      server evaluates the probe at its own clock when the request arrives.  rangeQuery.Run sends
      [start]/[end]/[step] of every slice that RangeQuery computes from RelativeRange
      (Start() = time.Now() - lookbackRange, End() = time.Now(), Step() = lookbackStep), printed by formatTime as
      float seconds, which the server keeps with millisecond precision (the harness keeps the instants on
      whole milliseconds, see Run/C16.v). *)
  Record ireq := mkIReq { iq_time : option Z }.
  Definition instant_request : ireq := mkIReq None.
  Definition eval_time (server_now : Z) (r : ireq) : Z :=
    match iq_time r with Some t => t | None => server_now end.

  Record rreq := mkRReq { rq_start : Z; rq_end : Z; rq_step : Z }.
  Definition range_requests_for (start end_ lookback step : Z) : option (list rreq) :=
    match query_slices (slice_fuel start end_ (slice_size step)) start end_ lookback step with
    | None => None
    | Some sl => Some (map (fun s => mkRReq (fst s) (snd s) step) sl)
    end.
  Definition range_requests (now : Z) (st : settings) : option (list rreq) :=
    range_requests_for (now - set_lookback st) now (set_lookback st) (set_step st).

  (** the instant vector pint's instant probe for a selector gets back *)
  Definition instant_probe (d : db) (now : Z) (ms : list matcher) : list labelset :=
    instant_match d (eval_time now instant_request) ms.

  (** the count(...) range probe: one unlabelled series per request, evaluated by the server on the grid
      start, start+step, ... <= end of that request, folded by streamSampleStream/ExpandRangesEnd, then merged
      across the slices by RangeQuery (C13) *)
  Definition count_fp : N := 0%N.

  Definition serve_range (pres : presence) (r : rreq) : list range :=
    per_slice (rq_step r) [(count_fp, pres)] (rq_start r, rq_end r).

  Definition range_probe_pres (now : Z) (st : settings) (pres : presence) : option (list range) :=
    match range_requests now st with
    | None => None
    | Some rs =>
        let l := flat_map (serve_range pres) rs in
        finalize (merge_fuel l) (set_step st) l
    end.

  Definition range_probe (d : db) (now : Z) (st : settings) (ms : list matcher) : option (list range) :=
    range_probe_pres now st (sel_presence d ms).

  (** absent(sel) has a value at t iff no series matches *)
  Definition absent_presence (d : db) (ms : list matcher) : presence := fun t => negb (sel_presence d ms t).

  (** the uptime baseline: count(<uptime metric>) over the window; no result => one dummy range [Start(), End()].
      The dummy is built from clock readings taken BEFORE those of the later probes and time.Now() is strictly
      increasing, so its end lies strictly before the [Until] of every later probe (whose last FindGaps point,
      From + lookback, it therefore never covers) and its start strictly before their [From]: one nanosecond
      stands for that strict order in this one-clock model. *)
  Definition uptime_ranges (d : db) (now : Z) (st : settings) : option (list range) :=
    match range_probe d now st [mkM MEq metric_name_label (set_uptime st)] with
    | None => None
    | Some [] => Some [mkR count_fp (now - set_lookback st - 1) (now - 1)]
    | Some l => Some l
    end.

  (** SeriesTimeRanges.FindGaps(uptime, From, Until) on a fresh result: From/Until are the window of the query *)
  Definition gaps_fuel (step from until : Z) : nat := Z.to_nat ((until - from) / step + 3).

  Definition gaps_of (now : Z) (st : settings) (ranges up : list range) : option (list tr) :=
    let from := now - set_lookback st in
    find_gaps (gaps_fuel (set_step st) from now) ranges up [] (set_step st) from now.

  (** a range probe together with its gaps *)
  Definition probe_with_gaps (now : Z) (st : settings) (pres : presence) (up : list range)
    : option (list range * list tr) :=
    match range_probe_pres now st pres with
    | None => None
    | Some rs => match gaps_of now st rs up with
                 | None => None
                 | Some g => Some (rs, g)
                 end
    end.

  Definition oldest (rs : list range) : Z :=
    match rs with [] => 0 | r :: t => fold_left Z.min (map r_start t) (r_start r) end.
  Definition newest (rs : list range) : Z :=
    match rs with [] => 0 | r :: t => fold_left Z.max (map r_end t) (r_end r) end.

  Definition is_name (m : matcher) : bool := String.eqb (m_name m) metric_name_label.
  Definition positive (m : matcher) : bool := match m_type m with MEq | MRe => true | _ => false end.

  (** labelNames: names of the non-__name__ matchers of type = or =~, first occurrences in order *)
  Fixpoint dedup (l : list string) (seen : list string) : list string :=
    match l with
    | [] => []
    | x :: r => if mem_str x seen then dedup r seen else x :: dedup r (x :: seen)
    end.
  Definition label_names (s : vsel) : list string :=
    dedup (map m_name (filter (fun m => negb (is_name m) && positive m) (vs_matchers s))) [].

  Definition any_overlap (step : Z) (a b : list range) : bool :=
    existsb (fun x => existsb (fun y => match overlaps x y step with Some _ => true | None => false end) b) a.

  (** hasSeriesWithSelector: ANY matcher that matches the value of a label of the same name *)
  Definition series_hit (ms : list matcher) (ls : labelset) : bool :=
    existsb (fun m => existsb (fun kv => String.eqb (m_name m) (fst kv) && matches m [kv]) ls) ms.

  (** checkOtherServer: shouldReport = false iff another server returns the selector now and one of its
      series is hit by an ignoreMatchingElsewhere selector *)
  Definition should_report (others : list db) (now : Z) (st : settings) (s : vsel) : bool :=
    negb (existsb (fun od =>
            let res := instant_probe od now (vs_matchers s) in
            match res with
            | [] => false
            | _ => existsb (fun ms => existsb (series_hit ms) res) (set_ignore_elsewhere st)
            end) others).

  Definition nonexistent (sv : sev) : string * sev := (summary_nonexistent, sv).

  (** textAndSeverity(..., Bug): Warning when the bare selector text matches an ignoreMetrics regexp *)
  Definition sev_of (st : settings) (s : vsel) : sev :=
    if mem_str (vs_bare_str s) (set_ignored st) then Warning else Bug.

  (** 3. one label name: absent(bare{name=~".+"}) over the window; a Bug when the label was absent during the whole
      window (one range, no gap against the uptime) and that range touches a range of the metric itself *)
  Definition step3_one (d : db) (now : Z) (st : settings) (up trs : list range) (s : vsel) (name : string)
    : option (list (string * sev)) :=
    let l := (bare_matchers (vs_matchers s) ++ [mkM MRe name ".+"])%list in
    match probe_with_gaps now st (absent_presence d l) up with
    | None => None
    | Some (ar, ag) =>
        if any_overlap (set_step st) ar trs && (List.length ar =? 1)%nat && (List.length ag =? 0)%nat
        then Some [nonexistent Bug] else Some []
    end.

  Fixpoint step3 (d : db) (now : Z) (st : settings) (up trs : list range) (s : vsel) (names : list string)
    : option (list (string * sev)) :=
    match names with
    | [] => Some []
    | n :: r => match step3_one d now st up trs s n, step3 d now st up trs s r with
                | Some a, Some b => Some (a ++ b)%list
                | _, _ => None
                end
    end.

  (** the selector of steps 5-7 for one matcher: VectorSelector{Name: metricName, LabelMatchers: [lm]} plus the
      __name__ matchers of the checked selector when there is no plain metric name *)
  Definition label_selector (s : vsel) (lm : matcher) : list matcher :=
    ((if String.eqb (metric_name s) "" then bare_matchers (vs_matchers s)
      else [mkM MEq metric_name_label (metric_name s)]) ++ [lm])%list.

  Inductive mres := MProblems (ps : list (string * sev)) | MUndetermined | MOutOfFuel.

  (** 5-7 for one matcher *)
  Definition step567_one (d : db) (now : Z) (st : settings) (up : list range) (base_gaps : list tr) (s : vsel)
             (lm : matcher) : mres :=
    match probe_with_gaps now st (sel_presence d (label_selector s lm)) up with
    | None => MOutOfFuel
    | Some (lr, lg) =>
        match lr with
        | [] => MProblems [nonexistent (sev_of st s)]                                          (* 5 *)
        | _ =>
            if (List.length lr =? 1)%nat
               && (oldest lr <=? now + (set_lookback st - 1) + set_step st)
               && (newest lr <? now - set_step st)
            then                                                                               (* 6 *)
              match lg, base_gaps with
              | [], _ => MProblems []                  (* no gap of the matcher outside the base metric's gaps *)
              | _ :: _, [] =>
                  if newest lr <? now - vs_min_age s then MProblems [nonexistent (sev_of st s)] else MProblems []
              | _ :: _, _ :: _ => MUndetermined
              end
            else if (1 <? List.length lr)%nat && (0 <? List.length lg)%nat then MProblems [nonexistent Warning]   (* 7 *)
            else MProblems []
        end
    end.

  Fixpoint step567 (d : db) (now : Z) (st : settings) (up : list range) (base_gaps : list tr) (s : vsel)
           (ms : list matcher) : mres :=
    match ms with
    | [] => MProblems []
    | lm :: r =>
        match step567_one d now st up base_gaps s lm, step567 d now st up base_gaps s r with
        | MOutOfFuel, _ | _, MOutOfFuel => MOutOfFuel
        | MUndetermined, _ | _, MUndetermined => MUndetermined
        | MProblems a, MProblems b => MProblems (a ++ b)%list
        end
    end.

  (** the matchers steps 5-7 look at: not __name__, type = or =~, label not ignored *)
  Definition value_matchers (s : vsel) : list matcher :=
    filter (fun m => negb (is_name m) && positive m && negb (mem_str (m_name m) (vs_ignored_labels s))) (vs_matchers s).

  (** steps 3-8: the metric has ranges [trs] in the window but the selector returns nothing now.  [prior] = the
      accumulated problem list was already non-empty when this selector's turn came. *)
  Definition steps_3_to_8 (d : db) (now : Z) (st : settings) (prior : bool) (up trs : list range) (s : vsel) : outcome :=
    match gaps_of now st trs up with
    | None => OutOfFuel
    | Some base_gaps =>
        match step3 d now st up trs s (label_names s) with
        | None => OutOfFuel
        | Some p3 =>
            if prior || negb (match p3 with [] => true | _ => false end) then Decided p3      (* if len(problems) > 0 *)
            else if (List.length trs =? 1)%nat
                    && (oldest trs <=? now - set_lookback st + set_step st)
                    && (newest trs <? now - set_step st)
            then                                                                              (* 4 *)
              if newest trs <? now - vs_min_age s then Decided [nonexistent (sev_of st s)] else Decided []
            else
              match step567 d now st up base_gaps s (value_matchers s) with
              | MOutOfFuel => OutOfFuel
              | MUndetermined => Undetermined
              | MProblems (x :: r) => Decided (x :: r)                                        (* if len(problems) > 0 *)
              | MProblems [] =>
                  match base_gaps with
                  | _ :: _ => Decided [nonexistent Warning]                                   (* 8 *)
                  | [] => Decided []
                  end
              end
        end
    end.

  Definition check_selector (d : db) (others : list db) (now : Z) (st : settings) (rules : list rinfo)
             (prior : bool) (s : vsel) : outcome :=
    if vs_disabled s || vs_snoozed s then Decided []
    else if is_alerts s then
      let an := alertname_of s in
      if String.eqb an "" then Decided []
      else if has_alerting rules an then Decided []
      else Decided [(summary_unknown_alert, Bug)]
    else
      match instant_probe d now (vs_matchers s) with
      | _ :: _ => Decided []                                           (* 1. present now *)
      | [] =>
          if String.eqb (vs_bare_str s) "" then Decided []
          else
            match range_probe d now st (bare_matchers (vs_matchers s)) with
            | None => OutOfFuel
            | Some (x :: r) =>
                match uptime_ranges d now st with
                | None => OutOfFuel
                | Some up => steps_3_to_8 d now st prior up (x :: r) s
                end
            | Some [] =>                                               (* 2. never there *)
                if has_recording rules (vs_bare_str s) then Decided [nonexistent Information]
                else if should_report others now st s then
                  Decided [nonexistent (sev_of st s)]
                else Decided []
            end
      end.

  (** [prior] as far as the model knows it: [Some b] = known, [None] = an earlier selector is undetermined and
      produced no certain problem.  The verdict under an unknown [prior] is the common value of both, if any. *)
  Definition verdict (d : db) (others : list db) (now : Z) (st : settings) (rules : list rinfo)
             (prior : option bool) (s : vsel) : outcome :=
    match prior with
    | Some b => check_selector d others now st rules b s
    | None =>
        let f := check_selector d others now st rules false s in
        let t := check_selector d others now st rules true s in
        if outcome_eqb f t then f else Undetermined
    end.

  Definition next_prior (prior : option bool) (o : outcome) : option bool :=
    match prior, o with
    | Some true, _ => Some true
    | _, Decided (_ :: _) => Some true
    | p, Decided [] => p
    | _, _ => None
    end.

  (** the loop over selectors with its [done] map and the accumulated problem list *)
  Fixpoint check_all (d : db) (others : list db) (now : Z) (st : settings) (rules : list rinfo)
           (sels : list vsel) (done : list string) (prior : option bool) : list (string * outcome) :=
    match sels with
    | [] => []
    | s :: r =>
        if mem_str (vs_str s) done then check_all d others now st rules r done prior
        else
          let o := verdict d others now st rules prior s in
          (vs_str s, o) :: check_all d others now st rules r (vs_str s :: done) (next_prior prior o)
    end.

  Definition check (d : db) (others : list db) (now : Z) (st : settings) (rules : list rinfo) (sels : list vsel) :=
    check_all d others now st rules sels [] (Some false).
End Sem.
