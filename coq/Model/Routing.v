(** From a parsed file to entries, checks and the always-enabled error problem:
    internal/discovery/discovery.go readRules (for files without `# pint` comments: no file comments, no
    ignore diagnostics), internal/config/config.go GetChecksForEntry (the error routing), internal/checks/error.go
    parseRuleError.  All other checks are opaque ([base]: entry -> list of check names). *)
From Coq Require Import List String Arith Bool.
From PintV Require Import Common.Bytes Model.Yaml Model.Parser.
Import ListNotations.
Open Scope string_scope.

Record entry := {
  e_perr : option perror;      (* Entry.PathError (a parser.ParseError; comment/owner/ignore errors need pint comments) *)
  e_rule : rule;               (* Entry.Rule (zero rule for path errors) *)
  e_glabels : option ymap      (* Entry.Group.Labels (None for path errors) *)
}.

(** readRules, comment-free files *)
Definition read_rules (f : file) : list entry :=
  match f_error f with
  | Some e => [ {| e_perr := Some e; e_rule := zero_rule; e_glabels := None |} ]
  | None =>
      flat_map (fun g =>
                  app (match g_error g with
                       | Some e => [ {| e_perr := Some e; e_rule := zero_rule; e_glabels := None |} ]
                       | None => []
                       end) (map (fun r => {| e_perr := None; e_rule := r; e_glabels := g_labels g |}) (g_rules g)))
               (f_groups f)
  end.

Definition has_error (e : entry) : bool :=
  match e_perr e, r_error (e_rule e) with
  | None, None => false
  | _, _ => true
  end.

Definition yaml_parse_reporter := "yaml/parse".

(** GetChecksForEntry: entries with PathError or Rule.Error get the ErrorCheck only *)
Definition checks_for_entry (base : entry -> list string) (e : entry) : list string :=
  if has_error e then [yaml_parse_reporter] else base e.

Inductive outcome (A : Type) := Ok (a : A) | Crash (where_ : string).
Arguments Ok {A} a.
Arguments Crash {A} where_.

Record problem := { p_reporter : string; p_fatal : bool; p_first : nat; p_last : nat }.

(** parseRuleError: the default branch dereferences rule.Error.Err *)
Definition parse_rule_error (e : entry) : outcome problem :=
  match e_perr e with
  | Some pe => Ok {| p_reporter := yaml_parse_reporter; p_fatal := true; p_first := pe_line pe; p_last := pe_line pe |}
  | None =>
      match r_error (e_rule e) with
      | Some pe => Ok {| p_reporter := yaml_parse_reporter; p_fatal := true; p_first := pe_line pe; p_last := pe_line pe |}
      | None => Crash "parseRuleError: rule.Error.Err.Error() on a nil error"
      end
  end.

(** The precondition every rule check silently relies on (Rule.Expr(), Rule.NameNode()). *)
Definition wellformed (r : rule) : Prop :=
  match r_error r, r_body r with
  | Some _, NoBody => True
  | None, Alerting a e _ _ _ _ => y_value a <> "" /\ y_value e <> ""
  | None, Recording n e _ => y_value n <> "" /\ y_value e <> ""
  | _, _ => False
  end.

(** ---- the Bug/Fatal problems of the strict pipeline that C01 relies on (a subset of what pint reports) ----
    yaml/parse (Fatal) for every error entry; promql/syntax (Fatal); alerts/for "invalid duration" (Bug);
    alerts/template "template syntax error" (Fatal) on the labels of Entry.Labels() and on the annotations,
    only for alerting rules whose expression parses. *)

(** parser.MergeMaps / setValue as used by Entry.Labels() *)
Fixpoint set_value (items : list (ynode * ynode)) (kv : ynode * ynode) : list (ynode * ynode) :=
  match items with
  | [] => [kv]
  | (k, v) :: r => if String.eqb (y_value k) (y_value (fst kv)) then kv :: r else (k, v) :: set_value r kv
  end.

Definition entry_labels (glabels rlabels : option ymap) : list (ynode * ynode) :=
  match rlabels with
  | Some rl => match glabels with
               | Some gl => fold_left set_value (ym_items rl) (ym_items gl)
               | None => ym_items rl
               end
  | None => match glabels with Some gl => ym_items gl | None => [] end
  end.

Section Blocks.
  Variables expr_ok dur_ok tmpl_pint : string -> bool.

  Definition bad_dur (o : option ynode) : bool := match o with Some y => negb (dur_ok (y_value y)) | None => false end.

  Definition rule_blocks (glabels : option ymap) (r : rule) : bool :=
    match r_body r with
    | Alerting a e f k l an =>
        (negb (expr_ok (y_value e)) || bad_dur f || bad_dur k ||
         (expr_ok (y_value e) &&
          (existsb (fun kv => negb (tmpl_pint (y_value (snd kv)))) (entry_labels glabels l) ||
           existsb (fun kv => negb (tmpl_pint (y_value (snd kv)))) (match an with Some m => ym_items m | None => [] end))))%bool
    | Recording n e l => negb (expr_ok (y_value e))
    | NoBody => false
    end.

  Definition entry_blocks (e : entry) : bool := (has_error e || rule_blocks (e_glabels e) (e_rule e))%bool.

  (** pint, strict mode, default offline checks: some problem of severity Bug or Fatal (modelled subset) *)
  Definition strict_blocks (f : file) : bool := existsb entry_blocks (read_rules f).
End Blocks.
