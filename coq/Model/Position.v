(** Model of /repo/internal/diags/position.go (as of the fix commits for the block header, the line-break
    position, the character column and the anchor): [NewPositionRange],
    [appendPosition], [countLeadingSpace], [readRange], [PositionRanges.AddOffset/Lines/Len], plus
    [read_back] (what a list of position ranges spells when read from the file).

    Executable definitions only.  Go [int] = [Z]; a Go run-time panic (index/slice out of range) is the
    explicit outcome [Crash], never totalised away.

    Translation notes (each checked by the correspondence run on every check):
    - [val.Value[needIndex:]] is carried as the pair [(need, rest)] = (current byte, bytes after it);
      [needIndex >= len(val.Value)] is [rest = ""] at the moment of the increment.
    - the outer loop [for lineIndex <= len(lines)] is structural recursion over the suffix
      [lines[lineIndex-1:]]; [prev_len] is [len(lines[lineIndex-2])].
    - the inner loop [for gotIndex, got := range []byte(line[columnIndex-1:])] is structural recursion over
      that slice, [col] = [columnIndex+gotIndex]. *)
From Coq Require Import List String Ascii ZArith NArith Bool Lia.
From PintV Require Import Common.Bytes Model.CommentsUnicode.
Import ListNotations.
Local Open Scope Z_scope.

Record prange := mkp { pr_line : Z; pr_first : Z; pr_last : Z }.

(** The fields of a [yaml.Node] that [NewPositionRange] reads: Value, Line, Column (in CHARACTERS, as yaml.v3
    counts them), whether Style has the Literal or Folded bit, Anchor, and whether Style has the DoubleQuoted bit
    ([sn_dq]: escape sequences are decoded while scanning, fix for finding C06-dq-escape). *)
Record snode := mksn { sn_value : string; sn_line : Z; sn_col : Z; sn_block : bool; sn_anchor : string; sn_dq : bool }.

(** A plain node: not a block scalar, no anchor, not double quoted. *)
Definition mksn0 (v : string) (l c : Z) : snode := mksn v l c false EmptyString false.

Inductive outcome := Ok (p : list prange) | Crash (where_ : string).

Definition slen (s : string) : Z := Z.of_nat (String.length s).

Fixpoint sdrop (n : nat) (s : string) : string :=
  match n, s with
  | O, _ => s
  | S n', String _ r => sdrop n' r
  | S _, EmptyString => EmptyString
  end.

Definition space : ascii := " "%char.
Definition newline : ascii := "010"%char.

(** [countLeadingSpace]: the Go loop ranges over runes but stops at the first rune that is not ' ', so it
    counts leading 0x20 bytes. *)
Fixpoint count_leading_space (s : string) : Z :=
  match s with
  | String c r => if Ascii.eqb c space then 1 + count_leading_space r else 0
  | EmptyString => 0
  end.

(** [appendPosition]: extend the last range when the new column continues it on the same line. *)
Fixpoint append_position (src : list prange) (line col : Z) : list prange :=
  match src with
  | [] => [mkp line col col]
  | [p] => if (pr_line p =? line) && (pr_last p + 1 =? col)
           then [mkp (pr_line p) (pr_first p) col]
           else [p; mkp line col col]
  | p :: r => p :: append_position r line col
  end.

Inductive scan_res :=
| ScanDone (offs : list prange)                              (* goto END from inside the byte loop *)
| ScanCont (need : ascii) (rest : string) (offs : list prange).  (* fell through to NEXT *)

(** The byte loop over [line[columnIndex-1:]]. *)
Fixpoint scan_line (bytes : string) (line col : Z) (need : ascii) (rest : string) (offs : list prange) : scan_res :=
  match bytes with
  | EmptyString => ScanCont need rest offs
  | String got more =>
      if Ascii.eqb need got then
        let offs' := append_position offs line col in
        match rest with
        | EmptyString => ScanDone offs'
        | String n' r' => scan_line more line (col + 1) n' r' offs'
        end
      else scan_line more line (col + 1) need rest offs
  end.

(** ** Double-quoted scalars: an escape sequence is one token standing for the bytes it decodes to. *)

Definition hex_val (c : ascii) : option N :=
  let n := N_of_ascii c in
  if (48 <=? n)%N && (n <=? 57)%N then Some (n - 48)%N
  else if (97 <=? n)%N && (n <=? 102)%N then Some (n - 87)%N
  else if (65 <=? n)%N && (n <=? 70)%N then Some (n - 55)%N
  else None.

(** [strconv.ParseUint(s[:digits], 16, 32)] for 2, 4 or 8 digits: [None] = syntax error. *)
Fixpoint parse_hex (digits : nat) (s : string) (acc : N) : option N :=
  match digits with
  | O => Some acc
  | S d =>
      match s with
      | String c r => match hex_val c with Some v => parse_hex d r (acc * 16 + v)%N | None => None end
      | EmptyString => None
      end
  end.

(** [unescape s] ([s] starts with the backslash): (decoded text, number of source bytes of the sequence). *)
Definition unescape (s : string) : string * nat :=
  match s with
  | String _ (String c r) =>
      let n := N_of_ascii c in
      let hex (digits : nat) :=
        if Nat.ltb (String.length r) digits then (EmptyString, String.length s)
        else match parse_hex digits r 0%N with
             | Some code => (encode_rune code, (2 + digits)%nat)
             | None => (EmptyString, 2%nat)
             end in
      if (n =? 48)%N then (bs [0%N], 2%nat)
      else if (n =? 97)%N then (bs [7%N], 2%nat)
      else if (n =? 98)%N then (bs [8%N], 2%nat)
      else if (n =? 116)%N || (n =? 9)%N then (bs [9%N], 2%nat)
      else if (n =? 110)%N then (bs [10%N], 2%nat)
      else if (n =? 118)%N then (bs [11%N], 2%nat)
      else if (n =? 102)%N then (bs [12%N], 2%nat)
      else if (n =? 114)%N then (bs [13%N], 2%nat)
      else if (n =? 101)%N then (bs [27%N], 2%nat)
      else if (n =? 78)%N then (bs [194%N; 133%N], 2%nat)
      else if (n =? 95)%N then (bs [194%N; 160%N], 2%nat)
      else if (n =? 76)%N then (bs [226%N; 128%N; 168%N], 2%nat)
      else if (n =? 80)%N then (bs [226%N; 128%N; 169%N], 2%nat)
      else if (n =? 120)%N then hex 2%nat
      else if (n =? 117)%N then hex 4%nat
      else if (n =? 85)%N then hex 8%nat
      else (String c EmptyString, 2%nat)
  | _ => (EmptyString, String.length s)
  end.

(** [strings.HasPrefix(v, d)] and the rest of [v] after [d]. *)
Fixpoint strip_prefix (d v : string) : option string :=
  match d with
  | EmptyString => Some v
  | String a d' => match v with
                   | String b v' => if Ascii.eqb a b then strip_prefix d' v' else None
                   | EmptyString => None
                   end
  end.

(** the positions of the decoded bytes: they END where the sequence ends
    ([columnIndex+gotIndex+max(0, size-len(decoded)+i)]) *)
Fixpoint append_decoded (n : nat) (i : Z) (line col : Z) (size len : Z) (offs : list prange) : list prange :=
  match n with
  | O => offs
  | S n' => append_decoded n' (i + 1) line col size len (append_position offs line (col + Z.max 0 (size - len + i)))
  end.

Definition backslash : ascii := "\"%char.

(** The byte loop for a double-quoted scalar; [skip] = Go's [skip] counter. *)
Fixpoint scan_line_dq (bytes : string) (skip : nat) (line col : Z) (need : ascii) (rest : string) (offs : list prange) : scan_res :=
  match bytes with
  | EmptyString => ScanCont need rest offs
  | String got more =>
      match skip with
      | S k => scan_line_dq more k line (col + 1) need rest offs
      | O =>
          if Ascii.eqb got backslash then
            let '(decoded, size) := unescape bytes in
            let skip' := Nat.pred size in
            match decoded, strip_prefix decoded (String need rest) with
            | String _ _, Some left_ =>
                let offs' := append_decoded (String.length decoded) 0 line col (Z.of_nat size) (slen decoded) offs in
                match left_ with
                | EmptyString => ScanDone offs'
                | String n' r' => scan_line_dq more skip' line (col + 1) n' r' offs'
                end
            | _, _ => scan_line_dq more skip' line (col + 1) need rest offs
            end
          else if Ascii.eqb need got then
            let offs' := append_position offs line col in
            match rest with
            | EmptyString => ScanDone offs'
            | String n' r' => scan_line_dq more 0 line (col + 1) n' r' offs'
            end
          else scan_line_dq more 0 line (col + 1) need rest offs
      end
  end.

(** the byte loop of a node: [dq] = Style has the DoubleQuoted bit *)
Definition scan (dq : bool) (bytes : string) (line col : Z) (need : ascii) (rest : string) (offs : list prange) : scan_res :=
  if dq then scan_line_dq bytes 0 line col need rest offs else scan_line bytes line col need rest offs.

Definition is_fold_char (c : ascii) : bool := Ascii.eqb c space || Ascii.eqb c newline.

(** The part of NEXT after [lineIndex++]: a needed ' ' or '\n' is consumed by the line break.
    [None] = [goto END]. *)
Definition advance (need : ascii) (rest : string) : option (ascii * string) :=
  if is_fold_char need then
    match rest with
    | EmptyString => None
    | String n r => Some (n, r)
    end
  else Some (need, rest).

(** Column adjustment at the top of the loop body for a non-empty line. [None] = slice bounds panic
    ([line[columnIndex-1:]] with [columnIndex <= 0]). *)
Definition adjust_col (line : string) (col : Z) (need : ascii) (rest : string) : option Z :=
  let col1 := Z.min (slen line) col in
  if col1 <=? 0 then None
  else
    let lineSpaces := count_leading_space (sdrop (Z.to_nat (col1 - 1)) line) in
    let valSpaces := count_leading_space (String need rest) in
    Some (if valSpaces <? lineSpaces then col1 + (lineSpaces - valSpaces) else col1).

(** One iteration of the outer loop up to (excluding) NEXT, after the optional line-break position. *)
Definition line_step (dq : bool) (line : string) (lineIndex col : Z) (need : ascii) (rest : string) (offs : list prange)
  : option scan_res :=
  if slen line =? 0 then Some (ScanCont need rest offs)
  else match adjust_col line col need rest with
       | None => None
       | Some col2 => Some (scan dq (sdrop (Z.to_nat (col2 - 1)) line) lineIndex col2 need rest offs)
       end.

(** The outer loop.  [brk] is the Go variable [lineBreak]: the previous line break was consumed for a ' ' or
    '\n' of the value and gets its position now. *)
Fixpoint npr_loop (dq : bool) (ls : list string) (prev_len lineIndex col minCol : Z) (need : ascii) (rest : string)
         (offs : list prange) (brk : bool) : outcome :=
  match ls with
  | [] => Ok offs
  | line :: more =>
      let offs1 := if brk then append_position offs (lineIndex - 1) (prev_len + 1) else offs in
      match line_step dq line lineIndex col need rest offs1 with
      | None => Crash "slice bounds out of range"
      | Some (ScanDone o) => Ok o
      | Some (ScanCont n r o) =>
          match advance n r with
          | None => Ok o
          | Some (n', r') => npr_loop dq more (slen line) (lineIndex + 1) minCol minCol n' r' o (is_fold_char n)
          end
      end
  end.

Definition fallback (n : snode) : list prange := [mkp (sn_line n) (sn_col n) (sn_col n)].

(** [byteColumn]: [for i := range line] visits the byte index of every rune start (Go decoding: an invalid byte
    is a rune of width 1). *)
Fixpoint byte_column_go (starts : list nat) (column len : Z) : Z :=
  match starts with
  | [] => len + column
  | i :: r => if column <=? 1 then Z.of_nat i + 1 else byte_column_go r (column - 1) len
  end.

Definition byte_column (line : string) (column : Z) : Z :=
  byte_column_go (map fst (decode_all line)) column (slen line).

Definition is_blank (c : ascii) : bool := Ascii.eqb c space || Ascii.eqb c "009"%char.

(** [skipBlanks]: the loop runs while [1 <= column <= len(line)] and the byte is ' ' or '\t'. *)
Fixpoint skip_blanks_go (bytes : string) (column : Z) : Z :=
  match bytes with
  | String c r => if is_blank c then skip_blanks_go r (column + 1) else column
  | EmptyString => column
  end.

Definition skip_blanks (line : string) (column : Z) : Z :=
  if (1 <=? column) && (column <=? slen line) then skip_blanks_go (sdrop (Z.to_nat (column - 1)) line) column
  else column.

(** The column the scan of the node's own (non-empty) line starts from: character column to byte column, then
    past the anchor and the blanks after it. *)
Definition first_col (line : string) (n : snode) : Z :=
  let c := byte_column line (sn_col n) in
  match sn_anchor n with
  | EmptyString => c
  | a => skip_blanks line (c + 1 + slen a)
  end.

(** How [NewPositionRange] enters the loop for the non-empty value [need :: rest]: a block scalar starts on the
    line after its header at [minColumn]; any other scalar on its own line at [first_col] (the conversion sits
    inside the loop after the empty-line test and applies to the node's own line only, i.e. the first iteration). *)
Definition npr_entry (lines : list string) (n : snode) (minCol : Z) (need : ascii) (rest : string) : outcome :=
  if sn_block n then
    if sn_line n + 1 <=? 0 then Crash "index out of range"
    else npr_loop (sn_dq n) (skipn (Z.to_nat (sn_line n)) lines) 0 (sn_line n + 1) minCol minCol need rest [] false
  else if sn_line n <=? 0 then Crash "index out of range"
  else
    let ls := skipn (Z.to_nat (sn_line n - 1)) lines in
    let col0 := match ls with
                | l :: _ => if slen l =? 0 then sn_col n else first_col l n
                | [] => sn_col n
                end in
    npr_loop (sn_dq n) ls 0 (sn_line n) col0 minCol need rest [] false.

Definition new_position_range (lines : list string) (n : snode) (minCol : Z) : outcome :=
  match sn_value n with
  | EmptyString => Ok (fallback n)
  | String need rest =>
      match npr_entry lines n minCol need rest with
      | Ok [] => Ok (fallback n)
      | r => r
      end
  end.

(** [PositionRanges.AddOffset]. *)
Definition add_offset (dl dc : Z) (prs : list prange) : list prange :=
  map (fun p => mkp (pr_line p + dl) (pr_first p + dc) (pr_last p + dc)) prs.

(** [newYamlNode]'s position part. *)
Definition node_positions (lines : list string) (n : snode) (minCol offLine offCol : Z) : outcome :=
  match new_position_range lines n minCol with
  | Ok p => Ok (add_offset offLine offCol p)
  | c => c
  end.

(** [PositionRanges.Lines]: (First, Last); (0,0) for the empty list. *)
Definition lines_of (prs : list prange) : Z * Z :=
  match prs with
  | [] => (0, 0)
  | p :: r => fold_left (fun acc q => (Z.min (fst acc) (pr_line q), Z.max (snd acc) (pr_line q))) r (pr_line p, pr_line p)
  end.

(** [PositionRanges.Len]. *)
Definition plen (prs : list prange) : Z :=
  fold_left (fun l p => l + (pr_last p - pr_first p + 1)) prs 0.

(** [readRange]: the inner [for j := pr.FirstColumn; j <= pr.LastColumn; j++]. *)
Fixpoint rr_cols (n : nat) (line j index fc lc : Z) (out : list prange) : Z * list prange :=
  match n with
  | O => (index, out)
  | S n' =>
      let index' := index + 1 in
      let out' := if (fc <=? index') && (index' <=? lc) then append_position out line j else out in
      rr_cols n' line (j + 1) index' fc lc out'
  end.

Definition read_range (fc lc : Z) (prs : list prange) : list prange :=
  snd (fold_left (fun st pr => rr_cols (Z.to_nat (pr_last pr - pr_first pr + 1)) (pr_line pr) (pr_first pr)
                                       (fst st) fc lc (snd st)) prs (0, [])).

(** What [InjectDiagnostics] passes to [readRange]. *)
Definition diag_positions (fc lc : Z) (prs : list prange) : list prange :=
  let dl := plen prs in read_range (Z.min fc dl) (Z.min lc dl) prs.

(** ** The caret line of InjectDiagnostics (problems.go, as of fix e721538), for one diagnostic under an ASCII
    source line of [len] bytes on line [L] = the last line of [prs] = [diag_positions ...]: ONE mark per column —
    a caret if the column is inside some range of that line, a blank if some range of that line is still ahead,
    nothing after the last range. *)
Definition caret_col (c L : Z) (prs : list prange) : string :=
  let on := filter (fun p => pr_line p =? L) prs in
  if existsb (fun p => (pr_first p <=? c) && (c <=? pr_last p)) on then "^"%string
  else if existsb (fun p => c <? pr_first p) on then " "%string
  else EmptyString.

Fixpoint sconcat (l : list string) : string :=
  match l with
  | [] => EmptyString
  | x :: r => (x ++ sconcat r)%string
  end.

Definition caret_marks (len : nat) (L : Z) (prs : list prange) : string :=
  sconcat (map (fun k => caret_col (Z.of_nat k + 1) L prs) (seq 0 len)).

(** The caret line under ANY source line: [for columnIndex, r := range line] visits the byte index of every character
    start (Go decoding, [decode_all]); one mark per CHARACTER, decided by the byte column [columnIndex+1] of its first byte.
    Display column = number of characters before the byte. *)
Definition caret_marks_line (line : string) (L : Z) (prs : list prange) : string :=
  sconcat (map (fun k => caret_col (Z.of_nat k + 1) L prs) (map fst (decode_all line))).

(** ** Reading positions back from the file *)

Definition expand_range (p : prange) : list (Z * Z) :=
  map (fun k => (pr_line p, pr_first p + Z.of_nat k)) (seq 0 (Z.to_nat (pr_last p - pr_first p + 1))).

Definition expand (prs : list prange) : list (Z * Z) := flat_map expand_range prs.

(** Byte of the file at 1-indexed (line, col); column [len+1] is the line break. *)
Definition char_at (lines : list string) (lc : Z * Z) : option ascii :=
  let (line, col) := lc in
  if (1 <=? line) && (1 <=? col) then
    match nth_error lines (Z.to_nat (line - 1)) with
    | Some l => if col =? slen l + 1 then Some newline else String.get (Z.to_nat (col - 1)) l
    | None => None
    end
  else None.

Fixpoint collect (l : list (option ascii)) : option string :=
  match l with
  | [] => Some EmptyString
  | Some c :: r => match collect r with Some s => Some (String c s) | None => None end
  | None :: _ => None
  end.

(** [None] = some position is outside the file. *)
Definition read_back (lines : list string) (prs : list prange) : option string :=
  collect (map (char_at lines) (expand prs)).

(** ** Shifting (used for equivariance; C19 nests rule documents deeper) *)

(** [pre] lines are inserted above and every line gets the prefix [p] (deeper nesting). *)
Definition shift_lines (pre : list string) (p : string) (lines : list string) : list string :=
  pre ++ map (fun l => (p ++ l)%string) lines.

Definition shift_node (k d : Z) (n : snode) : snode :=
  mksn (sn_value n) (sn_line n + k) (sn_col n + d) (sn_block n) (sn_anchor n) (sn_dq n).

(** ** Rule line range (parseRule): the accumulation of [lines] over the parts of a rule mapping.
    A part is [(part.Line + offsetLine, field)] where [field] is [Some pos] for the value node of one of the
    scalar fields record/alert/expr/for/keep_firing_for ([pos] = its positions), [Some] of the map's
    line range for labels/annotations (see [map_lines]) and [None] for keys and unknown values. *)
Definition rule_lines_step (acc : Z * Z) (part : Z * option Z) : Z * Z :=
  let (first, last) := acc in
  let (pl, fld) := part in
  let first' := if (first =? 0) || (pl <? first) then pl else first in
  let last' := Z.max last pl in
  match fld with
  | Some fl => (first', Z.max last' fl)
  | None => (first', last')
  end.

Definition rule_lines (parts : list (Z * option Z)) : Z * Z := fold_left rule_lines_step parts (0, 0).

(** [YamlMap.Lines]. *)
Definition map_lines (key : list prange) (items : list (list prange * list prange)) : Z * Z :=
  fold_left (fun lr it => (Z.min (fst lr) (fst (lines_of (fst it))), Z.max (snd lr) (snd (lines_of (snd it)))))
            items (lines_of key).
