(** C08 — model of the on/off switching of checks.

    Go sources (modelled as they are now):
      internal/config/rule.go         isDisabledForRule, isEnabled
      internal/config/parsed_rule.go  parsedRule.isEnabled, (registration: see Gen/Tables.v)
      internal/config/config.go       GetChecksForEntry (routing loop), SetDisabledChecks, DisableOnlineChecks

    What is an INPUT of this model (decided elsewhere, observed by the harness on the real code):
      - [pr_matched] / [cr_matched]: the verdict of [isMatch(ctx, entry, ignore, match)] for the parsed rule /
        the config rule block (that function is the subject of C09, Model/Match.v);
      - [e_comments]: the [Match] strings of the rule's [# pint disable] comments and of its not yet expired
        [# pint snooze] comments (comment grammar = C07/C10);
      - the regexp engine, as the oracle [strict_match] of [set_disabled_checks].
    Definitions only; proofs are in Proofs/C08_*.v. *)
From Coq Require Import List String Ascii Bool.
From PintV Require Import Common.Bytes.
Import ListNotations.
Open Scope string_scope.
Open Scope list_scope.

Definition lparen : ascii := Ascii.ascii_of_nat 40.

(** A [checks.RuleChecker] as far as switching is concerned. States are the names of the
    [discovery.ChangeType] constants ("Noop", "Added", ...). *)
Record check := {
  ck_string : string;            (* String() *)
  ck_reporter : string;          (* Reporter() *)
  ck_states : list string;       (* Meta().States *)
  ck_always : bool;              (* Meta().AlwaysEnabled *)
  ck_online : bool               (* Meta().Online *)
}.

(** A [parsedRule] (one registration of a check instance) *)
Record prule := {
  pr_name : string;              (* the name it was registered under *)
  pr_check : check;
  pr_tags : list string;         (* tags of the Prometheus server, nil for offline checks *)
  pr_locked : bool;
  pr_matched : bool              (* isMatch(ctx, entry, pr.ignore, pr.match) *)
}.

(** A [rule {}] block of the configuration as seen by parsedRule.isEnabled *)
Record cfg_rule := {
  cr_matched : bool;             (* isMatch(ctx, entry, cfgRule.Ignore, cfgRule.Match) *)
  cr_enable : list string;
  cr_disable : list string
}.

Record entry := {
  e_state : string;              (* entry.State *)
  e_disabled : list string;      (* entry.DisabledChecks (file/disable comments) *)
  e_comments : list string       (* Match of disable comments and of active snooze comments on the rule *)
}.

Record config := {
  c_enabled : list string;       (* cfg.Checks.Enabled *)
  c_disabled : list string;      (* cfg.Checks.Disabled *)
  c_rules : list cfg_rule        (* cfg.Rules *)
}.

(** fmt.Sprintf("%s(+%s)", name, tag) *)
Definition tagged (name tag : string) : string := (name ++ "(+" ++ tag ++ ")")%string.

(** [c == name || c == check.String() || exists tag, c == name(+tag)] — the comparison shared by the
    disabled list loop of [isEnabled] and by [isDisabledForRule]. *)
Definition hits (c name : string) (ck : check) (tags : list string) : bool :=
  String.eqb c name || String.eqb c (ck_string ck) || existsb (fun t => String.eqb c (tagged name t)) tags.

(** rule.go: isDisabledForRule (comments already reduced to their Match strings). *)
Definition is_disabled_for_rule (comments : list string) (name : string) (ck : check) (tags : list string) : bool :=
  existsb (fun d => hits d name ck tags) comments.

(** rule.go: isEnabled *)
Definition is_enabled (enabled disabled comments : list string) (name : string) (ck : check)
           (tags : list string) (locked : bool) : bool :=
  if ck_always ck then true
  else if negb locked && is_disabled_for_rule comments name ck tags then false
  else if existsb (fun c => hits c name ck tags) disabled then false
  else match enabled with
       | [] => true
       | _ => mem_str name enabled
       end.

(** The [for _, cfgRule := range cfgRules] loop of parsedRule.isEnabled:
    [None] = "return false" (disabled by a matching block), [Some b] = value of enabledByConfigRule. *)
Fixpoint scan_cfg_rules (rules : list cfg_rule) (name : string) (flag : bool) : option bool :=
  match rules with
  | [] => Some flag
  | r :: rest =>
      if negb (cr_matched r) then scan_cfg_rules rest name flag
      else if mem_str name (cr_disable r) then None
      else scan_cfg_rules rest name (if mem_str name (cr_enable r) then true else flag)
  end.

(** parsed_rule.go: parsedRule.isEnabled; [acc] = checks enabled so far. *)
Definition prule_is_enabled (c : config) (e : entry) (acc : list prule) (p : prule) : bool :=
  let ck := pr_check p in
  if negb (mem_str (e_state e) (ck_states ck)) then false
  else if negb (is_enabled (c_enabled c) (e_disabled e) (e_comments e) (pr_name p) ck (pr_tags p) (pr_locked p)) then false
  else match scan_cfg_rules (c_rules c) (pr_name p) false with
       | None => false
       | Some true => true
       | Some false =>
           if negb (is_enabled (c_enabled c) (c_disabled c) (e_comments e) (pr_name p) ck (pr_tags p) (pr_locked p)) then false
           else negb (existsb (fun q => String.eqb (ck_string (pr_check q)) (ck_string ck)) acc)
       end.

(** config.go: the loop [for _, pr := range parsedRules] of GetChecksForEntry. *)
Definition route_step (c : config) (e : entry) (acc : list prule) (p : prule) : list prule :=
  if pr_matched p && prule_is_enabled c e acc p then acc ++ [p] else acc.

Definition get_checks_from (c : config) (e : entry) (acc : list prule) (prs : list prule) : list prule :=
  fold_left (route_step c e) prs acc.

Definition get_checks (c : config) (e : entry) (prs : list prule) : list prule :=
  get_checks_from c e [] prs.

(** config.go: which parsed rules GetChecksForEntry considers: the single ErrorCheck for a broken
    entry, otherwise base rules followed by the rules of every [rule {}] block. *)
Definition parsed_rules_for (has_error : bool) (error_rule : prule) (base configured : list prule) : list prule :=
  if has_error then [error_rule] else base ++ configured.

(** config.go: DisableOnlineChecks *)
Definition disable_online_checks (online disabled : list string) : list string :=
  fold_left (fun acc n => if mem_str n acc then acc else acc ++ [n]) online disabled.

(** config.go: SetDisabledChecks.  The Go code collects a set in a map and appends its members in map
    order; the model appends them in first-seen order, comparisons are up to permutation of the new part.
    [strict_match s n] = "^"+s+"$" compiles and matches n; since fix 72c92b8 a value that does not compile
    (e.g. the documented tag form promql/rate(+tag)) is only used as a raw string, i.e. matches no name. *)
Fixpoint dedup (l : list string) : list string :=
  match l with
  | [] => []
  | x :: r => if mem_str x r then dedup r else x :: dedup r
  end.

Definition set_disabled_checks (strict_match : string -> string -> bool) (names : list string)
           (flags disabled : list string) : list string :=
  let wanted := flat_map (fun s => s :: filter (strict_match s) names) flags in
  disabled ++ filter (fun n => negb (mem_str n disabled)) (dedup wanted).

(** cmd/pint/main.go actionSetup: --disabled, --enabled, --offline applied to the loaded configuration. *)
Definition apply_flags (strict_match : string -> string -> bool) (names online : list string)
           (flag_disabled flag_enabled : list string) (offline : bool) (c : config) : config :=
  let d1 := set_disabled_checks strict_match names flag_disabled (c_disabled c) in
  let en := match flag_enabled with [] => c_enabled c | _ => flag_enabled end in
  let d2 := if offline then disable_online_checks online d1 else d1 in
  {| c_enabled := en; c_disabled := d2; c_rules := c_rules c |}.

(** What a run emits: every enabled check is run on the entry; a problem carries the check's Reporter()
    (Gen/Tables.v [ct_sites]: every Problem literal of a check type uses [c.Reporter()]). *)
Definition emitted {P : Type} (run : check -> list P) (enabled : list prule) : list (string * P) :=
  flat_map (fun p => map (fun x => (ck_reporter (pr_check p), x)) (run (pr_check p))) enabled.

(** Well-formedness facts about a list of parsed rules, each checked on every correspondence case and,
    for the registration table, proved from Gen/Tables.v. *)

(** String() = name, or name followed by "(" ... *)
Fixpoint has_char (ch : Ascii.ascii) (s : string) : bool :=
  match s with
  | EmptyString => false
  | String c r => if Ascii.eqb c ch then true else has_char ch r
  end.

Definition plain_name (n : string) : bool := negb (has_char lparen n).

Definition string_shape (p : prule) : bool :=
  let n := pr_name p in
  let s := ck_string (pr_check p) in
  String.eqb s n ||
  (String.prefix n s && match String.get (String.length n) s with Some ch => Ascii.eqb ch lparen | None => false end).

(** Two parsed rules with the same String() have the same name and the same AlwaysEnabled flag. *)
Definition coherent_pair (p q : prule) : bool :=
  if String.eqb (ck_string (pr_check p)) (ck_string (pr_check q))
  then String.eqb (pr_name p) (pr_name q) && Bool.eqb (ck_always (pr_check p)) (ck_always (pr_check q))
  else true.

Definition wf_prules (prs : list prule) : bool :=
  forallb (fun p => plain_name (pr_name p) && string_shape p && forallb (coherent_pair p) prs) prs.

Definition names_are_reporters (prs : list prule) : bool :=
  forallb (fun p => String.eqb (pr_name p) (ck_reporter (pr_check p))) prs.
