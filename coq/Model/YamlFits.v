(** Executable form of the hypothesis of the C02 "lines inside the file" theorems: the coordinates yaml.v3 reported
    for a forest are inside a file of [T] lines (Proofs/C02_lines.v: [fits], soundness [fits_b_sound]).
    Evaluated on every correspondence case by Run/C02.v. *)
From Coq Require Import List String Ascii Arith Bool.
From PintV Require Import Common.Bytes Model.Yaml Model.Parser.
Import ListNotations.
Open Scope string_scope.

(** Number of entries of a [strings.Split(s, "\n")] result that are source lines: a final empty string (the text
    ended with a line break) is not a line. *)
Fixpoint elen (l : list string) : nat :=
  match l with
  | [] => 0
  | x :: r => match r with
              | [] => if String.eqb x "" then 0 else 1
              | _ :: _ => S (elen r)
              end
  end.

Fixpoint fits_b (T off : nat) (n : node) {struct n} : bool :=
  (Nat.leb 1 (n_line n) && Nat.leb 1 (n_col n) && Nat.leb (off + n_line n) T &&
   (fix all (l : list node) : bool := match l with [] => true | c :: r => fits_b T off c && all r end) (n_content n) &&
   match n_alias n with Some t => fits_b T off t | None => true end &&
   match n_embedded n with
   | Some e => Nat.leb (elen (split_lines (n_value n)) + (off + n_line n)) T && fits_b T (off + n_line n) e
   | None => true
   end)%bool.

Definition docs_fit (T : nat) (ds : list (node * nat)) : bool := forallb (fun d => fits_b T 0 (fst d)) ds.
