(** internal/config: the enable decision — [isDisabledForRule], [isEnabled] (rule.go), [parsedRule.isEnabled]
    (parsed_rule.go), the selection loop of [Config.GetChecksForEntry] (config.go) — and the file-level
    collection of disabled checks in [discovery.readRules].

    A check is what the decision reads of a [checks.RuleChecker]: the name it was registered under in
    parsed_rule.go ([pr_name]), [String()], [Meta().AlwaysEnabled], [Meta().States].  [Match.IsMatch] results are
    inputs ([pr_match], [cr_match]): they do not depend on comments.  Time is [now : Z] (ns). *)
From Coq Require Import List String Ascii NArith ZArith Bool.
From PintV Require Import Common.Bytes Model.CommentsUnicode Model.Comments.
Import ListNotations.
Open Scope string_scope.
Open Scope list_scope.

Record check := { ck_string : string; ck_always : bool; ck_states : list N }.

Record prule := {
  pr_name : string;        (* parsedRule.name *)
  pr_check : check;
  pr_tags : list string;
  pr_locked : bool;
  pr_match : bool          (* isMatch(ctx, entry, pr.ignore, pr.match) *)
}.

Record cfgrule := { cr_match : bool; cr_disable : list string; cr_enable : list string }.

Record entry := {
  e_comments : list comment;   (* entry.Rule.Comments *)
  e_disabled : list string;    (* entry.DisabledChecks (file/disable, live file/snooze) *)
  e_state : N
}.

(** the spellings a comment may use to target a check: name, String(), name(+tag) *)
Definition tag_match (name tag : string) : string := name ++ "(+" ++ tag ++ ")".

Definition matches (name cstr : string) (tags : list string) : list string :=
  name :: cstr :: map (tag_match name) tags.

Definition targets (m : string) (name cstr : string) (tags : list string) : bool := mem_str m (matches name cstr tags).

Section WithNow.
Variable now : Z.

(** does one rule comment disable the check? ([Until.After(time.Now())] = [now < until]) *)
Definition comment_disables (name cstr : string) (tags : list string) (c : comment) : bool :=
  match c_type c, c_val c with
  | DisableType, VDisable m => targets m name cstr tags
  | SnoozeType, VSnooze until m => (now <? until)%Z && targets m name cstr tags
  | _, _ => false
  end.

Definition is_disabled_for_rule (cs : list comment) (name cstr : string) (tags : list string) : bool :=
  existsb (comment_disables name cstr tags) cs.

(** one entry of a disabled list: [c == name || c == check.String() || c == name(+tag)] for some tag *)
Definition listed (name cstr : string) (tags : list string) (c : string) : bool :=
  String.eqb c name || String.eqb c cstr || existsb (fun t => String.eqb c (tag_match name t)) tags.

Definition is_enabled (enabledChecks disabledChecks : list string) (cs : list comment)
                      (name : string) (ck : check) (tags : list string) (locked : bool) : bool :=
  if ck_always ck then true
  else if negb locked && is_disabled_for_rule cs name (ck_string ck) tags then false
  else if existsb (listed name (ck_string ck) tags) disabledChecks then false
  else match enabledChecks with
       | [] => true
       | _ => mem_str name enabledChecks
       end.

Definition N_mem (x : N) (l : list N) : bool := existsb (N.eqb x) l.

(** the loop over cfg.Rules: [Some false] = disabled by a matching rule{disable}, [Some true] = enabled by one *)
Fixpoint cfg_decision (name : string) (rules : list cfgrule) (enabledBy : bool) : option bool :=
  match rules with
  | [] => if enabledBy then Some true else None
  | r :: t =>
    if negb (cr_match r) then cfg_decision name t enabledBy
    else if mem_str name (cr_disable r) then Some false
    else cfg_decision name t (enabledBy || mem_str name (cr_enable r))
  end.

(** [parsedRule.isEnabled]; [sofar] = String()s of the checks already selected for this entry *)
Definition parsed_rule_is_enabled (enabledChecks disabledChecks : list string) (sofar : list string)
                                  (e : entry) (cfg : list cfgrule) (pr : prule) : bool :=
  let ck := pr_check pr in
  if negb (N_mem (e_state e) (ck_states ck)) then false
  else if negb (is_enabled enabledChecks (e_disabled e) (e_comments e) (pr_name pr) ck (pr_tags pr) (pr_locked pr)) then false
  else match cfg_decision (pr_name pr) cfg false with
       | Some b => b
       | None =>
         if negb (is_enabled enabledChecks disabledChecks (e_comments e) (pr_name pr) ck (pr_tags pr) (pr_locked pr)) then false
         else negb (mem_str (ck_string ck) sofar)
       end.

(** the selection loop of [GetChecksForEntry]: the parsed rules selected for the entry, in order *)
Fixpoint select (enabledChecks disabledChecks : list string) (e : entry) (cfg : list cfgrule)
                (prs : list prule) (sofar : list prule) : list prule :=
  match prs with
  | [] => sofar
  | pr :: t =>
    if pr_match pr && parsed_rule_is_enabled enabledChecks disabledChecks (map (fun p => ck_string (pr_check p)) sofar) e cfg pr
    then select enabledChecks disabledChecks e cfg t (sofar ++ [pr])
    else select enabledChecks disabledChecks e cfg t sofar
  end.

Definition get_checks (enabledChecks disabledChecks : list string) (e : entry) (cfg : list cfgrule) (prs : list prule) : list prule :=
  select enabledChecks disabledChecks e cfg prs [].

(** [discovery.readRules]: DisabledChecks of every entry of a file, from the file-level comments the reader collected *)
Definition add_once (m : string) (l : list string) : list string := if mem_str m l then l else l ++ [m].

Definition file_disabled_step (acc : list string) (c : comment) : list string :=
  match c_type c, c_val c with
  | FileDisableType, VDisable m => add_once m acc
  | FileSnoozeType, VSnooze until m => if (now <? until)%Z then add_once m acc else acc
  | _, _ => acc
  end.

Definition file_disabled (file_comments : list comment) : list string := fold_left file_disabled_step file_comments [].

End WithNow.
