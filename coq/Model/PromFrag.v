(** The syntactic fragment [wf] of the soundness theorems (C04/C12): everything the semantics has a rule for,
    with the shape constraints the real parser guarantees (set operators are many-to-many, one-to-one matching
    has no group labels, the parameter of count_values is a string literal).  Since fix 392e95a
    [count_values("__name__", ...)] is inside the fragment. *)
From Coq Require Import List String Bool Floats NArith.
From PintV Require Import Common.Bytes Gen.C04 Model.PromQL Model.PromSem.
Import ListNotations.
Open Scope string_scope.
Open Scope list_scope.

Definition sem_class_known (f : string) : bool :=
  match sem_class f with SCNone => false | _ => true end.

Definition card_eqb (a b : card) : bool :=
  match a, b with
  | OneToOne, OneToOne | ManyToOne, ManyToOne | OneToMany, OneToMany | ManyToMany, ManyToMany => true
  | _, _ => false end.

Definition wf_agg (op : aggop) (param : option expr) : bool :=
  match op with
  | AOther => false
  | ACountValues => match lit_of param with Some _ => true | None => false end
  | _ => true
  end.

Definition wf_vm (op : binop) (vm : vmatch) : bool :=
  if is_setop op then card_eqb (vm_card vm) ManyToMany
  else match vm_card vm with
       | OneToOne => match vm_include vm with [] => true | _ => false end
       | ManyToMany => false
       | _ => true
       end.

(** the declared argument types agree with where the semantics looks for the vector argument *)
Definition wf_call (f : string) (ats : list vtype) (args : list expr) : bool :=
  match sem_class f with
  | SCNone => false
  | SCAbsent | SCDst => is_vec_or_matrix_t (arg_type_of ats 0)
  | SCTimeLike => match args with [] => true | _ => is_vec_or_matrix_t (arg_type_of ats 0) end
  | _ => true
  end.

Fixpoint wf (e : expr) : bool :=
  match e with
  | ENum _ | EStr _ | ESel _ => true
  | EMatrix e | ESubq e | EParen e | EUnary _ e => wf e
  | EAgg op _ _ param e => wf_agg op param && wf e
  | ECall f ats args => wf_call f ats args && forallb wf args
  | EBin op _ None l r => negb (is_setop op) && wf l && wf r
  | EBin op _ (Some vm) l r => wf_vm op vm && wf l && wf r
  end.
