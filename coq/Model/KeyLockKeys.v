(** C14 — how pint builds the partitionLocker key and the cache keys of a question
    (promapi/query.go, range.go, config.go, flags.go, metadata.go).  The cache key is modelled as the tuple
    of strings that is hashed (after the server URI), i.e. xxhash is treated as injective.  Definitions only. *)
From Coq Require Import List String.
Import ListNotations.
Local Open Scope string_scope.

Definition path_query := "/api/v1/query".
Definition path_range := "/api/v1/query_range".
Definition path_config := "/api/v1/status/config".
Definition path_flags := "/api/v1/status/flags".
Definition path_metadata := "/api/v1/metadata".

Inductive question :=
| QInstant (expr : string)
| QConfig
| QFlags
| QMetadata (metric : string)
| QRange (expr lookback step : string).      (* lookback/step as printed by output.HumanizeDuration *)

(** prom.locker.lock(key) *)
Definition lock_key (q : question) : string :=
  match q with
  | QInstant e => path_query ++ e
  | QConfig => path_config
  | QFlags => path_flags
  | QMetadata m => path_metadata ++ m
  | QRange e lb st => path_range ++ "/" ++ e ++ "/" ++ lb ++ "/" ++ st
  end.

(** The repaired key of notes/candidate-fixes/C14-range-lock-key.patch. *)
Definition lock_key_fixed (q : question) : string :=
  match q with
  | QRange e lb st => path_range ++ "/" ++ e ++ "/" ++ st
  | _ => lock_key q
  end.

(** querier.CacheKey(): the hashed components; a range question has one per slice (start, end as formatted). *)
Definition cache_keys (q : question) (slices : list (string * string)) : list (list string) :=
  match q with
  | QInstant e => [[path_query; e]]
  | QConfig => [[path_config]]
  | QFlags => [[path_flags]]
  | QMetadata m => [[path_metadata; m]]
  | QRange e _ st => map (fun s => [path_range; e; fst s; snd s; st]) slices
  end.

Definition is_range (q : question) : bool := match q with QRange _ _ _ => true | _ => false end.
