(** C14 — how pint builds the partitionLocker key and the cache keys of a question
    (promapi/query.go, range.go, config.go, flags.go, metadata.go).

    The key construction is NOT hand-written here: [Gen.C14.key_table] is regenerated from the Go AST on every run
    (translator/ext_C14.go): per API method the parts of the lock key it takes and the parts hashed into the cache
    key of the requests it enqueues; a part is a string literal or a variable (a parameter of the call, the server
    URI, the start/end of a slice).  This file interprets such a table ([lock_str], [cache_val]) and gives the
    decidable criterion [table_ok] under which the lock key determines the cache keys.  The cache key is modelled as
    the list of hashed strings, i.e. xxhash is treated as injective.  Definitions only. *)
From Coq Require Import List String Bool.
From PintV Require Import Common.Bytes.
From PintV Require Gen.C14.
Import ListNotations.
Local Open Scope string_scope.

(** a key part: (true, literal) or (false, variable name) *)
Definition comp := (bool * string)%type.

Record key_row := mk_row { kr_kind : string; kr_sep : string; kr_lock : list comp; kr_cache : list comp }.

Definition row_of (t : string * string * list comp * list comp) : key_row :=
  let '(k, sep, l, c) := t in mk_row k sep l c.

(** the table of the current source tree *)
Definition key_table : list key_row := map row_of Gen.C14.key_table.

(** the variables whose value differs between the slices of ONE range question.  "slice_start" / "slice_end" are whatever the
    source hashes for the slice's bounds - opaque values: the formatted start; the formatted end, the last evaluated grid point or
    (since c5439fe) the number of grid points computed from start, end and step *)
Definition slice_vars : list string := ["slice_start"; "slice_end"].

Definition env := string -> string.

Definition cval (e : env) (c : comp) : string := if fst c then snd c else e (snd c).

(** prom.locker.lock(key): the parts joined by the separator ("a" + b  has separator "") *)
Definition lock_str (r : key_row) (e : env) : string := String.concat (kr_sep r) (map (cval e) (kr_lock r)).

(** querier.CacheKey(): the hashed strings *)
Definition cache_val (r : key_row) (e : env) : list string := map (cval e) (kr_cache r).

(* ---- the criterion ---------------------------------------------------------------------------- *)

Definition comp_eqb (a b : comp) : bool := Bool.eqb (fst a) (fst b) && String.eqb (snd a) (snd b).

Fixpoint comps_eqb (a b : list comp) : bool :=
  match a, b with
  | [], [] => true
  | x :: a', y :: b' => comp_eqb x y && comps_eqb a' b'
  | _, _ => false
  end.

(** two hashed lists can never be equal: different lengths, or different literals at the same position *)
Fixpoint lits_differ (a b : list comp) : bool :=
  match a, b with
  | [], [] => false
  | [], _ :: _ | _ :: _, [] => true
  | x :: a', y :: b' => (fst x && fst y && negb (String.eqb (snd x) (snd y))) || lits_differ a' b'
  end.

Definition vars_of (l : list comp) : list string := map snd (filter (fun c => negb (fst c)) l).

(** every variable of the lock key is hashed into the cache key, and the lock key does not depend on the slice *)
Definition row_ok (r : key_row) : bool :=
  forallb (fun v => mem_str v (vars_of (kr_cache r)) && negb (mem_str v slice_vars)) (vars_of (kr_lock r)).

Definition same_row (r1 r2 : key_row) : bool :=
  String.eqb (kr_sep r1) (kr_sep r2) && comps_eqb (kr_lock r1) (kr_lock r2) && comps_eqb (kr_cache r1) (kr_cache r2).

Definition pair_ok (r1 r2 : key_row) : bool :=
  lits_differ (kr_cache r1) (kr_cache r2) || (same_row r1 r2 && row_ok r1).

Definition table_ok (t : list key_row) : bool := forallb (fun r1 => forallb (pair_ok r1) t) t.

(* ---- questions (the harness' key table speaks about these) ------------------------------------- *)

Inductive question :=
| QInstant (expr : string)
| QConfig
| QFlags
| QMetadata (metric : string)
| QRange (expr lookback step : string).      (* lookback/step as printed by output.HumanizeDuration *)

Definition q_kind (q : question) : string :=
  match q with QInstant _ => "query" | QConfig => "config" | QFlags => "flags" | QMetadata _ => "metadata" | QRange _ _ _ => "range" end.

(** the values of the variables the translator knows about, for a question asked of server "uri" *)
Definition q_env (q : question) : env := fun v =>
  if String.eqb v "uri" then "uri" else
  match q with
  | QInstant e => if String.eqb v "expr" then e else ""
  | QMetadata m => if String.eqb v "metric" then m else ""
  | QRange e lb st =>
      if String.eqb v "expr" then e
      else if String.eqb v "humanize(params.Step())" then st
      else if String.eqb v "humanize(params.Dur())" then lb
      else if String.eqb v "params.String()" then lb ++ "/" ++ st
      else ""
  | _ => ""
  end.

Definition find_row (k : string) (t : list key_row) : option key_row := find (fun r => String.eqb (kr_kind r) k) t.

(** the lock key the current source takes for a question *)
Definition lock_key (q : question) : string :=
  match find_row (q_kind q) key_table with
  | Some r => lock_str r (q_env q)
  | None => ""
  end.

(** an environment with the slice-dependent variables set *)
Definition with_slice (e : env) (sl : string * string) : env := fun v =>
  if String.eqb v "slice_start" then fst sl else if String.eqb v "slice_end" then snd sl else e v.

(* ---- historical table (before fix fb76e32): the range lock key was path/expr/params.String(), i.e. it
        contained the lookback, which no slice's cache key contains.  Only for the refutation theorem. *)
Definition key_table_prefix : list key_row :=
  map (fun r => if String.eqb (kr_kind r) "range"
                then mk_row "range" "/" [(true, "/api/v1/query_range"); (false, "expr"); (false, "params.String()")] (kr_cache r)
                else r) key_table.
