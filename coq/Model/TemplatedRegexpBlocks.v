(** C18 — the TemplatedRegexp protocol at the level of whole `rule {}` sub-blocks: what [validate()] checks at load
    (internal/config/{annotation,reject,rule_name,rule_link,aggregate}.go), what [parseRule] builds from the same
    strings with the error-dropping Must constructors (internal/config/parsed_rule.go), and which of the built
    pointers the check dereferences (internal/checks/{alerts_annotation,rule_label,rule_reject,rule_name,rule_link,
    promql_aggregation}.go: String() on every rule, MustExpand inside Check).

    A nil *TemplatedRegexp is BOTH "this option was not set" (guarded by `!= nil` in the checks) and "the dropped error
    of a Must constructor": the model keeps that confusion ([option templated]) — it is why an invalid token / value /
    reject regexp would silently disable the option rather than crash, and why only the unguarded pointers matter.
    Definitions only. *)
From Coq Require Import List String Bool.
From PintV Require Import Common.Bytes Model.TemplatedRegexp.
Import ListNotations.
Open Scope string_scope.
Open Scope list_scope.

(** `annotation "<key>" { token = ..  value = .. }` and `label "<key>" { .. }` share AnnotationSettings *)
Record kv_settings := { ks_key : string; ks_token : string; ks_value : string }.

(** the pointers of AnnotationCheck / LabelCheck *)
Record kv_check := { kc_key : option templated; kc_token : option templated; kc_value : option templated }.

(** the pointers of one Reject check *)
Record reject_check := { rc_key : option templated; rc_value : option templated }.

Section Oracles.
  Variables (Tmpl Re : Type).
  Variable tmpl_parse : string -> option Tmpl.
  Variable tmpl_exec : Tmpl -> tctx -> option string.
  Variable re_compile : string -> option Re.

  Notation new_t := (new_templated Tmpl Re tmpl_parse tmpl_exec re_compile).
  Notation new_raw := (new_raw_templated Tmpl Re tmpl_parse tmpl_exec re_compile).
  Notation must_t := (must_templated Tmpl Re tmpl_parse tmpl_exec re_compile).
  Notation must_raw := (must_raw_templated Tmpl Re tmpl_parse tmpl_exec re_compile).
  Notation valid_t := (validate_templated Tmpl Re tmpl_parse tmpl_exec re_compile).
  Notation valid_raw := (validate_raw_templated Tmpl Re tmpl_parse tmpl_exec re_compile).
  Notation mexpand := (must_expand Tmpl Re tmpl_parse tmpl_exec re_compile).
  Notation use := (use_site Tmpl Re tmpl_parse tmpl_exec re_compile).

  (** AnnotationSettings.validate (the severity option is not part of this protocol): key not empty; key, token and
      value each go through the constructor the check is later built with — token and value UNCONDITIONALLY *)
  Definition validate_kv (s : kv_settings) : bool :=
    negb (String.eqb (ks_key s) "") && valid_t (ks_key s) && valid_raw (ks_token s) && valid_t (ks_value s).

  (** parseRule: key always, token and value only when set *)
  Definition build_kv (s : kv_settings) : kv_check :=
    {| kc_key := must_t (ks_key s);
       kc_token := if String.eqb (ks_token s) "" then None else must_raw (ks_token s);
       kc_value := if String.eqb (ks_value s) "" then None else must_t (ks_value s) |}.

  (** (Annotation|Label)Check.String(), called for every check on every rule (disable comments, locked rules):
      dereferences keyRe; valueRe only behind `!= nil` *)
  Definition kv_string (name : string) (required : bool) (c : kv_check) : outcome string :=
    match kc_key c with
    | None => Crash "nil *TemplatedRegexp dereferenced (keyRe.original)"
    | Some k =>
        let req := if required then "true" else "false" in
        match kc_value c with
        | Some v => Ok (name ++ "(" ++ t_original k ++ "=~" ++ t_anchored v ++ ":" ++ req ++ ")")%string
        | None => Ok (name ++ "(" ++ t_original k ++ ":" ++ req ++ ")")%string
        end
    end.

  (** every regexp Check may ask for on a rule: keyRe unguarded, tokenRe / valueRe behind `!= nil` *)
  Definition kv_uses (c : kv_check) (r : trule) : list (outcome Re) :=
    use (kc_key c) r ::
    (match kc_token c with Some t => [mexpand t r] | None => [] end) ++
    (match kc_value c with Some t => [mexpand t r] | None => [] end).

  (** RejectSettings.validate / parseRule / Reject: one regexp, used as key or value pattern of up to four checks, every
      use behind `!= nil` *)
  Definition validate_reject (regex : string) : bool := valid_t regex.

  Definition build_reject (regex : string) (label_keys label_values annotation_keys annotation_values : bool) : list reject_check :=
    let re := must_t regex in
    (if label_keys then [{| rc_key := re; rc_value := None |}] else []) ++
    (if label_values then [{| rc_key := None; rc_value := re |}] else []) ++
    (if annotation_keys then [{| rc_key := re; rc_value := None |}] else []) ++
    (if annotation_values then [{| rc_key := None; rc_value := re |}] else []).

  Definition reject_uses (c : reject_check) (r : trule) : list (outcome Re) :=
    (match rc_key c with Some t => [mexpand t r] | None => [] end) ++
    (match rc_value c with Some t => [mexpand t r] | None => [] end).

  (** `name "<re>" {}`, `link "<re>" {}`: validate = the constructor; parseRule = Must constructor, unconditionally;
      String() reads c.re.anchored and Check calls c.re.MustExpand: both unguarded *)
  Definition validate_single (regex : string) : bool := valid_t regex.
  Definition build_single (regex : string) : option templated := must_t regex.
  Definition single_string (name : string) (c : option templated) : outcome string :=
    match c with
    | None => Crash "nil *TemplatedRegexp dereferenced (re.anchored)"
    | Some t => Ok (name ++ "(" ++ t_anchored t ++ ")")%string
    end.
  Definition single_uses (c : option templated) (r : trule) : list (outcome Re) := [use c r].

  (** `aggregate "<re>" {}`: validate rejects the empty name and calls the constructor; parseRule builds under
      `Name != ""` (nil otherwise); Check calls c.nameRegex.MustExpand unguarded *)
  Definition validate_aggregate (name : string) : bool := negb (String.eqb name "") && valid_t name.
  Definition build_aggregate (name : string) : option templated := if String.eqb name "" then None else must_t name.
End Oracles.

Definition is_ok {A} (o : outcome A) : bool := match o with Ok _ => true | Crash _ => false end.
