(** The verdicts promql/impossible reports at an operation node, the class predicates of the OPEN known findings
    (K1 K2 K3 K6 K7) as executable Gallina definitions -- the harness mirrors exactly these in Go and every
    correspondence case cross-checks the two ([class_rows], tag "classes") -- and the fragment predicates under which
    the top-level theorem of C12 is proved. *)
From Coq Require Import List String Bool Floats NArith.
From PintV Require Import Common.Bytes Gen.C04 Model.PromQL Model.PromSem Model.PromAlways.
Import ListNotations.
Open Scope string_scope.
Open Scope list_scope.

(** operands through which result branches flow (the aggregation parameter is not one) *)
Definition kids (e : expr) : list expr :=
  match e with
  | EAgg _ _ _ _ e1 => [e1]
  | _ => children e
  end.

Inductive subterm : expr -> expr -> Prop :=
| st_refl : forall e, subterm e e
| st_step : forall n c e, In c (kids e) -> subterm n c -> subterm n e.

(** "some node of the expression satisfies f" -- every node the harness' pqNodes visits (aggregation parameter and
    all call arguments included) *)
Fixpoint any_node (f : expr -> bool) (e : expr) {struct e} : bool :=
  f e ||
  match e with
  | ENum _ | EStr _ | ESel _ => false
  | EMatrix e1 | ESubq e1 | EParen e1 | EUnary _ e1 => any_node f e1
  | EAgg _ _ _ p e1 => (match p with Some pe => any_node f pe | None => false end) || any_node f e1
  | ECall _ _ args => (fix go (l : list expr) : bool := match l with [] => false | a :: r => any_node f a || go r end) args
  | EBin _ _ _ l r => any_node f l || any_node f r
  end.

(** the four kinds of dead-code verdict source.go introduces, all at binary operation nodes *)
Inductive verdict := VJoin | VStatic | VUnlessOn | VOrRhs.

(** ** class predicates of the open known findings (decided at the node that introduces the verdict) *)

(** K1: static comparison folding under the [bool] modifier *)
Definition k1_class (n : expr) : bool :=
  match n with EBin op true _ _ _ => is_comparison op | _ => false end.

(** K6: static comparison folding where an operand is not a syntactic constant (ReturnedNumber is not the value) *)
Definition const_ok (e : expr) : bool := match const_val e with Some _ => true | None => false end.
Definition k6_class (n : expr) : bool :=
  match n with EBin op _ _ l r => is_comparison op && negb (const_ok l && const_ok r) | _ => false end.

(** K2: [or] other than [or on()] whose right hand side is dead because the left hand side always returns *)
Definition k2_class (n : expr) : bool :=
  match n with EBin OOr _ (Some vm) _ _ => negb (on_empty vm) | _ => false end.

(** K7: the deciding operand of [unless on()] / [or on()] contains an operator that can drop every series while the
    analyser keeps AlwaysReturns *)
Definition k7_node (n : expr) : bool :=
  match n with
  | EBin _ _ (Some _) _ _ => true
  | ECall f _ _ => String.eqb f "clamp"
  | EAgg ATopk _ _ _ _ | EAgg ABottomk _ _ _ _ => true
  | _ => false
  end.
Definition k7_op (e : expr) : bool := any_node k7_node e.
Definition k7_class (n : expr) (v : verdict) : bool :=
  match n, v with
  | EBin OUnless _ (Some _) _ r, VUnlessOn => k7_op r
  | EBin OOr _ (Some vm) l _, VOrRhs => on_empty vm && k7_op l
  | _, _ => false
  end.

(** K3: a join verdict on label [l] that the driving side need not carry, explained by one of the four mechanisms *)
Definition pos_matcher (l : string) (e : expr) : bool :=
  any_node (fun n => match n with
                     | ESel ms => existsb (fun m => String.eqb (m_name m) l &&
                                                    match m_type m with MEq | MRe => true | _ => false end) ms
                     | _ => false end) e.

Definition k3_mech_node (l : string) (n : expr) : bool :=
  match n with
  | EBin _ _ (Some vm) _ _ => (vm_on vm && mem_str l (vm_labels vm)) || mem_str l (vm_include vm)
  | ECall f _ args =>
      ((String.eqb f "label_replace" || String.eqb f "label_join") &&
       match lit_of (nth_error args 1) with Some d => String.eqb d l | None => false end)
      || (if mem_str f ["vector"; "scalar"; "absent"; "absent_over_time"; "label_replace"; "label_join"; "sort"; "sort_desc"; "time"; "pi"]
          then false else pos_matcher l n)
  | EAgg ACountValues _ _ p _ => match lit_of p with Some d => String.eqb d l | None => false end
  | _ => false
  end.

Definition k3_mech (vm : vmatch) (many : expr) (l : string) : bool :=
  (vm_on vm && mem_str l (vm_labels vm)) || any_node (k3_mech_node l) many.

Definition many_side (vm : vmatch) (l r : expr) : expr := match vm_card vm with OneToMany => r | _ => l end.
Definition other_side (vm : vmatch) (l r : expr) : expr := match vm_card vm with OneToMany => l | _ => r end.

Definition k3_class (U : list string) (n : expr) (l : string) : bool :=
  match n with
  | EBin _ _ (Some vm) a b => negb (String.eqb l "") && negb (must_have U (many_side vm a b) l) && k3_mech vm (many_side vm a b) l
  | _ => false
  end.

(** ** the fragment in which the verdicts are PROVED sound (what lies between it and the classes is tested only) *)
Definition plain_match (vm : option vmatch) : bool :=
  match vm with
  | None => true
  | Some vm => match vm_card vm with OneToOne => negb (vm_on vm) | _ => false end
  end.

Definition join_label_ok (U : list string) (vm : vmatch) (many : expr) (l : string) : bool :=
  (must_have U many l && (vm_on vm || negb (String.eqb l metric_name)))
  || (negb (vm_on vm) && match vm_include vm with [] => true | _ => false end && k3_free many
      && mem_str l U && negb (String.eqb l metric_name)).

Definition in_fragment (n : expr) (v : verdict) : bool :=
  match n with
  | EBin op rb vm l r =>
      match v with
      | VStatic => negb rb && is_comparison op && plain_match vm && const_ok l && const_ok r
      | VUnlessOn => match vm with Some vm => binop_eqb op OUnless && on_empty vm && k7_free_vec r | None => false end
      | VOrRhs => match vm with Some vm => binop_eqb op OOr && on_empty vm && k7_free_vec l | None => false end
      | VJoin => match vm with Some _ => negb (binop_eqb op OOr) | None => false end  (* per label: [join_label_ok] *)
      end
  | _ => false
  end.

(** ** cross-check table: one row per binary node, in the pre-order of the harness *)
Fixpoint bin_nodes (e : expr) {struct e} : list expr :=
  match e with
  | ENum _ | EStr _ | ESel _ => []
  | EMatrix e1 | ESubq e1 | EParen e1 | EUnary _ e1 => bin_nodes e1
  | EAgg _ _ _ p e1 => (match p with Some pe => bin_nodes pe | None => [] end) ++ bin_nodes e1
  | ECall _ _ args => (fix go (l : list expr) : list expr := match l with [] => [] | a :: r => bin_nodes a ++ go r end) args
  | EBin _ _ _ l r => e :: bin_nodes l ++ bin_nodes r
  end.

Definition class_row (labels : list string) (n : expr) : list bool :=
  match n with
  | EBin op rb vm l r =>
      [k1_class n; k2_class n; k6_class n; k7_op l; k7_op r;
       (* proved-fragment predicates *)
       plain_match vm && const_ok l && const_ok r; k7_free_vec l; k7_free_vec r]
      ++ match vm with
         | Some vm => k3_free (many_side vm l r) :: map (k3_mech vm (many_side vm l r)) labels
         | None => []
         end
  | _ => []
  end.

Definition class_rows (labels : list string) (e : expr) : list (list bool) := map (class_row labels) (bin_nodes e).
