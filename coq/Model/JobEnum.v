(** C11 model of how checkRules/scanWorker build reports: one job per (entry, check) in the order the producer
    goroutine enqueues them (entries in discovery order, checks in GetChecksForEntry order); a job's reports are the
    check's problems, in order, each wrapped with the fields of the job's ENTRY:

      reporter.Report{ Path: job.entry.Path, ModifiedLines: job.entry.ModifiedLines, Rule: job.entry.Rule,
                       Problem: problem, Owner: job.entry.Owner }

    What a check answers is opaque (a list of problems per job).  Executable definitions only. *)
From Coq Require Import List String ZArith NArith Bool.
From PintV Require Import Common.Bytes Model.SummarySort.
Import ListNotations.

(** the fields of discovery.Entry a report copies ([e_rule] = class of entry.Rule under IsSame, [e_name] = Rule.Name()) *)
Record jentry := { e_path : string; e_target : string; e_owner : string; e_rule : N; e_name : string;
                   e_rfirst : Z; e_rlast : Z   (* entry.Rule.Lines *) }.

(** checks.Problem *)
Record problem := { p_reporter : string; p_summary : string; p_details : string; p_diags : list diag;
                    p_lfirst : Z; p_llast : Z; p_sev : Z; p_anchor_before : bool }.

(** the Report literal of scanWorker *)
Definition mk_report (e : jentry) (p : problem) : report :=
  {| r_path := e_path e; r_target := e_target e; r_owner := e_owner e; r_rule := e_rule e; r_name := e_name e;
     r_reporter := p_reporter p; r_summary := p_summary p; r_details := p_details p; r_diags := p_diags p;
     r_lfirst := p_lfirst p; r_llast := p_llast p; r_sev := p_sev p; r_anchor_before := p_anchor_before p;
     r_rfirst := e_rfirst e; r_rlast := e_rlast e |}.

(** a job = its entry and what its check answered *)
Definition job := (jentry * list problem)%type.
Definition run_job (j : job) : list report := map (mk_report (fst j)) (snd j).

