(** C06: what it means for positions to SPELL a value, the executable guard [lay_ok] under which the greedy
    matcher of [NewPositionRange] provably spells the value, and the layout relations that describe how a
    YAML presenter places a scalar of each style in the file (the relations imply the guard; see Proofs).

    Executable definitions and inductive relations only. *)
From Coq Require Import List String Ascii ZArith NArith Bool Lia.
From PintV Require Import Common.Bytes Model.CommentsUnicode Model.Position.
Import ListNotations.
Local Open Scope Z_scope.
Local Open Scope list_scope.

(** ** "The positions spell the value" *)

Fixpoint all_newlines (s : string) : bool :=
  match s with
  | EmptyString => true
  | String c r => Ascii.eqb c newline && all_newlines r
  end.

(** A byte [f] read from the file stands for the value byte [v]: the same byte, or a line break of the file
    standing for the ' ' that YAML line folding made of it. *)
Definition fold_char_eq (f v : ascii) : bool :=
  Ascii.eqb f v || (Ascii.eqb f newline && Ascii.eqb v space).

(** [rb] (read back from the file) spells a prefix of [v] and the rest of [v] is line breaks only. *)
Fixpoint spell_match (rb v : string) : bool :=
  match rb with
  | EmptyString => all_newlines v
  | String f rb' =>
      match v with
      | String c v' => fold_char_eq f c && spell_match rb' v'
      | EmptyString => false
      end
  end.

(** Same length, byte for byte up to folding. *)
Fixpoint fold_eq (rb v : string) : bool :=
  match rb, v with
  | EmptyString, EmptyString => true
  | String f rb', String c v' => fold_char_eq f c && fold_eq rb' v'
  | _, _ => false
  end.

(** THE formal reading of "the position ranges, read back from the file, spell exactly the field's value in
    order": every position is inside the file, and the bytes found there are the value minus trailing
    line breaks, a file line break standing for a folded ' ' or a '\n'. *)
Definition spells (lines : list string) (pos : list prange) (value : string) : Prop :=
  exists rb, read_back lines pos = Some rb /\ spell_match rb value = true.

Definition spells_b (lines : list string) (pos : list prange) (value : string) : bool :=
  match read_back lines pos with
  | Some rb => spell_match rb value
  | None => false
  end.

(** [pick_str v idx a b]: the bytes of [v] whose 1-based index (counting from [idx+1]) lies in [a..b]. *)
Fixpoint pick_str (v : string) (idx a b : Z) : string :=
  match v with
  | EmptyString => EmptyString
  | String c r =>
      let idx' := idx + 1 in
      if (a <=? idx') && (idx' <=? b) then String c (pick_str r idx' a b) else pick_str r idx' a b
  end.

(** Go's [value[a-1:b]] for 1-indexed inclusive offsets [a..b] (what a diagnostic's FirstColumn/LastColumn
    denote): the bytes of [v] with index in [a..b]. *)
Definition slice1 (a b : Z) (v : string) : string := pick_str v 0 a b.

(** ** The guard of the matcher *)

(** Greedy scan of [bytes] for the remaining value [need :: rest]: (did anything match, what is left of the
    value); [None] = the value was exhausted on this line. *)
Fixpoint gscan (bytes : string) (need : ascii) (rest : string) : bool * option (ascii * string) :=
  match bytes with
  | EmptyString => (false, Some (need, rest))
  | String got more =>
      if Ascii.eqb need got then
        match rest with
        | EmptyString => (true, None)
        | String n r => (true, snd (gscan more n r))
        end
      else gscan more need rest
  end.

(** [lay_ok ls col minCol pending need rest]: walking the lines [ls] from column [col] (then [minCol]) the
    matcher exhausts the remaining value [need :: rest] up to trailing line breaks.  [pending] = the fold byte
    consumed by the previous line break ([None] = that break consumed nothing).
    This is ONLY a completeness condition (the scan of every line finds its segment, Appendix C g1): since the
    fix commits the positions spell a prefix of the value UNCONDITIONALLY (theorem [C06_positions_spell_prefix]);
    the former conditions g2 (trailing blanks), g3 (one value byte per line break) and g4 (header bytes) are gone.
    What remains: when the lines run out, or the value ends in a consumed break, only line breaks may be left
    (a consumed break gets its position on the NEXT iteration, so a trailing consumed ' ' would be lost). *)
Fixpoint no_backslash_b (s : string) : bool :=
  match s with
  | EmptyString => true
  | String c r => negb (Ascii.eqb c backslash) && no_backslash_b r
  end.

(** [dq] = the node is double quoted: the guard then also requires that the scanned part of every line contains no
    backslash (no escape sequence: the scan is the plain byte scan); double-quoted scalars WITH escapes are outside
    the guard (self-escapes: correspondence and oracle only; hidden bytes: known finding C06-dq-escape). *)
Fixpoint lay_ok (dq : bool) (ls : list string) (col minCol : Z) (pending : option ascii) (need : ascii) (rest : string) : bool :=
  match ls with
  | [] =>
      match pending with
      | Some c => Ascii.eqb c newline
      | None => true
      end && all_newlines (String need rest)
  | line :: more =>
      let res :=
        if slen line =? 0 then Some (false, Some (need, rest))
        else match adjust_col line col need rest with
             | None => None
             | Some col2 =>
                 if dq && negb (no_backslash_b (sdrop (Z.to_nat (col2 - 1)) line)) then None
                 else Some (gscan (sdrop (Z.to_nat (col2 - 1)) line) need rest)
             end in
      match res with
      | None => false
      | Some (_, None) => true
      | Some (_, Some (n, r)) =>
          if is_fold_char n then
            match r with
            | EmptyString => Ascii.eqb n newline
            | String n' r' => lay_ok dq more minCol minCol (Some n) n' r'
            end
          else lay_ok dq more minCol minCol None n r
      end
  end.

(** The guard for a whole node (mirrors [new_position_range]). *)
Definition node_ok (lines : list string) (n : snode) (minCol : Z) : bool :=
  match sn_value n with
  | EmptyString => false
  | String need rest =>
      (* a value of line breaks only gets no position at all: the one-column fallback is returned *)
      negb (all_newlines (String need rest)) &&
      if sn_block n then
        (0 <=? sn_line n) &&
        lay_ok (sn_dq n) (skipn (Z.to_nat (sn_line n)) lines) minCol minCol None need rest
      else
        (1 <=? sn_line n) &&
        let ls := skipn (Z.to_nat (sn_line n - 1)) lines in
        let col0 := match ls with
                    | l :: _ => if slen l =? 0 then sn_col n else first_col l n
                    | [] => sn_col n
                    end in
        lay_ok (sn_dq n) ls col0 minCol None need rest
  end.

Definition no_newline (s : string) : Prop := forall k, String.get k s <> Some newline.

Fixpoint no_newline_b (s : string) : bool :=
  match s with
  | EmptyString => true
  | String c r => negb (Ascii.eqb c newline) && no_newline_b r
  end.

(** ** Layout relations: how a presenter places a scalar of each style *)

Fixpoint spaces (n : nat) : string :=
  match n with O => EmptyString | S n' => String space (spaces n') end.

Fixpoint sjoin (sep : string) (l : list string) : string :=
  match l with
  | [] => EmptyString
  | [x] => x
  | x :: r => (x ++ sep ++ sjoin sep r)%string
  end.

Fixpoint repeat_char (c : ascii) (n : nat) : string :=
  match n with O => EmptyString | S n' => String c (repeat_char c n') end.

Fixpoint mem_char (c : ascii) (s : string) : bool :=
  match s with
  | EmptyString => false
  | String d r => Ascii.eqb c d || mem_char c r
  end.

Definition first_char (s : string) : option ascii :=
  match s with String c _ => Some c | EmptyString => None end.

Definition starts_with_space (s : string) : bool :=
  match s with String c _ => Ascii.eqb c space | EmptyString => false end.

(** [value] is a subsequence of [src] (greedy-leftmost embedding exists). *)
Fixpoint subseq (value src : string) : bool :=
  match src with
  | EmptyString => match value with EmptyString => true | _ => false end
  | String b src' =>
      match value with
      | EmptyString => true
      | String a value' => if Ascii.eqb a b then subseq value' src' else subseq value src'
      end
  end.

(** [Sub v src]: [v] can be obtained from [src] by deleting bytes (an embedding exists). *)
Inductive Sub : string -> string -> Prop :=
| Sub_nil : forall src, Sub EmptyString src
| Sub_take : forall c v src, Sub v src -> Sub (String c v) (String c src)
| Sub_skip : forall c v src, Sub v src -> Sub v (String c src).

(** single-quoted presentation: every ' doubled *)
Fixpoint sq_escape (v : string) : string :=
  match v with
  | EmptyString => EmptyString
  | String c r => if Ascii.eqb c "'"%char then String c (String c (sq_escape r)) else String c (sq_escape r)
  end.

(** double-quoted presentation with the two escapes that keep the byte in the source:
    backslash-doublequote and backslash-backslash *)
Fixpoint dq_escape_simple (v : string) : string :=
  match v with
  | EmptyString => EmptyString
  | String c r =>
      if Ascii.eqb c """"%char || Ascii.eqb c "\"%char
      then String "\"%char (String c (dq_escape_simple r))
      else String c (dq_escape_simple r)
  end.

(** The line [sn_line n] of the file, and the scalar token starting at byte column [sn_col n]. *)
Definition line_at (lines : list string) (l : Z) : option string :=
  if 1 <=? l then nth_error lines (Z.to_nat (l - 1)) else None.

(** One-line scalar: from its (byte) column on, the line reads [token ++ post]. *)
(** yaml.v3 reports the column in characters; the theorems are stated for scalars preceded by ASCII text on their
    line, where characters are bytes (a non-ASCII prefix is converted by [byte_column]: correspondence-tested, and
    the example [C06_multibyte_prefix_fixed]). *)
Fixpoint ascii_only (s : string) : bool :=
  match s with
  | EmptyString => true
  | String c r => N.ltb (N_of_ascii c) 128 && ascii_only r
  end.

Definition one_line (lines : list string) (n : snode) (token : string) : Prop :=
  exists l pre post,
    line_at lines (sn_line n) = Some l /\
    l = (pre ++ token ++ post)%string /\
    ascii_only pre = true /\
    sn_col n = slen pre + 1.

(** [DoubleQuotedSimple]: a double-quoted scalar none of whose bytes needs an escape and whose line contains no
    backslash from the scalar on (see [one_line_noesc]); double-quoted scalars with the self-escapes are decoded token by
    token by the scanner and are covered by the correspondence and the oracle, not by a layout theorem. *)
Inductive style1 := Plain | SingleQuoted | DoubleQuotedSimple.

(** Presentation token of a non-empty value in a one-line style. *)
Definition token_of (st : style1) (v : string) : string :=
  match st with
  | Plain => v
  | SingleQuoted => (String "'"%char (sq_escape v) ++ String "'"%char EmptyString)%string
  | DoubleQuotedSimple => (String """"%char (dq_escape_simple v) ++ String """"%char EmptyString)%string
  end.

(** [Lay1 st lines n]: the node's non-empty value is presented on one line in style [st]. For plain scalars
    the value neither starts nor ends with a space (YAML strips them). *)
Definition Lay1 (st : style1) (lines : list string) (n : snode) : Prop :=
  sn_value n <> EmptyString /\ all_newlines (sn_value n) = false /\
  sn_block n = false /\ sn_anchor n = EmptyString /\
  sn_dq n = match st with DoubleQuotedSimple => true | _ => false end /\
  one_line lines n (token_of st (sn_value n)) /\
  (st = Plain -> starts_with_space (sn_value n) = false) /\
  (st = DoubleQuotedSimple ->
     exists l, line_at lines (sn_line n) = Some l /\ no_backslash_b (sdrop (Z.to_nat (sn_col n - 1)) l) = true).

(** Block scalars ([|] literal, [>] folded).  The key line reads [keyline_pre ++ header] where [header] is the
    rest of the line from the indicator on (indicator, chomping/indentation indicators, blanks, comment).  The
    content follows: a first non-blank line [spaces indent ++ first], then further items — a non-blank line
    [spaces indent ++ body] (the body may start with blanks in a literal block: more-indented lines) or, in a
    literal block only, a blank line of [n] spaces.  The value is the texts joined by the separator ('\n' for
    literal; ' ' for folded, where line folding applies because no line is blank or more indented) followed
    by [tail] line breaks (chomping).  [after] is whatever follows the scalar in the file. *)
Definition has_nonspace (s : string) : bool :=
  negb (Nat.eqb (String.length s) (Z.to_nat (count_leading_space s))).

Inductive bitem := Body (body : string) | Blank (nspaces : nat).

Definition item_line (indent : nat) (it : bitem) : string :=
  match it with Body b => (spaces indent ++ b)%string | Blank n => spaces n end.

Definition item_text (it : bitem) : string :=
  match it with Body b => b | Blank _ => EmptyString end.

Fixpoint vsuffix (sep : ascii) (items : list bitem) (tail : nat) : string :=
  match items with
  | [] => repeat_char newline tail
  | it :: r => String sep (item_text it ++ vsuffix sep r tail)
  end.

Record block_layout := {
  bl_pre : list string;        (* lines before the key line *)
  bl_keyline_pre : string;     (* key line up to the indicator *)
  bl_header : string;          (* key line from the indicator on *)
  bl_indent : nat;             (* indentation of the content *)
  bl_first : string;           (* first content line, without the indentation *)
  bl_items : list bitem;       (* further content lines *)
  bl_tail : nat;               (* number of trailing line breaks of the value *)
  bl_after : list string       (* rest of the file *)
}.

Definition bl_lines (b : block_layout) : list string :=
  bl_pre b ++ (bl_keyline_pre b ++ bl_header b)%string
           :: (spaces (bl_indent b) ++ bl_first b)%string
           :: map (item_line (bl_indent b)) (bl_items b) ++ bl_after b.

Definition block_sep (literal : bool) : ascii := if literal then newline else space.

Definition bl_value (literal : bool) (b : block_layout) : string :=
  (bl_first b ++ vsuffix (block_sep literal) (bl_items b) (bl_tail b))%string.

Definition bl_node (literal : bool) (b : block_layout) : snode :=
  mksn (bl_value literal b) (Z.of_nat (List.length (bl_pre b)) + 1) (slen (bl_keyline_pre b) + 1) true EmptyString false.

(** bodies are non-blank; in a folded block no body starts with a blank and there are no blank lines; a blank
    line is never the last item (trailing blank lines belong to [after] and [tail]) *)
Fixpoint items_ok (literal : bool) (items : list bitem) : bool :=
  match items with
  | [] => true
  | Body b :: r => has_nonspace b && (literal || negb (starts_with_space b)) && items_ok literal r
  | Blank _ :: r => literal && match r with [] => false | _ => true end && items_ok literal r
  end.

(** The guard of the block theorems.  The header line (indicator, chomping/indentation indicators, comment) is
    ARBITRARY: the scan starts on the line after it.  The first content line may start with blanks (explicit
    indentation indicator).  What remains of Appendix C is g1: the content is indented by at least minColumn-1
    (the parser passes minColumn = 1, so this always holds there). *)
Definition block_ok (literal : bool) (b : block_layout) (minCol : Z) : bool :=
  negb (all_newlines (bl_value literal b)) &&
  has_nonspace (bl_first b) &&
  (minCol - 1 <=? Z.of_nat (bl_indent b)) && (1 <=? minCol) && (* g1 *)
  items_ok literal (bl_items b) &&
  forallb no_newline_b (bl_after b).

(** Folded blocks WITH blank lines (the common "paragraphs" layout of annotations; positions are right since fix
    6c7f5de).  YAML line folding: a single line break between two non-blank lines becomes a space; [j >= 1] blank lines
    between them become [j] line breaks (the break before the first blank line is dropped).  [pb] = the previous line
    was blank.  More-indented lines (bodies starting with a blank) are not described by this relation. *)
Fixpoint vsuffix_fold (pb : bool) (items : list bitem) (tail : nat) : string :=
  match items with
  | [] => repeat_char newline tail
  | Blank _ :: r => String newline (vsuffix_fold true r tail)
  | Body b :: r => ((if pb then EmptyString else String space EmptyString) ++ b ++ vsuffix_fold false r tail)%string
  end.

Definition starts_with_fold_char (s : string) : bool :=
  match s with String c _ => is_fold_char c | EmptyString => true end.

Fixpoint fold_items_ok (items : list bitem) : bool :=
  match items with
  | [] => true
  | Body b :: r => has_nonspace b && negb (starts_with_fold_char b) && fold_items_ok r
  | Blank _ :: r => match r with [] => false | _ => true end && fold_items_ok r
  end.

Definition bl_value_fold (b : block_layout) : string :=
  (bl_first b ++ vsuffix_fold false (bl_items b) (bl_tail b))%string.

Definition bl_node_fold (b : block_layout) : snode :=
  mksn (bl_value_fold b) (Z.of_nat (List.length (bl_pre b)) + 1) (slen (bl_keyline_pre b) + 1) true EmptyString false.

Definition fold_ok (b : block_layout) (minCol : Z) : bool :=
  negb (all_newlines (bl_value_fold b)) &&
  has_nonspace (bl_first b) && negb (starts_with_fold_char (bl_first b)) &&
  (minCol - 1 <=? Z.of_nat (bl_indent b)) && (1 <=? minCol) &&
  fold_items_ok (bl_items b) &&
  forallb no_newline_b (bl_after b).

(** Multi-line plain scalar: first segment on the key line, every further segment on its own line
    [spaces k ++ segment] with [k >= minCol - 1] (g1) and no trailing blanks (g2: the line ends with the
    segment); segments are non-blank and do not start with a blank; they are joined by single spaces. *)
Record plain_ml_layout := {
  pm_pre : list string;
  pm_keyline_pre : string;
  pm_first : string;
  pm_more : list (nat * string);   (* (indentation, segment) *)
  pm_after : list string
}.

Definition pm_lines (p : plain_ml_layout) : list string :=
  pm_pre p ++ (pm_keyline_pre p ++ pm_first p)%string
           :: map (fun ks => (spaces (fst ks) ++ snd ks)%string) (pm_more p) ++ pm_after p.

Fixpoint pm_suffix (more : list (nat * string)) : string :=
  match more with
  | [] => EmptyString
  | ks :: r => String space (snd ks ++ pm_suffix r)
  end.

Definition pm_value (p : plain_ml_layout) : string := (pm_first p ++ pm_suffix (pm_more p))%string.

Definition pm_node (p : plain_ml_layout) : snode :=
  mksn0 (pm_value p) (Z.of_nat (List.length (pm_pre p)) + 1) (slen (pm_keyline_pre p) + 1).

Definition pm_ok (p : plain_ml_layout) (minCol : Z) : bool :=
  negb (all_newlines (pm_value p)) && ascii_only (pm_keyline_pre p) &&
  has_nonspace (pm_first p) && negb (starts_with_space (pm_first p)) && (1 <=? minCol) &&
  forallb (fun ks => has_nonspace (snd ks) && negb (starts_with_space (snd ks)) &&
                     (minCol - 1 <=? Z.of_nat (fst ks))) (pm_more p).

(** Multi-line flow scalars in general: a multi-line PLAIN scalar whose last line may be followed by a comment,
    or a multi-line SINGLE-/DOUBLE-QUOTED scalar whose segments contain neither the quote character nor (double
    quotes) a backslash, so that they appear verbatim.  [fm_open] is the opening quote ("" for plain),
    [fm_trailer] what follows the last segment on its line (closing quote, blanks, comment, flow neighbours).
    First line [keyline_pre ++ open ++ first]; middle lines [spaces k ++ segment]; last line
    [spaces k ++ last ++ trailer]; the value joins the segments with single spaces (line folding). *)
Record flow_ml_layout := {
  fm_pre : list string;
  fm_keyline_pre : string;
  fm_open : string;
  fm_first : string;
  fm_mid : list (nat * string);
  fm_last : nat * string;
  fm_trailer : string;
  fm_after : list string
}.

Definition fm_lines (p : flow_ml_layout) : list string :=
  fm_pre p ++ (fm_keyline_pre p ++ fm_open p ++ fm_first p)%string
           :: map (fun ks => (spaces (fst ks) ++ snd ks)%string) (fm_mid p)
           ++ (spaces (fst (fm_last p)) ++ snd (fm_last p) ++ fm_trailer p)%string :: fm_after p.

Definition fm_value (p : flow_ml_layout) : string :=
  (fm_first p ++ pm_suffix (fm_mid p ++ [fm_last p]))%string.

Definition fm_node (p : flow_ml_layout) : snode :=
  mksn0 (fm_value p) (Z.of_nat (List.length (fm_pre p)) + 1) (slen (fm_keyline_pre p) + 1).

Definition seg_ok (minCol : Z) (ks : nat * string) : bool :=
  has_nonspace (snd ks) && negb (starts_with_space (snd ks)) && (minCol - 1 <=? Z.of_nat (fst ks)).

Definition fm_ok (p : flow_ml_layout) (minCol : Z) : bool :=
  match fm_first p with
  | EmptyString => false
  | String f _ =>
      negb (all_newlines (fm_value p)) && ascii_only (fm_keyline_pre p) &&
      has_nonspace (fm_first p) && negb (Ascii.eqb f space) &&
      negb (starts_with_space (fm_open p)) && negb (mem_char f (fm_open p)) &&
      (1 <=? minCol) && forallb (seg_ok minCol) (fm_mid p) && seg_ok minCol (fm_last p)
  end.

(** Multi-line QUOTED scalars with escapes that keep the byte in the source: single-quoted with [''] forPINTQ,
    double-quoted with backslash-doublequote / backslash-backslash.  The segments are the pieces of the VALUE; the
    file shows them escaped: first line [keyline_pre ++ quote ++ esc first], middle lines [spaces k ++ esc seg],
    last line [spaces k ++ esc last ++ quote ++ post]; the value joins the segments with single spaces. *)
Definition quote_of (single : bool) : ascii := if single then "'"%char else """"%char.
Definition esc_of (single : bool) (s : string) : string := if single then sq_escape s else dq_escape_simple s.

Record quoted_ml_layout := {
  qm_single : bool;
  qm_pre : list string;
  qm_keyline_pre : string;
  qm_first : string;
  qm_mid : list (nat * string);
  qm_last : nat * string;
  qm_post : string;
  qm_after : list string
}.

Definition qm_lines (p : quoted_ml_layout) : list string :=
  qm_pre p ++ (qm_keyline_pre p ++ String (quote_of (qm_single p)) (esc_of (qm_single p) (qm_first p)))%string
           :: map (fun ks => (spaces (fst ks) ++ esc_of (qm_single p) (snd ks))%string) (qm_mid p)
           ++ (spaces (fst (qm_last p)) ++ esc_of (qm_single p) (snd (qm_last p))
                 ++ String (quote_of (qm_single p)) (qm_post p))%string :: qm_after p.

Definition qm_value (p : quoted_ml_layout) : string :=
  (qm_first p ++ pm_suffix (qm_mid p ++ [qm_last p]))%string.

Definition qm_node (p : quoted_ml_layout) : snode :=
  mksn0 (qm_value p) (Z.of_nat (List.length (qm_pre p)) + 1) (slen (qm_keyline_pre p) + 1).

Definition qm_ok (p : quoted_ml_layout) (minCol : Z) : bool :=
  negb (all_newlines (qm_value p)) && ascii_only (qm_keyline_pre p) &&
  has_nonspace (qm_first p) && negb (starts_with_space (qm_first p)) &&
  (1 <=? minCol) && forallb (seg_ok minCol) (qm_mid p) && seg_ok minCol (qm_last p).
