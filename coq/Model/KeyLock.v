(** C14 — labelled transition system for pint's single-flight machinery of ONE Prometheus server:
    the keyed lock (promapi/keylock.go: partitionLocker), the job queue and worker pool
    (promapi/prometheus.go: StartWorkers/queryWorker/processJob) and the answer cache
    (promapi/cache.go: queryCache), driven by any number of callers
    (Prometheus.Query/RangeQuery/Config/Flags/Metadata: lock; enqueue one job per request; wait; unlock).

    Plain-list style, executable: [step s a = Some s'] iff action [a] is enabled in [s].
    Definitions only; the invariants are in Proofs/C14_lts.v. *)
From Coq Require Import List Arith Bool Lia.
Import ListNotations.

(** Identifiers: callers, workers, lock keys, cache keys and answer values are natural numbers. *)
Definition job := (nat * nat)%type.               (* (caller, cache key) *)

Inductive result := ROk (v : nat) | RErr.

Inductive cphase :=
| PIdle                                            (* has not called yet *)
| PCrit (tosend : list nat) (outst : list nat)     (* holds its lock key; requests still to enqueue / awaiting a reply *)
| PDone.                                           (* returned (key released) *)

Inductive wstate :=
| WIdle
| WTaken (j : job)                                 (* job received from the channel, cache not looked at yet *)
| WRunning (j : job)                               (* cache miss: the HTTP request is in flight *)
| WReply (j : job) (r : result).                   (* about to send the result back *)

(** Static description of the callers: which lock key each takes, which cache keys (requests) it asks. *)
Record config := mk_config {
  key_of : nat -> nat;
  jobs_of : nat -> list nat;
  pool : nat                                       (* concurrency: number of workers *)
}.

Record state := mk_state {
  held : list nat;                                 (* partitionLocker.s *)
  phase : nat -> cphase;
  queue : list job;                                (* prom.queries *)
  wst : nat -> wstate;                             (* workers 0 .. pool-1 *)
  cache : list (nat * nat);                        (* queryCache.entries: cache key -> value *)
  served : list (nat * nat);                       (* log: successful runs whose entry has not been evicted *)
  delivered : list (nat * nat * result)            (* log: (caller, cache key, result) handed back *)
}.

Inductive action :=
| ALock (c : nat)                                  (* partitionLocker.lock returns *)
| AEnq (c : nat)                                   (* prom.queries <- job *)
| ATake (w : nat)                                  (* worker receives a job *)
| ACheck (w : nat)                                 (* processJob: cache.get; hit -> reply, miss -> request starts *)
| AEnd (w : nat) (r : result)                      (* request finished; cache.set only on success *)
| AReply (w : nat)                                 (* job.result <- result *)
| AUnlock (c : nat)                                (* deferred partitionLocker.unlock *)
| AGc (evict : list nat).                          (* queryCache.gc removed these keys *)

Definition upd {A} (f : nat -> A) (i : nat) (v : A) : nat -> A :=
  fun j => if Nat.eqb j i then v else f j.

Fixpoint mem (x : nat) (l : list nat) : bool :=
  match l with [] => false | y :: r => Nat.eqb x y || mem x r end.

Fixpoint remove1 (x : nat) (l : list nat) : list nat :=
  match l with [] => [] | y :: r => if Nat.eqb x y then r else y :: remove1 x r end.

Fixpoint lookup (k : nat) (l : list (nat * nat)) : option nat :=
  match l with [] => None | (k', v) :: r => if Nat.eqb k k' then Some v else lookup k r end.

Definition drop_keys (ev : list nat) (l : list (nat * nat)) : list (nat * nat) :=
  filter (fun p => negb (mem (fst p) ev)) l.

Definition init : state :=
  mk_state [] (fun _ => PIdle) [] (fun _ => WIdle) [] [] [].

Definition step (cf : config) (s : state) (a : action) : option state :=
  match a with
  | ALock c =>
      match phase s c with
      | PIdle =>
          if mem (key_of cf c) (held s) then None          (* blocked in Cond.Wait *)
          else Some (mk_state (key_of cf c :: held s) (upd (phase s) c (PCrit (jobs_of cf c) []))
                              (queue s) (wst s) (cache s) (served s) (delivered s))
      | _ => None
      end
  | AEnq c =>
      match phase s c with
      | PCrit (ck :: ts) out =>
          Some (mk_state (held s) (upd (phase s) c (PCrit ts (ck :: out)))
                         (queue s ++ [(c, ck)]) (wst s) (cache s) (served s) (delivered s))
      | _ => None
      end
  | ATake w =>
      if Nat.ltb w (pool cf) then
        match wst s w, queue s with
        | WIdle, j :: q =>
            Some (mk_state (held s) (phase s) q (upd (wst s) w (WTaken j)) (cache s) (served s) (delivered s))
        | _, _ => None
        end
      else None
  | ACheck w =>
      match wst s w with
      | WTaken (c, ck) =>
          match lookup ck (cache s) with
          | Some v => Some (mk_state (held s) (phase s) (queue s) (upd (wst s) w (WReply (c, ck) (ROk v)))
                                     (cache s) (served s) (delivered s))
          | None => Some (mk_state (held s) (phase s) (queue s) (upd (wst s) w (WRunning (c, ck)))
                                   (cache s) (served s) (delivered s))
          end
      | _ => None
      end
  | AEnd w r =>
      match wst s w with
      | WRunning (c, ck) =>
          match r with
          | ROk v => Some (mk_state (held s) (phase s) (queue s) (upd (wst s) w (WReply (c, ck) r))
                                    ((ck, v) :: cache s) ((ck, v) :: served s) (delivered s))
          | RErr => Some (mk_state (held s) (phase s) (queue s) (upd (wst s) w (WReply (c, ck) r))
                                   (cache s) (served s) (delivered s))
          end
      | _ => None
      end
  | AReply w =>
      match wst s w with
      | WReply (c, ck) r =>
          match phase s c with
          | PCrit ts out =>
              if mem ck out then
                Some (mk_state (held s) (upd (phase s) c (PCrit ts (remove1 ck out))) (queue s)
                               (upd (wst s) w WIdle) (cache s) (served s) ((c, ck, r) :: delivered s))
              else None
          | _ => None
          end
      | _ => None
      end
  | AUnlock c =>
      match phase s c with
      | PCrit [] [] =>
          Some (mk_state (remove1 (key_of cf c) (held s)) (upd (phase s) c PDone)
                         (queue s) (wst s) (cache s) (served s) (delivered s))
      | _ => None
      end
  | AGc ev =>
      Some (mk_state (held s) (phase s) (queue s) (wst s) (drop_keys ev (cache s)) (drop_keys ev (served s)) (delivered s))
  end.

(** Run a whole action sequence; [None] = some action was not enabled. *)
Fixpoint run (cf : config) (s : state) (l : list action) : option state :=
  match l with
  | [] => Some s
  | a :: r => match step cf s a with Some s' => run cf s' r | None => None end
  end.

Definition reachable (cf : config) (s : state) : Prop := exists l, run cf init l = Some s.

(** * Observables *)

Definition crit (p : cphase) : bool := match p with PCrit _ _ => true | _ => false end.

Definition wjob (w : wstate) : list job :=
  match w with WIdle => [] | WTaken j | WRunning j => [j] | WReply j _ => [j] end.

Definition running (w : wstate) : list nat :=
  match w with WRunning (_, ck) => [ck] | _ => [] end.

(** Jobs inside the pool (queue + workers), requests in flight to the server. *)
Definition insys (cf : config) (s : state) : list job :=
  queue s ++ flat_map (fun w => wjob (wst s w)) (seq 0 (pool cf)).

Definition inflight (cf : config) (s : state) : list nat :=
  flat_map (fun w => running (wst s w)) (seq 0 (pool cf)).

Definition is_gc (a : action) : bool := match a with AGc _ => true | _ => false end.
