(** Model of internal/checks/rule_dependency.go (RuleDependencyCheck.Check, usesVector, usesAlert,
    nonRemovedEntries, de-duplication, sort, details text) and of the dispatch rule of cmd/pint/scan.go (removed
    entries with errors are skipped; the check only runs on entries in state Removed).

    The PromQL parser is an input: every entry carries the list of vector selectors of its expression
    (utils.HasVectorSelector on the real parse tree), each with its name, printed form and label matchers.
    Executable definitions only. *)
From Coq Require Import List String Ascii ZArith NArith Bool DecimalString.
From PintV Require Import Common.Bytes Model.GitBranch.
Import ListNotations.
Open Scope string_scope.

Inductive mtype := MatchEqual | MatchNotEqual | MatchRegexp | MatchNotRegexp.

Record selector := {
  s_name : string;                              (* VectorSelector.Name ("" for the {__name__="x"} spelling) *)
  s_str : string;                               (* VectorSelector.String() *)
  s_matchers : list (string * mtype * string)   (* LabelMatchers: (Name, Type, Value) *)
}.

(** discovery.Entry as the check reads it *)
Record dentry := {
  d_state : state;
  d_perr : bool;            (* PathError != nil *)
  d_rerr : bool;            (* Rule.Error.Err != nil *)
  d_kind : kind;
  d_name : string;          (* Rule.Name() *)
  d_path : string;          (* Path.Name *)
  d_target : string;        (* Path.SymlinkTarget *)
  d_syntax_err : bool;      (* Rule.Expr().SyntaxError != nil *)
  d_selectors : list selector;
  d_expr_line : Z;          (* Rule.Expr().Value.Pos.Lines().First *)
  d_first : Z; d_last : Z   (* Rule.Lines *)
}.

Definition is_removed (e : dentry) : bool := state_eqb (d_state e) Removed.

(** nonRemovedEntries *)
Definition non_removed (es : list dentry) : list dentry :=
  filter (fun e => negb (is_removed e) && negb (d_perr e) && negb (d_rerr e)) es.

Record dep := { bd_kind : string; bd_metric : string; bd_path : string; bd_name : string; bd_line : Z }.

Definition mk_dep (kind metric : string) (f : dentry) : dep :=
  {| bd_kind := kind; bd_metric := metric; bd_path := d_target f; bd_name := d_name f; bd_line := d_expr_line f |}.

(** usesVector: first selector whose Name equals the removed recording rule's name *)
Definition uses_vector (f : dentry) (name : string) : option dep :=
  if d_syntax_err f then None
  else match List.find (fun s => String.eqb (s_name s) name) (d_selectors f) with
       | Some _ => Some (mk_dep "recording" name f)
       | None => None
       end.

Definition alert_matcher (name : string) (m : string * mtype * string) : bool :=
  let '(n, t, v) := m in
  String.eqb n "alertname" && match t with MatchEqual => true | _ => false end && String.eqb v name.

Definition alerts_selector (name : string) (s : selector) : bool :=
  (String.eqb (s_name s) "ALERTS" || String.eqb (s_name s) "ALERTS_FOR_STATE") && existsb (alert_matcher name) (s_matchers s).

(** usesAlert: first ALERTS/ALERTS_FOR_STATE selector with an alertname="name" equality matcher *)
Definition uses_alert (f : dentry) (name : string) : option dep :=
  if d_syntax_err f then None
  else match List.find (alerts_selector name) (d_selectors f) with
       | Some s => Some (mk_dep "alerting" (s_str s) f)
       | None => None
       end.

Definition dep_same (a b : dep) : bool :=
  String.eqb (bd_kind a) (bd_kind b) && String.eqb (bd_path a) (bd_path b) && Z.eqb (bd_line a) (bd_line b) &&
  String.eqb (bd_name a) (bd_name b).

(** what one filtered entry contributes.  Go keeps [dep] in a variable declared outside the loop and assigns it under
    `if entry.Rule.RecordingRule != nil` / `if entry.Rule.AlertingRule != nil`; for an entry that is neither (an
    invalid rule) it stays nil for the whole loop, so nothing is ever collected. *)
Definition uses (e f : dentry) : option dep :=
  match d_kind e with
  | KRecording => uses_vector f (d_name e)
  | KAlerting => uses_alert f (d_name e)
  | KInvalid => None
  end.

(** the collection loop with its de-duplication *)
Fixpoint collect (e : dentry) (fs : list dentry) (acc : list dep) : list dep :=
  match fs with
  | [] => acc
  | f :: r =>
    match uses e f with
    | Some d => if existsb (dep_same d) acc then collect e r acc else collect e r (acc ++ [d])
    | None => collect e r acc
    end
  end.

(** cmp.Or(Compare(path), Compare(line), Compare(name)) <= 0 *)
Definition dep_leb (a b : dep) : bool :=
  match String.compare (bd_path a) (bd_path b) with
  | Lt => true
  | Gt => false
  | Eq => match Z.compare (bd_line a) (bd_line b) with
          | Lt => true
          | Gt => false
          | Eq => match String.compare (bd_name a) (bd_name b) with Gt => false | _ => true end
          end
  end.

(** slices.SortStableFunc = stable insertion sort (an element goes after the elements it is not smaller than) *)
Fixpoint insert_dep (x : dep) (l : list dep) : list dep :=
  match l with
  | [] => [x]
  | y :: r => if dep_leb y x then y :: insert_dep x r else x :: l
  end.

Definition sort_deps (l : list dep) : list dep := fold_left (fun acc x => insert_dep x acc) l [].

Definition itoa (z : Z) : string :=
  match z with
  | Z0 => "0"
  | Zpos p => NilEmpty.string_of_uint (Pos.to_uint p)
  | Zneg p => "-" ++ NilEmpty.string_of_uint (Pos.to_uint p)
  end.

Definition nl : string := String (ascii_of_N 10) "".

Definition details_text (broken : list dep) : string :=
  match broken with
  | [] => ""
  | b0 :: _ =>
    "If you remove the " ++ bd_kind b0 ++ " rule generating `" ++ bd_metric b0 ++
    "`, and there is no other source of this metric, then any other rule depending on it will break." ++ nl ++
    "List of found rules that are using `" ++ bd_metric b0 ++ "`:" ++ nl ++ nl ++
    concat "" (map (fun b => "- `" ++ bd_name b ++ "` at `" ++ bd_path b ++ ":" ++ itoa (bd_line b) ++ "`" ++ nl) broken)
  end.

Record problem := {
  p_first : Z; p_last : Z;         (* Problem.Lines = entry.Rule.Lines *)
  p_deps : list dep;               (* the sorted broken dependencies *)
  p_details : string;
  p_diag : string                  (* diagnostic message *)
}.

Definition replaced (e : dentry) (filtered : list dentry) : bool :=
  existsb (fun f => kind_eqb (d_kind f) (d_kind e) && String.eqb (d_name f) (d_name e)) filtered.

(** RuleDependencyCheck.Check *)
Definition check (e : dentry) (entries : list dentry) : option problem :=
  if negb (String.eqb (d_path e) (d_target e)) then None
  else
    let filtered := non_removed entries in
    if replaced e filtered then None
    else
      let broken := sort_deps (collect e filtered []) in
      match broken with
      | [] => None
      | _ =>
        Some {| p_first := d_first e; p_last := d_last e; p_deps := broken; p_details := details_text broken;
                p_diag := "Metric generated by this rule is used by " ++ itoa (Z.of_nat (List.length broken)) ++ " other rule(s)." |}
      end.

(** cmd/pint/scan.go + parsedRule.isEnabled: the check is dispatched on [e] only in state Removed (Meta().States) and
    never for removed entries with a path error or a rule error. *)
Definition dispatched (e : dentry) : bool := is_removed e && negb (d_perr e) && negb (d_rerr e).

Definition report (e : dentry) (entries : list dentry) : option problem :=
  if dispatched e then check e entries else None.

(** * From GitBranchFinder.Find's result to what the check reads.
    The discovery.Entry the check sees is the entry Find returned; the model of Find ([Model.GitBranch.find]) carries
    state, errors, kind, name, path and lines; what the PromQL parser says about the rule's expression (an input) is looked
    up by the entry's identity. *)
Record info := { i_syntax_err : bool; i_selectors : list selector; i_expr_line : Z }.

Fixpoint lookup_info (u : N) (t : list (N * info)) : info :=
  match t with
  | [] => {| i_syntax_err := false; i_selectors := []; i_expr_line := 0 |}
  | (k, v) :: r => if N.eqb k u then v else lookup_info u r
  end.

Definition to_dentry (t : list (N * info)) (e : entry) : dentry :=
  let i := lookup_info (e_uid e) t in
  {| d_state := e_state e; d_perr := e_perr e; d_rerr := e_rerr e; d_kind := e_kind e; d_name := e_name e;
     d_path := e_path e; d_target := e_target e; d_syntax_err := i_syntax_err i; d_selectors := i_selectors i;
     d_expr_line := i_expr_line i; d_first := e_first e; d_last := e_last e |}.

(** `pint ci` = Find, then the check on every entry of the list Find returned *)
Definition pipeline (t : list (N * info)) (glob : list entry) (cs : list change_in) : list (dentry * option problem) :=
  let ds := map (to_dentry t) (find glob cs) in
  map (fun d => (d, report d ds)) ds.
