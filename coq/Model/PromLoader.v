(** What Prometheus' rule loader ([rulefmt.Parse(content, false)], v0.303.0) does to the node forest yaml.v3
    returned (DESIGN Appendix B): yaml.v3 struct decoding restricted to the Go types involved
    (RuleGroups, RuleGroup, Rule, map[string]string, model.Duration, string, int) — known-field check, duplicate
    keys in every mapping, merge keys (explicit keys win, earlier merges win), alias resolution, null -> zero
    value and dropped null sequence elements / skipped null keys, kind mismatches — then [Validate] as printed
    in rulefmt.go.  Only the FIRST document is loaded.  The second, position-only decode of rulefmt.Parse
    (into structs with yaml.Node fields, unknown fields allowed) fails only where the first one does.

    Null handling (decode.go prepare/scalar/null): only a SCALAR can be a null — one whose ShortTag is !!null and that
    yaml.v3's resolve() maps to nil (oracle null_ok: `~`, `null`, empty, ...).  A scalar explicitly tagged !!null whose text
    does not resolve to null (`!!null x`) makes every decode of that node fail; when it is a quoted text (`!!null "x"`) it is
    an ordinary string for a string target and a type error for every other target (prepare() skips the Unmarshaler hook of
    model.Duration for null-tagged nodes).  A mapping or sequence carrying an explicit !!null tag is decoded as a
    mapping / sequence (the collection decoders never look at the tag).

    Oracles (Section variables, no assumed behaviour):
      str_ok / int_ok    the scalar node decodes into a Go string / int (yaml.v3 resolve + overflow rules)
      null_ok            the scalar node resolves to null (decoding it into an interface{} yields nil)
      expr_ok dur_ok dur_zero metric_ok lname_ok lvalue_ok tmpl_ok   Prometheus library verdicts on a string. *)
From Coq Require Import List String Ascii Arith Bool.
From PintV Require Import Common.Bytes Model.Yaml.
Import ListNotations.
Open Scope string_scope.

Inductive dres (A : Type) := DErr | DNull | DOk (a : A).
Arguments DErr {A}.
Arguments DNull {A}.
Arguments DOk {A} a.

Definition deref (n : node) : node := match n_alias n with Some t => t | None => n end.

(** decode.go isMerge: a plain `<<` scalar (its resolved tag is !!merge) *)
Definition is_merge_key (n : node) : bool :=
  (kind_eqb (n_kind n) KScalar && String.eqb (n_value n) "<<" && String.eqb (n_tag n) mergeTag)%bool.

(** the keys of a mapping's content (even positions) *)
Fixpoint even_nodes (l : list node) : list node :=
  match l with
  | k :: r => k :: match r with _ :: r' => even_nodes r' | [] => [] end
  | [] => []
  end.

(** d.mapping, uniqueKeys: two keys of the same kind and value *)
Fixpoint key_in (k : node) (keys : list node) : bool :=
  match keys with
  | k' :: r => ((kind_eqb (n_kind k) (n_kind k') && String.eqb (n_value k) (n_value k')) || key_in k r)%bool
  | [] => false
  end.

Fixpoint unique_key_list (keys : list node) : bool :=
  match keys with
  | k :: r => (negb (key_in k r) && unique_key_list r)%bool
  | [] => true
  end.

Definition unique_keys (l : list node) : bool := unique_key_list (even_nodes l).

Record prule := {
  pr_record : string; pr_alert : string; pr_expr : string;
  pr_for : option string; pr_keep : option string;                  (* the duration text when set to a non-null value *)
  pr_labels : list (string * string); pr_annotations : list (string * string) }.

Record pgroup := { pg_name : string; pg_labels : list (string * string); pg_rules : list prule }.

Section PromLoader.
  Variables str_ok int_ok null_ok : node -> bool.
  Variables expr_ok dur_ok dur_zero metric_ok lname_ok lvalue_ok tmpl_ok : string -> bool.

  (** a scalar that yaml.v3 decodes as null (d.null: zero value, "not good") *)
  Definition null_scalar (t : node) : bool := (String.eqb (n_tag t) nullTag && null_ok t)%bool.

  (** unmarshal into a Go string *)
  Definition dec_string (n : node) : dres string :=
    let t := deref n in
    match n_kind t with
    | KScalar => if null_scalar t then DNull else if str_ok t then DOk (n_value t) else DErr
    | KZero => DNull
    | _ => DErr
    end.

  (** unmarshal into a Go int *)
  Definition dec_int (n : node) : dres unit :=
    let t := deref n in
    match n_kind t with
    | KScalar => if null_scalar t then DNull else if int_ok t then DOk tt else DErr
    | KZero => DNull
    | _ => DErr
    end.

  (** unmarshal into model.Duration (UnmarshalYAML: string, then ParseDuration); for a null-tagged node prepare() does not
      call UnmarshalYAML: a text that is no null is then decoded into the int64 directly and fails *)
  Definition dec_duration (n : node) : dres string :=
    let t := deref n in
    if (kind_eqb (n_kind t) KScalar && String.eqb (n_tag t) nullTag && negb (null_ok t))%bool then DErr
    else match dec_string n with
         | DOk s => if dur_ok s then DOk s else DErr
         | DNull => DNull
         | DErr => DErr
         end.

  Definition mem_key (s : string) (l : list string) : bool := mem_str s l.

  (** The non-merge keys of a mapping as decode.go's merge() collects them. *)
  Definition plain_keys (l : list node) : list string :=
    flat_map (fun k => if is_merge_key k then [] else [n_value (deref k)]) (even_nodes l).

  (** One mapping decoded into a struct or a string map: the list of (key, value node) assignments in order,
      the merge value (last `<<` wins) and the updated merged-key set.  [known] = None for map[string]string.
      None = a type error was recorded (duplicate key, unknown field, undecodable key, field set twice). *)
  Fixpoint map_loop (known : option (list string)) (l : list node) (merged : option (list string)) (done : list string)
           (acc : list (string * node)) (merge_node : option node)
    : option (list (string * node) * option node * option (list string)) :=
    match l with
    | k :: v :: r =>
        if is_merge_key k then map_loop known r merged done acc (Some v)
        else
          match dec_string k with
          | DErr => None
          | DNull => map_loop known r merged done acc merge_node
          | DOk s =>
              let skip := match merged with Some set => mem_key s set | None => false end in
              if skip then map_loop known r merged done acc merge_node
              else
                let merged' := option_map (fun set => s :: set) merged in
                match known with
                | Some fields =>
                    if mem_key s fields then
                      if mem_key s done then None
                      else map_loop known r merged' (s :: done) (app acc [(s, v)]) merge_node
                    else None
                | None => map_loop known r merged' done (app acc [(s, v)]) merge_node
                end
          end
    | _ => Some (acc, merge_node, merged)
    end.

  (** d.mapping / d.mappingStruct / d.merge on a mapping node [n] (already dereferenced, kind KMapping). *)
  Fixpoint map_fields (fuel : nat) (known : option (list string)) (n : node) (merged : option (list string))
    : option (list (string * node) * option (list string)) :=
    match fuel with
    | 0 => None
    | S fuel' =>
        if negb (unique_keys (n_content n)) then None
        else
          match map_loop known (n_content n) merged [] [] None with
          | None => None
          | Some (acc, None, merged') => Some (acc, merged')
          | Some (acc, Some mn, merged') =>
              let set := match merged' with Some s => s | None => plain_keys (n_content n) end in
              let one := fun (m : node) (st : option (list (string * node) * list string)) =>
                           match st with
                           | None => None
                           | Some (a, set) =>
                               let t := deref m in
                               if negb (kind_eqb (n_kind t) KMapping) then None
                               else match map_fields fuel' known t (Some set) with
                                    | Some (a', Some set') => Some (app a a', set')
                                    | _ => None
                                    end
                           end in
              match n_kind mn with
              | KMapping | KAlias =>
                  match one mn (Some (acc, set)) with
                  | Some (a, set') => Some (a, option_map (fun _ => set') merged')
                  | None => None
                  end
              | KSequence =>
                  match fold_left (fun st m => one m st) (n_content mn) (Some (acc, set)) with
                  | Some (a, set') => Some (a, option_map (fun _ => set') merged')
                  | None => None
                  end
              | _ => None
              end
          end
    end.

  (** A node decoded into a struct: DNull for null, DErr for a non-mapping or a type error. *)
  Definition dec_fields (known : option (list string)) (n : node) : dres (list (string * node)) :=
    let t := deref n in
    match n_kind t with
    | KMapping => match map_fields (S (node_height t)) known t None with
                  | Some (a, _) => DOk a
                  | None => DErr
                  end
    | KScalar => if null_scalar t then DNull else DErr
    | KZero => DNull
    | _ => DErr
    end.

  (** map[string]string *)
  Fixpoint strmap_values (l : list (string * node)) : option (list (string * string)) :=
    match l with
    | [] => Some []
    | (k, v) :: r =>
        match dec_string v, strmap_values r with
        | DErr, _ => None
        | _, None => None
        | DOk s, Some r' => Some ((k, s) :: r')
        | DNull, Some r' => if String.eqb (n_tag (deref v)) nullTag then Some ((k, "") :: r') else Some r'
        end
    end.

  Definition dec_strmap (n : node) : dres (list (string * string)) :=
    match dec_fields None n with
    | DErr => DErr
    | DNull => DNull
    | DOk a => match strmap_values a with Some m => DOk m | None => DErr end
    end.

  (** sequence into a slice: elements that are not "good" (null) are dropped *)
  Fixpoint dec_items {A} (dec : node -> dres A) (l : list node) : option (list A) :=
    match l with
    | [] => Some []
    | x :: r =>
        match dec x, dec_items dec r with
        | DErr, _ => None
        | _, None => None
        | DNull, Some r' => Some r'
        | DOk a, Some r' => Some (a :: r')
        end
    end.

  Definition dec_slice {A} (dec : node -> dres A) (n : node) : dres (list A) :=
    let t := deref n in
    match n_kind t with
    | KSequence => match dec_items dec (n_content t) with Some l => DOk l | None => DErr end
    | KScalar => if null_scalar t then DNull else DErr
    | KZero => DNull
    | _ => DErr
    end.

  Definition rule_fields := ["record"; "alert"; "expr"; "for"; "keep_firing_for"; "labels"; "annotations"].
  Definition group_fields := ["name"; "interval"; "query_offset"; "limit"; "rules"; "labels"].

  Definition dval {A} (d : dres A) (default : A) : A := match d with DOk a => a | _ => default end.
  Definition derr {A} (d : dres A) : bool := match d with DErr => true | _ => false end.

  (** The assignment list of one struct never names a field twice (the decoder's doneFields / mergedFields
      bookkeeping in [map_loop]), so "the last assignment wins" is a lookup. *)
  Definition look (name : string) (l : list (string * node)) : option node := assoc name l.

  Definition str_field (name : string) (l : list (string * node)) : string :=
    match look name l with Some v => dval (dec_string v) "" | None => "" end.
  Definition dur_field (name : string) (l : list (string * node)) : option string :=
    match look name l with Some v => match dec_duration v with DOk s => Some s | _ => None end | None => None end.
  Definition map_field (name : string) (l : list (string * node)) : list (string * string) :=
    match look name l with Some v => dval (dec_strmap v) [] | None => [] end.

  Definition rule_field_err (kv : string * node) : bool :=
    let '(k, v) := kv in
    if (String.eqb k "record" || String.eqb k "alert" || String.eqb k "expr")%bool then derr (dec_string v)
    else if (String.eqb k "for" || String.eqb k "keep_firing_for")%bool then derr (dec_duration v)
    else derr (dec_strmap v).

  Definition dec_rule (n : node) : dres prule :=
    match dec_fields (Some rule_fields) n with
    | DErr => DErr
    | DNull => DNull
    | DOk a =>
        if existsb rule_field_err a then DErr
        else DOk {| pr_record := str_field "record" a; pr_alert := str_field "alert" a; pr_expr := str_field "expr" a;
                    pr_for := dur_field "for" a; pr_keep := dur_field "keep_firing_for" a;
                    pr_labels := map_field "labels" a; pr_annotations := map_field "annotations" a |}
    end.

  Definition rules_field (l : list (string * node)) : dres (list prule) :=
    match look "rules" l with Some v => dec_slice dec_rule v | None => DNull end.

  Definition group_field_err (kv : string * node) : bool :=
    let '(k, v) := kv in
    if String.eqb k "name" then derr (dec_string v)
    else if (String.eqb k "interval" || String.eqb k "query_offset")%bool then derr (dec_duration v)
    else if String.eqb k "limit" then derr (dec_int v)
    else if String.eqb k "rules" then derr (dec_slice dec_rule v)
    else derr (dec_strmap v).

  Definition dec_group (n : node) : dres pgroup :=
    match dec_fields (Some group_fields) n with
    | DErr => DErr
    | DNull => DNull
    | DOk a =>
        if existsb group_field_err a then DErr
        else DOk {| pg_name := str_field "name" a; pg_labels := map_field "labels" a; pg_rules := dval (rules_field a) [] |}
    end.

  (** decoder.Decode(&groups) on the first document: None = error *)
  Definition load_doc (d : node) : option (list pgroup) :=
    match n_content d with
    | [root] =>
        match dec_fields (Some ["groups"]) root with
        | DErr => None
        | DNull => Some []
        | DOk a =>
            match look "groups" a with
            | Some v => match dec_slice dec_group v with DErr => None | DNull => Some [] | DOk gs => Some gs end
            | None => Some []
            end
        end
    | _ => Some []      (* d.document: a document with <> 1 root is skipped *)
    end.

  (** ---- Validate ---- *)
  Definition label_ok (kv : string * string) : bool :=
    (lname_ok (fst kv) && negb (String.eqb (fst kv) "__name__") && lvalue_ok (snd kv))%bool.

  Fixpoint contains_brace (s : string) : bool :=
    match s with
    | EmptyString => false
    | String c r => if (Ascii.eqb c "{"%char || Ascii.eqb c "}"%char)%bool then true else contains_brace r
    end.

  Definition nonzero_dur (o : option string) : bool := match o with Some s => negb (dur_zero s) | None => false end.
  Definition is_empty (s : string) : bool := String.eqb s "".

  Definition rule_valid (r : prule) : bool :=
    (negb (negb (is_empty (pr_record r)) && negb (is_empty (pr_alert r))) &&
     negb (is_empty (pr_record r) && is_empty (pr_alert r)) &&
     negb (is_empty (pr_expr r)) && expr_ok (pr_expr r) &&
     (if is_empty (pr_record r) then true
      else (match pr_annotations r with [] => true | _ => false end) && negb (nonzero_dur (pr_for r)) && negb (nonzero_dur (pr_keep r)) &&
           metric_ok (pr_record r) && negb (contains_brace (pr_record r))) &&
     forallb label_ok (pr_labels r) &&
     forallb (fun kv => lname_ok (fst kv)) (pr_annotations r) &&
     (if is_empty (pr_alert r) then true
      else forallb (fun kv => tmpl_ok (snd kv)) (pr_labels r) && forallb (fun kv => tmpl_ok (snd kv)) (pr_annotations r)))%bool.

  Fixpoint groups_valid (gs : list pgroup) (seen : list string) : bool :=
    match gs with
    | [] => true
    | g :: r =>
        (negb (is_empty (pg_name g)) && negb (mem_str (pg_name g) seen) &&
         forallb label_ok (pg_labels g) && forallb rule_valid (pg_rules g) &&
         groups_valid r (pg_name g :: seen))%bool
    end.

  (** rulefmt.Parse(content, false) returns no error (only the first document is read) *)
  Definition prom_accepts (docs : list node) : bool :=
    match docs with
    | [] => true
    | d :: _ => match load_doc d with
                | Some gs => groups_valid gs []
                | None => false
                end
    end.
End PromLoader.
