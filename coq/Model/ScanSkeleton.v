(** C11: the concurrency skeleton of cmd/pint/scan.go that Model/ScanLTS.v was written from. *)
From Coq Require Import List String.
Import ListNotations.

(** The concurrency skeleton of cmd/pint/scan.go this transition system was written from, in the notation of
    translator/ext_C11.go (channels renamed by role: ch1 = jobs, ch2 = results; only channel operations, go/defer,
    WaitGroup calls, the calls scanWorker/Report and the control structure around them are kept).  The translator
    re-extracts it from the current source on every run; Properties/C11.v compares.
      make ch1, make ch2                       buffers [jobs], [results] (capacity checked positive by the translator)
      loop{ wg.Add(1); go{ defer wg.Done(); scanWorker(_,ch1,ch2) } }      the [workers] list; wg.Done = [s_exit]
      go{ defer close ch2; wg.Wait() }                                      [s_close_results]
      go{ loop{ switch{ .. case{ loop{ send ch1 } } } }; defer close ch1 }  [s_produce]*, then [s_close_jobs]
      range ch2{ Report(received) }                                         [s_recv]*, [s_end]
      scanWorker: range ch1{ select{ case recv ctx.Done(){ return } default{ loop{ send ch2 } } } }
                                                [s_take], [s_send]*, [s_finish]; loop exit = [s_exit]; the
                                                ctx.Done() branch is the cancellation path left out of the model *)
Definition expected_check_rules_skeleton : list string :=
  ["make ch1"; "make ch2"; "loop{ wg.Add(1) ; go{ defer{ wg.Done() } ; call scanWorker(_,ch1,ch2) } }";
   "go{ defer{ close ch2 } ; wg.Wait() }";
   "go{ loop{ switch{ case{ continue } case{ continue } case{ loop{ send ch1 } } } } ; defer{ close ch1 } }";
   "range ch2{ call Report(received) }"; "return"]%string.
Definition expected_scan_worker_skeleton : list string :=
  ["range ch1{ select{ case recv ctx.Done(){ return } default{ loop{ send ch2 } } } }"]%string.
Definition expected_scan_worker_channels : list string := ["ch1:recv-only"; "ch2:send-only"]%string.

