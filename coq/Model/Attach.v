(** internal/parser: attachment of rule-level control comments — [mergeComments] (models.go) and the comment part of
    [parseRule] (parser.go): head/line/foot hoisting from the rule's mapping node onto its first/last part, then every
    comment field of every node of each part's subtree is parsed with [comments.Parse(part.Line, field)] and the
    rule-type comments are kept, in traversal order.

    A yaml node is what the code reads of [yaml.Node]: the three comment fields, the line, the children.
    [unpackNodes] is the identity on mappings without aliases and merge keys (the fragment modelled). *)
From Coq Require Import List String Ascii NArith ZArith Bool Arith.
From PintV Require Import Common.Bytes Model.CommentsUnicode Model.Comments.
Import ListNotations.
Open Scope string_scope.
Open Scope list_scope.

Inductive ynode := YNode (head line foot : string) (nline : nat) (content : list ynode).

Definition y_head (n : ynode) := let '(YNode h _ _ _ _) := n in h.
Definition y_line (n : ynode) := let '(YNode _ l _ _ _) := n in l.
Definition y_foot (n : ynode) := let '(YNode _ _ f _ _) := n in f.
Definition y_nline (n : ynode) := let '(YNode _ _ _ k _) := n in k.
Definition y_content (n : ynode) := let '(YNode _ _ _ _ c) := n in c.

Definition nonempty (s : string) : list string := match s with EmptyString => [] | _ => [s] end.

(** [mergeComments] *)
Fixpoint merge_comments (n : ynode) : list string :=
  let '(YNode h l f _ c) := n in
  nonempty h ++ nonempty l ++ nonempty f ++ flat_map merge_comments c.

Definition is_empty_str (s : string) : bool := match s with EmptyString => true | _ => false end.

(** the hoisting done inside the loop of [parseRule] for part [i] of [len] *)
Definition hoist (node : ynode) (len i : nat) (part : ynode) : ynode :=
  let '(YNode h l f k c) := part in
  let h1 := if Nat.eqb i 0 && negb (is_empty_str (y_head node)) && is_empty_str h then y_head node else h in
  let l1 := if Nat.eqb i 0 && negb (is_empty_str (y_line node)) && is_empty_str l then y_line node else l in
  (* NB the code tests part.HeadComment (after the assignment above) and assigns FootComment *)
  let f1 := if Nat.eqb i (len - 1) && negb (is_empty_str (y_foot node)) && is_empty_str h1 then y_foot node else f in
  YNode h1 l1 f1 k c.

Fixpoint hoist_all (node : ynode) (len i : nat) (parts : list ynode) : list ynode :=
  match parts with
  | [] => []
  | p :: t => hoist node len i p :: hoist_all node len (S i) t
  end.

Section WithTime.
Variable tp : string -> option Z.

Definition part_comments (part : ynode) : list comment :=
  flat_map (fun s => filter (fun c => is_rule_comment (c_type c)) (parse tp (y_nline part) s)) (merge_comments part).

(** [rule.Comments] of the rule parsed from mapping node [node] *)
Definition rule_comments (node : ynode) : list comment :=
  flat_map part_comments (hoist_all node (List.length (y_content node)) 0 (y_content node)).

End WithTime.
