(** Model of internal/reporter/reporter.go: Report equality, Summary.Report (fan-in with
    duplicate suppression), SortReports, Dedup, CountBySeverity, ReportsPerPath. *)
From Coq Require Import List String ZArith NArith Bool Lia.
From PintV Require Import Common.Bytes.
Import ListNotations.
Open Scope Z_scope.

Record diag := { dg_msg : string; dg_first : Z; dg_last : Z }.

(** Every field of reporter.Report that equality, ordering, folding or rendering reads.
    [r_rule] is the class of [Report.Rule] under [parser.Rule.IsSame] (computed by the harness with the
    real IsSame; the rule itself is opaque to this layer). *)
Record report := {
  r_path : string; r_target : string; r_owner : string; r_rule : N;
  r_reporter : string; r_summary : string; r_details : string;
  r_diags : list diag; r_lfirst : Z; r_llast : Z; r_sev : Z;
  r_is_dup : bool; r_dups : list N  (* indices of reports folded into this one *)
}.

Definition diag_eqb (a b : diag) : bool :=
  (dg_first a =? dg_first b) && (dg_last a =? dg_last b) && String.eqb (dg_msg a) (dg_msg b).

(** isSameDiagnostics *)
Definition is_same_diags (sa sb : list diag) : bool :=
  Nat.eqb (List.length sa) (List.length sb) && forallb (fun a => existsb (fun b => diag_eqb a b) sb) sa.

(** isSameDiagnosticsMessage *)
Definition is_same_diags_msg (sa sb : list diag) : bool :=
  Nat.eqb (List.length sa) (List.length sb) && forallb (fun a => existsb (fun b => String.eqb (dg_msg a) (dg_msg b)) sb) sa.

(** Report.isEqual — [r.isEqual(nr)] *)
Definition is_equal (r nr : report) : bool :=
  String.eqb (r_target nr) (r_target r) &&
  String.eqb (r_path nr) (r_path r) &&
  String.eqb (r_owner nr) (r_owner r) &&
  (r_lfirst r =? r_lfirst nr) &&
  (r_llast r =? r_llast nr) &&
  String.eqb (r_details r) (r_details nr) &&
  N.eqb (r_rule nr) (r_rule r) &&
  String.eqb (r_reporter nr) (r_reporter r) &&
  String.eqb (r_summary nr) (r_summary r) &&
  is_same_diags (r_diags nr) (r_diags r) &&
  (r_sev nr =? r_sev r).

(** Report.isSameIssue *)
Definition is_same_issue (r nr : report) : bool :=
  String.eqb (r_reporter nr) (r_reporter r) &&
  String.eqb (r_summary nr) (r_summary r) &&
  (r_sev nr =? r_sev r) &&
  is_same_diags_msg (r_diags r) (r_diags nr).

(** Summary.hasReport / Summary.Report for one report *)
Definition has_report (s : list report) (r : report) : bool := existsb (fun er => is_equal er r) s.

Definition summary_report (s : list report) (r : report) : list report :=
  if has_report s r then s else s ++ [r].

(** The summary after a whole arrival stream of reports. *)
Definition collect (stream : list report) : list report := fold_left summary_report stream [].
