(** C11 model of the channel protocol of cmd/pint/scan.go: checkRules + scanWorker, as a labelled transition system.

      jobs    := make(chan scanJob, workers*5)            -- [jobs] is the FIFO buffer, [cap] its capacity
      results := make(chan reporter.Report, workers*5)    -- [results], same capacity
      workers x  go func(){ defer wg.Done(); scanWorker(ctx, jobs, results) }()
      go func(){ defer close(results); wg.Wait() }()                         -- [s_close_results]
      go func(){ for entries/checks { jobs <- scanJob{..} }; close(jobs) }() -- [s_produce], [s_close_jobs]
      for result := range results { summary.Report(result) }                -- [s_recv], [s_end]
      scanWorker: for job := range jobs { problems := Check(..); for _, p := range problems { results <- Report{..} } }
                                                                            -- [s_take], [s_send], [s_finish], [s_exit]

    One transition = one channel operation (or a goroutine's return); a state holds what every goroutine still has
    to do.  Interleavings of goroutines = paths of the LTS.  [run j] is the list of reports job [j] sends, in order
    (check.Check + the Report literal of scanWorker): an opaque function of the job.
    Not modelled: the [ctx.Done()] branch of scanWorker (cancellation drops jobs by design; lint/ci never cancel),
    the metrics, and time.  Executable/inductive definitions only; proofs are in Proofs/C11_lts.v. *)
From Coq Require Import List Arith Bool.
Import ListNotations.

Section ScanLTS.
  Variables J A : Type.
  Variable run : J -> list A.
  Variable cap : nat.              (* capacity of both channels: workers*5 *)

  (** a scanWorker goroutine: blocked on / about to receive from [jobs]; inside the [for problem] loop with the
      reports it has still to send; returned (wg.Done executed) *)
  Inductive wstate := WIdle | WBusy (pending : list A) | WExited.

  Record state := mk {
    todo : list J;               (* jobs the producer goroutine has not sent yet, in order *)
    jobs : list J;               (* buffer of the jobs channel, head = next to be received *)
    jobs_closed : bool;
    workers : list wstate;
    results : list A;            (* buffer of the results channel *)
    results_closed : bool;
    summary : list A;            (* arguments of summary.Report so far, in call order = the arrival stream *)
    done : bool                  (* the range loop of the main goroutine has ended *)
  }.

  Definition init (n : nat) (js : list J) : state := mk js [] false (repeat WIdle n) [] false [] false.

  Inductive step : state -> state -> Prop :=
  | s_produce : forall j t js jc ws rs rc sm dn,          (* jobs <- scanJob{..}: blocks while the buffer is full *)
      length js < cap ->
      step (mk (j :: t) js jc ws rs rc sm dn) (mk t (js ++ [j]) jc ws rs rc sm dn)
  | s_close_jobs : forall js ws rs rc sm dn,              (* close(jobs) after the producer's loop *)
      step (mk [] js false ws rs rc sm dn) (mk [] js true ws rs rc sm dn)
  | s_take : forall t j js jc w1 w2 rs rc sm dn,          (* job := <-jobs ; problems := job.check.Check(..) *)
      step (mk t (j :: js) jc (w1 ++ WIdle :: w2) rs rc sm dn) (mk t js jc (w1 ++ WBusy (run j) :: w2) rs rc sm dn)
  | s_send : forall t js jc w1 a p w2 rs rc sm dn,        (* results <- reporter.Report{..}: blocks while full *)
      length rs < cap ->
      step (mk t js jc (w1 ++ WBusy (a :: p) :: w2) rs rc sm dn) (mk t js jc (w1 ++ WBusy p :: w2) (rs ++ [a]) rc sm dn)
  | s_finish : forall t js jc w1 w2 rs rc sm dn,          (* end of the problems loop: back to range jobs *)
      step (mk t js jc (w1 ++ WBusy [] :: w2) rs rc sm dn) (mk t js jc (w1 ++ WIdle :: w2) rs rc sm dn)
  | s_exit : forall t w1 w2 rs rc sm dn,                  (* range over a closed, drained channel ends; wg.Done() *)
      step (mk t [] true (w1 ++ WIdle :: w2) rs rc sm dn) (mk t [] true (w1 ++ WExited :: w2) rs rc sm dn)
  | s_close_results : forall t js jc ws rs sm dn,         (* wg.Wait() returns; deferred close(results) *)
      Forall (eq WExited) ws ->
      step (mk t js jc ws rs false sm dn) (mk t js jc ws rs true sm dn)
  | s_recv : forall t js jc ws a rs rc sm,                (* result := <-results ; summary.Report(result) *)
      step (mk t js jc ws (a :: rs) rc sm false) (mk t js jc ws rs rc (sm ++ [a]) false)
  | s_end : forall t js jc ws sm,                         (* results closed and drained: the range loop ends *)
      step (mk t js jc ws [] true sm false) (mk t js jc ws [] true sm true).

  Inductive reachable (s0 : state) : state -> Prop :=
  | r_refl : reachable s0 s0
  | r_step : forall s s', reachable s0 s -> step s s' -> reachable s0 s'.

  (** paths with their length *)
  Inductive steps : state -> nat -> state -> Prop :=
  | st_nil : forall s, steps s 0 s
  | st_cons : forall s s' s'' k, step s s' -> steps s' k s'' -> steps s (S k) s''.

  (** what a worker has still to send *)
  Definition pend (w : wstate) : list A := match w with WBusy p => p | _ => [] end.

  (** every report that exists in a state, delivered ones first *)
  Definition all_reports (s : state) : list A :=
    summary s ++ results s ++ flat_map pend (workers s) ++ flat_map run (jobs s) ++ flat_map run (todo s).

  (** the workers=1, in-order stream: what the harness records job by job *)
  Definition sequential (js : list J) : list A := flat_map run js.

  (** termination measure: every transition lowers it by exactly one *)
  Definition b2n (b : bool) : nat := if b then 0 else 1.
  Definition mw (w : wstate) : nat := match w with WIdle => 1 | WBusy p => 2 + 2 * length p | WExited => 0 end.
  Definition measure (s : state) : nat :=
    list_sum (map (fun j => 3 + 2 * length (run j)) (todo s)) +
    list_sum (map (fun j => 2 + 2 * length (run j)) (jobs s)) +
    list_sum (map mw (workers s)) + length (results s) +
    b2n (jobs_closed s) + b2n (results_closed s) + b2n (done s).
End ScanLTS.

Arguments WIdle {A}.
Arguments WBusy {A} _.
Arguments WExited {A}.
