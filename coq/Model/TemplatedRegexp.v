(** C18 — protocol model of checks.TemplatedRegexp (internal/checks/template.go, as it is after fix 7fc2b62).

    text/template and regexp are ORACLES with no assumed behaviour:
      [tmpl_parse]  : template.New("regexp").Parse(text)        (None = error)
      [tmpl_exec]   : tmpl.Execute(&buf, ctx)                   (None = error)
      [re_compile]  : regexp.Compile(text)                      (None = error)
    A nil *TemplatedRegexp / nil *regexp.Regexp that is later dereferenced is the explicit outcome [Crash].
    Definitions only. *)
From Coq Require Import List String Bool.
From PintV Require Import Common.Bytes.
Import ListNotations.
Open Scope string_scope.
Open Scope list_scope.

Inductive outcome (A : Type) := Ok (a : A) | Crash (where_ : string).
Arguments Ok {A} _.
Arguments Crash {A} _.

(** the rule fields newTemplateContext reads *)
Inductive rkind := RAlerting | RRecording | RNone.
Record trule := {
  tr_kind : rkind;
  tr_name : string;                          (* alert / record *)
  tr_expr : string;
  tr_for : option string;
  tr_labels : option (list (string * string));
  tr_annotations : option (list (string * string))
}.

Definition empty_rule : trule :=            (* parser.Rule{} *)
  {| tr_kind := RNone; tr_name := ""; tr_expr := ""; tr_for := None; tr_labels := None; tr_annotations := None |}.

(** TemplateContext.  NOTE (observation, not part of C18): for alerting rules newTemplateContext stores the
    ANNOTATIONS into the Labels map too ([c.Labels[ann.Key.Value] = ann.Value.Value]) and never fills Annotations. *)
Record tctx := {
  cx_alert : string; cx_record : string; cx_expr : string; cx_for : string;
  cx_labels : list (string * string);       (* Go map, insertion order kept; later writes win on lookup *)
  cx_annotations : list (string * string)
}.

Definition opt_items (o : option (list (string * string))) : list (string * string) :=
  match o with Some l => l | None => [] end.

Definition new_template_context (r : trule) : tctx :=
  match tr_kind r with
  | RAlerting =>
      {| cx_alert := tr_name r; cx_record := ""; cx_expr := tr_expr r;
         cx_for := match tr_for r with Some f => f | None => "" end;
         cx_labels := opt_items (tr_labels r) ++ opt_items (tr_annotations r);
         cx_annotations := [] |}
  | RRecording =>
      {| cx_alert := ""; cx_record := tr_name r; cx_expr := tr_expr r; cx_for := "";
         cx_labels := opt_items (tr_labels r); cx_annotations := [] |}
  | RNone =>
      {| cx_alert := ""; cx_record := ""; cx_expr := ""; cx_for := ""; cx_labels := []; cx_annotations := [] |}
  end.

Definition aliases : string :=
  "{{ $alert := .Alert }}{{ $record := .Record }}{{ $for := .For }}{{ $labels := .Labels }}{{ $annotations := .Annotations }}".

(** the constant of MustExpand's fallback *)
Definition never_matching : string := "[^\s\S]".

Record templated := { t_anchored : string; t_original : string }.

Section Oracles.
  Variables (Tmpl Re : Type).
  Variable tmpl_parse : string -> option Tmpl.
  Variable tmpl_exec : Tmpl -> tctx -> option string.
  Variable re_compile : string -> option Re.

  (** TemplatedRegexp.Expand; None = error *)
  Definition expand (t : templated) (r : trule) : option Re :=
    match tmpl_parse (aliases ++ t_anchored t)%string with
    | None => None
    | Some tm => match tmpl_exec tm (new_template_context r) with
                 | None => None
                 | Some s => re_compile s
                 end
    end.

  (** NewTemplatedRegexp / NewRawTemplatedRegexp; None = (nil, err) *)
  Definition new_templated (s : string) : option templated :=
    let t := {| t_anchored := ("^" ++ s ++ "$")%string; t_original := s |} in
    match expand t empty_rule with Some _ => Some t | None => None end.

  Definition new_raw_templated (s : string) : option templated :=
    let t := {| t_anchored := s; t_original := s |} in
    match expand t empty_rule with Some _ => Some t | None => None end.

  (** MustTemplatedRegexp / MustRawTemplatedRegexp: the error is dropped, the pointer may be nil *)
  Definition must_templated (s : string) : option templated := new_templated s.
  Definition must_raw_templated (s : string) : option templated := new_raw_templated s.

  (** regexp.MustCompile(constant) *)
  Definition must_compile (s : string) : outcome Re :=
    match re_compile s with Some r => Ok r | None => Crash "regexp.MustCompile" end.

  (** TemplatedRegexp.MustExpand after fix 7fc2b62 *)
  Definition must_expand (t : templated) (r : trule) : outcome Re :=
    match expand t r with
    | Some re => Ok re
    | None => must_compile never_matching
    end.

  (** MustExpand BEFORE the fix (kept for the regression theorem): returns nil, every caller dereferences it *)
  Definition must_expand_prefix (t : templated) (r : trule) : outcome Re :=
    match expand t r with
    | Some re => Ok re
    | None => Crash "nil *regexp.Regexp dereferenced"
    end.

  (** a use site: [c.re.MustExpand(rule)] where [c.re] was built by Must(Raw)TemplatedRegexp at parseRule time *)
  Definition use_site (built : option templated) (r : trule) : outcome Re :=
    match built with
    | None => Crash "nil *TemplatedRegexp dereferenced"
    | Some t => must_expand t r
    end.

  (** config load: validate() calls New(Raw)TemplatedRegexp on the same string and rejects on error *)
  Definition validate_templated (s : string) : bool :=
    match new_templated s with Some _ => true | None => false end.
  Definition validate_raw_templated (s : string) : bool :=
    match new_raw_templated s with Some _ => true | None => false end.
End Oracles.
