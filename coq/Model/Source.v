(** Model of pint's PromQL label-flow analyser, internal/parser/utils/source.go, as the code is NOW
    (after fixes c0db6fa, f3c0f95, 392e95a, 78dbe66, 5b88941, 06b3093, 53ade46): [walk_node] and every transfer function, [can_have_label], [can_join],
    [calculate_static_return], and the two consumers (alerts/template label check, promql/impossible).

    Not modelled (message-only data): ExcludeReason texts/fragments, Position/IsDeadPosition, IsDeadReason text
    (only the label name it mentions, [s_dead_label]), the Aggregation pointer.
    Go slices are modelled as lists.  Since fix 78dbe66 [removeFromSlice] deletes from a clone
    ([slices.Delete(slices.Clone(sl), …)]) and every other writer appends through [appendToSlice]
    (append to a slice of full capacity reallocates, append within capacity only writes past the
    length of every earlier copy), so copies of a Source never observe each other's updates and the list
    model is exact also for multi-branch scalar operands ([scalar(a or b)]), which the generator now emits. *)
From Coq Require Import List String Bool Floats NArith.
From PintV Require Import Common.Bytes Gen.C04 Model.PromQL.
Import ListNotations.
Open Scope string_scope.
Open Scope list_scope.

Inductive stype := TUnknown | TNumber | TString | TSelector | TFunc | TAggregate.

Inductive source := mkSource {
  s_type : stype;
  s_returns : vtype;
  s_operation : string;
  s_selector : option (list matcher);
  s_call : option (string * nat);
  s_joins : list source;
  s_unless : list source;
  s_included : list string;
  s_excluded : list string;
  s_guaranteed : list string;
  s_number : float;
  s_fixed : bool;
  s_dead : bool;
  s_dead_label : option string;
  s_always : bool;
  s_known : bool;
  s_cond : bool;
  s_retbool : bool }.

Definition set_type (s : source) (v : stype) : source :=
  mkSource v (s_returns s) (s_operation s) (s_selector s) (s_call s) (s_joins s) (s_unless s) (s_included s) (s_excluded s) (s_guaranteed s) (s_number s) (s_fixed s) (s_dead s) (s_dead_label s) (s_always s) (s_known s) (s_cond s) (s_retbool s).

Definition set_returns (s : source) (v : vtype) : source :=
  mkSource (s_type s) v (s_operation s) (s_selector s) (s_call s) (s_joins s) (s_unless s) (s_included s) (s_excluded s) (s_guaranteed s) (s_number s) (s_fixed s) (s_dead s) (s_dead_label s) (s_always s) (s_known s) (s_cond s) (s_retbool s).

Definition set_operation (s : source) (v : string) : source :=
  mkSource (s_type s) (s_returns s) v (s_selector s) (s_call s) (s_joins s) (s_unless s) (s_included s) (s_excluded s) (s_guaranteed s) (s_number s) (s_fixed s) (s_dead s) (s_dead_label s) (s_always s) (s_known s) (s_cond s) (s_retbool s).

Definition set_selector (s : source) (v : option (list matcher)) : source :=
  mkSource (s_type s) (s_returns s) (s_operation s) v (s_call s) (s_joins s) (s_unless s) (s_included s) (s_excluded s) (s_guaranteed s) (s_number s) (s_fixed s) (s_dead s) (s_dead_label s) (s_always s) (s_known s) (s_cond s) (s_retbool s).

Definition set_call (s : source) (v : option (string * nat)) : source :=
  mkSource (s_type s) (s_returns s) (s_operation s) (s_selector s) v (s_joins s) (s_unless s) (s_included s) (s_excluded s) (s_guaranteed s) (s_number s) (s_fixed s) (s_dead s) (s_dead_label s) (s_always s) (s_known s) (s_cond s) (s_retbool s).

Definition set_joins (s : source) (v : list source) : source :=
  mkSource (s_type s) (s_returns s) (s_operation s) (s_selector s) (s_call s) v (s_unless s) (s_included s) (s_excluded s) (s_guaranteed s) (s_number s) (s_fixed s) (s_dead s) (s_dead_label s) (s_always s) (s_known s) (s_cond s) (s_retbool s).

Definition set_unless (s : source) (v : list source) : source :=
  mkSource (s_type s) (s_returns s) (s_operation s) (s_selector s) (s_call s) (s_joins s) v (s_included s) (s_excluded s) (s_guaranteed s) (s_number s) (s_fixed s) (s_dead s) (s_dead_label s) (s_always s) (s_known s) (s_cond s) (s_retbool s).

Definition set_included (s : source) (v : list string) : source :=
  mkSource (s_type s) (s_returns s) (s_operation s) (s_selector s) (s_call s) (s_joins s) (s_unless s) v (s_excluded s) (s_guaranteed s) (s_number s) (s_fixed s) (s_dead s) (s_dead_label s) (s_always s) (s_known s) (s_cond s) (s_retbool s).

Definition set_excluded (s : source) (v : list string) : source :=
  mkSource (s_type s) (s_returns s) (s_operation s) (s_selector s) (s_call s) (s_joins s) (s_unless s) (s_included s) v (s_guaranteed s) (s_number s) (s_fixed s) (s_dead s) (s_dead_label s) (s_always s) (s_known s) (s_cond s) (s_retbool s).

Definition set_guaranteed (s : source) (v : list string) : source :=
  mkSource (s_type s) (s_returns s) (s_operation s) (s_selector s) (s_call s) (s_joins s) (s_unless s) (s_included s) (s_excluded s) v (s_number s) (s_fixed s) (s_dead s) (s_dead_label s) (s_always s) (s_known s) (s_cond s) (s_retbool s).

Definition set_number (s : source) (v : float) : source :=
  mkSource (s_type s) (s_returns s) (s_operation s) (s_selector s) (s_call s) (s_joins s) (s_unless s) (s_included s) (s_excluded s) (s_guaranteed s) v (s_fixed s) (s_dead s) (s_dead_label s) (s_always s) (s_known s) (s_cond s) (s_retbool s).

Definition set_fixed (s : source) (v : bool) : source :=
  mkSource (s_type s) (s_returns s) (s_operation s) (s_selector s) (s_call s) (s_joins s) (s_unless s) (s_included s) (s_excluded s) (s_guaranteed s) (s_number s) v (s_dead s) (s_dead_label s) (s_always s) (s_known s) (s_cond s) (s_retbool s).

Definition set_dead (s : source) (v : bool) : source :=
  mkSource (s_type s) (s_returns s) (s_operation s) (s_selector s) (s_call s) (s_joins s) (s_unless s) (s_included s) (s_excluded s) (s_guaranteed s) (s_number s) (s_fixed s) v (s_dead_label s) (s_always s) (s_known s) (s_cond s) (s_retbool s).

Definition set_dead_label (s : source) (v : option string) : source :=
  mkSource (s_type s) (s_returns s) (s_operation s) (s_selector s) (s_call s) (s_joins s) (s_unless s) (s_included s) (s_excluded s) (s_guaranteed s) (s_number s) (s_fixed s) (s_dead s) v (s_always s) (s_known s) (s_cond s) (s_retbool s).

Definition set_always (s : source) (v : bool) : source :=
  mkSource (s_type s) (s_returns s) (s_operation s) (s_selector s) (s_call s) (s_joins s) (s_unless s) (s_included s) (s_excluded s) (s_guaranteed s) (s_number s) (s_fixed s) (s_dead s) (s_dead_label s) v (s_known s) (s_cond s) (s_retbool s).

Definition set_known (s : source) (v : bool) : source :=
  mkSource (s_type s) (s_returns s) (s_operation s) (s_selector s) (s_call s) (s_joins s) (s_unless s) (s_included s) (s_excluded s) (s_guaranteed s) (s_number s) (s_fixed s) (s_dead s) (s_dead_label s) (s_always s) v (s_cond s) (s_retbool s).

Definition set_cond (s : source) (v : bool) : source :=
  mkSource (s_type s) (s_returns s) (s_operation s) (s_selector s) (s_call s) (s_joins s) (s_unless s) (s_included s) (s_excluded s) (s_guaranteed s) (s_number s) (s_fixed s) (s_dead s) (s_dead_label s) (s_always s) (s_known s) v (s_retbool s).

Definition set_retbool (s : source) (v : bool) : source :=
  mkSource (s_type s) (s_returns s) (s_operation s) (s_selector s) (s_call s) (s_joins s) (s_unless s) (s_included s) (s_excluded s) (s_guaranteed s) (s_number s) (s_fixed s) (s_dead s) (s_dead_label s) (s_always s) (s_known s) (s_cond s) v.


Definition zero_source : source :=
  mkSource TUnknown VUnset "" None None [] [] [] [] [] 0%float false false None false false false false.

(** ** slice helpers *)

(** slices.Index + slices.Delete of the first occurrence *)
Fixpoint remove_first (v : string) (sl : list string) : list string :=
  match sl with
  | [] => []
  | x :: r => if String.eqb x v then r else x :: remove_first v r
  end.

Definition remove_from_slice (sl : list string) (vs : list string) : list string :=
  fold_left (fun acc v => remove_first v acc) vs sl.

Definition append_to_slice (dst : list string) (vs : list string) : list string :=
  fold_left (fun acc v => if mem_str v acc then acc else acc ++ [v]) vs dst.

Definition include_label (s : source) (names : list string) : source :=
  let s := set_excluded s (remove_from_slice (s_excluded s) names) in
  set_included s (append_to_slice (s_included s) names).

(** Include labels that were not already excluded: appends ALL names once per non-excluded name. *)
Definition maybe_include_label (s : source) (names : list string) : source :=
  fold_left (fun s name => if mem_str name (s_excluded s) then s
                           else set_included s (append_to_slice (s_included s) names)) names s.

Definition restrict_included (s : source) (names : list string) : source :=
  let todo := filter (fun n => negb (mem_str n names)) (s_included s) in
  set_included s (remove_from_slice (s_included s) todo).

Definition guarantee_label (s : source) (names : list string) : source :=
  let s := set_excluded s (remove_from_slice (s_excluded s) names) in
  set_guaranteed s (append_to_slice (s_guaranteed s) names).

Definition restrict_guaranteed (s : source) (names : list string) : source :=
  let todo := filter (fun n => negb (mem_str n names)) (s_guaranteed s) in
  set_guaranteed s (remove_from_slice (s_guaranteed s) todo).

Definition exclude_label (s : source) (names : list string) : source :=
  let s := set_excluded s (append_to_slice (s_excluded s) names) in
  let s := set_included s (remove_from_slice (s_included s) names) in
  set_guaranteed s (remove_from_slice (s_guaranteed s) names).

Definition matchtype_name (t : matchtype) : string :=
  match t with MEq => "MatchEqual" | MNe => "MatchNotEqual" | MRe => "MatchRegexp" | MNre => "MatchNotRegexp" end.

Definition labels_from_selectors (matches : list string) (sel : option (list matcher)) : list string :=
  match sel with
  | None => []
  | Some ms =>
      fold_left (fun names lm =>
                   if String.eqb (m_name lm) metric_name then names
                   else if negb (mem_str (matchtype_name (m_type lm)) matches) then names
                   else append_to_slice names [m_name lm]) ms []
  end.

Definition labels_with_empty_value_selector (ms : list matcher) : list string :=
  fold_left (fun names lm =>
               if String.eqb (m_name lm) metric_name then names
               else if matchtype_eqb (m_type lm) MEq && String.eqb (m_value lm) "" then append_to_slice names [m_name lm]
               else names) ms [].

(** absentLabels (fixes 5b88941, 06b3093, 53ade46): the labels absent()/absent_over_time() copy to their result.  Parentheses
    around the argument are unwrapped; for a plain (matrix) selector the matchers are walked in order exactly as the engine
    does: the first equality matcher of a name sets the label (an empty value removes it), any other matcher of that name
    removes it; the metric name is skipped.  Any other argument gives no labels. *)
Fixpoint unwrap_parens (e : expr) : expr :=
  match e with EParen e' => unwrap_parens e' | _ => e end.

Definition absent_walk (acc : list string * list string) (lm : matcher) : list string * list string :=
  let '(names, seen) := acc in
  if String.eqb (m_name lm) metric_name then acc
  else if matchtype_eqb (m_type lm) MEq && negb (mem_str (m_name lm) seen) then
    if negb (String.eqb (m_value lm) "") then (append_to_slice names [m_name lm], m_name lm :: seen)
    else (remove_from_slice names [m_name lm], m_name lm :: seen)
  else (remove_from_slice names [m_name lm], seen).

Definition absent_names (arg : option expr) : list string :=
  match (match arg with
         | Some a => match unwrap_parens a with ESel ms => Some ms | EMatrix (ESel ms) => Some ms | _ => None end
         | None => None end) with
  | None => []
  | Some ms => fst (fold_left absent_walk ms ([], []))
  end.

(** Source.CanHaveLabel *)
Definition can_have_label (s : source) (name : string) : bool :=
  if mem_str name (s_excluded s) then false
  else if mem_str name (s_included s) then true
  else if mem_str name (s_guaranteed s) then true
  else negb (s_fixed s).

(** checkConditions *)
Definition check_conditions (s : source) (op : binop) (is_bool : bool) : bool * bool :=
  let ret_bool := if negb (s_cond s) && is_bool then is_bool else false in
  let cond := if s_cond s then s_cond s else is_comparison op in
  (cond, ret_bool).

Definition apply_conditions (s : source) (op : binop) (is_bool : bool) : source :=
  let '(c, b) := check_conditions s op is_bool in
  set_retbool (set_cond s c) b.

(** canJoin: [None] = can join; [Some n] = "never matched" because of label [n]. *)
Definition can_join (ls rs : source) (vm : vmatch) : option string :=
  if vm_on vm && match vm_labels vm with [] => true | _ => false end then None
  else if vm_on vm then
    find (fun name => can_have_label ls name && negb (can_have_label rs name)) (vm_labels vm)
  else
    find (fun name => negb (mem_str name (vm_labels vm)) && (can_have_label ls name && negb (can_have_label rs name)))
         (s_guaranteed ls).

Definition mark_join (s rs : source) (vm : vmatch) : source :=
  match can_join s rs vm with
  | Some n => set_dead_label (set_dead rs true) (Some n)
  | None => rs
  end.

Section Walk.
  (** math.Mod and math.Pow: shared oracles (never reasoned about). *)
  Variable fmod fpow : float -> float -> float.

  (** calculateStaticReturn: (ReturnedNumber, IsDead) *)
  Definition calculate_static_return (ls rs : source) (op : binop) (is_dead : bool) : float * bool :=
    let a := s_number ls in
    let b := s_number rs in
    match op with
    | OEql => if negb (PrimFloat.eqb a b) then (a, true) else (a, is_dead)
    | ONeq => if PrimFloat.eqb a b then (a, true) else (a, is_dead)
    | OLte => if PrimFloat.ltb b a then (a, true) else (a, is_dead)
    | OLss => if PrimFloat.leb b a then (a, true) else (a, is_dead)
    | OGte => if PrimFloat.ltb a b then (a, true) else (a, is_dead)
    | OGtr => if PrimFloat.leb a b then (a, true) else (a, is_dead)
    | OAdd => (PrimFloat.add a b, is_dead)
    | OSub => (PrimFloat.sub a b, is_dead)
    | OMul => (PrimFloat.mul a b, is_dead)
    | ODiv => (PrimFloat.div a b, is_dead)
    | OMod => (fmod a b, is_dead)
    | OPow => (fpow a b, is_dead)
    | _ => (a, is_dead)
    end.

  Definition static_applies (ls rs : source) : bool :=
    s_always ls && s_always rs && s_known ls && s_known rs.

  Definition apply_static (side ls rs : source) (op : binop) (is_dead : bool) : source :=
    let '(v, d) := calculate_static_return ls rs op is_dead in
    let side := set_number side v in
    (* IsDeadReason/IsDeadPosition are overwritten too: a comparison verdict mentions no label *)
    set_dead_label (set_dead side d) None.

  Definition func_kind (name : string) : string :=
    match find (fun row => mem_str name (fst row)) func_cases with
    | Some row => snd row
    | None => "default"
    end.

  Definition clear_labels (s : source) : source := set_guaranteed (set_included s []) [].

  Definition gmatches := guaranteed_labels_matches.

  (** [param, ok := stringLiteralValue(e)]: [lit_of e] is [Some param] when ok; [str_of_expr e] is [param] ("" when not ok) *)
  Definition str_of_expr (e : option expr) : string :=
    match lit_of e with Some s => s | None => "" end.

  (** parsePromQLFunc, with [arg0_sources] = walkNode(expr, n.Args[0]) for the "vector" case. *)
  Definition parse_promql_func (s : source) (fname : string) (args : list expr) (arg0_sources : list source) : source :=
    let kind := func_kind fname in
    if String.eqb kind "preserve" then
      guarantee_label (set_returns s VVector) (labels_from_selectors gmatches (s_selector s))
    else if String.eqb kind "sort" then set_returns s VVector
    else if String.eqb kind "scalar" then
      set_always (set_fixed (clear_labels (set_returns s VScalar)) true) true
    else if String.eqb kind "absent" then
      (* fix f3c0f95: s.IsDead = false; s.IsDeadReason = ""; s.AlwaysReturns = false *)
      let s := set_always (set_dead_label (set_dead (set_returns s VVector) false) None) false in
      let s := clear_labels (set_fixed s true) in
      fold_left (fun s name => guarantee_label (include_label s [name]) [name])
                (absent_names (nth_error args 0)) s
    else if String.eqb kind "timelike" then
      let s := set_returns s VVector in
      match args with
      | [] => clear_labels (set_always (set_fixed s true) true)
      | _ => guarantee_label s (labels_from_selectors gmatches (s_selector s))
      end
    else if String.eqb kind "arg1" then
      (* fix 53ade46: dst is guaranteed only when Args[1] is a (parenthesised) string literal *)
      match lit_of (nth_error args 1) with
      | Some dst => guarantee_label (set_returns s VVector) [dst]
      | None => set_returns s VVector
      end
    else if String.eqb kind "vector" then
      let s := set_always (set_fixed (clear_labels (set_returns s VVector)) true) true in
      fold_left (fun s vs => if s_known vs then set_known (set_number s (s_number vs)) true else s) arg0_sources s
    else
      set_call (set_returns s VNone) None.

  Definition is_vec_or_matrix (t : vtype) : bool :=
    match t with VVector | VMatrix => true | _ => false end.

  Definition arg_type (ats : list vtype) (i : nat) : vtype :=
    match nth_error ats i with
    | Some t => t
    | None => last ats VUnset
    end.

  Definition exclude_metric_name (s : source) (without : bool) (grouping : list string) : source :=
    if negb without && mem_str metric_name grouping && negb (mem_str metric_name (s_excluded s)) then s
    else exclude_label s [metric_name].

  (** parseAggregation, per inner source *)
  Definition parse_aggregation1 (s : source) (without : bool) (grouping : list string) : source :=
    let s :=
      if without then exclude_label s grouping
      else
        let s :=
          match grouping with
          | [] => clear_labels s
          | _ =>
              let s := if negb (s_fixed s) then maybe_include_label s grouping else s in
              restrict_included (restrict_guaranteed s grouping) grouping
          end in
        set_fixed s true in
    set_returns (set_type s TAggregate) VVector.

  Definition agg_operation (op : aggop) : string :=
    match op with
    | ASum => "sum" | AMin => "min" | AMax => "max" | AAvg => "avg" | AGroup => "group"
    | AStddev => "stddev" | AStdvar => "stdvar" | ACount => "count" | ACountValues => "count_values"
    | AQuantile => "quantile" | ATopk => "topk" | ABottomk => "bottomk" | AOther => ""
    end.

  (** the [n.VectorMatching == nil] case of parseBinOps: one (ls, rs) pair *)
  Definition nil_pair (op : binop) (rb : bool) (ls0 rs0 : source) : source :=
    let ls := apply_conditions ls0 op rb in
    let rs := apply_conditions rs0 op rb in
    let side := if is_vec_or_matrix (s_returns ls) then ls
                else if is_vec_or_matrix (s_returns rs) then rs else ls in
    if static_applies ls rs then apply_static side ls rs op (s_dead ls) else side.

  Definition binops_nil (op : binop) (rb : bool) (lhs rhs : list source) : list source :=
    flat_map (fun ls0 => map (nil_pair op rb ls0) rhs) lhs.

  Definition set_op_default (s : source) (c : card) : source :=
    if String.eqb (s_operation s) "" then set_operation s (card_string c) else s.

  Definition add_joins (vm : vmatch) (others : list source) (s : source) : source :=
    fold_left (fun s rs => set_joins s (s_joins s ++ [mark_join s rs vm])) others s.

  Definition one_to_one_labels (vm : vmatch) (s : source) : source :=
    if vm_on vm then
      let s := set_fixed s true in
      let s := include_label s (vm_labels vm) in
      let s := restrict_included s (vm_labels vm) in
      restrict_guaranteed s (vm_labels vm)
    else exclude_label s (vm_labels vm).

  Definition one_to_one_static (op : binop) (rb : bool) (vm : vmatch) (rhs : list source) (s : source) : source :=
    if vm_on vm then s
    else fold_left (fun s rs0 =>
                      let rs := apply_conditions rs0 op rb in
                      if static_applies s rs then apply_static s s rs op (s_dead s) else s) rhs s.

  Definition one_to_one_src (op : binop) (rb : bool) (vm : vmatch) (rhs : list source) (s : source) : source :=
    let s := one_to_one_static op rb vm rhs (one_to_one_labels vm s) in
    let s := set_op_default s (vm_card vm) in
    let s := add_joins vm rhs s in
    apply_conditions s op rb.

  Definition binops_one_to_one (op : binop) (rb : bool) (vm : vmatch) (lhs rhs : list source) : list source :=
    map (one_to_one_src op rb vm rhs) lhs.

  (** group_left (many-to-one): [many] = LHS sources, [one] = RHS; group_right: swapped by the caller *)
  Definition group_labels (vm : vmatch) (s : source) : source :=
    let s := include_label s (vm_include vm) in
    if vm_on vm then include_label s (vm_labels vm) else s.

  Definition group_src (op : binop) (rb : bool) (vm : vmatch) (one : list source) (s : source) : source :=
    let s := group_labels vm s in
    let s := set_op_default s (vm_card vm) in
    let s := add_joins vm one s in
    apply_conditions s op rb.

  Definition binops_group (op : binop) (rb : bool) (vm : vmatch) (many one : list source) : list source :=
    map (group_src op rb vm one) many.

  Definition vm_on_empty (vm : vmatch) : bool :=
    vm_on vm && match vm_labels vm with [] => true | _ => false end.

  Definition mtm_step (op : binop) (rb : bool) (vm : vmatch) (acc : source * bool) (rs0 : source) : source * bool :=
    let '(s, rc) := acc in
    let rc := if fst (check_conditions rs0 op rb) then true else rc in
    let rs := mark_join s rs0 vm in
    match op with
    | OUnless =>
        let s := if vm_on_empty vm && s_always rs && negb (s_cond rs)
                 then set_dead_label (set_dead s true) None else s in
        (set_unless s (s_unless s ++ [rs]), rc)
    | OOr => (s, rc)
    | _ => (set_joins s (s_joins s ++ [rs]), rc)
    end.

  Definition mtm_labels (vm : vmatch) (s : source) : source :=
    if vm_on vm then include_label s (vm_labels vm) else s.

  (** one LHS source of and/or/unless: (source, "this LHS source can be empty") *)
  Definition mtm_src (op : binop) (rb : bool) (vm : vmatch) (rhs : list source) (s : source) : source * bool :=
    let s := mtm_labels vm s in
    let s := set_op_default s (vm_card vm) in
    let can_be_empty := negb (s_always s) || s_cond s in
    let '(s, rhs_cond) := fold_left (mtm_step op rb vm) rhs (s, false) in
    let s := if binop_eqb op OAnd && rhs_cond then set_cond s true else s in
    (s, can_be_empty).

  Definition or_rhs_src (vm : vmatch) (lhs_can_be_empty : bool) (s : source) : source :=
    let s := set_op_default s (vm_card vm) in
    if negb lhs_can_be_empty then set_dead_label (set_dead s true) None else s.

  Definition binops_many_to_many (op : binop) (rb : bool) (vm : vmatch) (lhs rhs : list source) : list source :=
    let lhs' := map (mtm_src op rb vm rhs) lhs in
    let lhs_can_be_empty := existsb snd lhs' in
    map fst lhs' ++
    (if binop_eqb op OOr then map (or_rhs_src vm lhs_can_be_empty) rhs else []).

  Definition topk_src (op : aggop) (s : source) : source :=
    set_operation (set_type s TAggregate) (agg_operation op).

  Definition agg_src (op : aggop) (without : bool) (grouping : list string) (param : option expr) (s : source) : source :=
    match op with
    | ACountValues =>
        let s := set_operation (parse_aggregation1 s without grouping) "count_values" in
        (* fix 53ade46: included and guaranteed only when the parameter is a (parenthesised) string literal *)
        let s := match lit_of param with
                 | Some d => guarantee_label (include_label s [d]) [d]
                 | None => s
                 end in
        (* fix 392e95a: count_values("__name__", ...) by(...) stores the value in the metric name *)
        if without || negb (String.eqb (str_of_expr param) metric_name)
        then exclude_metric_name s without grouping else s
    | _ => exclude_metric_name (set_operation (parse_aggregation1 s without grouping) (agg_operation op)) without grouping
    end.

  Definition call_src (fname : string) (args : list expr) (arg0 : list source) (es : source) : source :=
    parse_promql_func (set_call (set_operation (set_type es TFunc) fname) (Some (fname, List.length args))) fname args arg0.

  (** parseCall: sources of the vector/matrix-typed arguments ([w] = walkNode) *)
  Definition call_srcs (w : expr -> list source) (F : source -> source) (ats : list vtype) :=
    fix go (i : nat) (l : list expr) {struct l} : list source :=
      match l with
      | [] => []
      | a :: r => (if is_vec_or_matrix (arg_type ats i) then map F (w a) else []) ++ go (S i) r
      end.

  Fixpoint walk_node (e : expr) : list source :=
    match e with
    | ENum v =>
        [set_always (set_fixed (set_number (set_known (set_returns (set_type zero_source TNumber) VScalar) true) v) true) true]
    | EStr _ =>
        [set_always (set_fixed (set_returns (set_type zero_source TString) VString) true) true]
    | ESel ms =>
        let s := set_selector (set_returns (set_type zero_source TSelector) VVector) (Some ms) in
        let s := guarantee_label s (labels_from_selectors gmatches (Some ms)) in
        [fold_left (fun s name => exclude_label s [name]) (labels_with_empty_value_selector ms) s]
    | EMatrix e => map (fun s => set_returns s VMatrix) (walk_node e)
    | ESubq e => walk_node e
    | EParen e => walk_node e
    | EUnary _ e => walk_node e
    | EAgg op without grouping param e =>
        match op with
        | ATopk | ABottomk => map (topk_src op) (walk_node e)
        | AOther => []
        | _ => map (agg_src op without grouping param) (walk_node e)
        end
    | ECall fname ats args =>
        let arg0 := match args with a :: _ => walk_node a | [] => [] end in
        let srcs := call_srcs walk_node (call_src fname args arg0) ats 0%nat args in
        match srcs with
        | [] => [call_src fname args arg0 zero_source]
        | _ => srcs
        end
    | EBin op rb vm l r =>
        let lhs := walk_node l in
        let rhs := walk_node r in
        match vm with
        | None => binops_nil op rb lhs rhs
        | Some vm =>
            match vm_card vm with
            | OneToOne => binops_one_to_one op rb vm lhs rhs
            | OneToMany => binops_group op rb vm rhs lhs
            | ManyToOne => binops_group op rb vm lhs rhs
            | ManyToMany => binops_many_to_many op rb vm lhs rhs
            end
        end
    end.
End Walk.

(** Source.WalkSources: this source, then its joins, then its unless, recursively. *)
Fixpoint walk_sources (s : source) : list source :=
  s :: (flat_map walk_sources (s_joins s)) ++ (flat_map walk_sources (s_unless s)).

(** ** Consumers *)

(** promql/impossible: one "dead code in query" problem per dead source reached by WalkSources. *)
Definition impossible_problems (srcs : list source) : list source :=
  filter s_dead (flat_map walk_sources srcs).

Fixpoint dedup_str (l : list string) (seen : list string) : list string :=
  match l with
  | [] => []
  | x :: r => if mem_str x seen then dedup_str r seen else x :: dedup_str r (x :: seen)
  end.

(** alerts/template checkQueryLabels over the list of [$labels.x] references of one template
    (group labels given as the list of names the group defines): labels reported as non-existent. *)
Definition template_missing (srcs : list source) (group_labels vars : list string) : list string :=
  filter (fun v => negb (mem_str v group_labels) &&
                   existsb (fun s => negb (s_dead s) && negb (can_have_label s v)) srcs)
         (dedup_str vars []).
