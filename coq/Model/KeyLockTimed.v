(** C14 — the transition system of Model/KeyLock.v with TIME: the cache of the timed system is the sequential
    queryCache model of Model/KeyLockCache.v (entries with expiry and last-read instants, an injected clock), so
    eviction is no longer an arbitrary key set but exactly what queryCache.gc() removes at the current instant:
    entries whose TTL has run out (expiresAt before now) or that were not read for maxStale.  A cache hit refreshes
    the last-read instant, a successful request stores its answer with the TTL of its cache key, the clock only
    moves forward.  Every timed step IS a step of the untimed system (the untimed state is a component of the timed
    one and is updated by [KeyLock.step]), which is what makes all invariants of the untimed system available.
    Definitions only; proofs in Proofs/C14_timed.v. *)
From Coq Require Import List ZArith NArith Bool.
From PintV Require Import Model.KeyLock Model.KeyLockCache.
Import ListNotations.
Local Open Scope Z_scope.

Record tconfig := mk_tconfig {
  t_cf : config;
  t_ttl : nat -> Z;                  (* querier.CacheTTL() of the request with this cache key (ns; <= 0: never expires) *)
  t_max_stale : Z                    (* queryCache.maxStale *)
}.

Record tstate := mk_tstate {
  t_s : state;                       (* the untimed system: lock, callers, queue, workers, cache as key -> value, logs *)
  t_c : cstate;                      (* queryCache: entries with expiresAt / lastGet, counters *)
  t_now : Z                          (* the clock *)
}.

Inductive taction :=
| TLock (c : nat) | TEnq (c : nat) | TTake (w : nat) | TReply (w : nat) | TUnlock (c : nat)
| TCheck (w : nat)                   (* processJob: cache.get at the current instant *)
| TEnd (w : nat) (r : result)        (* the request finished now; cache.set(now, ttl) on success *)
| TGc                                (* queryCache.gc() now *)
| TTick (d : Z).                     (* time passes *)

(** the keys queryCache.gc() evicts at [now] *)
Definition evicted_keys (max_stale now : Z) (st : cstate) : list nat :=
  map (fun p => N.to_nat (fst p)) (filter (fun p => evictable max_stale now (snd p)) (cs_entries st)).

Definition tinit : tstate := mk_tstate init cache_empty 0.

Definition lift (ts : tstate) (o : option state) : option tstate :=
  match o with Some s' => Some (mk_tstate s' (t_c ts) (t_now ts)) | None => None end.

Definition tstep (tc : tconfig) (ts : tstate) (a : taction) : option tstate :=
  let cf := t_cf tc in
  match a with
  | TLock c => lift ts (step cf (t_s ts) (ALock c))
  | TEnq c => lift ts (step cf (t_s ts) (AEnq c))
  | TTake w => lift ts (step cf (t_s ts) (ATake w))
  | TReply w => lift ts (step cf (t_s ts) (AReply w))
  | TUnlock c => lift ts (step cf (t_s ts) (AUnlock c))
  | TCheck w =>
      match wst (t_s ts) w, step cf (t_s ts) (ACheck w) with
      | WTaken (_, ck), Some s' => Some (mk_tstate s' (snd (cache_get (t_now ts) (N.of_nat ck) (t_c ts))) (t_now ts))
      | _, _ => None
      end
  | TEnd w r =>
      match wst (t_s ts) w, step cf (t_s ts) (AEnd w r) with
      | WRunning (_, ck), Some s' =>
          Some (mk_tstate s'
                  (match r with
                   | ROk v => cache_set (t_now ts) (N.of_nat ck) (Z.of_nat v) (t_ttl tc ck) (t_c ts)
                   | RErr => t_c ts
                   end) (t_now ts))
      | _, _ => None
      end
  | TGc =>
      match step cf (t_s ts) (AGc (evicted_keys (t_max_stale tc) (t_now ts) (t_c ts))) with
      | Some s' => Some (mk_tstate s' (cache_gc (t_max_stale tc) (t_now ts) (t_c ts)) (t_now ts))
      | None => None
      end
  | TTick d => if 0 <=? d then Some (mk_tstate (t_s ts) (t_c ts) (t_now ts + d)) else None
  end.

Fixpoint trun (tc : tconfig) (ts : tstate) (l : list taction) : option tstate :=
  match l with
  | [] => Some ts
  | a :: r => match tstep tc ts a with Some ts' => trun tc ts' r | None => None end
  end.

Definition treachable (tc : tconfig) (ts : tstate) : Prop := exists l, trun tc tinit l = Some ts.

(** the untimed action a timed action performs (none for the passage of time) *)
Definition untimed (tc : tconfig) (ts : tstate) (a : taction) : list action :=
  match a with
  | TLock c => [ALock c] | TEnq c => [AEnq c] | TTake w => [ATake w] | TReply w => [AReply w] | TUnlock c => [AUnlock c]
  | TCheck w => [ACheck w] | TEnd w r => [AEnd w r]
  | TGc => [AGc (evicted_keys (t_max_stale tc) (t_now ts) (t_c ts))]
  | TTick _ => []
  end.
