(** C15 — executable model of pint's failover and error classification
    (internal/promapi/{failover,errors,prometheus,query,range,config,flags,metadata}.go, internal/checks/base.go).

    The finite tables (error type constants, decodeErrorType, the constants IsUnavailableError /
    isUnsupportedError compare with, the status-class switch and the 404 branch of tryDecodingAPIError,
    the stop condition of each FailoverGroup loop, the problemFromError switch) come from [Gen.C15],
    regenerated from the Go AST on every run.  The control flow around them is hand-written here and tied
    to the code by the correspondence check (Run/C15.v). Definitions only. *)
From Coq Require Import List String ZArith Bool Arith.
From PintV Require Import Common.Bytes Gen.Tables Gen.C15.
Import ListNotations.
Open Scope string_scope.

(** * What an upstream does *)

Inductive endpoint := EQuery | ERange | EConfig | EFlags | EMetadata.

Inductive transport_err := TRefused | TTimeout | TReset.

(** What the streaming decoders find in a 2xx body whose status is "success". *)
Inductive payload := PGood | PWrongType | PBadYaml | PNone.

(** A response body as the JSON stream decoder sees it: it either fails ([BUndecodable]: empty, not JSON,
    truncated) or yields the three top-level strings and a payload. *)
Inductive body :=
| BUndecodable
| BJson (status errType errMsg : string) (p : payload).

Inductive response :=
| RTransport (t : transport_err)          (* http.Client.Do returned an error: no response at all.  (An upstream URI that
                                              does not parse also ends here since 6f3f221 — doRequest returns the *url.Error,
                                              no APIError in the chain — but config.Load rejects such a configuration, so no
                                              accepted configuration reaches it; it is not one of the modelled modes.) *)
| RHttp (status : Z) (b : body).

(** One upstream of a failover group: its behaviour, the marker its healthy answer carries, and the
    client-side state pint keeps for it (API already found unsupported; cached answer). *)
Record upstream := mk_upstream {
  u_resp : response;
  u_marker : string;
  u_disabled : bool;             (* unsupporedAPIs flag of this endpoint is set *)
  u_cached : option string       (* queryCache holds an answer for this request *)
}.

(** * Errors as the [errors.As]/[errors.Is] tests see them *)

Inductive perr :=
| ENonApi                              (* no APIError in the chain: transport error, yaml error *)
| EApi (etype msg : string)            (* APIError{ErrorType, Err} somewhere in the chain *)
| ESentinel.                           (* promapi.ErrUnsupported *)

Inductive attempt := AAnswer (marker : string) | AErr (e : perr).

Definition ep_key (ep : endpoint) : string :=
  match ep with EQuery => "query" | ERange => "range" | EConfig => "config" | EFlags => "flags" | EMetadata => "metadata" end.

Definition ep_path (ep : endpoint) : string :=
  match assoc (ep_key ep) endpoint_paths with Some p => p | None => "" end.

Definition has_suffix (s suf : string) : bool :=
  let n := String.length s in let m := String.length suf in
  if Nat.leb m n then String.eqb (substring (n - m) m s) suf else false.

Definition err_const (name : string) : string :=
  match assoc name error_type_consts with Some v => v | None => "" end.

Definition decode_error_type (s : string) : string :=
  match assoc s decode_error_type_table with Some v => v | None => decode_error_type_default end.

(** promapi.IsUnavailableError *)
Definition is_unavailable (e : perr) : bool :=
  match e with
  | EApi t _ => String.eqb t unavailable_error_type
  | _ => unavailable_when_not_api
  end.

(** promapi.isUnsupportedError *)
Definition is_unsupported_error (e : perr) : bool :=
  match e with
  | EApi t _ => String.eqb t unsupported_error_type
  | _ => unsupported_when_not_api
  end.

(** errors.Is(err, ErrUnsupported) *)
Definition is_sentinel (e : perr) : bool := match e with ESentinel => true | _ => false end.

(** promapi.IsQueryTooExpensive *)
Definition is_too_expensive (e : perr) : bool :=
  match e with
  | EApi t msg =>
      String.eqb t too_expensive_error_type &&
      (existsb (fun p => String.prefix p msg) too_expensive_prefixes || existsb (fun s => has_suffix msg s) too_expensive_suffixes)
  | _ => false
  end.

Fixpoint assocZ {A} (k : Z) (l : list (Z * A)) : option A :=
  match l with
  | [] => None
  | (k', v) :: r => if Z.eqb k k' then Some v else assocZ k r
  end.

(** The switch of [unsupporedAPIs.isSupported]/[disable] only knows the three status/metadata paths. *)
Definition config_like (ep : endpoint) : bool :=
  match ep with EConfig | EFlags | EMetadata => true | _ => false end.

(** promapi.tryDecodingAPIError (non-2xx responses) *)
Definition try_decoding_api_error (ep : endpoint) (status : Z) (b : body) : perr :=
  if Z.eqb status 404 && existsb (fun p => has_suffix (ep_path ep) p) try_decode_not_found_paths then
    EApi try_decode_not_found_type "this server doesn't seem to support this API endpoint"
  else
    match b with
    | BUndecodable =>
        EApi (match assocZ (status / 100)%Z try_decode_status_class with
              | Some t => t
              | None => try_decode_status_class_default
              end) "http status"
    | BJson _ et msg _ => EApi (decode_error_type et) msg
    end.

(** streamSamples / streamSampleStream / streamConfig / streamFlags / streamMetadata (2xx responses) *)
Definition stream_result (ep : endpoint) (marker : string) (b : body) : attempt :=
  match b with
  | BUndecodable => AErr (EApi (err_const "ErrBadResponse") "JSON parse error")
  | BJson st et msg p =>
      if negb (String.eqb st "success") then AErr (EApi (decode_error_type et) msg)
      else
        match ep, p with
        | (EQuery | ERange), (PWrongType | PNone) => AErr (EApi (err_const "ErrBadResponse") "invalid result type")
        | EConfig, PBadYaml => AErr ENonApi            (* yaml.Unmarshal error, wrapped with %w: no APIError *)
        | _, PNone => AAnswer ""
        | _, _ => AAnswer marker
        end
  end.

(** querier.Run *)
Definition run_query (ep : endpoint) (marker : string) (r : response) : attempt :=
  match r with
  | RTransport _ => AErr ENonApi
  | RHttp status b =>
      if Z.eqb (status / 100)%Z 2 then stream_result ep marker b
      else AErr (try_decoding_api_error ep status b)
  end.

(** processJob + the Prometheus.Query/… wrapper: result, number of HTTP requests sent, new client state. *)
Definition process_job (ep : endpoint) (u : upstream) : attempt * nat * upstream :=
  match u_cached u with
  | Some m => (AAnswer m, 0, u)
  | None =>
      if config_like ep && u_disabled u then (AErr ESentinel, 0, u)
      else
        match run_query ep (u_marker u) (u_resp u) with
        | AErr e =>
            if is_unsupported_error e then
              (AErr ESentinel, 1, mk_upstream (u_resp u) (u_marker u) (if config_like ep then true else u_disabled u) None)
            else (AErr e, 1, u)
        | AAnswer m => (AAnswer m, 1, mk_upstream (u_resp u) (u_marker u) (u_disabled u) (Some m))
        end
  end.

Definition att (ep : endpoint) (u : upstream) : attempt := fst (fst (process_job ep u)).
Definition contacts (ep : endpoint) (u : upstream) : nat := snd (fst (process_job ep u)).
Definition after (ep : endpoint) (u : upstream) : upstream := snd (process_job ep u).

(** * The ordered retry loops of FailoverGroup *)

(** The `if` that ends the loop, from the generated table: every listed conjunct must hold to stop. *)
Definition stops (ep : endpoint) (e : perr) : bool :=
  match assoc (ep_key ep) failover_continue_on with
  | Some (on_unavailable, on_unsupported) =>
      (if on_unavailable then negb (is_unavailable e) else true) &&
      (if on_unsupported then negb (is_sentinel e) else true)
  | None => true
  end.

(** The loop goes on to the next upstream. *)
Definition retry (ep : endpoint) (a : attempt) : bool :=
  match a with AAnswer _ => false | AErr e => negb (stops ep e) end.

Inductive outcome :=
| OAnswer (idx : nat) (marker : string)
| OError (idx : nat) (e : perr)         (* FailoverGroupError{err, uri of upstream idx} *)
| ONoServers.                           (* empty server list: FailoverGroupError{err: nil} *)

Definition outcome_of (i : nat) (a : attempt) : outcome :=
  match a with AAnswer m => OAnswer i m | AErr e => OError i e end.

Record fo_result := mk_fo { fo_outcome : outcome; fo_contacts : list nat; fo_state : list upstream }.

(** [i] = index of the first element of [ups]; [last] = error of the previous upstream. *)
Fixpoint failover_from (ep : endpoint) (i : nat) (last : outcome) (ups : list upstream) : fo_result :=
  match ups with
  | [] => mk_fo last [] []
  | u :: rest =>
      let a := att ep u in
      if retry ep a then
        let r := failover_from ep (S i) (outcome_of i a) rest in
        mk_fo (fo_outcome r) (contacts ep u :: fo_contacts r) (after ep u :: fo_state r)
      else
        mk_fo (outcome_of i a) (contacts ep u :: map (fun _ => 0) rest) (after ep u :: rest)
  end.

Definition failover (ep : endpoint) (ups : list upstream) : fo_result := failover_from ep 0 ONoServers ups.

(** * How config.newFailoverGroup builds the group (generated: the expressions, in the order they are appended)

    The server list is the `uri` of the prometheus block followed by its `failover` entries in the order they were
    written (nothing re-orders or de-duplicates it), and `required` is what becomes the strict flag. *)
Fixpoint str_list_eqb (a b : list string) : bool :=
  match a, b with
  | [], [] => true
  | x :: a', y :: b' => String.eqb x y && str_list_eqb a' b'
  | _, _ => false
  end.

Definition group_built_in_configured_order : bool :=
  str_list_eqb group_upstream_order ["prom.URI"; "prom.Failover[]"] && String.eqb group_strict_arg "prom.Required".

(** * Fault sequences: the same group asked again while upstreams have changed their behaviour

    The client state (cache entries, known-unsupported flags) is what the previous call left; only what the upstreams
    SEND is replaced.  A shorter response list leaves the remaining upstreams unchanged. *)
Definition set_resp (u : upstream) (r : response) : upstream :=
  mk_upstream r (u_marker u) (u_disabled u) (u_cached u).

Fixpoint set_resps (ups : list upstream) (rs : list response) : list upstream :=
  match ups, rs with
  | u :: us, r :: rs' => set_resp u r :: set_resps us rs'
  | _, _ => ups
  end.

(** * Observables of the returned error *)

Definition err_kind (e : perr) : string :=
  match e with
  | ENonApi => "nonapi"
  | EApi t _ => "api:" ++ t
  | ESentinel => "unsupported"
  end.

(** * checks.problemFromError and the five online checks that start with one API call *)

Definition pfe_pred (name : string) (e : perr) : bool :=
  if String.eqb name "too_expensive" then is_too_expensive e
  else if String.eqb name "unavailable" then is_unavailable e
  else String.eqb name "default".

Fixpoint pfe_cases (cases : list (string * (string * string))) (strict : bool) (fallback : string) (e : perr) : option string :=
  match cases with
  | [] => None
  | (name, (sev, strict_sev)) :: r =>
      if pfe_pred name e then
        Some (if strict && negb (String.eqb strict_sev "") then strict_sev
              else if String.eqb sev "<fallback>" then fallback else sev)
      else pfe_cases r strict fallback e
  end.

(** Severity (as its constant name) of the "unable to run checks" problem. [None] = no case matched:
    Go's zero Severity. *)
Definition problem_severity (strict : bool) (fallback : string) (e : perr) : string :=
  match pfe_cases problem_from_error_cases strict fallback e with
  | Some s => s
  | None => "Information"
  end.

(** The severity each check passes to problemFromError: query/cost, alerts/count, alerts/external_labels,
    promql/range_query, promql/counter. *)
Definition check_fallback (ep : endpoint) : string :=
  match ep with EQuery | ERange | EConfig => "Bug" | EFlags | EMetadata => "Warning" end.

(** Severities of the "unable to run checks" problems the online check emits. *)
Definition check_unable (ep : endpoint) (strict : bool) (o : outcome) : list string :=
  match o with
  | OAnswer _ _ => []
  | OError _ e =>
      if config_like ep && is_sentinel e then []            (* check disables itself *)
      else [problem_severity strict (check_fallback ep) e]
  | ONoServers => ["<crash>"]
  end.
