(** C05 — model of the CONTROL FLOW of [pint lint] / [pint ci] that decides the exit status.

    Go sources: cmd/pint/main.go (actionSetup, main), cmd/pint/lint.go (actionLint), cmd/pint/ci.go (actionCI).
    Every [return] of those functions is a stage below, in code order; the outcome of a stage that depends on the
    outside world (config loading, file discovery, git, Prometheus discovery, creating output files, submitting
    reports, environment of the repository reporters) is an INPUT of the model (a boolean), the decisions pint takes
    itself are computed: flag defaults (generated table [flag_defaults]), ParseSeverity of --min-severity / --fail-on
    (generated tables), the "running from base branch" test of pint ci, the threshold loops (Model/Severity.v) and
    the exit code of main() (generated [main_exit_code]).
    Definitions only; proofs are in Proofs/C05_flow.v. *)
From Coq Require Import List String Ascii ZArith Bool.
From PintV Require Import Common.Bytes Gen.Tables Gen.C05 Model.Severity.
Import ListNotations.
Open Scope string_scope.
Open Scope Z_scope.

(** * cli flags: value given on the command line, else the default of the generated table *)
Definition flag_default (cmd flag : string) : option string :=
  match find (fun r => match r with (c, f, _, _) => String.eqb c cmd && String.eqb f flag end) flag_defaults with
  | Some (_, _, _, d) => Some d
  | None => None
  end.

Definition flag_value (cmd flag : string) (given : option string) : string :=
  match given with
  | Some s => s
  | None => match flag_default cmd flag with Some d => d | None => "" end
  end.

(** * stages = the places where the action can return *)
Inductive stage :=
| SSetup        (* actionSetup: log level, --workers, config.Load *)
| SArgs         (* lint: "at least one file or directory required" *)
| SBranch       (* ci: git.CurrentBranch *)
| SFind         (* glob finder *)
| SGitFind      (* ci: git branch finder *)
| SGenerate     (* gen.GenerateStatic *)
| SCheck        (* checkRules *)
| SMinSeverity  (* lint: invalid --min-severity *)
| SFailOn       (* invalid --fail-on *)
| SOutputs      (* os.Create of the --checkstyle / --json files *)
| SReporters    (* ci: repository reporters (missing token, bad PR number, ...) *)
| SSubmit       (* a reporter's Submit failed *)
| SThreshold.   (* "found N problem(s) with severity X or higher" / "problems found" *)

Record outcome := {
  o_code : Z;                 (* process exit status *)
  o_stage : option stage;     (* the stage that returned the error; None = the action returned nil *)
  o_linted : bool;            (* checkRules ran to completion *)
  o_outputs_created : bool;   (* the requested report files were created (possibly left empty) *)
  o_submitted : bool          (* the reports were handed to every reporter (the --json file is complete) *)
}.

Definition failed (st : stage) (linted created submitted : bool) : outcome :=
  {| o_code := main_exit_code; o_stage := Some st; o_linted := linted; o_outputs_created := created; o_submitted := submitted |}.

Definition passed (linted created submitted : bool) : outcome :=
  {| o_code := 0; o_stage := None; o_linted := linted; o_outputs_created := created; o_submitted := submitted |}.

(** * actionSetup *)
Record setup_in := {
  su_log_level_ok : bool;     (* initLogger accepted --log-level *)
  su_workers : Z;             (* --workers *)
  su_config_ok : bool         (* config.Load returned nil *)
}.

Definition action_setup (s : setup_in) : bool :=
  su_log_level_ok s && (1 <=? su_workers s) && su_config_ok s.

(** * pint lint *)
Record lint_in := {
  li_setup : setup_in;
  li_paths : nat;                 (* number of positional arguments *)
  li_find_ok : bool;
  li_generate_ok : bool;
  li_check_ok : bool;
  li_min_sev : option string;     (* --min-severity as given, None = omitted *)
  li_fail_on : option string;     (* --fail-on as given *)
  li_outputs_ok : bool;
  li_submit_ok : bool
}.

(** [sevs] = severities of the reports held by the Summary (after Summary.Report's duplicate suppression and
    verifyOwners), the only thing about the lint result the exit decision looks at.  --require-owner only ADDS reports
    (verifyOwners has no error return and, since fix ec90fa6, skips entries whose rule failed to parse instead of
    dereferencing their missing key), so it is not a stage. *)
Definition action_lint (i : lint_in) (sevs : list Z) : outcome :=
  if negb (action_setup (li_setup i)) then failed SSetup false false false
  else if Nat.eqb (li_paths i) 0 then failed SArgs false false false
  else if negb (li_find_ok i) then failed SFind false false false
  else if negb (li_generate_ok i) then failed SGenerate false false false
  else if negb (li_check_ok i) then failed SCheck false false false
  else match parse_severity (flag_value "lint" "min-severity" (li_min_sev i)) with
  | None => failed SMinSeverity true false false
  | Some m =>
    match parse_severity (flag_value "lint" "fail-on" (li_fail_on i)) with
    | None => failed SFailOn true false false
    | Some f =>
      if negb (li_outputs_ok i) then failed SOutputs true false false
      else if negb (li_submit_ok i) then failed SSubmit true true false
      else if exit_lint f m sevs then failed SThreshold true true true
      else passed true true true
    end
  end.

(** everything that is not pint's own decision went well *)
Definition lint_infra_ok (i : lint_in) : bool :=
  action_setup (li_setup i) && negb (Nat.eqb (li_paths i) 0) && li_find_ok i && li_generate_ok i && li_check_ok i &&
  li_outputs_ok i && li_submit_ok i.

(** * pint ci *)

(** strings.Split(baseBranch, "/")[len-1] *)
Fixpoint last_segment_from (s acc : string) : string :=
  match s with
  | EmptyString => acc
  | String c r => if Ascii.eqb c "/"%char then last_segment_from r EmptyString
                  else last_segment_from r (acc ++ String c EmptyString)%string
  end.
Definition last_segment (s : string) : string := last_segment_from s EmptyString.

Record ci_in := {
  ci_setup : setup_in;
  ci_current_branch : option string;  (* git.CurrentBranch; None = error *)
  ci_base_branch : string;            (* --base-branch, else ci{baseBranch} of the config (default master), else GITHUB_BASE_REF *)
  ci_find_ok : bool;
  ci_git_find_ok : bool;
  ci_generate_ok : bool;
  ci_check_ok : bool;
  ci_outputs_ok : bool;
  ci_reporters_ok : bool;
  ci_fail_on : option string;
  ci_submit_ok : bool
}.

Definition action_ci (i : ci_in) (sevs : list Z) : outcome :=
  if negb (action_setup (ci_setup i)) then failed SSetup false false false
  else match ci_current_branch i with
  | None => failed SBranch false false false
  | Some cur =>
    if String.eqb cur (last_segment (ci_base_branch i)) then passed false false false   (* "Running from base branch, skipping checks" *)
    else if negb (ci_find_ok i) then failed SFind false false false
    else if negb (ci_git_find_ok i) then failed SGitFind false false false
    else if negb (ci_generate_ok i) then failed SGenerate false false false
    else if negb (ci_check_ok i) then failed SCheck false false false
    else if negb (ci_outputs_ok i) then failed SOutputs true false false
    else if negb (ci_reporters_ok i) then failed SReporters true true false
    else match parse_severity (flag_value "ci" "fail-on" (ci_fail_on i)) with
    | None => failed SFailOn true true false        (* the report files exist by now, and stay empty *)
    | Some f =>
      let found := exit_ci f sevs in                 (* computed BEFORE the reports are submitted *)
      if negb (ci_submit_ok i) then failed SSubmit true true false
      else if found then failed SThreshold true true true
      else passed true true true
    end
  end.

Definition ci_on_base (i : ci_in) : bool :=
  match ci_current_branch i with
  | Some cur => String.eqb cur (last_segment (ci_base_branch i))
  | None => false
  end.

Definition ci_infra_ok (i : ci_in) : bool :=
  action_setup (ci_setup i) && (match ci_current_branch i with Some _ => true | None => false end) &&
  ci_find_ok i && ci_git_find_ok i && ci_generate_ok i && ci_check_ok i && ci_outputs_ok i && ci_reporters_ok i && ci_submit_ok i.

(** * what the generated exit-path tables must look like for this model to be the model of the source *)

(** all returns but the last return an error, the last returns nil (and sits after checkRules when [after]) *)
Definition only_last_is_nil (after : bool) (rs : list (bool * bool)) : bool :=
  match rev rs with
  | (true, a) :: earlier => Bool.eqb a after && forallb (fun r => negb (fst r)) earlier
  | _ => false
  end.

(** pint ci: exactly one more nil return, placed BEFORE checkRules (the base-branch skip) *)
Definition ci_nil_returns_ok (rs : list (bool * bool)) : bool :=
  match filter (fun r => fst r) rs, rev rs with
  | [(true, false); (true, true)], (true, true) :: _ => true
  | _, _ => false
  end.

Definition threshold_eqb (a b : string * string * string) : bool :=
  match a, b with (a1, a2, a3), (b1, b2, b3) => String.eqb a1 b1 && String.eqb a2 b2 && String.eqb a3 b3 end.

(** * the order of the stages in the source (generated [lint_stage_seq] / [ci_stage_seq]) vs this model

    For the exit status the order of the stages is immaterial (non-zero iff SOME stage fails) except for the facts below,
    which are what the property depends on; they are checked on the generated sequences.  The exact order of the other
    stages only decides WHICH stage is blamed and what happens to the report files on an early error — facts of the
    model the property does not speak about (e.g. validating the flags before linting is a harmless change). *)
Definition model_lint_stages : list string :=
  ["SSetup"; "SArgs"; "SFind"; "SGenerate"; "SCheck"; "SMinSeverity"; "SFailOn"; "SOutputs"; "SSubmit"; "SThreshold"].
Definition model_ci_stages : list string :=
  ["SSetup"; "SBranch"; "SFind"; "SGitFind"; "SGenerate"; "SCheck"; "SOutputs"; "SReporters"; "SFailOn"; "SSubmit"; "SThreshold"].

Fixpoint index_of (x : string) (l : list string) : option nat :=
  match l with
  | [] => None
  | y :: r => if String.eqb x y then Some 0%nat else match index_of x r with Some n => Some (S n) | None => None end
  end.

(** first occurrence of [a] strictly before first occurrence of [b] *)
Definition before (a b : string) (l : list string) : bool :=
  match index_of a l, index_of b l with
  | Some i, Some j => Nat.ltb i j
  | _, _ => false
  end.

Definition same_stage_set (seq model : list string) : bool :=
  forallb (fun x => String.eqb x "nil" || mem_str x model) seq && forallb (fun x => mem_str x seq) model.

Definition ends_with_threshold_then_nil (seq : list string) : bool :=
  match rev seq with
  | n :: t :: _ => String.eqb n "nil" && String.eqb t "SThreshold"
  | _ => false
  end.

(** every stage of the model occurs in the source and vice versa (a new error path is a translator error); the threshold
    decision is the last error return, directly followed by the final [return nil]; linting, parsing --fail-on and
    submitting all come before it; (ci) the one early nil return sits after the branch lookup and before linting. *)
Definition lint_order_ok (seq : list string) : bool :=
  same_stage_set seq model_lint_stages && ends_with_threshold_then_nil seq &&
  before "SCheck" "SThreshold" seq && before "SFailOn" "SThreshold" seq && before "SSubmit" "SThreshold" seq &&
  before "SCheck" "SSubmit" seq && before "SSetup" "SCheck" seq.

Definition ci_order_ok (seq : list string) : bool :=
  same_stage_set seq model_ci_stages && ends_with_threshold_then_nil seq &&
  before "SCheck" "SThreshold" seq && before "SFailOn" "SThreshold" seq && before "SSubmit" "SThreshold" seq &&
  before "SCheck" "SSubmit" seq && before "SSetup" "SCheck" seq &&
  before "SBranch" "nil" seq && before "nil" "SFind" seq && before "nil" "SCheck" seq.
