(** C16 — the selectors promql/series probes are exactly the selectors of the expression that have no
    or-fallback of their own (unless-free fragment).  Lemmas about Model/SeriesSelectors.v. *)
From Coq Require Import List Bool Arith NArith Lia.
From PintV Require Import Model.SeriesSelectors.
Import ListNotations.

(** structural readings of the Source tree *)
Fixpoint always (e : sexpr) : bool :=
  match e with
  | ESel _ => false
  | EAlways => true
  | EWrap x | ECmp x => always x
  | EOr a b => always a || always b
  | EJoin _ a _ => always a
  | EJoinR _ _ b => always b
  | EUnless a _ => always a
  end.

Fixpoint prim (e : sexpr) : list N :=
  match e with
  | ESel i => [i]
  | EAlways => []
  | EWrap x | ECmp x => prim x
  | EOr a b => prim a ++ prim b
  | EJoin _ a _ => prim a
  | EJoinR _ _ b => prim b
  | EUnless a _ => prim a
  end.

Fixpoint nonprim (e : sexpr) : list N :=
  match e with
  | ESel _ | EAlways => []
  | EWrap x | ECmp x => nonprim x
  | EOr a b => nonprim a ++ nonprim b
  | EJoin _ a b => nonprim a ++ sels b
  | EJoinR _ a b => nonprim b ++ sels a
  | EUnless a b => nonprim a
  end.

Definition mains (srcs : list source) : list N := flat_map (fun s => opt_list (src_sel s)) srcs.
Definition alljs (fb : N -> bool) (srcs : list source) : list N := flat_map (join_sels fb) srcs.
Definition jpart (fb : N -> bool) (srcs : list source) : list N :=
  flat_map (fun s => flat_map (join_sels fb) (src_joins s)) srcs.

(** --- the helpers preserve what they do not touch ------------------------------------------------- *)

Lemma join_sels_unfold fb s :
  join_sels fb s = (match src_sel s with Some i => if fb i then [] else [i] | None => [] end)
                   ++ flat_map (join_sels fb) (src_joins s).
Proof. destruct s; reflexivity. Qed.

Lemma sel_set_cond_if c s : src_sel (set_cond_if c s) = src_sel s.
Proof. destruct c, s; reflexivity. Qed.
Lemma always_set_cond_if c s : src_always (set_cond_if c s) = src_always s.
Proof. destruct c, s; reflexivity. Qed.
Lemma joins_set_cond_if c s : src_joins (set_cond_if c s) = src_joins s.
Proof. destruct c, s; reflexivity. Qed.
Lemma unless_set_cond_if c s : src_unless (set_cond_if c s) = src_unless s.
Proof. destruct c, s; reflexivity. Qed.
Lemma sel_add_joins B s : src_sel (add_joins B s) = src_sel s.
Proof. destruct s; reflexivity. Qed.
Lemma always_add_joins B s : src_always (add_joins B s) = src_always s.
Proof. destruct s; reflexivity. Qed.
Lemma joins_add_joins B s : src_joins (add_joins B s) = src_joins s ++ B.
Proof. destruct s; reflexivity. Qed.
Lemma unless_add_joins B s : src_unless (add_joins B s) = src_unless s.
Proof. destruct s; reflexivity. Qed.

Lemma join_sels_wrap fb c B s :
  join_sels fb (set_cond_if c (add_joins B s)) = join_sels fb s ++ alljs fb B.
Proof.
  rewrite (join_sels_unfold fb (set_cond_if c (add_joins B s))), (join_sels_unfold fb s).
  rewrite sel_set_cond_if, joins_set_cond_if, sel_add_joins, joins_add_joins, flat_map_app.
  unfold alljs. rewrite app_assoc. reflexivity.
Qed.

Lemma join_sels_set_cond fb s : join_sels fb (set_cond s) = join_sels fb s.
Proof. destruct s; reflexivity. Qed.

Lemma sources_nonempty e : sources_of e <> [].
Proof.
  induction e; cbn [sources_of]; try discriminate; try assumption.
  - destruct (sources_of e); [contradiction|discriminate].
  - destruct (sources_of e1); [contradiction|discriminate].
  - destruct (sources_of e1); [contradiction|discriminate].
  - destruct (sources_of e2); [contradiction|discriminate].
  - destruct (sources_of e1); [contradiction|discriminate].
Qed.

Lemma existsb_map_eq {A} (f : A -> A) (p : A -> bool) l : (forall x, p (f x) = p x) -> existsb p (map f l) = existsb p l.
Proof. intros H. induction l as [|x r IH]; [reflexivity|]. cbn [map existsb]. rewrite H, IH. reflexivity. Qed.

Lemma has_fallback_always e : has_fallback (sources_of e) = always e.
Proof.
  unfold has_fallback. induction e; cbn [sources_of always]; try reflexivity; try assumption.
  - rewrite existsb_map_eq; [exact IHe|]. intros []; reflexivity.
  - rewrite existsb_app, IHe1, IHe2. reflexivity.
  - rewrite existsb_map_eq; [exact IHe1|]. intro s. rewrite always_set_cond_if, always_add_joins. reflexivity.
  - rewrite existsb_map_eq; [exact IHe2|]. intro s. rewrite always_set_cond_if, always_add_joins. reflexivity.
  - rewrite existsb_map_eq; [exact IHe1|]. intros []; reflexivity.
Qed.

Lemma flat_map_map_ext {A B} (g : A -> list B) (f : A -> A) l : (forall x, g (f x) = g x) -> flat_map g (map f l) = flat_map g l.
Proof. intros H. induction l as [|x r IH]; [reflexivity|]. cbn [map flat_map]. rewrite H, IH. reflexivity. Qed.

Lemma mains_prim e : mains (sources_of e) = prim e.
Proof.
  unfold mains. induction e; cbn [sources_of prim]; try reflexivity; try assumption.
  - rewrite flat_map_map_ext; [exact IHe|]. intros []; reflexivity.
  - rewrite flat_map_app, IHe1, IHe2. reflexivity.
  - rewrite flat_map_map_ext; [exact IHe1|]. intro s. rewrite sel_set_cond_if, sel_add_joins. reflexivity.
  - rewrite flat_map_map_ext; [exact IHe2|]. intro s. rewrite sel_set_cond_if, sel_add_joins. reflexivity.
  - rewrite flat_map_map_ext; [exact IHe1|]. intros []; reflexivity.
Qed.

(** flat_map over sources that each got the same extra joins *)
Lemma in_flat_map_wrap fb c B A (g : source -> list N) i :
  (forall s, g (set_cond_if c (add_joins B s)) = g s ++ alljs fb B) -> A <> [] ->
  (In i (flat_map g (map (fun s => set_cond_if c (add_joins B s)) A)) <-> In i (flat_map g A) \/ In i (alljs fb B)).
Proof.
  intros Hg Hne. induction A as [|s r IH]; [contradiction|]. cbn [map flat_map]. rewrite Hg.
  destruct r as [|s' r'].
  - cbn [map flat_map]. rewrite !app_nil_r, in_app_iff. tauto.
  - rewrite !in_app_iff. rewrite IH by discriminate. tauto.
Qed.

Lemma no_unless_sources e : no_unless e = true -> forall s, In s (sources_of e) -> src_unless s = [].
Proof.
  induction e; cbn [no_unless sources_of]; intros H s Hs.
  - destruct Hs as [Hs|[]]. subst s. reflexivity.
  - destruct Hs as [Hs|[]]. subst s. reflexivity.
  - apply IHe; assumption.
  - apply in_map_iff in Hs. destruct Hs as [s0 [E Hs]]. subst s. destruct s0 as [a b c j u].
    apply (IHe H _ Hs).
  - apply andb_true_iff in H. destruct H. apply in_app_iff in Hs. destruct Hs; [apply IHe1|apply IHe2]; assumption.
  - apply andb_true_iff in H. destruct H as [H1 H2]. apply in_map_iff in Hs. destruct Hs as [s0 [E Hs]]. subst s.
    rewrite unless_set_cond_if, unless_add_joins. apply IHe1; assumption.
  - apply andb_true_iff in H. destruct H as [H1 H2]. apply in_map_iff in Hs. destruct Hs as [s0 [E Hs]]. subst s.
    rewrite unless_set_cond_if, unless_add_joins. apply IHe2; assumption.
  - discriminate.
Qed.

(** the full traversal of the source trees of an unless-free expression reaches every selector *)
Lemma alljs_sels fb e : no_unless e = true -> forall i,
  In i (alljs fb (sources_of e)) <-> In i (sels e) /\ fb i = false.
Proof.
  unfold alljs. induction e as [k| |e IHe|e IHe|e1 IHe1 e2 IHe2|cmp e1 IHe1 e2 IHe2|cmp e1 IHe1 e2 IHe2|e1 IHe1 e2 IHe2]; cbn [no_unless sources_of sels]; intros H i.
  - cbn [flat_map join_sels app]. destruct (fb k) eqn:E; cbn [In app].
    + split; [intros []|]. intros [[Hi|[]] Hf]. subst. congruence.
    + split; [intros [Hi|[]]; subst; tauto|]. intros [[Hi|[]] _]. left. exact Hi.
  - cbn [flat_map join_sels app In]. tauto.
  - apply IHe. exact H.
  - rewrite flat_map_map_ext by (intro s; apply join_sels_set_cond). apply IHe. exact H.
  - apply andb_true_iff in H. destruct H as [H1 H2]. rewrite flat_map_app, !in_app_iff, IHe1, IHe2 by assumption. tauto.
  - apply andb_true_iff in H. destruct H as [H1 H2].
    rewrite (in_flat_map_wrap fb cmp (sources_of e2) (sources_of e1) (join_sels fb) i
               (fun s => join_sels_wrap fb cmp (sources_of e2) s) (sources_nonempty e1)).
    unfold alljs. rewrite IHe1, IHe2 by assumption. rewrite in_app_iff. tauto.
  - apply andb_true_iff in H. destruct H as [H1 H2].
    rewrite (in_flat_map_wrap fb cmp (sources_of e1) (sources_of e2) (join_sels fb) i
               (fun s => join_sels_wrap fb cmp (sources_of e1) s) (sources_nonempty e2)).
    unfold alljs. rewrite IHe1, IHe2 by assumption. rewrite in_app_iff. tauto.
  - discriminate.
Qed.

(** the join part: everything that is not a primary selector *)
Lemma jpart_nonprim fb e : no_unless e = true -> forall i,
  In i (jpart fb (sources_of e)) <-> In i (nonprim e) /\ fb i = false.
Proof.
  unfold jpart. induction e as [k| |e IHe|e IHe|e1 IHe1 e2 IHe2|cmp e1 IHe1 e2 IHe2|cmp e1 IHe1 e2 IHe2|e1 IHe1 e2 IHe2]; cbn [no_unless sources_of nonprim]; intros H i.
  - cbn. tauto.
  - cbn. tauto.
  - apply IHe. exact H.
  - rewrite flat_map_map_ext by (intros []; reflexivity). apply IHe. exact H.
  - apply andb_true_iff in H. destruct H as [H1 H2]. rewrite flat_map_app, !in_app_iff, IHe1, IHe2 by assumption. tauto.
  - apply andb_true_iff in H. destruct H as [H1 H2].
    rewrite (in_flat_map_wrap fb cmp (sources_of e2) (sources_of e1) (fun s => flat_map (join_sels fb) (src_joins s)) i).
    + rewrite IHe1 by assumption. rewrite (alljs_sels fb e2 H2). rewrite in_app_iff. tauto.
    + intro s. rewrite joins_set_cond_if, joins_add_joins, flat_map_app. reflexivity.
    + apply sources_nonempty.
  - apply andb_true_iff in H. destruct H as [H1 H2].
    rewrite (in_flat_map_wrap fb cmp (sources_of e1) (sources_of e2) (fun s => flat_map (join_sels fb) (src_joins s)) i).
    + rewrite IHe2 by assumption. rewrite (alljs_sels fb e1 H1). rewrite in_app_iff. tauto.
    + intro s. rewrite joins_set_cond_if, joins_add_joins, flat_map_app. reflexivity.
    + apply sources_nonempty.
  - discriminate.
Qed.

(** getNonFallbackSelectors, read structurally (any fallback predicate) *)
Lemma checked_with_struct fb e : no_unless e = true -> forall i,
  In i (checked_with fb (sources_of e)) <->
  (In i (prim e) /\ always e = false) \/ (In i (nonprim e) /\ fb i = false).
Proof.
  intros H i. unfold checked_with. rewrite has_fallback_always.
  pose proof (no_unless_sources e H) as Hu.
  assert (forall srcs, (forall s, In s srcs -> src_unless s = []) ->
            (In i (flat_map (fun s => (if always e then [] else opt_list (src_sel s))
                                      ++ flat_map (join_sels fb) (src_joins s)
                                      ++ flat_map (fun u => if src_cond u then opt_list (src_sel u) else []) (src_unless s)) srcs)
             <-> In i (if always e then [] else mains srcs) \/ In i (jpart fb srcs))) as Hsplit.
  { induction srcs as [|s r IH]; intros Hs.
    - cbn. destruct (always e); cbn; tauto.
    - cbn [flat_map]. rewrite !in_app_iff. rewrite IH by (intros s' Hs'; apply Hs; right; exact Hs').
      rewrite (Hs s (or_introl eq_refl)). cbn [flat_map]. unfold mains, jpart. cbn [flat_map].
      destruct (always e); cbn [In]; rewrite ?in_app_iff; tauto. }
  rewrite (Hsplit _ Hu). rewrite (jpart_nonprim fb e H). rewrite mains_prim.
  destruct (always e); cbn [In]; split; intros; try tauto.
  destruct H0 as [[_ Hf]|Hr]; [discriminate|tauto].
Qed.

(** --- the fallback predicate of the code on primary selectors --------------------------------------- *)

Lemma sels_split e i : no_unless e = true -> (In i (sels e) <-> In i (prim e) \/ In i (nonprim e)).
Proof.
  induction e as [k| |e IHe|e IHe|e1 IHe1 e2 IHe2|cmp e1 IHe1 e2 IHe2|cmp e1 IHe1 e2 IHe2|e1 IHe1 e2 IHe2];
    cbn [no_unless sels prim nonprim]; intro H; rewrite ?in_app_iff; try tauto; try discriminate.
  - cbn. tauto.
  - apply andb_true_iff in H. destruct H as [H1 H2]. specialize (IHe1 H1). specialize (IHe2 H2). tauto.
  - apply andb_true_iff in H. destruct H as [H1 H2]. specialize (IHe1 H1). tauto.
  - apply andb_true_iff in H. destruct H as [H1 H2]. specialize (IHe2 H2). tauto.
Qed.

Lemma prim_in_sels e i : In i (prim e) -> In i (sels e).
Proof.
  induction e as [k| |e IHe|e IHe|e1 IHe1 e2 IHe2|cmp e1 IHe1 e2 IHe2|cmp e1 IHe1 e2 IHe2|e1 IHe1 e2 IHe2];
    cbn [sels prim]; rewrite ?in_app_iff; tauto.
Qed.

Lemma memN_In i l : memN i l = true <-> In i l.
Proof.
  unfold memN. rewrite existsb_exists. split.
  - intros [x [Hx E]]. apply N.eqb_eq in E. subst. exact Hx.
  - intros H. exists i. split; [exact H|apply N.eqb_refl].
Qed.

Lemma or_fallback_in e i : or_fallback e i = true -> In i (sels e).
Proof.
  induction e as [k| |e IHe|e IHe|e1 IHe1 e2 IHe2|cmp e1 IHe1 e2 IHe2|cmp e1 IHe1 e2 IHe2|e1 IHe1 e2 IHe2]; cbn [or_fallback sels]; intros H; try discriminate; try (apply IHe; exact H).
  - rewrite !orb_true_iff, !andb_true_iff in H. rewrite in_app_iff.
    destruct H as [[[H|H]|[H _]]|[H _]]; [left; apply IHe1; exact H|right; apply IHe2; exact H
                                          |left; apply memN_In; exact H|right; apply memN_In; exact H].
  - rewrite orb_true_iff in H. rewrite in_app_iff. destruct H; [left; apply IHe1|right; apply IHe2]; assumption.
  - rewrite orb_true_iff in H. rewrite in_app_iff. destruct H; [left; apply IHe1|right; apply IHe2]; assumption.
  - rewrite orb_true_iff in H. rewrite in_app_iff. destruct H; [left; apply IHe1|right; apply IHe2]; assumption.
Qed.

Lemma not_in_fallback e i : ~ In i (sels e) -> or_fallback e i = false.
Proof. intro H. destruct (or_fallback e i) eqn:E; [|reflexivity]. exfalso. apply H. apply or_fallback_in. exact E. Qed.

Lemma not_in_memN i l : ~ In i l -> memN i l = false.
Proof. intro H. destruct (memN i l) eqn:E; [|reflexivity]. exfalso. apply H. apply memN_In. exact E. Qed.

Lemma nodup_app {A} (l1 l2 : list A) : NoDup (l1 ++ l2) ->
  NoDup l1 /\ NoDup l2 /\ (forall x, In x l1 -> In x l2 -> False).
Proof.
  induction l1 as [|a r IH]; cbn [app]; intro H.
  - split; [constructor|]. split; [exact H|]. intros x [].
  - inversion H as [|? ? Hn Hr]; subst. destruct (IH Hr) as [N1 [N2 D]]. split.
    + constructor; [|exact N1]. intro Hc. apply Hn. apply in_or_app. left. exact Hc.
    + split; [exact N2|]. intros x [E|Hx] H2.
      * subst. apply Hn. apply in_or_app. right. exact H2.
      * apply (D x Hx H2).
Qed.

(** a primary selector has an or-fallback exactly when the whole expression always returns *)
Lemma prim_fallback e : NoDup (sels e) -> forall i, In i (prim e) -> or_fallback e i = always e.
Proof.
  induction e as [k| |e IHe|e IHe|e1 IHe1 e2 IHe2|cmp e1 IHe1 e2 IHe2|cmp e1 IHe1 e2 IHe2|e1 IHe1 e2 IHe2]; cbn [sels prim or_fallback always]; intros Hnd i Hi; try contradiction; try reflexivity.
  - apply IHe; assumption.
  - apply IHe; assumption.
  - rewrite has_fallback_always, has_fallback_always.
    destruct (nodup_app _ _ Hnd) as [N1 [N2 D]].
    apply in_app_iff in Hi. destruct Hi as [Hi|Hi].
    + assert (~ In i (sels e2)) as Hn.
      { intro Hc. apply (D i (prim_in_sels _ _ Hi) Hc). }
      rewrite (IHe1 N1 i Hi), (not_in_fallback e2 i Hn), (not_in_memN i _ Hn).
      assert (memN i (sels e1) = true) as -> by (apply memN_In, prim_in_sels; exact Hi).
      cbn [andb orb]. rewrite orb_false_r, orb_false_r. reflexivity.
    + assert (~ In i (sels e1)) as Hn.
      { intro Hc. apply (D i Hc (prim_in_sels _ _ Hi)). }
      rewrite (IHe2 N2 i Hi), (not_in_fallback e1 i Hn), (not_in_memN i _ Hn).
      assert (memN i (sels e2) = true) as -> by (apply memN_In, prim_in_sels; exact Hi).
      cbn [andb orb]. rewrite orb_false_r. destruct (always e1), (always e2); reflexivity.
  - destruct (nodup_app _ _ Hnd) as [N1 [N2 D]].
    assert (~ In i (sels e2)) as Hn by (intro Hc; apply (D i (prim_in_sels _ _ Hi) Hc)).
    rewrite (IHe1 N1 i Hi), (not_in_fallback e2 i Hn). apply orb_false_r.
  - destruct (nodup_app _ _ Hnd) as [N1 [N2 D]].
    assert (~ In i (sels e1)) as Hn by (intro Hc; apply (D i Hc (prim_in_sels _ _ Hi))).
    rewrite (IHe2 N2 i Hi), (not_in_fallback e1 i Hn). reflexivity.
  - destruct (nodup_app _ _ Hnd) as [N1 [N2 D]].
    assert (~ In i (sels e2)) as Hn by (intro Hc; apply (D i (prim_in_sels _ _ Hi) Hc)).
    rewrite (IHe1 N1 i Hi), (not_in_fallback e2 i Hn). apply orb_false_r.
Qed.

(** headline *)
Theorem checked_characterised e : no_unless e = true -> NoDup (sels e) -> forall i,
  In i (checked e) <-> In i (sels e) /\ or_fallback e i = false.
Proof.
  intros H Hnd i. unfold checked. rewrite (checked_with_struct (or_fallback e) e H). rewrite (sels_split e i H). split.
  - intros [[Hp Ha]|[Hn Hf]].
    + split; [left; exact Hp|]. rewrite (prim_fallback e Hnd i Hp). exact Ha.
    + split; [right; exact Hn|exact Hf].
  - intros [[Hp|Hn] Hf].
    + left. split; [exact Hp|]. rewrite <- (prim_fallback e Hnd i Hp). exact Hf.
    + right. split; assumption.
Qed.
