(** C16 — the selectors promql/series probes are exactly the REACHABLE selectors of the expression (all of them,
    except those inside an `unless` operand that is not a condition) that have no or-fallback of their own.
    Lemmas about Model/SeriesSelectors.v. *)
From Coq Require Import List Bool Arith NArith Lia.
From PintV Require Import Model.SeriesSelectors.
Import ListNotations.

(** structural readings of the Source tree *)
Fixpoint always (e : sexpr) : bool :=
  match e with
  | ESel _ => false
  | EAlways => true
  | EWrap x | ECmp x => always x
  | EOr a b => always a || always b
  | EJoin _ a _ => always a
  | EJoinR _ _ b => always b
  | EUnless a _ => always a
  end.

Fixpoint prim (e : sexpr) : list N :=
  match e with
  | ESel i => [i]
  | EAlways => []
  | EWrap x | ECmp x => prim x
  | EOr a b => prim a ++ prim b
  | EJoin _ a _ => prim a
  | EJoinR _ _ b => prim b
  | EUnless a _ => prim a
  end.

(** some source of the expression is conditional *)
Fixpoint anycond (e : sexpr) : bool :=
  match e with
  | ESel _ | EAlways => false
  | EWrap x => anycond x
  | ECmp _ => true
  | EOr a b => anycond a || anycond b
  | EJoin c a _ => c || anycond a
  | EJoinR c _ b => c || anycond b
  | EUnless a _ => anycond a
  end.

(** [reach e]: the selectors reached when every source of [e] is walked; [reach_cond e]: when only its conditional
    sources are.  An `unless` operand is followed through its conditional sources only. *)
Fixpoint reach (e : sexpr) : list N :=
  match e with
  | ESel i => [i]
  | EAlways => []
  | EWrap x | ECmp x => reach x
  | EOr a b | EJoin _ a b | EJoinR _ a b => reach a ++ reach b
  | EUnless a b => reach a ++ reach_cond b
  end
with reach_cond (e : sexpr) : list N :=
  match e with
  | ESel _ | EAlways => []
  | EWrap x => reach_cond x
  | ECmp x => reach x
  | EOr a b => reach_cond a ++ reach_cond b
  | EJoin c a b => if c then reach a ++ reach b else reach_cond a ++ (if anycond a then reach b else [])
  | EJoinR c a b => if c then reach a ++ reach b else reach_cond b ++ (if anycond b then reach a else [])
  | EUnless a b => reach_cond a ++ (if anycond a then reach_cond b else [])
  end.

(** what is reached beyond the primary selectors *)
Fixpoint nonprim (e : sexpr) : list N :=
  match e with
  | ESel _ | EAlways => []
  | EWrap x | ECmp x => nonprim x
  | EOr a b => nonprim a ++ nonprim b
  | EJoin _ a b => nonprim a ++ reach b
  | EJoinR _ a b => nonprim b ++ reach a
  | EUnless a b => nonprim a ++ reach_cond b
  end.

Definition mains (srcs : list source) : list N := flat_map (fun s => opt_list (src_sel s)) srcs.
Definition rest (fb : N -> bool) (srcs : list source) : list N :=
  flat_map (fun s => walk fb (src_joins s) ++ walk_cond fb (src_unless s)) srcs.

Definition selpart (fb : N -> bool) (s : source) : list N :=
  match src_sel s with Some i => if fb i then [] else [i] | None => [] end.

(** --- the helpers ---------------------------------------------------------------------------------- *)

Lemma operand_sels_unfold fb s :
  operand_sels fb s = selpart fb s ++ walk fb (src_joins s) ++ walk_cond fb (src_unless s).
Proof. destruct s; reflexivity. Qed.

Lemma in_operand fb s i :
  In i (operand_sels fb s) <-> In i (selpart fb s) \/ In i (walk fb (src_joins s)) \/ In i (walk_cond fb (src_unless s)).
Proof. rewrite operand_sels_unfold, !in_app_iff. tauto. Qed.

Lemma sel_set_cond_if c s : src_sel (set_cond_if c s) = src_sel s.
Proof. destruct c, s; reflexivity. Qed.
Lemma always_set_cond_if c s : src_always (set_cond_if c s) = src_always s.
Proof. destruct c, s; reflexivity. Qed.
Lemma joins_set_cond_if c s : src_joins (set_cond_if c s) = src_joins s.
Proof. destruct c, s; reflexivity. Qed.
Lemma unless_set_cond_if c s : src_unless (set_cond_if c s) = src_unless s.
Proof. destruct c, s; reflexivity. Qed.
Lemma cond_set_cond_if c s : src_cond (set_cond_if c s) = c || src_cond s.
Proof. destruct c, s; reflexivity. Qed.
Lemma sel_add_joins B s : src_sel (add_joins B s) = src_sel s.
Proof. destruct s; reflexivity. Qed.
Lemma always_add_joins B s : src_always (add_joins B s) = src_always s.
Proof. destruct s; reflexivity. Qed.
Lemma joins_add_joins B s : src_joins (add_joins B s) = src_joins s ++ B.
Proof. destruct s; reflexivity. Qed.
Lemma unless_add_joins B s : src_unless (add_joins B s) = src_unless s.
Proof. destruct s; reflexivity. Qed.
Lemma cond_add_joins B s : src_cond (add_joins B s) = src_cond s.
Proof. destruct s; reflexivity. Qed.

Lemma walk_app fb a b : walk fb (a ++ b) = walk fb a ++ walk fb b.
Proof. apply flat_map_app. Qed.
Lemma walk_cond_app fb a b : walk_cond fb (a ++ b) = walk_cond fb a ++ walk_cond fb b.
Proof. apply flat_map_app. Qed.

Lemma operand_set_cond fb s : operand_sels fb (set_cond s) = operand_sels fb s.
Proof. destruct s; reflexivity. Qed.

Lemma in_operand_join fb c B s i :
  In i (operand_sels fb (set_cond_if c (add_joins B s))) <-> In i (operand_sels fb s) \/ In i (walk fb B).
Proof.
  rewrite !in_operand. unfold selpart.
  rewrite sel_set_cond_if, joins_set_cond_if, unless_set_cond_if, sel_add_joins, joins_add_joins, unless_add_joins.
  rewrite walk_app, in_app_iff. tauto.
Qed.

Lemma in_operand_unless fb B s i :
  In i (operand_sels fb (add_unless B s)) <-> In i (operand_sels fb s) \/ In i (walk_cond fb B).
Proof.
  destruct s as [a b c j u]. rewrite !in_operand. cbn [add_unless src_sel src_joins src_unless selpart].
  rewrite walk_cond_app, in_app_iff. unfold selpart. cbn [src_sel]. tauto.
Qed.

Lemma sources_nonempty e : sources_of e <> [].
Proof.
  induction e; cbn [sources_of]; try discriminate; try assumption.
  - destruct (sources_of e); [contradiction|discriminate].
  - destruct (sources_of e1); [contradiction|discriminate].
  - destruct (sources_of e1); [contradiction|discriminate].
  - destruct (sources_of e2); [contradiction|discriminate].
  - destruct (sources_of e1); [contradiction|discriminate].
Qed.

Lemma existsb_map_eq {A} (f : A -> A) (p : A -> bool) l : (forall x, p (f x) = p x) -> existsb p (map f l) = existsb p l.
Proof. intros H. induction l as [|x r IH]; [reflexivity|]. cbn [map existsb]. rewrite H, IH. reflexivity. Qed.

Lemma existsb_map_true {A} (f : A -> A) (p : A -> bool) l : (forall x, p (f x) = true) -> l <> [] -> existsb p (map f l) = true.
Proof. intros H Hl. destruct l as [|x r]; [contradiction|]. cbn [map existsb]. rewrite H. reflexivity. Qed.

Lemma has_fallback_always e : has_fallback (sources_of e) = always e.
Proof.
  unfold has_fallback. induction e; cbn [sources_of always]; try reflexivity; try assumption.
  - rewrite existsb_map_eq; [exact IHe|]. intros []; reflexivity.
  - rewrite existsb_app, IHe1, IHe2. reflexivity.
  - rewrite existsb_map_eq; [exact IHe1|]. intro s. rewrite always_set_cond_if, always_add_joins. reflexivity.
  - rewrite existsb_map_eq; [exact IHe2|]. intro s. rewrite always_set_cond_if, always_add_joins. reflexivity.
  - rewrite existsb_map_eq; [exact IHe1|]. intros []; reflexivity.
Qed.

Lemma anycond_sources e : existsb src_cond (sources_of e) = anycond e.
Proof.
  induction e; cbn [sources_of anycond]; try reflexivity; try assumption.
  - apply existsb_map_true; [intros []; reflexivity|apply sources_nonempty].
  - rewrite existsb_app, IHe1, IHe2. reflexivity.
  - destruct cmp; cbn [orb].
    + apply existsb_map_true; [intro s; rewrite cond_set_cond_if; reflexivity|apply sources_nonempty].
    + rewrite existsb_map_eq; [exact IHe1|]. intro s. rewrite cond_set_cond_if, cond_add_joins. reflexivity.
  - destruct cmp; cbn [orb].
    + apply existsb_map_true; [intro s; rewrite cond_set_cond_if; reflexivity|apply sources_nonempty].
    + rewrite existsb_map_eq; [exact IHe2|]. intro s. rewrite cond_set_cond_if, cond_add_joins. reflexivity.
  - rewrite existsb_map_eq; [exact IHe1|]. intros []; reflexivity.
Qed.

Lemma flat_map_map_ext {A B} (g : A -> list B) (f : A -> A) l : (forall x, g (f x) = g x) -> flat_map g (map f l) = flat_map g l.
Proof. intros H. induction l as [|x r IH]; [reflexivity|]. cbn [map flat_map]. rewrite H, IH. reflexivity. Qed.

Lemma mains_prim e : mains (sources_of e) = prim e.
Proof.
  unfold mains. induction e; cbn [sources_of prim]; try reflexivity; try assumption.
  - rewrite flat_map_map_ext; [exact IHe|]. intros []; reflexivity.
  - rewrite flat_map_app, IHe1, IHe2. reflexivity.
  - rewrite flat_map_map_ext; [exact IHe1|]. intro s. rewrite sel_set_cond_if, sel_add_joins. reflexivity.
  - rewrite flat_map_map_ext; [exact IHe2|]. intro s. rewrite sel_set_cond_if, sel_add_joins. reflexivity.
  - rewrite flat_map_map_ext; [exact IHe1|]. intros []; reflexivity.
Qed.

(** flat_map over sources that each got the same extra part [X] *)
Lemma in_flat_map_add (f : source -> source) (g : source -> list N) (X : list N) A i :
  (forall s, In i (g (f s)) <-> In i (g s) \/ In i X) -> A <> [] ->
  (In i (flat_map g (map f A)) <-> In i (flat_map g A) \/ In i X).
Proof.
  intros Hg Hne. induction A as [|s r IH]; [contradiction|]. cbn [map flat_map]. rewrite !in_app_iff, Hg.
  destruct r as [|s' r'].
  - cbn [map flat_map In]. tauto.
  - rewrite IH by discriminate. tauto.
Qed.

(** the same for the walk restricted to conditional sources, when [f] keeps the condition flag *)
Lemma in_walk_cond_add fb (f : source -> source) (X : list N) A i :
  (forall s, In i (operand_sels fb (f s)) <-> In i (operand_sels fb s) \/ In i X) ->
  (forall s, src_cond (f s) = src_cond s) ->
  (In i (walk_cond fb (map f A)) <-> In i (walk_cond fb A) \/ (existsb src_cond A = true /\ In i X)).
Proof.
  intros Hg Hc. unfold walk_cond. induction A as [|s r IH].
  - cbn. split; [intros []|intros [[]|[H _]]; discriminate].
  - cbn [map flat_map existsb]. rewrite !in_app_iff, IH, Hc. destruct (src_cond s); cbn [orb].
    + rewrite Hg. split; [|tauto]. intros [[H|H]|[H|[_ H]]]; tauto.
    + cbn [In]. tauto.
Qed.

(** ... and when [f] makes every source conditional *)
Lemma walk_cond_all fb (f : source -> source) A :
  (forall s, src_cond (f s) = true) -> walk_cond fb (map f A) = walk fb (map f A).
Proof.
  intros Hc. unfold walk_cond, walk. induction A as [|s r IH]; [reflexivity|]. cbn [map flat_map]. rewrite Hc, IH. reflexivity.
Qed.

Lemma if_in (c : bool) (l : list N) i : In i (if c then l else []) <-> c = true /\ In i l.
Proof. destruct c; cbn [In]; split; intros; try tauto. destruct H; discriminate. Qed.

(** --- the walks, read structurally ------------------------------------------------------------------- *)

Lemma walks fb e : forall i,
  (In i (walk fb (sources_of e)) <-> In i (reach e) /\ fb i = false) /\
  (In i (walk_cond fb (sources_of e)) <-> In i (reach_cond e) /\ fb i = false).
Proof.
  induction e as [k| |e IHe|e IHe|e1 IHe1 e2 IHe2|cmp e1 IHe1 e2 IHe2|cmp e1 IHe1 e2 IHe2|e1 IHe1 e2 IHe2]; intro i;
    cbn [sources_of reach reach_cond].
  - unfold walk, walk_cond. cbn [flat_map src_cond operand_sels app]. rewrite ?app_nil_r. split.
    + destruct (fb k) eqn:E; cbn [In].
      * split; [intros []|]. intros [[H|[]] Hf]. subst. congruence.
      * split; [intros [H|[]]; subst; tauto|]. intros [[H|[]] _]. left. exact H.
    + cbn [In]. tauto.
  - unfold walk, walk_cond. cbn. tauto.
  - apply IHe.
  - destruct (IHe i) as [W _]. split.
    + unfold walk. rewrite flat_map_map_ext by (intro s; apply operand_set_cond). exact W.
    + rewrite walk_cond_all by (intros []; reflexivity).
      unfold walk. rewrite flat_map_map_ext by (intro s; apply operand_set_cond). exact W.
  - destruct (IHe1 i) as [W1 C1]. destruct (IHe2 i) as [W2 C2]. split.
    + rewrite walk_app, !in_app_iff, W1, W2. tauto.
    + rewrite walk_cond_app, !in_app_iff, C1, C2. tauto.
  - destruct (IHe1 i) as [W1 C1]. destruct (IHe2 i) as [W2 C2].
    assert (In i (walk fb (map (fun s => set_cond_if cmp (add_joins (sources_of e2) s)) (sources_of e1)))
            <-> In i (reach e1 ++ reach e2) /\ fb i = false) as HW.
    { unfold walk at 1. rewrite (in_flat_map_add _ (operand_sels fb) (walk fb (sources_of e2)) (sources_of e1) i
                 (fun s => in_operand_join fb cmp (sources_of e2) s i) (sources_nonempty e1)).
      fold (walk fb (sources_of e1)). rewrite W1, W2, in_app_iff. tauto. }
    split; [exact HW|]. destruct cmp.
    + rewrite walk_cond_all by (intro s; rewrite cond_set_cond_if; reflexivity). exact HW.
    + rewrite (in_walk_cond_add fb _ (walk fb (sources_of e2)) (sources_of e1) i
                 (fun s => in_operand_join fb false (sources_of e2) s i)
                 (fun s => eq_trans (cond_set_cond_if false _) (cond_add_joins _ s))).
      rewrite C1, W2, anycond_sources, in_app_iff, if_in. tauto.
  - destruct (IHe1 i) as [W1 C1]. destruct (IHe2 i) as [W2 C2].
    assert (In i (walk fb (map (fun s => set_cond_if cmp (add_joins (sources_of e1) s)) (sources_of e2)))
            <-> In i (reach e1 ++ reach e2) /\ fb i = false) as HW.
    { unfold walk at 1. rewrite (in_flat_map_add _ (operand_sels fb) (walk fb (sources_of e1)) (sources_of e2) i
                 (fun s => in_operand_join fb cmp (sources_of e1) s i) (sources_nonempty e2)).
      fold (walk fb (sources_of e2)). rewrite W1, W2, in_app_iff. tauto. }
    split; [exact HW|]. destruct cmp.
    + rewrite walk_cond_all by (intro s; rewrite cond_set_cond_if; reflexivity). exact HW.
    + rewrite (in_walk_cond_add fb _ (walk fb (sources_of e1)) (sources_of e2) i
                 (fun s => in_operand_join fb false (sources_of e1) s i)
                 (fun s => eq_trans (cond_set_cond_if false _) (cond_add_joins _ s))).
      rewrite C2, W1, anycond_sources, in_app_iff, if_in. tauto.
  - destruct (IHe1 i) as [W1 C1]. destruct (IHe2 i) as [W2 C2]. split.
    + unfold walk at 1. rewrite (in_flat_map_add _ (operand_sels fb) (walk_cond fb (sources_of e2)) (sources_of e1) i
                 (fun s => in_operand_unless fb (sources_of e2) s i) (sources_nonempty e1)).
      fold (walk fb (sources_of e1)). rewrite W1, C2, in_app_iff. tauto.
    + rewrite (in_walk_cond_add fb _ (walk_cond fb (sources_of e2)) (sources_of e1) i
                 (fun s => in_operand_unless fb (sources_of e2) s i)).
      * rewrite C1, C2, anycond_sources, in_app_iff, if_in. tauto.
      * intros []; reflexivity.
Qed.

(** the part of getNonFallbackSelectors beyond the primary selectors *)
Lemma rest_nonprim fb e : forall i, In i (rest fb (sources_of e)) <-> In i (nonprim e) /\ fb i = false.
Proof.
  unfold rest.
  induction e as [k| |e IHe|e IHe|e1 IHe1 e2 IHe2|cmp e1 IHe1 e2 IHe2|cmp e1 IHe1 e2 IHe2|e1 IHe1 e2 IHe2]; intro i;
    cbn [sources_of nonprim].
  - cbn. tauto.
  - cbn. tauto.
  - apply IHe.
  - rewrite flat_map_map_ext by (intros []; reflexivity). apply IHe.
  - rewrite flat_map_app, !in_app_iff, IHe1, IHe2. tauto.
  - rewrite (in_flat_map_add _ (fun s => walk fb (src_joins s) ++ walk_cond fb (src_unless s)) (walk fb (sources_of e2)) (sources_of e1) i).
    + rewrite IHe1. destruct (walks fb e2 i) as [W2 _]. rewrite W2, in_app_iff. tauto.
    + intro s. rewrite joins_set_cond_if, unless_set_cond_if, joins_add_joins, unless_add_joins, walk_app, !in_app_iff. tauto.
    + apply sources_nonempty.
  - rewrite (in_flat_map_add _ (fun s => walk fb (src_joins s) ++ walk_cond fb (src_unless s)) (walk fb (sources_of e1)) (sources_of e2) i).
    + rewrite IHe2. destruct (walks fb e1 i) as [W1 _]. rewrite W1, in_app_iff. tauto.
    + intro s. rewrite joins_set_cond_if, unless_set_cond_if, joins_add_joins, unless_add_joins, walk_app, !in_app_iff. tauto.
    + apply sources_nonempty.
  - rewrite (in_flat_map_add _ (fun s => walk fb (src_joins s) ++ walk_cond fb (src_unless s)) (walk_cond fb (sources_of e2)) (sources_of e1) i).
    + rewrite IHe1. destruct (walks fb e2 i) as [_ C2]. rewrite C2, in_app_iff. tauto.
    + intros [a b c j u]. cbn [add_unless src_joins src_unless]. rewrite walk_cond_app, !in_app_iff. tauto.
    + apply sources_nonempty.
Qed.

(** getNonFallbackSelectors, read structurally (any fallback predicate) *)
Lemma checked_with_struct fb e : forall i,
  In i (checked_with fb (sources_of e)) <->
  (In i (prim e) /\ always e = false) \/ (In i (nonprim e) /\ fb i = false).
Proof.
  intro i. unfold checked_with. rewrite has_fallback_always.
  assert (forall srcs,
            In i (flat_map (fun s => (if always e then [] else opt_list (src_sel s))
                                     ++ walk fb (src_joins s) ++ walk_cond fb (src_unless s)) srcs)
            <-> In i (if always e then [] else mains srcs) \/ In i (rest fb srcs)) as Hsplit.
  { induction srcs as [|s r IH].
    - cbn. destruct (always e); cbn; tauto.
    - cbn [flat_map]. rewrite !in_app_iff, IH. unfold mains, rest. cbn [flat_map].
      destruct (always e); cbn [In]; rewrite ?in_app_iff; tauto. }
  rewrite Hsplit, rest_nonprim, mains_prim.
  destruct (always e); cbn [In]; split; intros; try tauto.
  destruct H as [[_ Hf]|Hr]; [discriminate|tauto].
Qed.

(** --- the fallback predicate of the code on primary selectors --------------------------------------- *)

Lemma reach_split e i : In i (reach e) <-> In i (prim e) \/ In i (nonprim e).
Proof.
  induction e as [k| |e IHe|e IHe|e1 IHe1 e2 IHe2|cmp e1 IHe1 e2 IHe2|cmp e1 IHe1 e2 IHe2|e1 IHe1 e2 IHe2];
    cbn [reach prim nonprim]; rewrite ?in_app_iff; try tauto.
  - cbn. tauto.
Qed.

Lemma reach_sels e : forall i, (In i (reach e) -> In i (sels e)) /\ (In i (reach_cond e) -> In i (sels e)).
Proof.
  induction e as [k| |e IHe|e IHe|e1 IHe1 e2 IHe2|cmp e1 IHe1 e2 IHe2|cmp e1 IHe1 e2 IHe2|e1 IHe1 e2 IHe2]; intro i;
    cbn [reach reach_cond sels];
    try (destruct (IHe i)); try (destruct (IHe1 i), (IHe2 i)); try destruct cmp;
    rewrite ?in_app_iff, ?if_in, ?in_app_iff; cbn [In]; tauto.
Qed.

Lemma no_unless_reach e : no_unless e = true -> reach e = sels e.
Proof.
  induction e as [k| |e IHe|e IHe|e1 IHe1 e2 IHe2|cmp e1 IHe1 e2 IHe2|cmp e1 IHe1 e2 IHe2|e1 IHe1 e2 IHe2];
    cbn [no_unless reach sels]; intro H; try reflexivity; try (apply IHe; exact H); try discriminate;
    apply andb_true_iff in H; destruct H as [H1 H2]; rewrite IHe1, IHe2 by assumption; reflexivity.
Qed.

Lemma memN_In i l : memN i l = true <-> In i l.
Proof.
  unfold memN. rewrite existsb_exists. split.
  - intros [x [Hx E]]. apply N.eqb_eq in E. subst. exact Hx.
  - intros H. exists i. split; [exact H|apply N.eqb_refl].
Qed.

Lemma or_fallback_in e i : or_fallback e i = true -> In i (sels e).
Proof.
  induction e as [k| |e IHe|e IHe|e1 IHe1 e2 IHe2|cmp e1 IHe1 e2 IHe2|cmp e1 IHe1 e2 IHe2|e1 IHe1 e2 IHe2];
    cbn [or_fallback sels]; intros H; try discriminate; try (apply IHe; exact H).
  - rewrite !orb_true_iff, !andb_true_iff in H. rewrite in_app_iff.
    destruct H as [[[H|H]|[H _]]|[H _]]; [left; apply IHe1; exact H|right; apply IHe2; exact H
                                          |left; apply memN_In; exact H|right; apply memN_In; exact H].
  - rewrite orb_true_iff in H. rewrite in_app_iff. destruct H; [left; apply IHe1|right; apply IHe2]; assumption.
  - rewrite orb_true_iff in H. rewrite in_app_iff. destruct H; [left; apply IHe1|right; apply IHe2]; assumption.
  - rewrite orb_true_iff in H. rewrite in_app_iff. destruct H; [left; apply IHe1|right; apply IHe2]; assumption.
Qed.

Lemma prim_in_sels e i : In i (prim e) -> In i (sels e).
Proof.
  induction e as [k| |e IHe|e IHe|e1 IHe1 e2 IHe2|cmp e1 IHe1 e2 IHe2|cmp e1 IHe1 e2 IHe2|e1 IHe1 e2 IHe2];
    cbn [sels prim]; rewrite ?in_app_iff; tauto.
Qed.

Lemma not_in_fallback e i : ~ In i (sels e) -> or_fallback e i = false.
Proof. intro H. destruct (or_fallback e i) eqn:E; [|reflexivity]. exfalso. apply H. apply or_fallback_in. exact E. Qed.

Lemma not_in_memN i l : ~ In i l -> memN i l = false.
Proof. intro H. destruct (memN i l) eqn:E; [|reflexivity]. exfalso. apply H. apply memN_In. exact E. Qed.

Lemma nodup_app {A} (l1 l2 : list A) : NoDup (l1 ++ l2) ->
  NoDup l1 /\ NoDup l2 /\ (forall x, In x l1 -> In x l2 -> False).
Proof.
  induction l1 as [|a r IH]; cbn [app]; intro H.
  - split; [constructor|]. split; [exact H|]. intros x [].
  - inversion H as [|? ? Hn Hr]; subst. destruct (IH Hr) as [N1 [N2 D]]. split.
    + constructor; [|exact N1]. intro Hc. apply Hn. apply in_or_app. left. exact Hc.
    + split; [exact N2|]. intros x [E|Hx] H2.
      * subst. apply Hn. apply in_or_app. right. exact H2.
      * apply (D x Hx H2).
Qed.

(** a primary selector has an or-fallback exactly when the whole expression always returns *)
Lemma prim_fallback e : NoDup (sels e) -> forall i, In i (prim e) -> or_fallback e i = always e.
Proof.
  induction e as [k| |e IHe|e IHe|e1 IHe1 e2 IHe2|cmp e1 IHe1 e2 IHe2|cmp e1 IHe1 e2 IHe2|e1 IHe1 e2 IHe2];
    cbn [sels prim or_fallback always]; intros Hnd i Hi; try contradiction; try reflexivity.
  - apply IHe; assumption.
  - apply IHe; assumption.
  - rewrite has_fallback_always, has_fallback_always.
    destruct (nodup_app _ _ Hnd) as [N1 [N2 D]].
    apply in_app_iff in Hi. destruct Hi as [Hi|Hi].
    + assert (~ In i (sels e2)) as Hn.
      { intro Hc. apply (D i (prim_in_sels _ _ Hi) Hc). }
      rewrite (IHe1 N1 i Hi), (not_in_fallback e2 i Hn), (not_in_memN i _ Hn).
      assert (memN i (sels e1) = true) as -> by (apply memN_In, prim_in_sels; exact Hi).
      cbn [andb orb]. rewrite orb_false_r, orb_false_r. reflexivity.
    + assert (~ In i (sels e1)) as Hn.
      { intro Hc. apply (D i Hc (prim_in_sels _ _ Hi)). }
      rewrite (IHe2 N2 i Hi), (not_in_fallback e1 i Hn), (not_in_memN i _ Hn).
      assert (memN i (sels e2) = true) as -> by (apply memN_In, prim_in_sels; exact Hi).
      cbn [andb orb]. rewrite orb_false_r. destruct (always e1), (always e2); reflexivity.
  - destruct (nodup_app _ _ Hnd) as [N1 [N2 D]].
    assert (~ In i (sels e2)) as Hn by (intro Hc; apply (D i (prim_in_sels _ _ Hi) Hc)).
    rewrite (IHe1 N1 i Hi), (not_in_fallback e2 i Hn). apply orb_false_r.
  - destruct (nodup_app _ _ Hnd) as [N1 [N2 D]].
    assert (~ In i (sels e1)) as Hn by (intro Hc; apply (D i Hc (prim_in_sels _ _ Hi))).
    rewrite (IHe2 N2 i Hi), (not_in_fallback e1 i Hn). reflexivity.
  - destruct (nodup_app _ _ Hnd) as [N1 [N2 D]].
    assert (~ In i (sels e2)) as Hn by (intro Hc; apply (D i (prim_in_sels _ _ Hi) Hc)).
    rewrite (IHe1 N1 i Hi), (not_in_fallback e2 i Hn). apply orb_false_r.
Qed.

(** headline, whole fragment *)
Theorem checked_characterised_reach e : NoDup (sels e) -> forall i,
  In i (checked e) <-> In i (reach e) /\ or_fallback e i = false.
Proof.
  intros Hnd i. unfold checked. rewrite (checked_with_struct (or_fallback e) e). rewrite reach_split. split.
  - intros [[Hp Ha]|[Hn Hf]].
    + split; [left; exact Hp|]. rewrite (prim_fallback e Hnd i Hp). exact Ha.
    + split; [right; exact Hn|exact Hf].
  - intros [[Hp|Hn] Hf].
    + left. split; [exact Hp|]. rewrite <- (prim_fallback e Hnd i Hp). exact Hf.
    + right. split; assumption.
Qed.

(** ... and without `unless` every selector is reachable *)
Theorem checked_characterised e : no_unless e = true -> NoDup (sels e) -> forall i,
  In i (checked e) <-> In i (sels e) /\ or_fallback e i = false.
Proof. intros H Hnd i. rewrite <- (no_unless_reach e H). apply checked_characterised_reach. exact Hnd. Qed.
