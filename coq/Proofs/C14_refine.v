(** C14 — the sequential cache / processJob model (Model/KeyLockCache.v, the one compared with the real
    queryCache and processJob on every run) refines the cache actions of the transition system
    (Model/KeyLock.v, the one the invariants are proved about): same hits, same fills, evictions are key sets. *)
From Coq Require Import List String ZArith NArith Bool Arith Lia.
From PintV Require Import Model.KeyLock Model.KeyLockCache Proofs.C14_lists.
Import ListNotations.

(** Abstraction: forget expiry and last-read times. *)
Definition abs_entries (l : list (N * centry)) : list (nat * nat) :=
  map (fun p => (N.to_nat (fst p), Z.to_nat (ce_val (snd p)))) l.

Definition abs_cache (st : cstate) : list (nat * nat) := abs_entries (cs_entries st).

(** Two association lists are the same cache when every lookup agrees. *)
Definition same_cache (l1 l2 : list (nat * nat)) : Prop := forall x, lookup x l1 = lookup x l2.

Lemma N_to_nat_eqb a b : Nat.eqb (N.to_nat a) (N.to_nat b) = N.eqb a b.
Proof.
  destruct (N.eqb_spec a b) as [->|N]; [apply Nat.eqb_refl|].
  apply Nat.eqb_neq. intros E. apply N. apply N2Nat.inj. exact E.
Qed.

Lemma find_lookup k l :
  lookup (N.to_nat k) (abs_entries l) = option_map (fun e => Z.to_nat (ce_val e)) (centry_find k l).
Proof.
  unfold abs_entries. induction l as [|[k' e] r IH]; cbn; [reflexivity|]. rewrite N_to_nat_eqb. destruct (N.eqb k k'); [reflexivity | exact IH].
Qed.

Lemma put_lookup k e l x :
  lookup x (abs_entries (centry_put k e l)) =
  if Nat.eqb x (N.to_nat k) then Some (Z.to_nat (ce_val e)) else lookup x (abs_entries l).
Proof.
  unfold abs_entries. induction l as [|[k' e'] r IH]; cbn.
  - reflexivity.
  - destruct (N.eqb_spec k k') as [->|N]; cbn.
    + destruct (Nat.eqb x (N.to_nat k')); reflexivity.
    + rewrite IH. destruct (Nat.eqb_spec x (N.to_nat k')) as [->|N2]; [|reflexivity].
      rewrite N_to_nat_eqb. destruct (N.eqb_spec k' k); [congruence | reflexivity].
Qed.

(** get: a hit returns the cached value, and refreshing lastGet does not change the abstract cache. *)
Lemma get_refines now k st :
  option_map Z.to_nat (fst (cache_get now k st)) = lookup (N.to_nat k) (abs_cache st) /\
  same_cache (abs_cache (snd (cache_get now k st))) (abs_cache st).
Proof.
  unfold cache_get, abs_cache. rewrite find_lookup.
  destruct (centry_find k (cs_entries st)) as [e|] eqn:F; cbn; split; try reflexivity.
  - intros x. rewrite put_lookup. cbn. destruct (Nat.eqb_spec x (N.to_nat k)) as [->|]; [|reflexivity].
    rewrite find_lookup, F. reflexivity.
  - intros x. reflexivity.
Qed.

(** set: exactly the fill of the transition system's successful [AEnd]. *)
Lemma set_refines now k v ttl st :
  same_cache (abs_cache (cache_set now k v ttl st)) ((N.to_nat k, Z.to_nat v) :: abs_cache st).
Proof. intros x. unfold cache_set, abs_cache. cbn [cs_entries]. rewrite put_lookup. cbn. reflexivity. Qed.

(** gc: removes a set of keys (whatever the clock says), provided keys are unique — which get/set/gc preserve. *)
Definition keys_unique (st : cstate) : Prop := NoDup (map fst (cs_entries st)).

Lemma put_keys k e l : forall x, In x (map fst (centry_put k e l)) <-> x = k \/ In x (map fst l).
Proof.
  induction l as [|[k' e'] r IH]; cbn; intros x; [intuition|].
  destruct (N.eqb_spec k k') as [->|N]; cbn; [intuition | rewrite IH; intuition].
Qed.

Lemma put_unique k e l : NoDup (map fst l) -> NoDup (map fst (centry_put k e l)).
Proof.
  induction l as [|[k' e'] r IH]; cbn; intros ND; [repeat constructor; auto|].
  inversion ND as [|? ? Hn Hr]; subst. destruct (N.eqb_spec k k') as [->|N]; cbn.
  - constructor; assumption.
  - constructor; [|auto]. rewrite put_keys. intros [E|E]; [congruence | auto].
Qed.

Lemma keys_unique_empty : keys_unique cache_empty.
Proof. constructor. Qed.

Lemma keys_unique_get now k st : keys_unique st -> keys_unique (snd (cache_get now k st)).
Proof.
  unfold keys_unique, cache_get. destruct (centry_find k (cs_entries st)); cbn; [apply put_unique | auto].
Qed.

Lemma keys_unique_set now k v ttl st : keys_unique st -> keys_unique (cache_set now k v ttl st).
Proof. unfold keys_unique, cache_set. cbn. apply put_unique. Qed.

Lemma filter_keys_NoDup {A} (f : N * A -> bool) l : NoDup (map fst l) -> NoDup (map fst (filter f l)).
Proof.
  induction l as [|p r IH]; cbn; intros ND; [constructor|]. inversion ND as [|? ? Hn Hr]; subst.
  destruct (f p); cbn; [|auto]. constructor; [|auto]. intros H. apply Hn.
  apply in_map_iff in H. destruct H as [q [E Hq]]. apply filter_In in Hq. apply in_map_iff. exists q. tauto.
Qed.

Lemma keys_unique_gc ms now st : keys_unique st -> keys_unique (cache_gc ms now st).
Proof. unfold keys_unique, cache_gc. cbn. apply filter_keys_NoDup. Qed.

(** ... namely the keys of the entries that are [evictable] at [now] *)
Definition gc_evicts (ms now : Z) (st : cstate) : list nat :=
  map (fun p => N.to_nat (fst p)) (filter (fun p => evictable ms now (snd p)) (cs_entries st)).

Lemma gc_refines_ev ms now st : keys_unique st ->
  same_cache (abs_cache (cache_gc ms now st)) (drop_keys (gc_evicts ms now st) (abs_cache st)).
Proof.
  intros U. unfold gc_evicts.
  unfold abs_cache, cache_gc, keys_unique in *. cbn [cs_entries].
  set (ev := map _ _).
  assert (Hev : forall k e, In (k, e) (cs_entries st) -> (mem (N.to_nat k) ev = true <-> evictable ms now e = true)).
  { intros k e Hin. rewrite mem_In. unfold ev. rewrite in_map_iff. split.
    - intros [[k' e'] [E Hf]]. apply filter_In in Hf. destruct Hf as [Hin' Hev']. cbn in E, Hev'.
      apply N2Nat.inj in E. subst k'.
      (* unique keys: e' = e *)
      assert (e' = e) as <-; [|exact Hev'].
      clear - U Hin Hin'. induction (cs_entries st) as [|[k0 e0] r IH]; [destruct Hin|].
      cbn in U. inversion U as [|? ? Hn Hr]; subst.
      destruct Hin as [E1|H1], Hin' as [E2|H2].
      + congruence.
      + injection E1 as -> ->. exfalso. apply Hn. change k with (fst (k, e')). apply in_map. exact H2.
      + injection E2 as -> ->. exfalso. apply Hn. change k with (fst (k, e)). apply in_map. exact H1.
      + auto.
    - intros Hev'. exists (k, e). split; [reflexivity|]. apply filter_In. auto. }
  clearbody ev. revert Hev U. induction (cs_entries st) as [|[k e] r IH]; intros Hev U x; cbn; [reflexivity|].
  inversion U as [|? ? Hn Hr]; subst.
  assert (Hr' : forall k0 e0, In (k0, e0) r -> (mem (N.to_nat k0) ev = true <-> evictable ms now e0 = true))
    by (intros; apply Hev; right; assumption).
  specialize (Hev k e (or_introl eq_refl)).
  destruct (evictable ms now e) eqn:E; cbn.
  - assert (M : mem (N.to_nat k) ev = true) by (apply Hev; reflexivity). rewrite M. cbn. apply IH; assumption.
  - assert (M : mem (N.to_nat k) ev = false).
    { apply not_true_is_false. intros M. apply Hev in M. discriminate. }
    rewrite M. cbn. destruct (Nat.eqb x (N.to_nat k)); [reflexivity | apply IH; assumption].
Qed.

Lemma gc_refines ms now st : keys_unique st ->
  exists ev, same_cache (abs_cache (cache_gc ms now st)) (drop_keys ev (abs_cache st)).
Proof. intros U. exists (gc_evicts ms now st). now apply gc_refines_ev. Qed.

(** * processJob against the worker actions [ACheck] / [AEnd] *)

Local Open Scope string_scope.

(** A worker that has taken job (c, k) in a transition-system state whose cache agrees with the sequential
    state does what [process_job] does: a hit replies the cached value without a request; a miss starts the
    request, and only a successful end fills the cache — with the same content. *)
Lemma process_job_refines cf s w c now k a ttl v o st :
  wst s w = WTaken (c, N.to_nat k) ->
  same_cache (cache s) (abs_cache (ps_cache st)) ->
  is_disabled a (ps_disabled st) = false ->
  let '(got, err, ran, st') := process_job now k a ttl v o st in
  exists s1, step cf s (ACheck w) = Some s1 /\
    if ran then
      wst s1 w = WRunning (c, N.to_nat k) /\
      let r := match o with OkVal => ROk (Z.to_nat v) | _ => RErr end in
      exists s2, step cf s1 (AEnd w r) = Some s2 /\ wst s2 w = WReply (c, N.to_nat k) r /\
                 same_cache (cache s2) (abs_cache (ps_cache st')) /\
                 (err = "" <-> o = OkVal) /\ (o = OkVal -> got = v)
    else
      err = "" /\ wst s1 w = WReply (c, N.to_nat k) (ROk (Z.to_nat got)) /\
      same_cache (cache s1) (abs_cache (ps_cache st')).
Proof.
  intros W SCache Dis. unfold process_job.
  destruct (get_refines now k (ps_cache st)) as [G1 G2].
  destruct (cache_get now k (ps_cache st)) as [[cv|] c'] eqn:CG; cbn [fst snd] in G1, G2.
  - (* hit *)
    cbn in G1. cbn [step]. rewrite W. rewrite (SCache (N.to_nat k)), <- G1.
    eexists. split; [reflexivity|]. cbn. rewrite upd_same. repeat split.
    intros x. rewrite (SCache x). symmetry. apply G2.
  - (* miss *)
    cbn in G1. rewrite Dis. cbn [step]. rewrite W. rewrite (SCache (N.to_nat k)), <- G1.
    assert (Hc' : same_cache (cache s) (abs_cache c')) by (intros x; rewrite (SCache x); symmetry; apply G2).
    destruct o; (eexists; split; [reflexivity|]); cbn [wst cache]; rewrite upd_same; (split; [reflexivity|]);
      (eexists; split; [reflexivity|]); cbn [wst cache ps_cache]; rewrite upd_same.
    + repeat split; try reflexivity.
      intros x. rewrite (set_refines now k v ttl c' x). cbn. destruct (Nat.eqb x (N.to_nat k)); [reflexivity | apply Hc'].
    + repeat split; try exact Hc'; try discriminate.
    + repeat split; try exact Hc'; try discriminate.
    + repeat split; try exact Hc'; try discriminate.
    + repeat split; try exact Hc'; try discriminate.
Qed.
