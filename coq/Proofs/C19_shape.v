(** Soundness of the executable structural check [shaped_b] (Model/YamlShape.v) w.r.t. [shape_doc]. *)
From Coq Require Import List String Bool.
From PintV Require Import Common.Bytes Model.Yaml Model.Parser Model.YamlShape Proofs.C19_relaxed.
Import ListNotations.

Lemma shape_all_b_eq n :
  shape_all_b n = (shape_node_b n && forallb shape_all_b (n_content n) &&
                   match n_alias n with Some t => shape_all_b t | None => true end)%bool.
Proof.
  destruct n as [k t v l c a content al em]. cbn [shape_all_b n_content n_alias].
  assert (H : (fix all (l0 : list node) : bool := match l0 with [] => true | c0 :: r => (shape_all_b c0 && all r)%bool end) content
               = forallb shape_all_b content).
  { induction content as [|x r IH]; cbn [forallb]; [reflexivity|]. now rewrite IH. }
  rewrite H. reflexivity.
Qed.

Lemma shape_node_b_sound m : shape_node_b m = true -> shape_node m.
Proof.
  unfold shape_node_b. intros H. apply andb_true_iff in H. destruct H as [H H3]. apply andb_true_iff in H. destruct H as [H1 H2].
  split; [|split].
  - intros Ha. destruct (n_alias m); [|contradiction]. cbn in H1. now apply kind_eqb_eq in H1.
  - intros Hk. apply orb_true_iff in H2. destruct H2 as [H2|H2].
    + apply negb_true_iff in H2. apply orb_false_iff in H2. destruct H2 as [A B].
      destruct Hk as [Hk|Hk]; rewrite Hk in *; discriminate.
    + destruct (n_content m); [reflexivity|discriminate].
  - intros Hk. apply orb_true_iff in H3. destruct H3 as [H3|H3].
    + apply kind_eqb_eq in H3. contradiction.
    + destruct (n_embedded m); [discriminate|reflexivity].
Qed.

Lemma shape_all_b_reach d m : reach d m -> shape_all_b d = true -> shape_node m.
Proof.
  induction 1 as [n|n c m Hc Hr IH|n t m Ha Hr IH]; intros H; rewrite shape_all_b_eq in H;
    apply andb_true_iff in H; destruct H as [H Hal]; apply andb_true_iff in H; destruct H as [Hn Hco].
  - exact (shape_node_b_sound n Hn).
  - rewrite forallb_forall in Hco. exact (IH (Hco c Hc)).
  - rewrite Ha in Hal. exact (IH Hal).
Qed.

Theorem shaped_b_sound d : shaped_b d = true -> shape_doc d.
Proof.
  unfold shaped_b. intros H. apply andb_true_iff in H. destruct H as [H H3]. apply andb_true_iff in H. destruct H as [H1 H2].
  split; [now apply kind_eqb_eq in H1|]. split.
  - intros c Hc. rewrite forallb_forall in H2. specialize (H2 c Hc). destruct (n_alias c); [discriminate|reflexivity].
  - intros m Hr. exact (shape_all_b_reach d m Hr H3).
Qed.
