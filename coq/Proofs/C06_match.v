(** C06 lemmas, part 2: the greedy matcher of [NewPositionRange] spells the value whenever the guard
    [lay_ok] holds — by induction over the matcher ([scan_line] over the bytes of a line, [npr_loop] over the
    lines). *)
From Coq Require Import List String Ascii ZArith Bool Lia.
From PintV Require Import Common.Bytes Model.Position Model.Layout Proofs.C06_expand.
Import ListNotations.
Local Open Scope Z_scope.
Local Open Scope list_scope.

(** ** Strings *)

Lemma sapp_assoc (a b c : string) : ((a ++ b) ++ c = a ++ (b ++ c))%string.
Proof. induction a; cbn; congruence. Qed.

Lemma sapp_nil_r (a : string) : (a ++ "" = a)%string.
Proof. induction a; cbn; congruence. Qed.

Lemma sapp_cons_mid (a : string) c (b : string) :
  ((a ++ String c EmptyString) ++ b = a ++ String c b)%string.
Proof. rewrite sapp_assoc. reflexivity. Qed.

Lemma slen_nonneg s : 0 <= slen s.
Proof. unfold slen. lia. Qed.

Lemma slen_String c s : slen (String c s) = slen s + 1.
Proof. unfold slen. cbn [String.length]. lia. Qed.

Lemma sdrop_step : forall n l b more,
  sdrop n l = String b more ->
  sdrop (S n) l = more /\ String.get n l = Some b /\ (n < String.length l)%nat.
Proof.
  induction n as [|n IH]; intros l b more H.
  - cbn in H. subst l. cbn. repeat split. lia.
  - destruct l as [|c l']; [cbn in H; discriminate|].
    cbn [sdrop] in H. destruct (IH l' b more H) as [H1 [H2 H3]].
    cbn [sdrop String.get String.length]. repeat split; [exact H1|exact H2|lia].
Qed.

Lemma sdrop_all : forall n l, (String.length l <= n)%nat -> sdrop n l = EmptyString.
Proof.
  induction n as [|n IH]; intros l H.
  - destruct l; [reflexivity|cbn in H; lia].
  - destruct l as [|c l']; [reflexivity|]. cbn [sdrop]. apply IH. cbn in H. lia.
Qed.

(** ** Reading a byte of a known line *)

Lemma char_at_in_line lines line col l b more :
  1 <= line -> 1 <= col ->
  nth_error lines (Z.to_nat (line - 1)) = Some l ->
  sdrop (Z.to_nat (col - 1)) l = String b more ->
  char_at lines (line, col) = Some b.
Proof.
  intros Hl Hc Hn Hd. unfold char_at.
  destruct (sdrop_step _ _ _ _ Hd) as [_ [Hg Hlt]].
  replace (1 <=? line) with true by (symmetry; apply Z.leb_le; lia).
  replace (1 <=? col) with true by (symmetry; apply Z.leb_le; lia).
  cbn [andb]. rewrite Hn.
  replace (col =? slen l + 1) with false; [exact Hg|].
  symmetry. apply Z.eqb_neq. unfold slen. lia.
Qed.

Lemma char_at_line_break lines line l :
  1 <= line ->
  nth_error lines (Z.to_nat (line - 1)) = Some l ->
  char_at lines (line, slen l + 1) = Some newline.
Proof.
  intros Hl Hn. unfold char_at.
  replace (1 <=? line) with true by (symmetry; apply Z.leb_le; lia).
  replace (1 <=? slen l + 1) with true by (symmetry; apply Z.leb_le; pose proof (slen_nonneg l); lia).
  cbn [andb]. rewrite Hn. rewrite Z.eqb_refl. reflexivity.
Qed.

(** ** [fold_eq] / [spell_match] algebra *)

Lemma fold_char_eq_refl c : fold_char_eq c c = true.
Proof. unfold fold_char_eq. rewrite Ascii.eqb_refl. reflexivity. Qed.

Lemma fold_eq_app_char rb pre f c :
  fold_eq rb pre = true -> fold_char_eq f c = true ->
  fold_eq (rb ++ String f EmptyString) (pre ++ String c EmptyString) = true.
Proof.
  revert pre. induction rb as [|x rb IH]; intros pre H Hc.
  - destruct pre; [|cbn in H; discriminate]. cbn. rewrite Hc. reflexivity.
  - destruct pre as [|y pre]; [cbn in H; discriminate|].
    cbn in H. apply andb_true_iff in H. destruct H as [H1 H2].
    cbn. rewrite H1. cbn. apply IH; assumption.
Qed.

Lemma spell_match_app rb pre tailv :
  fold_eq rb pre = true -> all_newlines tailv = true ->
  spell_match rb (pre ++ tailv) = true.
Proof.
  revert pre. induction rb as [|x rb IH]; intros pre H Ht.
  - destruct pre; [|cbn in H; discriminate]. cbn. exact Ht.
  - destruct pre as [|y pre]; [cbn in H; discriminate|].
    cbn in H. apply andb_true_iff in H. destruct H as [H1 H2].
    cbn. rewrite H1. cbn. apply IH; assumption.
Qed.

Lemma spell_match_exact rb v : fold_eq rb v = true -> spell_match rb v = true.
Proof.
  intros H. rewrite <- (sapp_nil_r v). apply spell_match_app; [exact H|reflexivity].
Qed.

Lemma is_fold_char_fold c : is_fold_char c = true -> fold_char_eq newline c = true.
Proof.
  unfold is_fold_char, fold_char_eq. intros H. apply orb_true_iff in H. destruct H as [H|H].
  - rewrite H. rewrite Ascii.eqb_refl. cbn. apply orb_true_r.
  - apply Ascii.eqb_eq in H. subst. rewrite Ascii.eqb_refl. reflexivity.
Qed.

(** ** The byte loop *)

(** [reads lines offs pre]: the positions so far are well formed, inside the file, and spell [pre]. *)
Definition reads (lines : list string) (offs : list prange) (pre : string) : Prop :=
  wf offs /\ exists rb, read_back lines offs = Some rb /\ fold_eq rb pre = true.

Lemma reads_append lines offs pre line col f c :
  reads lines offs pre ->
  char_at lines (line, col) = Some f -> fold_char_eq f c = true ->
  reads lines (append_position offs line col) (pre ++ String c EmptyString).
Proof.
  intros [Hwf [rb [Hrb Hfe]]] Hch Hc. split.
  - apply append_position_wf. exact Hwf.
  - exists (rb ++ String f EmptyString)%string. split.
    + rewrite read_back_append by exact Hwf. rewrite Hrb, Hch. reflexivity.
    + apply fold_eq_app_char; assumption.
Qed.

Lemma scan_line_spec : forall bytes lines l line col need rest offs pre,
  1 <= line -> 1 <= col ->
  nth_error lines (Z.to_nat (line - 1)) = Some l ->
  sdrop (Z.to_nat (col - 1)) l = bytes ->
  reads lines offs pre ->
  match gscan bytes need rest, scan_line bytes line col need rest offs with
  | (_, None), ScanDone o => o <> [] /\ reads lines o (pre ++ String need rest)
  | (m, Some (n, r)), ScanCont n' r' o =>
      n' = n /\ r' = r /\
      (m = false -> o = offs /\ n = need /\ r = rest) /\
      (m = true -> o <> []) /\
      exists mstr, (String need rest = mstr ++ String n r)%string /\ reads lines o (pre ++ mstr)
  | _, _ => False
  end.
Proof.
  induction bytes as [|got more IH]; intros lines l line col need rest offs pre Hl Hc Hn Hd Hr.
  - cbn [gscan scan_line]. repeat split; try discriminate.
    exists EmptyString. split; [reflexivity|]. rewrite sapp_nil_r. exact Hr.
  - cbn [gscan scan_line].
    assert (Hd' : sdrop (Z.to_nat (col + 1 - 1)) l = more).
    { replace (Z.to_nat (col + 1 - 1)) with (S (Z.to_nat (col - 1))) by lia.
      apply (sdrop_step _ _ _ _ Hd). }
    destruct (Ascii.eqb need got) eqn:E.
    + apply Ascii.eqb_eq in E. subst got.
      assert (Hch : char_at lines (line, col) = Some need)
        by (eapply char_at_in_line; eauto).
      pose proof (reads_append lines offs pre line col need need Hr Hch (fold_char_eq_refl need)) as Hr'.
      destruct rest as [|n2 r2].
      * split; [apply append_position_nonempty|exact Hr'].
      * specialize (IH lines l line (col + 1) n2 r2 (append_position offs line col)
                       (pre ++ String need EmptyString)%string Hl ltac:(lia) Hn Hd' Hr').
        destruct (gscan more n2 r2) as [m2 [[n3 r3]|]] eqn:G;
          destruct (scan_line more line (col + 1) n2 r2 (append_position offs line col)) as [o|n4 r4 o] eqn:S;
          cbn [snd]; try contradiction.
        -- destruct IH as [E1 [E2 [Hf [Ht [mstr [Hm Hrd]]]]]]. subst n4 r4.
           repeat split; try discriminate.
           ++ intros _. destruct m2.
              ** apply Ht. reflexivity.
              ** destruct (Hf eq_refl) as [Ho _]. rewrite Ho. apply append_position_nonempty.
           ++ exists (String need mstr). split.
              ** cbn. rewrite Hm. reflexivity.
              ** rewrite sapp_cons_mid in Hrd. exact Hrd.
        -- destruct IH as [Hne Hrd]. split; [exact Hne|].
           rewrite sapp_cons_mid in Hrd. exact Hrd.
    + specialize (IH lines l line (col + 1) need rest offs pre Hl ltac:(lia) Hn Hd' Hr).
      exact IH.
Qed.

(** ** Column adjustment never moves left of column 1 *)

Lemma count_leading_space_nonneg s : 0 <= count_leading_space s.
Proof. induction s as [|c s IH]; cbn [count_leading_space]; [lia|]. destruct (Ascii.eqb c space); lia. Qed.

Lemma adjust_col_ge1 line col need rest col2 :
  adjust_col line col need rest = Some col2 -> 1 <= col2.
Proof.
  unfold adjust_col.
  set (c1 := Z.min (slen line) col).
  set (ls := count_leading_space (sdrop (Z.to_nat (c1 - 1)) line)).
  set (vs := count_leading_space (String need rest)).
  destruct (c1 <=? 0) eqn:E; [discriminate|]. apply Z.leb_gt in E.
  destruct (vs <? ls) eqn:E2; intros H; injection H as <-.
  - apply Z.ltb_lt in E2. lia.
  - lia.
Qed.

(** ** The line loop *)

Definition pend_str (p : option ascii) : string :=
  match p with Some c => String c EmptyString | None => EmptyString end.

Lemma skipn_cons_nth {A} : forall k (l : list A) x r,
  skipn k l = x :: r -> nth_error l k = Some x /\ skipn (S k) l = r.
Proof.
  induction k as [|k IH]; intros l x r H.
  - cbn in H. subst. split; reflexivity.
  - destruct l as [|y l']; [cbn in H; discriminate|].
    cbn [skipn] in H. destruct (IH l' x r H) as [H1 H2]. split; [exact H1|exact H2].
Qed.

Lemma npr_loop_spec : forall ls lines k prev col minCol pending need rest offs pre,
  skipn k lines = ls ->
  lay_ok ls col minCol pending need rest = true ->
  reads lines offs pre ->
  (pending = None -> offs = []) ->
  (forall c, pending = Some c ->
     is_fold_char c = true /\ offs <> [] /\
     exists pl, (1 <= k)%nat /\ nth_error lines (k - 1) = Some pl /\ prev = slen pl) ->
  exists o, npr_loop ls prev (Z.of_nat k + 1) col minCol need rest offs = Ok o /\
            o <> [] /\ wf o /\
            exists rb, read_back lines o = Some rb /\
                       spell_match rb (pre ++ pend_str pending ++ String need rest) = true.
Proof.
  induction ls as [|line more IH]; intros lines k prev col minCol pending need rest offs pre Hsk Hok Hr Hnone Hsome.
  - (* the lines ran out *)
    cbn [lay_ok] in Hok. destruct pending as [c|]; [|discriminate].
    apply andb_true_iff in Hok. destruct Hok as [Hc Hall].
    apply Ascii.eqb_eq in Hc. subst c.
    destruct (Hsome newline eq_refl) as [_ [Hne _]].
    exists offs. cbn [npr_loop]. destruct Hr as [Hwf [rb [Hrb Hfe]]].
    repeat split; [exact Hne|exact Hwf|].
    exists rb. split; [exact Hrb|].
    apply spell_match_app; [exact Hfe|]. cbn [pend_str append all_newlines].
    rewrite Ascii.eqb_refl. exact Hall.
  - destruct (skipn_cons_nth _ _ _ _ Hsk) as [Hnth Hsk'].
    (* the line-break position of the previous line *)
    set (offs1 := match offs with [] => offs | _ => append_position offs (Z.of_nat k + 1 - 1) (prev + 1) end).
    assert (Hr1 : reads lines offs1 (pre ++ pend_str pending)%string /\ (pending = None -> offs1 = []) /\
                  (pending <> None -> offs1 <> [])).
    { destruct pending as [c|].
      - destruct (Hsome c eq_refl) as [Hfc [Hne [pl [Hk [Hpl Hprev]]]]].
        assert (offs1 = append_position offs (Z.of_nat k + 1 - 1) (prev + 1))
          by (unfold offs1; destruct offs; [contradiction|reflexivity]).
        rewrite H. split; [|split].
        + apply reads_append with (f := newline).
          * exact Hr.
          * subst prev. apply char_at_line_break; [lia|].
            replace (Z.to_nat (Z.of_nat k + 1 - 1 - 1)) with (k - 1)%nat by lia. exact Hpl.
          * apply is_fold_char_fold. exact Hfc.
        + discriminate.
        + intros _. apply append_position_nonempty.
      - pose proof (Hnone eq_refl) as Ho. unfold offs1. rewrite Ho. rewrite Ho in Hr.
        cbn [pend_str]. rewrite sapp_nil_r.
        split; [exact Hr|split; [reflexivity|congruence]]. }
    destruct Hr1 as [Hr1 [Hn1 Hs1]].
    cbn [npr_loop]. fold offs1.
    cbn [lay_ok] in Hok.
    unfold line_step.
    assert (Hnth' : nth_error lines (Z.to_nat (Z.of_nat k + 1 - 1)) = Some line)
      by (replace (Z.to_nat (Z.of_nat k + 1 - 1)) with k by lia; exact Hnth).
    (* common continuation after the scan *)
    assert (Hcont : forall m n r o,
      (m = false -> o = offs1 /\ n = need /\ r = rest) ->
      (m = true -> o <> []) ->
      (exists mstr, (String need rest = mstr ++ String n r)%string /\
                    reads lines o ((pre ++ pend_str pending) ++ mstr)%string) ->
      (let started := match pending with Some _ => true | None => m end in
       if is_fold_char n
       then started && match r with
                       | EmptyString => Ascii.eqb n newline
                       | String n' r' => lay_ok more minCol minCol (Some n) n' r'
                       end
       else negb started && lay_ok more minCol minCol None n r) = true ->
      exists o', match advance n r with
                 | None => Ok o
                 | Some (n', r') => npr_loop more (slen line) (Z.of_nat k + 1 + 1) minCol minCol n' r' o
                 end = Ok o' /\ o' <> [] /\ wf o' /\
                 exists rb, read_back lines o' = Some rb /\
                            spell_match rb (pre ++ pend_str pending ++ String need rest) = true).
    { intros m n r o Hmf Hmt [mstr [Hm Hro]] Hg.
      cbv zeta in Hg. unfold advance.
      assert (Hone : o <> [] \/ (pending = None /\ m = false)).
      { destruct m; [left; apply Hmt; reflexivity|].
        destruct pending as [c|]; [left|right; split; reflexivity].
        destruct (Hmf eq_refl) as [Ho _]. rewrite Ho. apply Hs1. discriminate. }
      destruct (is_fold_char n) eqn:Ef.
      - apply andb_true_iff in Hg. destruct Hg as [Hst Hg].
        assert (Hone' : o <> []).
        { destruct Hone as [H|[H1 H2]]; [exact H|]. subst pending m. discriminate. }
        destruct r as [|n' r'].
        + apply Ascii.eqb_eq in Hg. subst n.
          exists o. destruct Hro as [Hwf [rb [Hrb Hfe]]].
          repeat split; [exact Hone'|exact Hwf|].
          exists rb. split; [exact Hrb|].
          rewrite Hm. rewrite <- !sapp_assoc.
          apply spell_match_app; [rewrite sapp_assoc; rewrite sapp_assoc in Hfe; exact Hfe|].
          cbn. reflexivity.
        + replace (Z.of_nat k + 1 + 1) with (Z.of_nat (S k) + 1) by lia.
          destruct (IH lines (S k) (slen line) minCol minCol (Some n) n' r' o
                       ((pre ++ pend_str pending) ++ mstr)%string Hsk' Hg Hro) as [o' [Ho' [Hne' [Hwf' [rb [Hrb Hsp]]]]]].
          * discriminate.
          * intros c Hc. inversion Hc; subst c. repeat split; [exact Ef|exact Hone'|].
            exists line. repeat split; [lia|].
            replace (S k - 1)%nat with k by lia. exact Hnth.
          * exists o'. repeat split; [exact Ho'|exact Hne'|exact Hwf'|].
            exists rb. split; [exact Hrb|].
            rewrite Hm. cbn [pend_str] in Hsp.
            rewrite !sapp_assoc in Hsp. exact Hsp.
      - apply andb_true_iff in Hg. destruct Hg as [Hst Hg].
        apply negb_true_iff in Hst.
        destruct pending as [c|]; [discriminate|]. subst m.
        destruct (Hmf eq_refl) as [Ho [En Er]]. subst n r.
        rewrite (Hn1 eq_refl) in Ho. subst o.
        replace (Z.of_nat k + 1 + 1) with (Z.of_nat (S k) + 1) by lia.
        destruct (IH lines (S k) (slen line) minCol minCol None need rest [] pre Hsk' Hg) as [o' [Ho' [Hne' [Hwf' [rb [Hrb Hsp]]]]]].
        + rewrite (Hnone eq_refl) in Hr. exact Hr.
        + reflexivity.
        + intros c Hc. discriminate.
        + exists o'. repeat split; [exact Ho'|exact Hne'|exact Hwf'|].
          exists rb. split; [exact Hrb|exact Hsp]. }
    destruct (slen line =? 0) eqn:Elen.
    + (* empty line: straight to NEXT *)
      apply (Hcont false need rest offs1).
      * intros _. repeat split.
      * discriminate.
      * exists EmptyString. split; [reflexivity|]. rewrite sapp_nil_r. exact Hr1.
      * exact Hok.
    + destruct (adjust_col line col need rest) as [col2|] eqn:Eadj; [|discriminate].
      pose proof (adjust_col_ge1 _ _ _ _ _ Eadj) as Hc2.
      pose proof (scan_line_spec (sdrop (Z.to_nat (col2 - 1)) line) lines line (Z.of_nat k + 1) col2 need rest
                                 offs1 (pre ++ pend_str pending)%string ltac:(lia) Hc2 Hnth' eq_refl Hr1) as Hscan.
      destruct (gscan (sdrop (Z.to_nat (col2 - 1)) line) need rest) as [m [[n r]|]] eqn:G;
        destruct (scan_line (sdrop (Z.to_nat (col2 - 1)) line) (Z.of_nat k + 1) col2 need rest offs1) as [o|n4 r4 o] eqn:S;
        try contradiction.
      * destruct Hscan as [E1 [E2 [Hf [Ht Hex]]]]. subst n4 r4.
        apply (Hcont m n r o Hf Ht Hex Hok).
      * destruct Hscan as [Hne [Hwf [rb [Hrb Hfe]]]].
        exists o. repeat split; [exact Hne|exact Hwf|].
        exists rb. split; [exact Hrb|].
        rewrite <- sapp_assoc. apply spell_match_exact. exact Hfe.
Qed.

(** ** The node-level theorem *)

Theorem node_ok_spells : forall lines n minCol,
  node_ok lines n minCol = true ->
  exists pos, new_position_range lines n minCol = Ok pos /\
              pos <> [] /\ wf pos /\ spells lines pos (sn_value n).
Proof.
  intros lines n minCol H. unfold node_ok in H. unfold new_position_range.
  destruct (sn_value n) as [|need rest] eqn:Ev; [discriminate|].
  apply andb_true_iff in H. destruct H as [Hl Hok]. apply Z.leb_le in Hl.
  replace (sn_line n <=? 0) with false by (symmetry; apply Z.leb_gt; lia).
  destruct (npr_loop_spec (skipn (Z.to_nat (sn_line n - 1)) lines) lines (Z.to_nat (sn_line n - 1)) 0
                          (sn_col n) minCol None need rest [] EmptyString eq_refl Hok) as [o [Ho [Hne [Hwf [rb [Hrb Hsp]]]]]].
  - split; [constructor|]. exists EmptyString. split; reflexivity.
  - reflexivity.
  - intros c Hc. discriminate.
  - replace (Z.of_nat (Z.to_nat (sn_line n - 1)) + 1) with (sn_line n) in Ho by lia.
    rewrite Ho. destruct o as [|p o']; [contradiction|].
    exists (p :: o'). repeat split; [exact Hne|exact Hwf|].
    exists rb. split; [exact Hrb|exact Hsp].
Qed.
