(** C06 lemmas, part 2: the greedy matcher of [NewPositionRange] spells the value whenever the guard
    [lay_ok] holds — by induction over the matcher ([scan_line] over the bytes of a line, [npr_loop] over the
    lines). *)
From Coq Require Import List String Ascii ZArith Bool Lia.
From PintV Require Import Common.Bytes Model.Position Model.Layout Proofs.C06_expand.
Import ListNotations.
Local Open Scope Z_scope.
Local Open Scope list_scope.

(** ** Strings *)

Lemma sapp_assoc (a b c : string) : ((a ++ b) ++ c = a ++ (b ++ c))%string.
Proof. induction a; cbn; congruence. Qed.

Lemma sapp_nil_r (a : string) : (a ++ "" = a)%string.
Proof. induction a; cbn; congruence. Qed.

Lemma sapp_cons_mid (a : string) c (b : string) :
  ((a ++ String c EmptyString) ++ b = a ++ String c b)%string.
Proof. rewrite sapp_assoc. reflexivity. Qed.

Lemma slen_nonneg s : 0 <= slen s.
Proof. unfold slen. lia. Qed.

Lemma slen_String c s : slen (String c s) = slen s + 1.
Proof. unfold slen. cbn [String.length]. lia. Qed.

Lemma sdrop_step : forall n l b more,
  sdrop n l = String b more ->
  sdrop (S n) l = more /\ String.get n l = Some b /\ (n < String.length l)%nat.
Proof.
  induction n as [|n IH]; intros l b more H.
  - cbn in H. subst l. cbn. repeat split. lia.
  - destruct l as [|c l']; [cbn in H; discriminate|].
    cbn [sdrop] in H. destruct (IH l' b more H) as [H1 [H2 H3]].
    cbn [sdrop String.get String.length]. repeat split; [exact H1|exact H2|lia].
Qed.

Lemma sdrop_all : forall n l, (String.length l <= n)%nat -> sdrop n l = EmptyString.
Proof.
  induction n as [|n IH]; intros l H.
  - destruct l; [reflexivity|cbn in H; lia].
  - destruct l as [|c l']; [reflexivity|]. cbn [sdrop]. apply IH. cbn in H. lia.
Qed.

(** ** Reading a byte of a known line *)

Lemma char_at_in_line lines line col l b more :
  1 <= line -> 1 <= col ->
  nth_error lines (Z.to_nat (line - 1)) = Some l ->
  sdrop (Z.to_nat (col - 1)) l = String b more ->
  char_at lines (line, col) = Some b.
Proof.
  intros Hl Hc Hn Hd. unfold char_at.
  destruct (sdrop_step _ _ _ _ Hd) as [_ [Hg Hlt]].
  replace (1 <=? line) with true by (symmetry; apply Z.leb_le; lia).
  replace (1 <=? col) with true by (symmetry; apply Z.leb_le; lia).
  cbn [andb]. rewrite Hn.
  replace (col =? slen l + 1) with false; [exact Hg|].
  symmetry. apply Z.eqb_neq. unfold slen. lia.
Qed.

Lemma char_at_line_break lines line l :
  1 <= line ->
  nth_error lines (Z.to_nat (line - 1)) = Some l ->
  char_at lines (line, slen l + 1) = Some newline.
Proof.
  intros Hl Hn. unfold char_at.
  replace (1 <=? line) with true by (symmetry; apply Z.leb_le; lia).
  replace (1 <=? slen l + 1) with true by (symmetry; apply Z.leb_le; pose proof (slen_nonneg l); lia).
  cbn [andb]. rewrite Hn. rewrite Z.eqb_refl. reflexivity.
Qed.

(** ** [fold_eq] / [spell_match] algebra *)

Lemma fold_char_eq_refl c : fold_char_eq c c = true.
Proof. unfold fold_char_eq. rewrite Ascii.eqb_refl. reflexivity. Qed.

Lemma fold_eq_app_char rb pre f c :
  fold_eq rb pre = true -> fold_char_eq f c = true ->
  fold_eq (rb ++ String f EmptyString) (pre ++ String c EmptyString) = true.
Proof.
  revert pre. induction rb as [|x rb IH]; intros pre H Hc.
  - destruct pre; [|cbn in H; discriminate]. cbn. rewrite Hc. reflexivity.
  - destruct pre as [|y pre]; [cbn in H; discriminate|].
    cbn in H. apply andb_true_iff in H. destruct H as [H1 H2].
    cbn. rewrite H1. cbn. apply IH; assumption.
Qed.

Lemma spell_match_app rb pre tailv :
  fold_eq rb pre = true -> all_newlines tailv = true ->
  spell_match rb (pre ++ tailv) = true.
Proof.
  revert pre. induction rb as [|x rb IH]; intros pre H Ht.
  - destruct pre; [|cbn in H; discriminate]. cbn. exact Ht.
  - destruct pre as [|y pre]; [cbn in H; discriminate|].
    cbn in H. apply andb_true_iff in H. destruct H as [H1 H2].
    cbn. rewrite H1. cbn. apply IH; assumption.
Qed.

Lemma spell_match_exact rb v : fold_eq rb v = true -> spell_match rb v = true.
Proof.
  intros H. rewrite <- (sapp_nil_r v). apply spell_match_app; [exact H|reflexivity].
Qed.

Lemma is_fold_char_fold c : is_fold_char c = true -> fold_char_eq newline c = true.
Proof.
  unfold is_fold_char, fold_char_eq. intros H. apply orb_true_iff in H. destruct H as [H|H].
  - rewrite H. rewrite Ascii.eqb_refl. cbn. apply orb_true_r.
  - apply Ascii.eqb_eq in H. subst. rewrite Ascii.eqb_refl. reflexivity.
Qed.

(** ** The byte loop *)

(** [reads lines offs pre]: the positions so far are well formed, inside the file, and spell [pre]. *)
Definition reads (lines : list string) (offs : list prange) (pre : string) : Prop :=
  wf offs /\ exists rb, read_back lines offs = Some rb /\ fold_eq rb pre = true.

Lemma reads_append lines offs pre line col f c :
  reads lines offs pre ->
  char_at lines (line, col) = Some f -> fold_char_eq f c = true ->
  reads lines (append_position offs line col) (pre ++ String c EmptyString).
Proof.
  intros [Hwf [rb [Hrb Hfe]]] Hch Hc. split.
  - apply append_position_wf. exact Hwf.
  - exists (rb ++ String f EmptyString)%string. split.
    + rewrite read_back_append by exact Hwf. rewrite Hrb, Hch. reflexivity.
    + apply fold_eq_app_char; assumption.
Qed.

Lemma scan_line_spec : forall bytes lines l line col need rest offs pre,
  1 <= line -> 1 <= col ->
  nth_error lines (Z.to_nat (line - 1)) = Some l ->
  sdrop (Z.to_nat (col - 1)) l = bytes ->
  reads lines offs pre ->
  match gscan bytes need rest, scan_line bytes line col need rest offs with
  | (_, None), ScanDone o => o <> [] /\ reads lines o (pre ++ String need rest)
  | (m, Some (n, r)), ScanCont n' r' o =>
      n' = n /\ r' = r /\
      (m = false -> o = offs /\ n = need /\ r = rest) /\
      (m = true -> o <> []) /\
      exists mstr, (String need rest = mstr ++ String n r)%string /\ reads lines o (pre ++ mstr)
  | _, _ => False
  end.
Proof.
  induction bytes as [|got more IH]; intros lines l line col need rest offs pre Hl Hc Hn Hd Hr.
  - cbn [gscan scan_line]. repeat split; try discriminate.
    exists EmptyString. split; [reflexivity|]. rewrite sapp_nil_r. exact Hr.
  - cbn [gscan scan_line].
    assert (Hd' : sdrop (Z.to_nat (col + 1 - 1)) l = more).
    { replace (Z.to_nat (col + 1 - 1)) with (S (Z.to_nat (col - 1))) by lia.
      apply (sdrop_step _ _ _ _ Hd). }
    destruct (Ascii.eqb need got) eqn:E.
    + apply Ascii.eqb_eq in E. subst got.
      assert (Hch : char_at lines (line, col) = Some need)
        by (eapply char_at_in_line; eauto).
      pose proof (reads_append lines offs pre line col need need Hr Hch (fold_char_eq_refl need)) as Hr'.
      destruct rest as [|n2 r2].
      * split; [apply append_position_nonempty|exact Hr'].
      * specialize (IH lines l line (col + 1) n2 r2 (append_position offs line col)
                       (pre ++ String need EmptyString)%string Hl ltac:(lia) Hn Hd' Hr').
        destruct (gscan more n2 r2) as [m2 [[n3 r3]|]] eqn:G;
          destruct (scan_line more line (col + 1) n2 r2 (append_position offs line col)) as [o|n4 r4 o] eqn:S;
          cbn [snd]; try contradiction.
        -- destruct IH as [E1 [E2 [Hf [Ht [mstr [Hm Hrd]]]]]]. subst n4 r4.
           repeat split; try discriminate.
           ++ intros _. destruct m2.
              ** apply Ht. reflexivity.
              ** destruct (Hf eq_refl) as [Ho _]. rewrite Ho. apply append_position_nonempty.
           ++ exists (String need mstr). split.
              ** cbn. rewrite Hm. reflexivity.
              ** rewrite sapp_cons_mid in Hrd. exact Hrd.
        -- destruct IH as [Hne Hrd]. split; [exact Hne|].
           rewrite sapp_cons_mid in Hrd. exact Hrd.
    + specialize (IH lines l line (col + 1) need rest offs pre Hl ltac:(lia) Hn Hd' Hr).
      exact IH.
Qed.

(** ** Column adjustment never moves left of column 1 *)

Lemma count_leading_space_nonneg s : 0 <= count_leading_space s.
Proof. induction s as [|c s IH]; cbn [count_leading_space]; [lia|]. destruct (Ascii.eqb c space); lia. Qed.

Lemma adjust_col_ge1 line col need rest col2 :
  adjust_col line col need rest = Some col2 -> 1 <= col2.
Proof.
  unfold adjust_col.
  set (c1 := Z.min (slen line) col).
  set (ls := count_leading_space (sdrop (Z.to_nat (c1 - 1)) line)).
  set (vs := count_leading_space (String need rest)).
  destruct (c1 <=? 0) eqn:E; [discriminate|]. apply Z.leb_gt in E.
  destruct (vs <? ls) eqn:E2; intros H; injection H as <-.
  - apply Z.ltb_lt in E2. lia.
  - lia.
Qed.

(** ** The line loop *)

Definition pend_str (p : option ascii) : string :=
  match p with Some c => String c EmptyString | None => EmptyString end.

Lemma skipn_cons_nth {A} : forall k (l : list A) x r,
  skipn k l = x :: r -> nth_error l k = Some x /\ skipn (S k) l = r.
Proof.
  induction k as [|k IH]; intros l x r H.
  - cbn in H. subst. split; reflexivity.
  - destruct l as [|y l']; [cbn in H; discriminate|].
    cbn [skipn] in H. destruct (IH l' x r H) as [H1 H2]. split; [exact H1|exact H2].
Qed.

Definition brk_of (p : option ascii) : bool := match p with Some _ => true | None => false end.

(** What the loop knows about a consumed line break: it is a fold byte and the previous line is line [k] of the file. *)
Definition pend_ok (lines : list string) (k : nat) (prev : Z) (pending : option ascii) : Prop :=
  forall c, pending = Some c ->
    is_fold_char c = true /\
    exists pl, (1 <= k)%nat /\ nth_error lines (k - 1) = Some pl /\ prev = slen pl.

(** The optional line-break position at the top of the loop body. *)
Lemma reads_break lines k prev pending offs pre :
  reads lines offs pre ->
  pend_ok lines k prev pending ->
  reads lines (if brk_of pending then append_position offs (Z.of_nat k + 1 - 1) (prev + 1) else offs)
        (pre ++ pend_str pending)%string.
Proof.
  intros Hr Hp. destruct pending as [c|]; cbn [brk_of pend_str].
  - destruct (Hp c eq_refl) as [Hfc [pl [Hk [Hpl Hprev]]]].
    apply reads_append with (f := newline).
    + exact Hr.
    + subst prev. apply char_at_line_break; [lia|].
      replace (Z.to_nat (Z.of_nat k + 1 - 1 - 1)) with (k - 1)%nat by lia. exact Hpl.
    + apply is_fold_char_fold. exact Hfc.
  - rewrite sapp_nil_r. exact Hr.
Qed.

(** One iteration up to NEXT: the scan only adds positions that read the value bytes it consumes. *)
Lemma line_step_sound lines k line col need rest offs pre :
  nth_error lines k = Some line ->
  reads lines offs pre ->
  match line_step false line (Z.of_nat k + 1) col need rest offs with
  | None => True
  | Some (ScanDone o) => o <> [] /\ reads lines o (pre ++ String need rest)
  | Some (ScanCont n r o) =>
      exists mstr, (String need rest = mstr ++ String n r)%string /\ reads lines o (pre ++ mstr)
  end.
Proof.
  intros Hnth Hr. unfold line_step, scan.
  destruct (slen line =? 0).
  - exists EmptyString. split; [reflexivity|]. rewrite sapp_nil_r. exact Hr.
  - destruct (adjust_col line col need rest) as [col2|] eqn:Eadj; [|exact I].
    pose proof (adjust_col_ge1 _ _ _ _ _ Eadj) as Hc2.
    assert (Hnth' : nth_error lines (Z.to_nat (Z.of_nat k + 1 - 1)) = Some line)
      by (replace (Z.to_nat (Z.of_nat k + 1 - 1)) with k by lia; exact Hnth).
    pose proof (scan_line_spec (sdrop (Z.to_nat (col2 - 1)) line) lines line (Z.of_nat k + 1) col2 need rest
                               offs pre ltac:(lia) Hc2 Hnth' eq_refl Hr) as Hscan.
    destruct (gscan (sdrop (Z.to_nat (col2 - 1)) line) need rest) as [m [[n r]|]] eqn:G;
      destruct (scan_line (sdrop (Z.to_nat (col2 - 1)) line) (Z.of_nat k + 1) col2 need rest offs) as [o|n4 r4 o] eqn:S;
      try contradiction.
    + destruct Hscan as [E1 [E2 [_ [_ Hex]]]]. subst n4 r4. exact Hex.
    + exact Hscan.
Qed.

(** ** Soundness, unconditionally: whatever the layout, the positions read back a PREFIX of the value (up to
    folding).  Nothing that is not a byte of the value, in order, ever gets a position. *)
Lemma npr_loop_sound : forall ls lines k prev col minCol pending need rest offs pre o,
  skipn k lines = ls ->
  reads lines offs pre ->
  pend_ok lines k prev pending ->
  npr_loop false ls prev (Z.of_nat k + 1) col minCol need rest offs (brk_of pending) = Ok o ->
  exists done_ left_,
    (pre ++ pend_str pending ++ String need rest = done_ ++ left_)%string /\ reads lines o done_.
Proof.
  induction ls as [|line more IH]; intros lines k prev col minCol pending need rest offs pre o Hsk Hr Hp Hrun.
  - cbn [npr_loop] in Hrun. injection Hrun as <-.
    exists pre, (pend_str pending ++ String need rest)%string. split; [reflexivity|exact Hr].
  - destruct (skipn_cons_nth _ _ _ _ Hsk) as [Hnth Hsk'].
    cbn [npr_loop] in Hrun.
    pose proof (reads_break lines k prev pending offs pre Hr Hp) as Hr1.
    set (offs1 := if brk_of pending then append_position offs (Z.of_nat k + 1 - 1) (prev + 1) else offs) in *.
    pose proof (line_step_sound lines k line col need rest offs1 _ Hnth Hr1) as Hstep.
    destruct (line_step false line (Z.of_nat k + 1) col need rest offs1) as [[o1|n r o1]|]; [| |discriminate].
    + injection Hrun as <-. destruct Hstep as [_ Hro].
      exists ((pre ++ pend_str pending) ++ String need rest)%string, EmptyString.
      split; [rewrite sapp_nil_r, sapp_assoc; reflexivity|exact Hro].
    + destruct Hstep as [mstr [Hm Hro]].
      unfold advance in Hrun.
      destruct (is_fold_char n) eqn:Ef.
      * destruct r as [|n' r'].
        -- injection Hrun as <-.
           exists ((pre ++ pend_str pending) ++ mstr)%string, (String n EmptyString).
           split; [|exact Hro]. rewrite Hm. rewrite !sapp_assoc. reflexivity.
        -- replace (Z.of_nat k + 1 + 1) with (Z.of_nat (S k) + 1) in Hrun by lia.
           change true with (brk_of (Some n)) in Hrun.
           destruct (IH lines (S k) (slen line) minCol minCol (Some n) n' r' o1
                        ((pre ++ pend_str pending) ++ mstr)%string o Hsk' Hro) as [d [l [Hdl Hrd]]].
           ++ intros c Hc. inversion Hc; subst c. split; [exact Ef|].
              exists line. repeat split; [lia|]. replace (S k - 1)%nat with k by lia. exact Hnth.
           ++ exact Hrun.
           ++ exists d, l. split; [|exact Hrd]. rewrite <- Hdl. rewrite Hm. cbn [pend_str].
              rewrite !sapp_assoc. reflexivity.
      * replace (Z.of_nat k + 1 + 1) with (Z.of_nat (S k) + 1) in Hrun by lia.
        change false with (brk_of None) in Hrun.
        destruct (IH lines (S k) (slen line) minCol minCol None n r o1
                     ((pre ++ pend_str pending) ++ mstr)%string o Hsk' Hro) as [d [l [Hdl Hrd]]].
        -- intros c Hc. discriminate.
        -- exact Hrun.
        -- exists d, l. split; [|exact Hrd]. rewrite <- Hdl. rewrite Hm. cbn [pend_str].
           rewrite !sapp_assoc. reflexivity.
Qed.

(** ** Completeness under the guard: the matcher exhausts the value up to trailing line breaks. *)
Lemma scan_line_dq_plain : forall bytes line col need rest offs,
  no_backslash_b bytes = true ->
  scan_line_dq bytes 0 line col need rest offs = scan_line bytes line col need rest offs.
Proof.
  induction bytes as [|got more IH]; intros line col need rest offs H; [reflexivity|].
  cbn [no_backslash_b] in H. apply andb_true_iff in H. destruct H as [Hg Hm]. apply negb_true_iff in Hg.
  cbn [scan_line_dq scan_line]. rewrite Hg.
  destruct (Ascii.eqb need got).
  - destruct rest as [|n' r']; [reflexivity|]. apply IH. exact Hm.
  - apply IH. exact Hm.
Qed.

Lemma npr_loop_spec : forall dq ls lines k prev col minCol pending need rest offs pre,
  skipn k lines = ls ->
  lay_ok dq ls col minCol pending need rest = true ->
  reads lines offs pre ->
  pend_ok lines k prev pending ->
  exists o, npr_loop dq ls prev (Z.of_nat k + 1) col minCol need rest offs (brk_of pending) = Ok o /\
            wf o /\
            exists rb, read_back lines o = Some rb /\
                       spell_match rb (pre ++ pend_str pending ++ String need rest) = true.
Proof.
  intros dq. induction ls as [|line more IH]; intros lines k prev col minCol pending need rest offs pre Hsk Hok Hr Hp.
  - (* the lines ran out *)
    cbn [lay_ok] in Hok. apply andb_true_iff in Hok. destruct Hok as [Hc Hall].
    exists offs. cbn [npr_loop]. destruct Hr as [Hwf [rb [Hrb Hfe]]].
    repeat split; [exact Hwf|]. exists rb. split; [exact Hrb|].
    apply spell_match_app; [exact Hfe|].
    destruct pending as [c|]; cbn [pend_str append].
    + apply Ascii.eqb_eq in Hc. subst c. cbn [all_newlines]. rewrite Ascii.eqb_refl. exact Hall.
    + exact Hall.
  - destruct (skipn_cons_nth _ _ _ _ Hsk) as [Hnth Hsk'].
    cbn [npr_loop].
    pose proof (reads_break lines k prev pending offs pre Hr Hp) as Hr1.
    set (offs1 := if brk_of pending then append_position offs (Z.of_nat k + 1 - 1) (prev + 1) else offs) in *.
    cbn [lay_ok] in Hok.
    unfold line_step.
    assert (Hnth' : nth_error lines (Z.to_nat (Z.of_nat k + 1 - 1)) = Some line)
      by (replace (Z.to_nat (Z.of_nat k + 1 - 1)) with k by lia; exact Hnth).
    (* common continuation after the scan *)
    assert (Hcont : forall n r o,
      (exists mstr, (String need rest = mstr ++ String n r)%string /\
                    reads lines o ((pre ++ pend_str pending) ++ mstr)%string) ->
      (if is_fold_char n
       then match r with
            | EmptyString => Ascii.eqb n newline
            | String n' r' => lay_ok dq more minCol minCol (Some n) n' r'
            end
       else lay_ok dq more minCol minCol None n r) = true ->
      exists o', match advance n r with
                 | None => Ok o
                 | Some (n', r') => npr_loop dq more (slen line) (Z.of_nat k + 1 + 1) minCol minCol n' r' o (is_fold_char n)
                 end = Ok o' /\ wf o' /\
                 exists rb, read_back lines o' = Some rb /\
                            spell_match rb (pre ++ pend_str pending ++ String need rest) = true).
    { intros n r o [mstr [Hm Hro]] Hg.
      unfold advance.
      destruct (is_fold_char n) eqn:Ef.
      - destruct r as [|n' r'].
        + apply Ascii.eqb_eq in Hg. subst n.
          exists o. destruct Hro as [Hwf [rb [Hrb Hfe]]].
          repeat split; [exact Hwf|].
          exists rb. split; [exact Hrb|].
          rewrite Hm. rewrite <- !sapp_assoc.
          apply spell_match_app; [rewrite sapp_assoc; rewrite sapp_assoc in Hfe; exact Hfe|].
          cbn. reflexivity.
        + replace (Z.of_nat k + 1 + 1) with (Z.of_nat (S k) + 1) by lia.
          change true with (brk_of (Some n)).
          destruct (IH lines (S k) (slen line) minCol minCol (Some n) n' r' o
                       ((pre ++ pend_str pending) ++ mstr)%string Hsk' Hg Hro) as [o' [Ho' [Hwf' [rb [Hrb Hsp]]]]].
          * intros c Hc. inversion Hc; subst c. split; [exact Ef|].
            exists line. repeat split; [lia|].
            replace (S k - 1)%nat with k by lia. exact Hnth.
          * exists o'. repeat split; [exact Ho'|exact Hwf'|].
            exists rb. split; [exact Hrb|].
            rewrite Hm. cbn [pend_str] in Hsp.
            rewrite !sapp_assoc in Hsp. exact Hsp.
      - replace (Z.of_nat k + 1 + 1) with (Z.of_nat (S k) + 1) by lia.
        change false with (brk_of None).
        destruct (IH lines (S k) (slen line) minCol minCol None n r o
                     ((pre ++ pend_str pending) ++ mstr)%string Hsk' Hg Hro) as [o' [Ho' [Hwf' [rb [Hrb Hsp]]]]].
        + intros c Hc. discriminate.
        + exists o'. repeat split; [exact Ho'|exact Hwf'|].
          exists rb. split; [exact Hrb|].
          rewrite Hm. cbn [pend_str] in Hsp. rewrite !sapp_assoc in Hsp. exact Hsp. }
    destruct (slen line =? 0) eqn:Elen.
    + (* empty line: straight to NEXT *)
      apply (Hcont need rest offs1).
      * exists EmptyString. split; [reflexivity|]. rewrite sapp_nil_r. exact Hr1.
      * exact Hok.
    + destruct (adjust_col line col need rest) as [col2|] eqn:Eadj; [|discriminate].
      pose proof (adjust_col_ge1 _ _ _ _ _ Eadj) as Hc2.
      (* a double-quoted node inside the guard has no backslash on the scanned bytes: the plain byte scan *)
      assert (Hscan_eq : scan dq (sdrop (Z.to_nat (col2 - 1)) line) (Z.of_nat k + 1) col2 need rest offs1 =
                         scan_line (sdrop (Z.to_nat (col2 - 1)) line) (Z.of_nat k + 1) col2 need rest offs1).
      { unfold scan. destruct dq; [|reflexivity]. apply scan_line_dq_plain.
        cbn [andb] in Hok. destruct (no_backslash_b (sdrop (Z.to_nat (col2 - 1)) line)); [reflexivity|]. cbn in Hok. discriminate. }
      rewrite Hscan_eq.
      assert (Hok' : match gscan (sdrop (Z.to_nat (col2 - 1)) line) need rest with
                     | (_, None) => true
                     | (_, Some (n, r)) =>
                         if is_fold_char n
                         then match r with
                              | EmptyString => Ascii.eqb n newline
                              | String n' r' => lay_ok dq more minCol minCol (Some n) n' r'
                              end
                         else lay_ok dq more minCol minCol None n r
                     end = true).
      { destruct (dq && negb (no_backslash_b (sdrop (Z.to_nat (col2 - 1)) line))); [discriminate|]. exact Hok. }
      clear Hok. rename Hok' into Hok.
      pose proof (scan_line_spec (sdrop (Z.to_nat (col2 - 1)) line) lines line (Z.of_nat k + 1) col2 need rest
                                 offs1 (pre ++ pend_str pending)%string ltac:(lia) Hc2 Hnth' eq_refl Hr1) as Hscan.
      destruct (gscan (sdrop (Z.to_nat (col2 - 1)) line) need rest) as [m [[n r]|]] eqn:G;
        destruct (scan_line (sdrop (Z.to_nat (col2 - 1)) line) (Z.of_nat k + 1) col2 need rest offs1) as [o|n4 r4 o] eqn:S;
        try contradiction.
      * destruct Hscan as [E1 [E2 [Hf [Ht Hex]]]]. subst n4 r4.
        apply (Hcont n r o Hex Hok).
      * destruct Hscan as [Hne [Hwf [rb [Hrb Hfe]]]].
        exists o. repeat split; [exact Hwf|].
        exists rb. split; [exact Hrb|].
        rewrite <- sapp_assoc. apply spell_match_exact. exact Hfe.
Qed.

(** ** The node-level theorems *)

Lemma reads_nil lines : reads lines [] EmptyString.
Proof. split; [constructor|]. exists EmptyString. split; reflexivity. Qed.

Lemma pend_ok_none lines k prev : pend_ok lines k prev None.
Proof. intros c Hc. discriminate. Qed.

Lemma new_position_range_entry lines n minCol need rest :
  sn_value n = String need rest ->
  new_position_range lines n minCol =
  match npr_entry lines n minCol need rest with Ok [] => Ok (fallback n) | r => r end.
Proof. intros Ev. unfold new_position_range, npr_entry. rewrite Ev. reflexivity. Qed.

Lemma npr_entry_sound lines n minCol need rest o :
  sn_dq n = false ->
  npr_entry lines n minCol need rest = Ok o ->
  exists done_ left_, (String need rest = done_ ++ left_)%string /\ reads lines o done_.
Proof.
  unfold npr_entry. intros Hdq H. rewrite Hdq in H.
  destruct (sn_block n).
  - destruct (sn_line n + 1 <=? 0) eqn:E; [discriminate|]. apply Z.leb_gt in E.
    replace (sn_line n + 1) with (Z.of_nat (Z.to_nat (sn_line n)) + 1) in H by lia.
    change false with (brk_of None) in H.
    destruct (npr_loop_sound _ lines (Z.to_nat (sn_line n)) 0 minCol minCol None need rest [] EmptyString o
                eq_refl (reads_nil lines) (pend_ok_none _ _ _) H) as [d [l [Hdl Hr]]].
    exists d, l. split; [|exact Hr]. rewrite <- Hdl. reflexivity.
  - destruct (sn_line n <=? 0) eqn:E; [discriminate|]. apply Z.leb_gt in E.
    cbv zeta in H.
    replace (sn_line n) with (Z.of_nat (Z.to_nat (sn_line n - 1)) + 1) in H at 2 by lia.
    change false with (brk_of None) in H.
    destruct (npr_loop_sound _ lines (Z.to_nat (sn_line n - 1)) 0 _ minCol None need rest [] EmptyString o
                eq_refl (reads_nil lines) (pend_ok_none _ _ _) H) as [d [l [Hdl Hr]]].
    exists d, l. split; [|exact Hr]. rewrite <- Hdl. reflexivity.
Qed.

(** UNCONDITIONAL: for every line table, node and minColumn, if [NewPositionRange] returns (no panic) then either
    it found nothing and returned the one-column fallback, or its positions are well formed, inside the file and
    read back — in order, up to folding — a PREFIX of the value. *)
Theorem positions_spell_prefix : forall lines n minCol pos,
  sn_dq n = false ->
  new_position_range lines n minCol = Ok pos ->
  pos = fallback n \/
  (wf pos /\ exists rb done_ left_,
      read_back lines pos = Some rb /\ fold_eq rb done_ = true /\ sn_value n = (done_ ++ left_)%string).
Proof.
  intros lines n minCol pos Hdq H.
  destruct (sn_value n) as [|need rest] eqn:Ev.
  - unfold new_position_range in H. rewrite Ev in H. injection H as <-. left. reflexivity.
  - rewrite (new_position_range_entry _ _ _ _ _ Ev) in H.
    destruct (npr_entry lines n minCol need rest) as [o|w] eqn:E; [|discriminate].
    destruct (npr_entry_sound _ _ _ _ _ _ Hdq E) as [d [l [Hdl [Hwf [rb [Hrb Hfe]]]]]].
    destruct o as [|p o'].
    + injection H as <-. left. reflexivity.
    + injection H as <-. right. split; [exact Hwf|]. exists rb, d, l. repeat split; assumption.
Qed.

Lemma read_back_nil lines : read_back lines [] = Some EmptyString.
Proof. reflexivity. Qed.

Theorem node_ok_spells : forall lines n minCol,
  node_ok lines n minCol = true ->
  exists pos, new_position_range lines n minCol = Ok pos /\
              pos <> [] /\ wf pos /\ spells lines pos (sn_value n).
Proof.
  intros lines n minCol H. unfold node_ok in H.
  destruct (sn_value n) as [|need rest] eqn:Ev; [discriminate|].
  apply andb_true_iff in H. destruct H as [Hnn H]. apply negb_true_iff in Hnn.
  rewrite (new_position_range_entry _ _ _ _ _ Ev).
  assert (Hmain : exists o, npr_entry lines n minCol need rest = Ok o /\ wf o /\
                    exists rb, read_back lines o = Some rb /\ spell_match rb (String need rest) = true).
  { unfold npr_entry. destruct (sn_block n).
    - apply andb_true_iff in H. destruct H as [Hl Hok]. apply Z.leb_le in Hl.
      replace (sn_line n + 1 <=? 0) with false by (symmetry; apply Z.leb_gt; lia).
      destruct (npr_loop_spec (sn_dq n) _ lines (Z.to_nat (sn_line n)) 0 minCol minCol None need rest [] EmptyString
                  eq_refl Hok (reads_nil lines) (pend_ok_none _ _ _)) as [o [Ho [Hwf [rb [Hrb Hsp]]]]].
      replace (Z.of_nat (Z.to_nat (sn_line n)) + 1) with (sn_line n + 1) in Ho by lia.
      cbn [brk_of] in Ho. exists o. repeat split; [exact Ho|exact Hwf|]. exists rb. split; [exact Hrb|exact Hsp].
    - apply andb_true_iff in H. destruct H as [Hl Hok]. apply Z.leb_le in Hl.
      replace (sn_line n <=? 0) with false by (symmetry; apply Z.leb_gt; lia).
      cbv zeta in Hok |- *.
      destruct (npr_loop_spec (sn_dq n) _ lines (Z.to_nat (sn_line n - 1)) 0 _ minCol None need rest [] EmptyString
                  eq_refl Hok (reads_nil lines) (pend_ok_none _ _ _)) as [o [Ho [Hwf [rb [Hrb Hsp]]]]].
      replace (Z.of_nat (Z.to_nat (sn_line n - 1)) + 1) with (sn_line n) in Ho by lia.
      cbn [brk_of] in Ho. exists o. repeat split; [exact Ho|exact Hwf|]. exists rb. split; [exact Hrb|exact Hsp]. }
  destruct Hmain as [o [Ho [Hwf [rb [Hrb Hsp]]]]]. rewrite Ho.
  destruct o as [|p o'].
  - (* impossible: an empty read-back spells only values made of line breaks *)
    rewrite read_back_nil in Hrb. injection Hrb as <-. cbn [spell_match] in Hsp. congruence.
  - exists (p :: o'). repeat split; [discriminate|exact Hwf|]. exists rb. split; [exact Hrb|exact Hsp].
Qed.
