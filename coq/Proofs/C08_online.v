(** C08 — checks run only on entries they match and whose change state they declare (Meta().States);
    finite facts about the declared states of the check types of the current source. *)
From Coq Require Import List String Ascii Bool.
From PintV Require Import Common.Bytes Gen.Tables Model.CheckSwitch Model.Routing08Tables.
Import ListNotations.
Open Scope string_scope.
Open Scope list_scope.

Lemma get_checks_from_declared c e : forall prs acc x,
  In x (get_checks_from c e acc prs) ->
  In x acc \/ (In x prs /\ pr_matched x = true /\ mem_str (e_state e) (ck_states (pr_check x)) = true).
Proof.
  induction prs as [|p prs IH]; intros acc x H; simpl in *; [left; exact H|].
  apply IH in H. destruct H as [H|[H1 H2]]; [|right; split; [right; exact H1|exact H2]].
  unfold route_step in H.
  destruct (pr_matched p) eqn:M; cbn [andb] in H; [|left; exact H].
  destruct (prule_is_enabled c e acc p) eqn:E; [|left; exact H].
  apply in_app_or in H. destruct H as [H|[H|[]]]; [left; exact H|].
  subst x. right. split; [left; reflexivity|]. split; [exact M|].
  unfold prule_is_enabled in E.
  destruct (mem_str (e_state e) (ck_states (pr_check p))); [reflexivity|discriminate].
Qed.

Lemma get_checks_declared c e prs x :
  In x (get_checks c e prs) -> In x prs /\ pr_matched x = true /\ mem_str (e_state e) (ck_states (pr_check x)) = true.
Proof. intro H. apply get_checks_from_declared in H. destruct H as [[]|H]. exact H. Qed.

(** the names of the discovery.ChangeType constants a check may declare *)
Definition known_states : list string := ["Noop"; "Added"; "Modified"; "Moved"; "Removed"].

Definition type_states_ok (t : check_type) : bool :=
  negb (match ct_states t with [] => true | _ => false end) &&
  forallb (fun s => mem_str s known_states) (ct_states t) &&
  (* only the always-enabled ErrorCheck and the rule/dependency check look at removed rules *)
  (negb (mem_str "Removed" (ct_states t)) || ct_always t || String.eqb (ct_reporter t) "rule/dependency").

Lemma all_type_states_ok : forallb type_states_ok check_types = true.
Proof. vm_compute. reflexivity. Qed.
