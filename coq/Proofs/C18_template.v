(** C18 — lemmas about the TemplatedRegexp protocol (Model/TemplatedRegexp.v), for every behaviour of
    text/template and regexp. *)
From Coq Require Import List String Ascii Bool.
From PintV Require Import Common.Bytes Model.TemplatedRegexp.
Import ListNotations.
Open Scope string_scope.
Open Scope list_scope.

Section Laws.
  Variables (Tmpl Re : Type).
  Variable tmpl_parse : string -> option Tmpl.
  Variable tmpl_exec : Tmpl -> tctx -> option string.
  Variable re_compile : string -> option Re.

  (** the only fact used about the regexp library: the constant fallback pattern compiles *)
  Hypothesis never_matching_compiles : re_compile never_matching <> None.

  Lemma must_expand_total t r : exists re, must_expand Tmpl Re tmpl_parse tmpl_exec re_compile t r = Ok re.
  Proof.
    unfold must_expand. destruct (expand Tmpl Re tmpl_parse tmpl_exec re_compile t r) as [re|].
    - exists re. reflexivity.
    - unfold must_compile. destruct (re_compile never_matching) as [re|] eqn:E; [exists re; reflexivity|congruence].
  Qed.

  (** load-time validation and check construction call the same function on the same string *)
  Lemma validated_is_built s :
    validate_templated Tmpl Re tmpl_parse tmpl_exec re_compile s = true ->
    exists t, must_templated Tmpl Re tmpl_parse tmpl_exec re_compile s = Some t.
  Proof.
    unfold validate_templated, must_templated.
    destruct (new_templated Tmpl Re tmpl_parse tmpl_exec re_compile s) as [t|]; [exists t; reflexivity|discriminate].
  Qed.

  Lemma validated_raw_is_built s :
    validate_raw_templated Tmpl Re tmpl_parse tmpl_exec re_compile s = true ->
    exists t, must_raw_templated Tmpl Re tmpl_parse tmpl_exec re_compile s = Some t.
  Proof.
    unfold validate_raw_templated, must_raw_templated.
    destruct (new_raw_templated Tmpl Re tmpl_parse tmpl_exec re_compile s) as [t|]; [exists t; reflexivity|discriminate].
  Qed.

  Lemma use_site_total s r :
    validate_templated Tmpl Re tmpl_parse tmpl_exec re_compile s = true ->
    exists re, use_site Tmpl Re tmpl_parse tmpl_exec re_compile
                 (must_templated Tmpl Re tmpl_parse tmpl_exec re_compile s) r = Ok re.
  Proof.
    intro V. destruct (validated_is_built s V) as [t E]. rewrite E. simpl. apply must_expand_total.
  Qed.

  Lemma use_site_raw_total s r :
    validate_raw_templated Tmpl Re tmpl_parse tmpl_exec re_compile s = true ->
    exists re, use_site Tmpl Re tmpl_parse tmpl_exec re_compile
                 (must_raw_templated Tmpl Re tmpl_parse tmpl_exec re_compile s) r = Ok re.
  Proof.
    intro V. destruct (validated_raw_is_built s V) as [t E]. rewrite E. simpl. apply must_expand_total.
  Qed.

  (** a config value that was NOT validated: the nil pointer is dereferenced at the first use *)
  Lemma unvalidated_crashes s r :
    validate_templated Tmpl Re tmpl_parse tmpl_exec re_compile s = false ->
    exists w, use_site Tmpl Re tmpl_parse tmpl_exec re_compile
                (must_templated Tmpl Re tmpl_parse tmpl_exec re_compile s) r = Crash w.
  Proof.
    unfold validate_templated, must_templated. intro V.
    destruct (new_templated Tmpl Re tmpl_parse tmpl_exec re_compile s); [discriminate|].
    eexists. reflexivity.
  Qed.

  (** the pre-fix protocol is total only for templates whose execution ignores the rule *)
  Lemma constant_templates_total_prefix t :
    (forall tm c1 c2, tmpl_parse (aliases ++ t_anchored t)%string = Some tm -> tmpl_exec tm c1 = tmpl_exec tm c2) ->
    expand Tmpl Re tmpl_parse tmpl_exec re_compile t empty_rule <> None ->
    forall r, exists re, must_expand_prefix Tmpl Re tmpl_parse tmpl_exec re_compile t r = Ok re.
  Proof.
    intros Hconst Hvalid r. unfold must_expand_prefix, expand in *.
    destruct (tmpl_parse (aliases ++ t_anchored t)%string) as [tm|] eqn:P; [|congruence].
    rewrite (Hconst tm (new_template_context r) (new_template_context empty_rule) eq_refl).
    destruct (tmpl_exec tm (new_template_context empty_rule)) as [txt|]; [|congruence].
    destruct (re_compile txt) as [re|]; [exists re; reflexivity|congruence].
  Qed.

  Lemma new_templated_valid s t :
    new_templated Tmpl Re tmpl_parse tmpl_exec re_compile s = Some t ->
    expand Tmpl Re tmpl_parse tmpl_exec re_compile t empty_rule <> None /\ t_original t = s.
  Proof.
    unfold new_templated. intro H.
    destruct (expand Tmpl Re tmpl_parse tmpl_exec re_compile
                {| t_anchored := ("^" ++ s ++ "$")%string; t_original := s |} empty_rule) eqn:E; [|discriminate].
    inversion H; subst t. split; [|reflexivity]. intro N. pose proof (eq_trans (eq_sym E) N) as X. discriminate X.
  Qed.
End Laws.

(** A concrete library behaviour under which the PRE-FIX protocol crashes on an accepted pattern:
    templates = the text itself, execution appends the alert name when the text mentions $alert,
    a regexp compiles unless it contains '[' and no ']'.  (The same shape as the design witness
    value = "{{ $alert }}.*" with alert: "CPU [high".) *)
Definition toy_parse (s : string) : option string := Some s.
Fixpoint mentions (needle s : string) : bool :=
  match s with
  | EmptyString => String.prefix needle s
  | String _ r => String.prefix needle s || mentions needle r
  end.
Fixpoint has_bracket (s : string) : bool :=
  match s with
  | EmptyString => false
  | String c r => Ascii.eqb c (Ascii.ascii_of_nat 91) || has_bracket r
  end.
Definition toy_exec (t : string) (c : tctx) : option string :=
  Some (if mentions "{{ $alert }}" t then (cx_alert c ++ ".*")%string else t).
Fixpoint has_close (s : string) : bool :=
  match s with
  | EmptyString => false
  | String c r => Ascii.eqb c (Ascii.ascii_of_nat 93) || has_close r
  end.
Definition toy_compile (s : string) : option string := if has_bracket s && negb (has_close s) then None else Some s.

Definition witness_rule : trule :=
  {| tr_kind := RAlerting; tr_name := "CPU [high"; tr_expr := "up"; tr_for := None; tr_labels := None; tr_annotations := None |}.

Lemma prefix_protocol_crashes :
  validate_templated string string toy_parse toy_exec toy_compile "{{ $alert }}.*" = true /\
  exists t, must_templated string string toy_parse toy_exec toy_compile "{{ $alert }}.*" = Some t /\
            must_expand_prefix string string toy_parse toy_exec toy_compile t witness_rule
            = Crash "nil *regexp.Regexp dereferenced" /\
            must_expand string string toy_parse toy_exec toy_compile t witness_rule = Ok never_matching.
Proof.
  split; [vm_compute; reflexivity|]. eexists. split; [vm_compute; reflexivity|]. split; vm_compute; reflexivity.
Qed.
