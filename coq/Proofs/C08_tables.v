(** C08 — finite theorems over the generated tables: [forallb ... = true] by [vm_compute], lifted with
    [forallb_forall].  They are re-checked by the kernel against what the Go source says NOW. *)
From Coq Require Import List String Ascii Bool.
From PintV Require Import Common.Bytes Gen.Tables Model.CheckSwitch Model.Routing08Tables.
Import ListNotations.
Open Scope string_scope.
Open Scope list_scope.

Lemma all_reg_name_is_reporter : forallb reg_name_is_reporter registrations = true.
Proof. vm_compute. reflexivity. Qed.

Lemma all_reg_name_in_check_names : forallb reg_name_in_check_names registrations = true.
Proof. vm_compute. reflexivity. Qed.

Lemma all_reg_online_iff_listed : forallb reg_online_iff_listed registrations = true.
Proof. vm_compute. reflexivity. Qed.

Lemma all_reg_online_then_listed : forallb reg_online_then_listed registrations = true.
Proof. vm_compute. reflexivity. Qed.

Lemma all_reg_listed_then_online : forallb reg_listed_then_online registrations = true.
Proof. vm_compute. reflexivity. Qed.

Lemma all_types_report_as_reporter : forallb type_reports_as_reporter check_types = true.
Proof. vm_compute. reflexivity. Qed.

Lemma all_types_const_or_always : forallb type_const_or_always check_types = true.
Proof. vm_compute. reflexivity. Qed.

Lemma all_registered_not_always : forallb registered_ctor_not_always registrations = true.
Proof. vm_compute. reflexivity. Qed.

Lemma all_names_registered : forallb name_is_registered check_names = true.
Proof. vm_compute. reflexivity. Qed.

Lemma all_names_plain : forallb plain_name check_names = true.
Proof. vm_compute. reflexivity. Qed.

Lemma online_subset_names : forallb (fun n => mem_str n check_names) online_checks = true.
Proof. vm_compute. reflexivity. Qed.

Lemma check_names_nodup : nodup_str check_names = true.
Proof. vm_compute. reflexivity. Qed.

Lemma online_checks_nodup : nodup_str online_checks = true.
Proof. vm_compute. reflexivity. Qed.

(** lifted forms *)
Lemma registered_name_is_reporter_lifted : forall r, In r registrations ->
  exists t, type_of_ctor (rg_ctor r) = Some t /\ rg_name r = ct_reporter t.
Proof.
  intros r Hin. pose proof (proj1 (forallb_forall _ _) all_reg_name_is_reporter r Hin) as H.
  unfold reg_name_is_reporter in H. destruct (type_of_ctor (rg_ctor r)) as [t|]; [|discriminate].
  exists t. split; [reflexivity|]. apply String.eqb_eq. exact H.
Qed.

Lemma registered_names_in_CheckNames_lifted : forall r, In r registrations -> In (rg_name r) check_names.
Proof.
  intros r Hin. apply mem_str_In. exact (proj1 (forallb_forall _ _) all_reg_name_in_check_names r Hin).
Qed.

Lemma online_iff_listed_lifted : forall r, In r registrations ->
  exists t, type_of_ctor (rg_ctor r) = Some t /\ (ct_online t = true <-> In (rg_name r) online_checks).
Proof.
  intros r Hin. pose proof (proj1 (forallb_forall _ _) all_reg_online_iff_listed r Hin) as H.
  unfold reg_online_iff_listed in H. destruct (type_of_ctor (rg_ctor r)) as [t|]; [|discriminate].
  exists t. split; [reflexivity|]. apply Bool.eqb_prop in H. rewrite H. apply mem_str_In.
Qed.

Lemma names_plain_lifted : forall n, In n check_names -> plain_name n = true.
Proof. intros n Hin. exact (proj1 (forallb_forall _ _) all_names_plain n Hin). Qed.

Lemma online_names_plain : forall n, In n online_checks -> plain_name n = true.
Proof.
  intros n Hin. apply names_plain_lifted. apply mem_str_In.
  exact (proj1 (forallb_forall _ _) online_subset_names n Hin).
Qed.

Lemma every_name_registered_lifted : forall n, In n check_names -> exists r, In r registrations /\ rg_name r = n.
Proof.
  intros n Hin. pose proof (proj1 (forallb_forall _ _) all_names_registered n Hin) as H.
  unfold name_is_registered in H. apply existsb_exists in H. destruct H as [r [Hr He]].
  exists r. split; [exact Hr|]. apply String.eqb_eq. exact He.
Qed.

Lemma problems_carry_reporter_lifted : forall t s, In t check_types -> In s (ct_sites t) -> s = "c.Reporter()".
Proof.
  intros t s Ht Hs. pose proof (proj1 (forallb_forall _ _) all_types_report_as_reporter t Ht) as H.
  unfold type_reports_as_reporter in H. apply String.eqb_eq. exact (proj1 (forallb_forall _ _) H s Hs).
Qed.
