(** C01: removing the premises that pint's strict pre-pass now enforces itself.

    [stream_sound] (Proofs/C01_group.v) needs "every null-tagged scalar resolves to null" of the loader's oracle as a GLOBAL
    hypothesis.  Since fix b9483ac the strict pre-pass refuses a document in which some reachable scalar tagged !!null does not
    resolve to null, with the SAME oracle.  So: instantiate [stream_sound] with the constant-true oracle on the loader side,
    and transfer the verdict back to the real oracle by extensionality — the loader model only asks the oracle about nodes
    reachable from the document, and on those the two oracles agree because the pre-pass found nothing. *)
From Coq Require Import List String Ascii Arith Bool Lia.
From PintV Require Import Common.Bytes Model.Yaml Model.Parser Model.Routing Model.PromLoader
     Proofs.C19_relaxed Proofs.C01_prom Proofs.C01_rule Proofs.C01_merge Proofs.C01_group.
Import ListNotations.
Open Scope string_scope.
Open Scope list_scope.

(** ---- the search of the pre-passes visits every reachable node ---- *)
Fixpoint find_list (P : node -> option node) (l : list node) : option node :=
  match l with
  | [] => None
  | c :: r => match find_node P c with Some x => Some x | None => find_list P r end
  end.

Lemma find_node_eq P n :
  find_node P n =
  match P n with
  | Some x => Some x
  | None => match (match n_alias n with Some t => find_node P t | None => None end) with
            | Some x => Some x
            | None => find_list P (n_content n)
            end
  end.
Proof.
  destruct n as [k t v l c a content al em]. cbn [find_node n_alias n_content].
  destruct (P _); [reflexivity|]. destruct (match al with Some t0 => find_node P t0 | None => None end); [reflexivity|].
  induction content as [|x r IH]; [reflexivity|]. cbn [find_list]. destruct (find_node P x); [reflexivity|exact IH].
Qed.

Lemma find_list_none P : forall l, find_list P l = None -> forall c, In c l -> find_node P c = None.
Proof.
  induction l as [|x r IH]; intros H c Hc; [destruct Hc|]. cbn [find_list] in H.
  destruct (find_node P x) eqn:E; [discriminate|]. destruct Hc as [<-|Hc]; [exact E|exact (IH H c Hc)].
Qed.

Lemma find_node_reach P : forall d m, reach d m -> find_node P d = None -> P m = None.
Proof.
  induction 1 as [n|n c m Hc Hr IH|n t m Ha Hr IH]; intros H; rewrite find_node_eq in H.
  - destruct (P n); [discriminate|reflexivity].
  - destruct (P n); [discriminate|].
    destruct (match n_alias n with Some t => find_node P t | None => None end); [discriminate|].
    exact (IH (find_list_none P _ H c Hc)).
  - destruct (P n); [discriminate|]. rewrite Ha in H. destruct (find_node P t) eqn:E; [discriminate|]. exact (IH eq_refl).
Qed.

(** what the strict pre-pass b9483ac guarantees when it lets a document through *)
Lemma prepass_null_ok null_ok d :
  strict_prepass null_ok d = None ->
  forall m, reach d m -> n_kind m = KScalar -> n_tag m = nullTag -> null_ok m = true.
Proof.
  unfold strict_prepass. intros H m Hr K T.
  destruct (find_node (null_with_text null_ok) d) eqn:E; [discriminate|].
  pose proof (find_node_reach _ d m Hr E) as X. unfold null_with_text in X. rewrite K, T in X.
  cbn [kind_eqb andb] in X. change (nullTag =? nullTag) with true in X. cbn [andb] in X.
  destruct (null_ok m); [reflexivity|discriminate X].
Qed.

Lemma pair_ind (P : list node -> Prop) :
  P [] -> (forall x, P [x]) -> (forall k v r, P r -> P (k :: v :: r)) -> forall l, P l.
Proof.
  intros H0 H1 H2. fix IH 1. intros [|k [|v r]]; [exact H0|exact (H1 k)|exact (H2 k v r (IH r))].
Qed.

(** ---- the loader model asks its null oracle only about nodes of a set closed under content and alias target ---- *)
Section Ext.
  Variables str_ok int_ok : node -> bool.
  Variables f g : node -> bool.                       (* two null oracles *)
  Variable U : node -> Prop.
  Hypothesis U_content : forall n c, U n -> In c (n_content n) -> U c.
  Hypothesis U_alias : forall n t, U n -> n_alias n = Some t -> U t.
  Hypothesis Hfg : forall m, U m -> n_kind m = KScalar -> n_tag m = nullTag -> f m = g m.

  Lemma U_deref n : U n -> U (deref n).
  Proof. intros H. unfold deref. destruct (n_alias n) as [t|] eqn:E; [exact (U_alias n t H E)|exact H]. Qed.

  Lemma ns_ext t : U t -> n_kind t = KScalar -> null_scalar f t = null_scalar g t.
  Proof.
    intros Ht K. unfold null_scalar. destruct (String.eqb (n_tag t) nullTag) eqn:E; [|reflexivity].
    apply String.eqb_eq in E. cbn [andb]. exact (Hfg t Ht K E).
  Qed.

  Lemma dec_string_ext n : U n -> dec_string str_ok f n = dec_string str_ok g n.
  Proof.
    intros H. unfold dec_string. pose proof (U_deref n H) as Ht. destruct (n_kind (deref n)) eqn:K; try reflexivity.
    now rewrite (ns_ext _ Ht K).
  Qed.

  Lemma dec_int_ext n : U n -> dec_int int_ok f n = dec_int int_ok g n.
  Proof.
    intros H. unfold dec_int. pose proof (U_deref n H) as Ht. destruct (n_kind (deref n)) eqn:K; try reflexivity.
    now rewrite (ns_ext _ Ht K).
  Qed.

  Lemma dec_duration_ext dur_ok n : U n -> dec_duration str_ok f dur_ok n = dec_duration str_ok g dur_ok n.
  Proof.
    intros H. unfold dec_duration. rewrite (dec_string_ext n H). pose proof (U_deref n H) as Ht.
    destruct (kind_eqb (n_kind (deref n)) KScalar) eqn:K; [|reflexivity]. apply kind_eqb_eq in K.
    destruct (String.eqb (n_tag (deref n)) nullTag) eqn:T; [|reflexivity]. apply String.eqb_eq in T.
    cbn [andb]. now rewrite (Hfg _ Ht K T).
  Qed.

  (** the decoder's loop over the pairs of a mapping *)
  Lemma map_loop_ext known : forall l merged done acc mn,
    (forall c, In c l -> U c) ->
    map_loop str_ok f known l merged done acc mn = map_loop str_ok g known l merged done acc mn.
  Proof.
    induction l as [|x|k v r IH] using pair_ind; intros merged done acc mn H; try reflexivity. cbn [map_loop].
    assert (Hr : forall c, In c r -> U c) by (intros c Hc; apply H; right; right; exact Hc).
    rewrite (dec_string_ext k (H k (or_introl eq_refl))).
    destruct (is_merge_key k); [apply IH; exact Hr|].
    destruct (dec_string str_ok g k) as [| |s]; [reflexivity|apply IH; exact Hr|].
    destruct (match merged with Some set => mem_key s set | None => false end); [apply IH; exact Hr|].
    destruct known as [fields|]; [|apply IH; exact Hr].
    destruct (mem_key s fields); [|reflexivity]. destruct (mem_key s done); [reflexivity|apply IH; exact Hr].
  Qed.

  (** every value the loop assigns (and the merge value it remembers) is an element of the list, or was there before *)
  Lemma map_loop_nodes (h : node -> bool) known : forall l merged done acc mn a mn' m',
    map_loop str_ok h known l merged done acc mn = Some (a, mn', m') ->
    (forall kv, In kv a -> In kv acc \/ In (snd kv) l) /\ (mn' = mn \/ exists x, In x l /\ mn' = Some x).
  Proof.
    induction l as [|x|k v r IH] using pair_ind; intros merged done acc mn a mn' m' H; cbn [map_loop] in H;
      try (inversion H; subst; split; [intros kv Hk; left; exact Hk|left; reflexivity]).
    assert (Step : forall merged0 done0 acc0 mn0,
               map_loop str_ok h known r merged0 done0 acc0 mn0 = Some (a, mn', m') ->
               (forall kv, In kv acc0 -> In kv acc \/ In (snd kv) (k :: v :: r)) ->
               (mn0 = mn \/ exists x, In x (k :: v :: r) /\ mn0 = Some x) ->
               (forall kv, In kv a -> In kv acc \/ In (snd kv) (k :: v :: r)) /\
               (mn' = mn \/ exists x, In x (k :: v :: r) /\ mn' = Some x)).
    { intros merged0 done0 acc0 mn0 E Hacc Hmn. destruct (IH _ _ _ _ _ _ _ E) as [A B]. split.
      - intros kv Hk. destruct (A kv Hk) as [X|X]; [exact (Hacc kv X)|right; right; right; exact X].
      - destruct B as [->|(x & Hx & ->)]; [exact Hmn|right; exists x; split; [right; right; exact Hx|reflexivity]]. }
    assert (Same : forall kv, In kv acc -> In kv acc \/ In (snd kv) (k :: v :: r)) by (intros; left; assumption).
    destruct (is_merge_key k).
    { apply (Step _ _ _ _ H Same). right. exists v. split; [right; left; reflexivity|reflexivity]. }
    destruct (dec_string str_ok h k) as [| |s]; [discriminate H|exact (Step _ _ _ _ H Same (or_introl eq_refl))|].
    destruct (match merged with Some set => mem_key s set | None => false end); [exact (Step _ _ _ _ H Same (or_introl eq_refl))|].
    assert (Added : forall kv, In kv (acc ++ [(s, v)]) -> In kv acc \/ In (snd kv) (k :: v :: r)).
    { intros kv Hk. apply in_app_or in Hk. destruct Hk as [X|[<-|[]]]; [left; exact X|right; right; left; reflexivity]. }
    destruct known as [fields|]; [|exact (Step _ _ _ _ H Added (or_introl eq_refl))].
    destruct (mem_key s fields); [|discriminate H]. destruct (mem_key s done); [discriminate H|].
    exact (Step _ _ _ _ H Added (or_introl eq_refl)).
  Qed.
  (** one merged mapping (decode.go merge()), as a function of the oracle *)
  Definition one_of (h : node -> bool) (fuel : nat) (known : option (list string)) (m : node)
             (st : option (list (string * node) * list string)) : option (list (string * node) * list string) :=
    match st with
    | None => None
    | Some (a, set) =>
        let t := deref m in
        if negb (kind_eqb (n_kind t) KMapping) then None
        else match map_fields str_ok h fuel known t (Some set) with
             | Some (a', Some set') => Some (a ++ a', set')
             | _ => None
             end
    end.

  Lemma map_fields_S h fuel known n merged :
    map_fields str_ok h (S fuel) known n merged =
    if negb (unique_keys (n_content n)) then None
    else match map_loop str_ok h known (n_content n) merged [] [] None with
         | None => None
         | Some (acc, None, merged') => Some (acc, merged')
         | Some (acc, Some mn, merged') =>
             let set := match merged' with Some s => s | None => plain_keys (n_content n) end in
             match n_kind mn with
             | KMapping | KAlias =>
                 match one_of h fuel known mn (Some (acc, set)) with
                 | Some (a, set') => Some (a, option_map (fun _ => set') merged')
                 | None => None
                 end
             | KSequence =>
                 match fold_left (fun st m => one_of h fuel known m st) (n_content mn) (Some (acc, set)) with
                 | Some (a, set') => Some (a, option_map (fun _ => set') merged')
                 | None => None
                 end
             | _ => None
             end
         end.
  Proof. reflexivity. Qed.

  Definition inU (a : list (string * node)) : Prop := forall kv, In kv a -> U (snd kv).

  Lemma map_fields_ext known : forall fuel n merged, U n ->
    map_fields str_ok f fuel known n merged = map_fields str_ok g fuel known n merged /\
    (forall a m', map_fields str_ok g fuel known n merged = Some (a, m') -> inU a).
  Proof.
    induction fuel as [|fuel IH]; intros n merged Hn; [split; [reflexivity|discriminate]|].
    rewrite !map_fields_S.
    destruct (negb (unique_keys (n_content n))); [split; [reflexivity|discriminate]|].
    rewrite (map_loop_ext known (n_content n) merged [] [] None (fun c Hc => U_content n c Hn Hc)).
    destruct (map_loop str_ok g known (n_content n) merged [] [] None) as [[[acc mn] merged']|] eqn:ML;
      [|split; [reflexivity|discriminate]].
    destruct (map_loop_nodes g known _ _ _ _ _ _ _ _ ML) as [Hacc Hmn].
    assert (Uacc : inU acc).
    { intros kv Hk. destruct (Hacc kv Hk) as [[]|X]. exact (U_content n _ Hn X). }
    destruct mn as [mn|]; [|split; [reflexivity|intros a m' E; inversion E; subst; exact Uacc]].
    assert (Umn : U mn).
    { destruct Hmn as [X|(x & Hx & X)]; [discriminate X|]. inversion X; subst. exact (U_content n _ Hn Hx). }
    (* one merged mapping *)
    assert (One : forall m st, U m -> (forall a s, st = Some (a, s) -> inU a) ->
                  one_of f fuel known m st = one_of g fuel known m st /\
                  (forall a s, one_of g fuel known m st = Some (a, s) -> inU a)).
    { intros m st Hm Hst. unfold one_of. destruct st as [[a0 set0]|]; [|split; [reflexivity|discriminate]].
      destruct (negb (kind_eqb (n_kind (deref m)) KMapping)); [split; [reflexivity|discriminate]|].
      destruct (IH (deref m) (Some set0) (U_deref m Hm)) as [E I]. rewrite E. split; [reflexivity|].
      destruct (map_fields str_ok g fuel known (deref m) (Some set0)) as [[a' [set'|]]|] eqn:MF; try discriminate.
      intros a s X. inversion X; subst. intros kv Hk. apply in_app_or in Hk.
      destruct Hk as [Hk|Hk]; [exact (Hst a0 set0 eq_refl kv Hk)|exact (I a' (Some s) eq_refl kv Hk)]. }
    assert (Fold : forall l st, (forall m, In m l -> U m) -> (forall a s, st = Some (a, s) -> inU a) ->
                   fold_left (fun st m => one_of f fuel known m st) l st = fold_left (fun st m => one_of g fuel known m st) l st /\
                   (forall a s, fold_left (fun st m => one_of g fuel known m st) l st = Some (a, s) -> inU a)).
    { induction l as [|m l IHl]; intros st Hl Hst; cbn [fold_left]; [split; [reflexivity|exact Hst]|].
      destruct (One m st (Hl m (or_introl eq_refl)) Hst) as [E I]. rewrite E.
      apply IHl; [intros m0 Hm0; apply Hl; right; exact Hm0|exact I]. }
    cbv zeta.
    set (set0 := match merged' with Some s => s | None => plain_keys (n_content n) end).
    assert (Hst : forall a s, Some (acc, set0) = Some (a, s) -> inU a) by (intros a s X; inversion X; subst; exact Uacc).
    destruct (n_kind mn); try (split; [reflexivity|discriminate]).
    - destruct (Fold (n_content mn) (Some (acc, set0)) (fun m Hm => U_content mn m Umn Hm) Hst) as [E I]. rewrite E.
      split; [reflexivity|]. intros a1 m1 X.
      match type of X with match ?t with _ => _ end = _ => destruct t as [[a s]|] eqn:F end; [|discriminate X].
      inversion X; subst. eapply I. reflexivity.
    - destruct (One mn (Some (acc, set0)) Umn Hst) as [E I]. rewrite E. split; [reflexivity|].
      intros a1 m1 X.
      match type of X with match ?t with _ => _ end = _ => destruct t as [[a s]|] eqn:F end; [|discriminate X].
      inversion X; subst. eapply I. reflexivity.
    - destruct (One mn (Some (acc, set0)) Umn Hst) as [E I]. rewrite E. split; [reflexivity|].
      intros a1 m1 X.
      match type of X with match ?t with _ => _ end = _ => destruct t as [[a s]|] eqn:F end; [|discriminate X].
      inversion X; subst. eapply I. reflexivity.
  Qed.
  Lemma dec_fields_ext known n : U n ->
    dec_fields str_ok f known n = dec_fields str_ok g known n /\
    (forall a, dec_fields str_ok g known n = DOk a -> inU a).
  Proof.
    intros Hn. unfold dec_fields. pose proof (U_deref n Hn) as Ht.
    destruct (n_kind (deref n)) eqn:K; try (split; [reflexivity|discriminate]).
    - destruct (map_fields_ext known (S (node_height (deref n))) (deref n) None Ht) as [E I]. rewrite E. split; [reflexivity|].
      destruct (map_fields str_ok g (S (node_height (deref n))) known (deref n) None) as [[a m]|] eqn:MF; [|discriminate].
      intros a0 X. inversion X; subst. exact (I a0 m eq_refl).
    - rewrite (ns_ext _ Ht K). split; [reflexivity|]. destruct (null_scalar g (deref n)); discriminate.
  Qed.

  Lemma strmap_values_ext : forall a, inU a -> strmap_values str_ok f a = strmap_values str_ok g a.
  Proof.
    induction a as [|[k v] r IH]; intros H; [reflexivity|]. cbn [strmap_values].
    rewrite (dec_string_ext v (H (k, v) (or_introl eq_refl))), (IH (fun kv Hk => H kv (or_intror Hk))). reflexivity.
  Qed.

  Lemma dec_strmap_ext n : U n -> dec_strmap str_ok f n = dec_strmap str_ok g n.
  Proof.
    intros Hn. unfold dec_strmap. destruct (dec_fields_ext None n Hn) as [E I]. rewrite E.
    destruct (dec_fields str_ok g None n) as [| |a] eqn:D; try reflexivity. now rewrite (strmap_values_ext a (I a eq_refl)).
  Qed.

  Lemma dec_items_ext {A} (d1 d2 : node -> dres A) : forall l, (forall x, In x l -> d1 x = d2 x) -> dec_items d1 l = dec_items d2 l.
  Proof.
    induction l as [|x r IH]; intros H; [reflexivity|]. cbn [dec_items].
    rewrite (H x (or_introl eq_refl)), (IH (fun y Hy => H y (or_intror Hy))). reflexivity.
  Qed.

  Lemma dec_slice_ext {A} (d1 d2 : node -> dres A) n :
    U n -> (forall x, U x -> d1 x = d2 x) -> dec_slice f d1 n = dec_slice g d2 n.
  Proof.
    intros Hn H. unfold dec_slice. pose proof (U_deref n Hn) as Ht. destruct (n_kind (deref n)) eqn:K; try reflexivity.
    - now rewrite (dec_items_ext d1 d2 _ (fun x Hx => H x (U_content _ x Ht Hx))).
    - now rewrite (ns_ext _ Ht K).
  Qed.

  Lemma look_in name (a : list (string * node)) v : look name a = Some v -> In (name, v) a.
  Proof.
    unfold look. induction a as [|[k x] r IH]; cbn [assoc]; [discriminate|].
    destruct (String.eqb name k) eqn:E; [apply String.eqb_eq in E; intros X; inversion X; subst; left; reflexivity|].
    intros X. right. exact (IH X).
  Qed.

  Section Fields.
    Variable dur_ok : string -> bool.
    Variable a : list (string * node).
    Hypothesis Ha : inU a.

    Lemma look_U name v : look name a = Some v -> U v.
    Proof. intros H. exact (Ha _ (look_in name a v H)). Qed.

    Lemma str_field_ext name : str_field str_ok f name a = str_field str_ok g name a.
    Proof. unfold str_field. destruct (look name a) as [v|] eqn:L; [|reflexivity]. now rewrite (dec_string_ext v (look_U name v L)). Qed.

    Lemma dur_field_ext name : dur_field str_ok f dur_ok name a = dur_field str_ok g dur_ok name a.
    Proof. unfold dur_field. destruct (look name a) as [v|] eqn:L; [|reflexivity]. now rewrite (dec_duration_ext dur_ok v (look_U name v L)). Qed.

    Lemma map_field_ext name : map_field str_ok f name a = map_field str_ok g name a.
    Proof. unfold map_field. destruct (look name a) as [v|] eqn:L; [|reflexivity]. now rewrite (dec_strmap_ext v (look_U name v L)). Qed.
  End Fields.

  Lemma existsb_ext_in {A} (p q : A -> bool) : forall l, (forall x, In x l -> p x = q x) -> existsb p l = existsb q l.
  Proof.
    induction l as [|x r IH]; intros H; [reflexivity|]. cbn [existsb].
    rewrite (H x (or_introl eq_refl)), (IH (fun y Hy => H y (or_intror Hy))). reflexivity.
  Qed.

  Lemma dec_rule_ext dur_ok n : U n -> dec_rule str_ok f dur_ok n = dec_rule str_ok g dur_ok n.
  Proof.
    intros Hn. unfold dec_rule. destruct (dec_fields_ext (Some rule_fields) n Hn) as [E I]. rewrite E.
    destruct (dec_fields str_ok g (Some rule_fields) n) as [| |a] eqn:D; try reflexivity.
    pose proof (I a eq_refl) as Ha.
    assert (X : existsb (rule_field_err str_ok f dur_ok) a = existsb (rule_field_err str_ok g dur_ok) a).
    { apply existsb_ext_in. intros [k v] Hk. unfold rule_field_err. pose proof (Ha _ Hk) as Hv. cbn [snd] in Hv.
      now rewrite (dec_string_ext v Hv), (dec_duration_ext dur_ok v Hv), (dec_strmap_ext v Hv). }
    rewrite X, !(str_field_ext a Ha), !(dur_field_ext dur_ok a Ha), !(map_field_ext a Ha). reflexivity.
  Qed.

  Lemma dec_group_ext dur_ok n : U n -> dec_group str_ok int_ok f dur_ok n = dec_group str_ok int_ok g dur_ok n.
  Proof.
    intros Hn. unfold dec_group. destruct (dec_fields_ext (Some group_fields) n Hn) as [E I]. rewrite E.
    destruct (dec_fields str_ok g (Some group_fields) n) as [| |a] eqn:D; try reflexivity.
    pose proof (I a eq_refl) as Ha.
    assert (R : forall v, U v -> dec_slice f (dec_rule str_ok f dur_ok) v = dec_slice g (dec_rule str_ok g dur_ok) v).
    { intros v Hv. apply dec_slice_ext; [exact Hv|]. intros x Hx. exact (dec_rule_ext dur_ok x Hx). }
    assert (X : existsb (group_field_err str_ok int_ok f dur_ok) a = existsb (group_field_err str_ok int_ok g dur_ok) a).
    { apply existsb_ext_in. intros [k v] Hk. unfold group_field_err. pose proof (Ha _ Hk) as Hv. cbn [snd] in Hv.
      now rewrite (dec_string_ext v Hv), (dec_duration_ext dur_ok v Hv), (dec_int_ext v Hv), (R v Hv), (dec_strmap_ext v Hv). }
    rewrite X, (str_field_ext a Ha), (map_field_ext a Ha). unfold rules_field.
    destruct (look "rules" a) as [v|] eqn:L; [|reflexivity]. now rewrite (R v (look_U a Ha "rules" v L)).
  Qed.

  Lemma load_doc_ext dur_ok d : U d -> load_doc str_ok int_ok f dur_ok d = load_doc str_ok int_ok g dur_ok d.
  Proof.
    intros Hd. unfold load_doc. destruct (n_content d) as [|root [|x r]] eqn:C; try reflexivity.
    assert (Hr : U root) by (apply (U_content d root Hd); rewrite C; left; reflexivity).
    destruct (dec_fields_ext (Some ["groups"]) root Hr) as [E I]. rewrite E.
    destruct (dec_fields str_ok g (Some ["groups"]) root) as [| |a] eqn:D; try reflexivity.
    destruct (look "groups" a) as [v|] eqn:L; [|reflexivity].
    assert (Hv : U v) by exact (look_U a (I a eq_refl) "groups" v L).
    now rewrite (dec_slice_ext (dec_group str_ok int_ok f dur_ok) (dec_group str_ok int_ok g dur_ok) v Hv (fun x Hx => dec_group_ext dur_ok x Hx)).
  Qed.
End Ext.

(** ---- the theorem without the null hypothesis ---- *)
Section Full.
  Variable plines : list string -> node -> nat -> nat * nat.
  Variables metric_ok lname_ok lvalue_ok dur_ok expr_ok tmpl_pint tmpl_prom dur_zero : string -> bool.
  Variables str_ok int_ok null_ok : node -> bool.
  Hypothesis H_str : forall n, n_kind n = KScalar -> n_tag n <> nullTag -> str_ok n = true.
  Hypothesis H_tmpl : forall s, tmpl_pint s = true -> tmpl_prom s = true.
  Hypothesis H_lname_empty : lname_ok "" = false.
  Hypothesis H_lvalue_empty : lvalue_ok "" = true.
  Hypothesis H_tmpl_empty : tmpl_prom "" = true.
  Variable lines : list string.

  Notation blocks := (strict_blocks expr_ok dur_ok tmpl_pint).
  Notation PS := (parse_strict plines metric_ok lname_ok lvalue_ok dur_ok int_ok null_ok false).
  Notation accepts h := (prom_accepts str_ok int_ok h expr_ok dur_ok dur_zero metric_ok lname_ok lvalue_ok tmpl_prom).

  (** a stream pint does not block starts with a document that went through the strict pre-pass *)
  Lemma passed_prepass d nl r yerr : blocks (PS lines ((d, nl) :: r) yerr) = false -> strict_prepass null_ok d = None.
  Proof.
    intros Hb. destruct (blocks_false_inv dur_ok expr_ok tmpl_pint _ Hb) as [Hfe _].
    unfold parse_strict in Hfe. cbn [parse_strict_loop] in Hfe.
    destruct (too_big d); [discriminate Hfe|]. destruct (strict_prepass null_ok d); [discriminate Hfe|reflexivity].
  Qed.

  (** rule level: there is no pre-pass inside one rule, the hypothesis is asked of the nodes of that rule only *)
  Definition nulls_resolve (n : node) : Prop :=
    forall m, reach n m -> n_kind m = KScalar -> n_tag m = nullTag -> null_ok m = true.

  Lemma dec_rule_transfer rn :
    nulls_resolve rn -> dec_rule str_ok (fun _ => true) dur_ok rn = dec_rule str_ok null_ok dur_ok rn.
  Proof.
    intros Hn. apply (dec_rule_ext str_ok (fun _ => true) null_ok (reach rn)); [| | |apply reach_refl].
    - intros n c Hr Hc. eapply reach_trans; [exact Hr|]. eapply reach_content; [exact Hc|apply reach_refl].
    - intros n t Hr Ha. eapply reach_trans; [exact Hr|]. eapply reach_alias; [exact Ha|apply reach_refl].
    - intros m Hr K T. symmetry. exact (Hn m Hr K T).
  Qed.

  Notation PRS := (parse_rule_strict plines metric_ok lname_ok lvalue_ok).

  Theorem rule_sound_local rn glabels :
    nulls_resolve rn -> rule_guard rn ->
    r_error (PRS lines rn) = None ->
    rule_blocks expr_ok dur_ok tmpl_pint glabels (PRS lines rn) = false ->
    exists pr, dec_rule str_ok null_ok dur_ok rn = DOk pr /\
               rule_valid expr_ok dur_zero metric_ok lname_ok lvalue_ok tmpl_prom pr = true.
  Proof.
    intros Hn Hg He Hb. rewrite <- (dec_rule_transfer rn Hn).
    eapply (rule_sound plines metric_ok lname_ok lvalue_ok dur_ok expr_ok tmpl_pint tmpl_prom dur_zero str_ok); eauto.
  Qed.

  Theorem rule_sound_merge_local rn glabels pre mk mx post t :
    nulls_resolve rn -> merge_rule_guard rn pre mk mx post t ->
    r_error (PRS lines rn) = None ->
    rule_blocks expr_ok dur_ok tmpl_pint glabels (PRS lines rn) = false ->
    exists pr, dec_rule str_ok null_ok dur_ok rn = DOk pr /\
               rule_valid expr_ok dur_zero metric_ok lname_ok lvalue_ok tmpl_prom pr = true.
  Proof.
    intros Hn Hg He Hb. rewrite <- (dec_rule_transfer rn Hn).
    eapply (rule_sound_merge plines metric_ok lname_ok lvalue_ok dur_ok expr_ok tmpl_pint tmpl_prom dur_zero str_ok); eauto.
  Qed.

  Theorem stream_sound_full ds yerr :
    (forall d nl, ds = [(d, nl)] -> guards_doc d) ->
    blocks (PS lines ds yerr) = false -> accepts null_ok (map fst ds) = true.
  Proof.
    intros Hg Hb.
    pose proof (stream_sound plines metric_ok lname_ok lvalue_ok dur_ok expr_ok tmpl_pint tmpl_prom dur_zero
                  str_ok int_ok (fun _ => true) null_ok H_str (fun _ _ _ => eq_refl) H_tmpl H_lname_empty H_lvalue_empty H_tmpl_empty
                  lines ds yerr Hg Hb) as HT.
    destruct ds as [|[d nl] r]; [reflexivity|].
    pose proof (prepass_null_ok null_ok d (passed_prepass d nl r yerr Hb)) as Hn.
    cbn [map fst prom_accepts] in HT |- *.
    rewrite <- (load_doc_ext str_ok int_ok (fun _ => true) null_ok (reach d)); [exact HT| | | |apply reach_refl].
    - intros n c Hr Hc. eapply reach_trans; [exact Hr|]. eapply reach_content; [exact Hc|apply reach_refl].
    - intros n t Hr Ha. eapply reach_trans; [exact Hr|]. eapply reach_alias; [exact Ha|apply reach_refl].
    - intros m Hr K T. symmetry. exact (Hn m Hr K T).
  Qed.
End Full.
