(** C13 — per-slice folding: AppendSampleToRanges over the ascending samples of one slice followed by
    ExpandRangesEnd yields exactly the maximal runs of present grid points of that slice. *)
From Coq Require Import List ZArith NArith Bool Lia.
From PintV Require Import Common.GoTime Model.Range Model.RangeRef.
Import ListNotations.
Open Scope Z_scope.

(** runs before the end expansion *)
Fixpoint raw_runs (pres : presence) (g : list Z) (cur : option (Z * Z)) : list tr :=
  match g with
  | [] => match cur with Some (s, l) => [(s, l)] | None => [] end
  | t :: r =>
      if pres t then raw_runs pres r (match cur with Some (s, _) => Some (s, t) | None => Some (t, t) end)
      else match cur with
           | Some (s, l) => (s, l) :: raw_runs pres r None
           | None => raw_runs pres r None
           end
  end.

Lemma runs_raw step pres g : forall cur,
  runs step pres g cur = map (fun r => (fst r, snd r + (step - sec))) (raw_runs pres g cur).
Proof.
  induction g as [|t r IH]; intros cur; cbn [runs raw_runs].
  - destruct cur as [[s l]|]; reflexivity.
  - destruct (pres t); [apply IH|]. destruct cur as [[s l]|]; cbn [map fst snd]; rewrite IH; reflexivity.
Qed.

Definition mkr (fp : N) (r : tr) : range := mkR fp (fst r) (snd r).

Definition settled (fp : N) (step t : Z) (D : list range) : Prop :=
  forall d, In d D -> r_fp d = fp /\ r_start d <= r_end d /\ r_end d + step < t.

Lemma append_one_settled fp step t D : 0 < step -> settled fp step t D ->
  append_one D fp t step = (D, false).
Proof.
  intros Hs. induction D as [|d r IH]; intros HD; cbn [append_one]; [reflexivity|].
  destruct (HD d (or_introl eq_refl)) as [Hfp [Hse Het]].
  rewrite Hfp, N.eqb_refl. cbn [negb].
  assert (((r_start d - step <=? t) && (t <=? r_start d)) = false) as ->
    by (apply andb_false_iff; right; apply Z.leb_gt; lia).
  assert (((r_start d <=? t) && (t <=? r_end d + step)) = false) as ->
    by (apply andb_false_iff; right; apply Z.leb_gt; lia).
  rewrite IH; [reflexivity|]. intros x Hx. apply HD. right. exact Hx.
Qed.

Lemma append_one_extend fp step t D s l : 0 < step -> settled fp step t D -> s <= l -> l + step = t ->
  append_one (D ++ [mkR fp s l]) fp t step = (D ++ [mkR fp s t], true).
Proof.
  intros Hs. induction D as [|d r IH]; intros HD Hsl Hl.
  - cbn [app append_one r_fp r_start r_end]. rewrite N.eqb_refl. cbn [negb].
    assert (((s - step <=? t) && (t <=? s)) = false) as ->
      by (apply andb_false_iff; right; apply Z.leb_gt; lia).
    assert (((s <=? t) && (t <=? l + step)) = true) as ->
      by (apply andb_true_iff; split; apply Z.leb_le; lia).
    reflexivity.
  - cbn [app append_one].
    destruct (HD d (or_introl eq_refl)) as [Hfp [Hse Het]].
    rewrite Hfp, N.eqb_refl. cbn [negb].
    assert (((r_start d - step <=? t) && (t <=? r_start d)) = false) as ->
      by (apply andb_false_iff; right; apply Z.leb_gt; lia).
    assert (((r_start d <=? t) && (t <=? r_end d + step)) = false) as ->
      by (apply andb_false_iff; right; apply Z.leb_gt; lia).
    rewrite IH; [reflexivity| |exact Hsl|exact Hl]. intros x Hx. apply HD. right. exact Hx.
Qed.

Definition cur_list (fp : N) (cur : option (Z * Z)) : list range :=
  match cur with Some (s, l) => [mkR fp s l] | None => [] end.

Lemma fold_grid fp step pres : 0 < step -> forall n t D cur,
  settled fp step t D ->
  (forall s l, cur = Some (s, l) -> s <= l /\ l + step = t) ->
  append_samples (D ++ cur_list fp cur) fp (filter pres (grid n t step)) step
  = D ++ map (mkr fp) (raw_runs pres (grid n t step) cur).
Proof.
  intros Hs n. induction n as [|n IH]; intros t D cur HD Hcur.
  - cbn [grid filter raw_runs]. unfold append_samples. cbn [fold_left].
    destruct cur as [[s l]|]; reflexivity.
  - cbn [grid filter raw_runs]. destruct (pres t) eqn:Ep.
    + unfold append_samples. cbn [fold_left]. fold (append_samples) .
      change (fold_left (fun d ts => append_sample d fp step ts) ?v ?d0) with (append_samples d0 fp v step).
      destruct cur as [[s l]|].
      * destruct (Hcur s l eq_refl) as [Hsl Hl]. cbn [cur_list].
        unfold append_sample. rewrite (append_one_extend fp step t D s l Hs HD Hsl Hl).
        apply (IH (t + step) D (Some (s, t))).
        -- intros d Hd. destruct (HD d Hd) as [? [? ?]]. repeat split; try assumption; lia.
        -- intros s0 l0 E. inversion E; subst. lia.
      * cbn [cur_list]. rewrite app_nil_r.
        unfold append_sample. rewrite (append_one_settled fp step t D Hs HD).
        apply (IH (t + step) D (Some (t, t))).
        -- intros d Hd. destruct (HD d Hd) as [? [? ?]]. repeat split; try assumption; lia.
        -- intros s0 l0 E. inversion E; subst. lia.
    + destruct cur as [[s l]|].
      * destruct (Hcur s l eq_refl) as [Hsl Hl]. cbn [cur_list map].
        replace (D ++ mkr fp (s, l) :: map (mkr fp) (raw_runs pres (grid n (t + step) step) None))
          with ((D ++ [mkR fp s l]) ++ map (mkr fp) (raw_runs pres (grid n (t + step) step) None))
          by (rewrite <- app_assoc; reflexivity).
        rewrite <- (IH (t + step) (D ++ [mkR fp s l]) None).
        -- cbn [cur_list]. rewrite app_nil_r. reflexivity.
        -- intros d Hd. apply in_app_or in Hd. destruct Hd as [Hd|[Hd|[]]].
           ++ destruct (HD d Hd) as [? [? ?]]. repeat split; try assumption; lia.
           ++ subst d. cbn [r_fp r_start r_end]. repeat split; lia.
        -- intros ? ? E. discriminate.
      * apply (IH (t + step) D None).
        -- intros d Hd. destruct (HD d Hd) as [? [? ?]]. repeat split; try assumption; lia.
        -- intros ? ? E. discriminate.
Qed.

(** (i) of the proof plan: what one slice contributes is exactly the runs of that slice *)
Lemma per_slice_runs step fp pres a b : 0 < step ->
  per_slice1 step fp pres (a, b) = runs_of fp step pres a b.
Proof.
  intros Hs. unfold per_slice1, per_slice, runs_of. cbn [fold_left fst snd].
  unfold server_samples, grid_between.
  pose proof (fold_grid fp step pres Hs (npoints a b step) a [] None) as H.
  cbn [cur_list app] in H. rewrite H.
  - rewrite runs_raw. unfold expand_end. rewrite !map_map. apply map_ext. intros [s l]. reflexivity.
  - intros d [].
  - intros ? ? E. discriminate.
Qed.
