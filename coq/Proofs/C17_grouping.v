(** C17: dedupReports / makeComments — one pending comment per (severity, reporter, target path, lines, anchor),
    carrying the text of every report of that key; the comment line lies inside the report's lines. *)
From Coq Require Import List String ZArith NArith Bool Lia.
From PintV Require Import Common.Bytes Model.CommentsReconcile.
Import ListNotations.
Local Open Scope Z_scope.

Definition gkey (r : creport) := (cr_sev r, cr_reporter r, cr_target r, cr_lfirst r, cr_llast r, cr_anchor_before r).

Lemma same_group_iff d r : same_group d r = true <-> gkey d = gkey r.
Proof.
  unfold same_group, gkey. rewrite !andb_true_iff, !Z.eqb_eq, !String.eqb_eq. split.
  - intros [[[[[-> ->] ->] ->] ->] H]. apply Bool.eqb_prop in H. now rewrite H.
  - intros H. injection H as -> -> -> -> -> ->. repeat split; auto. apply Bool.eqb_reflx.
Qed.

Definition ghk (g : list creport) := match g with h :: _ => Some (gkey h) | [] => None end.

Definition same_msg (a b : creport) : Prop := cr_summary a = cr_summary b /\ cr_details a = cr_details b.

(** groups are non-empty and uniform in their key *)
Definition wf_groups (dst : list (list creport)) : Prop :=
  forall g, In g dst -> exists h t, g = h :: t /\ forall x, In x t -> gkey x = gkey h.

Lemma atg_wf dst r : wf_groups dst -> wf_groups (add_to_groups dst r).
Proof.
  induction dst as [|g rest IH]; intros W g' Hin; cbn [add_to_groups] in Hin.
  - destruct Hin as [<-|[]]. exists r, []. split; auto. intros x [].
  - destruct (W g (or_introl eq_refl)) as (d & t & -> & Hu).
    assert (Wr : wf_groups rest) by (intros x Hx; apply W; now right).
    destruct (same_group d r) eqn:Es.
    + destruct Hin as [<-|Hin]; [|apply W; now right].
      destruct (_ && _); [exists d, t; auto|]. exists d, (t ++ [r])%list. split; auto.
      intros x Hx. apply in_app_or in Hx. destruct Hx as [Hx|[<-|[]]]; auto. symmetry. now apply same_group_iff.
    + destruct Hin as [<-|Hin]; [exists d, t; auto|]. now apply IH.
Qed.

Lemma atg_keys dst r k : wf_groups dst ->
  (In k (map ghk (add_to_groups dst r)) <-> In k (map ghk dst) \/ k = Some (gkey r)).
Proof.
  induction dst as [|g rest IH]; intros W; cbn [add_to_groups].
  - cbn. intuition.
  - destruct (W g (or_introl eq_refl)) as (d & t & -> & Hu).
    assert (Wr : wf_groups rest) by (intros x Hx; apply W; now right).
    destruct (same_group d r) eqn:Es.
    + apply same_group_iff in Es.
      replace (map ghk ((if _ && _ then d :: t else ((d :: t) ++ [r])%list) :: rest)) with (map ghk ((d :: t) :: rest))
        by (destruct (_ && _); reflexivity).
      cbn [map ghk In]. rewrite Es. intuition.
    + cbn [map In]. rewrite (IH Wr). intuition.
Qed.

Lemma atg_nodup dst r : wf_groups dst -> NoDup (map ghk dst) -> NoDup (map ghk (add_to_groups dst r)).
Proof.
  induction dst as [|g rest IH]; intros W ND; cbn [add_to_groups].
  - cbn. constructor; [intros []|constructor].
  - destruct (W g (or_introl eq_refl)) as (d & t & -> & Hu).
    assert (Wr : wf_groups rest) by (intros x Hx; apply W; now right).
    destruct (same_group d r) eqn:Es.
    + replace (map ghk ((if _ && _ then d :: t else ((d :: t) ++ [r])%list) :: rest)) with (map ghk ((d :: t) :: rest))
        by (destruct (_ && _); reflexivity). exact ND.
    + cbn [map] in *. inversion ND as [|? ? Hni ND']; subst. constructor; [|now apply IH].
      rewrite (atg_keys rest r _ Wr). intros [H|H]; [contradiction|].
      assert (Hk : gkey d = gkey r) by (cbn [ghk] in H; congruence). apply same_group_iff in Hk. congruence.
Qed.

(** every earlier member stays, in a group with the same key *)
Lemma atg_mono dst r g x : wf_groups dst -> In g dst -> In x g ->
  exists g', In g' (add_to_groups dst r) /\ ghk g' = ghk g /\ In x g'.
Proof.
  induction dst as [|g0 rest IH]; intros W Hg Hx; [destruct Hg|]. cbn [add_to_groups].
  destruct (W g0 (or_introl eq_refl)) as (d & t & -> & Hu).
  assert (Wr : wf_groups rest) by (intros y Hy; apply W; now right).
  destruct (same_group d r) eqn:Es.
  - destruct Hg as [<-|Hg].
    + eexists. split; [now left|]. destruct (_ && _); split; auto. apply in_or_app. now left.
    + exists g. split; [now right|auto].
  - destruct Hg as [<-|Hg].
    + exists (d :: t). split; [now left|auto].
    + destruct (IH Wr Hg Hx) as (g' & H1 & H2 & H3). exists g'. split; [now right|auto].
Qed.

(** the new report's message is carried by the group of its key *)
Lemma atg_carries dst r : wf_groups dst ->
  exists g', In g' (add_to_groups dst r) /\ ghk g' = Some (gkey r) /\ exists x, In x g' /\ same_msg x r.
Proof.
  induction dst as [|g0 rest IH]; intros W; cbn [add_to_groups].
  - exists [r]. split; [now left|]. split; auto. exists r. split; [now left|split; auto].
  - destruct (W g0 (or_introl eq_refl)) as (d & t & -> & Hu).
    assert (Wr : wf_groups rest) by (intros y Hy; apply W; now right).
    destruct (same_group d r) eqn:Es.
    + apply same_group_iff in Es. destruct (String.eqb (cr_summary d) (cr_summary r) && String.eqb (cr_details d) (cr_details r)) eqn:Em.
      * exists (d :: t). split; [now left|]. split; [cbn; now rewrite Es|].
        apply andb_true_iff in Em. destruct Em as [E1 E2]. apply String.eqb_eq in E1, E2.
        exists d. split; [now left|split; auto].
      * exists ((d :: t) ++ [r])%list. split; [now left|]. split; [cbn; now rewrite Es|].
        exists r. split; [apply in_or_app; right; now left|split; auto].
    + destruct (IH Wr) as (g' & H1 & H2). exists g'. split; [now right|auto].
Qed.

(** members come from the old groups or are the new report *)
Lemma atg_members dst r g' x : In g' (add_to_groups dst r) -> In x g' -> x = r \/ exists g, In g dst /\ In x g.
Proof.
  induction dst as [|g0 rest IH]; cbn [add_to_groups]; intros Hg Hx.
  - destruct Hg as [<-|[]]. destruct Hx as [<-|[]]. now left.
  - destruct g0 as [|d t].
    + destruct Hg as [<-|Hg]; [destruct Hx|]. destruct (IH Hg Hx) as [H|(g & H1 & H2)]; auto. right. exists g. split; auto. now right.
    + destruct (same_group d r).
      * destruct Hg as [<-|Hg]; [|right; exists g'; split; auto; now right].
        destruct (_ && _); [right; exists (d :: t); split; auto; now left|].
        apply in_app_or in Hx. destruct Hx as [Hx|[<-|[]]]; auto. right. exists (d :: t). split; auto. now left.
      * destruct Hg as [<-|Hg]; [right; exists (d :: t); split; auto; now left|].
        destruct (IH Hg Hx) as [H|(g & H1 & H2)]; auto. right. exists g. split; auto. now right.
Qed.

(* ---- dedupReports over a whole list --------------------------------------------------------- *)

Definition considered (sd : bool) (r : creport) : Prop := sd = true \/ cr_is_dup r = false.

Lemma dedup_snoc src r sd :
  dedup_reports (src ++ [r]) sd =
  if negb sd && cr_is_dup r then dedup_reports src sd else add_to_groups (dedup_reports src sd) r.
Proof. unfold dedup_reports. now rewrite fold_left_app. Qed.

Lemma dedup_inv src sd :
  wf_groups (dedup_reports src sd) /\ NoDup (map ghk (dedup_reports src sd)) /\
  (forall g x, In g (dedup_reports src sd) -> In x g -> In x src /\ considered sd x) /\
  (forall r, In r src -> considered sd r ->
     exists g, In g (dedup_reports src sd) /\ ghk g = Some (gkey r) /\ exists x, In x g /\ same_msg x r).
Proof.
  induction src as [|r src IH] using rev_ind.
  - unfold dedup_reports. cbn [fold_left]. split; [intros g []|]. split; [cbn; constructor|].
    split; [intros g x []|intros r []].
  - destruct IH as (W & ND & Hm & Hc). rewrite dedup_snoc.
    destruct (negb sd && cr_is_dup r) eqn:Eskip.
    + split; [exact W|]. split; [exact ND|]. split.
      * intros g x Hg Hx. destruct (Hm g x Hg Hx). split; auto. apply in_or_app. now left.
      * intros r' Hr' Hcons. apply in_app_or in Hr'. destruct Hr' as [Hr'|[<-|[]]]; [now apply Hc|].
        exfalso. apply andb_true_iff in Eskip. destruct Eskip as [E1 E2]. apply negb_true_iff in E1.
        destruct Hcons; congruence.
    + assert (Hcr : considered sd r).
      { unfold considered. destruct sd; cbn in Eskip; auto. }
      split; [now apply atg_wf|]. split; [now apply atg_nodup|]. split.
      * intros g' x Hg Hx. destruct (atg_members _ _ _ _ Hg Hx) as [->|(g0 & Hg0 & Hx0)].
        -- split; [apply in_or_app; right; now left|exact Hcr].
        -- destruct (Hm g0 x Hg0 Hx0). split; auto. apply in_or_app. now left.
      * intros r' Hr' Hcons. apply in_app_or in Hr'. destruct Hr' as [Hr'|[<-|[]]]; [|now apply atg_carries].
        destruct (Hc r' Hr' Hcons) as (g & Hg & Hk & x & Hx & Hmsg).
        destruct (atg_mono _ r g x W Hg Hx) as (g' & H1 & H2 & H3).
        exists g'. split; auto. split; [congruence|]. eauto.
Qed.

(* ---- the comment line -------------------------------------------------------------------------- *)

Lemma last_modified_spec fuel i first modified l :
  last_modified_from fuel i first modified = Some l -> first <= l <= i /\ In l modified.
Proof.
  revert i. induction fuel as [|f IH]; intros i; cbn [last_modified_from]; [discriminate|].
  destruct (i <? first) eqn:E1; [discriminate|]. apply Z.ltb_ge in E1.
  destruct (existsb (Z.eqb i) modified) eqn:E2.
  - intros H. injection H as <-. split; [lia|]. apply existsb_exists in E2. destruct E2 as (x & Hx & E). apply Z.eqb_eq in E. now subst.
  - intros H. apply IH in H. destruct H. split; auto. lia.
Qed.

(** the chosen line is a modified line inside Lines, or Lines.Last *)
Lemma comment_line_spec r :
  (In (comment_line r) (cr_modified r) /\ cr_lfirst r <= comment_line r <= cr_llast r) \/ comment_line r = cr_llast r.
Proof.
  unfold comment_line. destruct (last_modified_from _ _ _ _) as [l|] eqn:E; auto.
  apply last_modified_spec in E. left. tauto.
Qed.

(** makeComments emits exactly one pending comment per group, built from the group's head *)
Lemma make_comments_spec src sd :
  make_comments src sd =
  map (fun g => match g with
                | h :: _ => {| ps_path := cr_target h; ps_line := comment_line h; ps_anchor_before := cr_anchor_before h; ps_members := map cr_id g |}
                | [] => {| ps_path := ""; ps_line := 0; ps_anchor_before := false; ps_members := [] |}
                end) (dedup_reports src sd).
Proof.
  unfold make_comments. destruct (dedup_inv src sd) as (W & _).
  induction (dedup_reports src sd) as [|g rest IH]; cbn [flat_map map]; auto.
  destruct (W g (or_introl eq_refl)) as (h & t & -> & _). cbn [app]. f_equal. apply IH.
  intros x Hx. apply W. now right.
Qed.
