(** C06 lemmas, part 7: the layout relations of block scalars (literal, folded without blank lines) and of
    multi-line plain scalars imply the guard [node_ok]. *)
From Coq Require Import List String Ascii ZArith Bool Lia.
From PintV Require Import Common.Bytes Model.Position Model.Layout Proofs.C06_expand Proofs.C06_match Proofs.C06_styles.
Import ListNotations.
Local Open Scope Z_scope.
Local Open Scope list_scope.

(** ** [gscan] on exact and on foreign bytes *)

Lemma gscan_exact : forall b n r W,
  b <> EmptyString -> String n r = (b ++ W)%string ->
  gscan b n r = (true, match W with EmptyString => None | String c W' => Some (c, W') end).
Proof.
  induction b as [|x b IH]; intros n r W Hb E; [contradiction|].
  cbn [append] in E. inversion E; subst n r. cbn [gscan]. rewrite Ascii.eqb_refl.
  destruct b as [|y b'].
  - cbn [append]. destruct W as [|c W']; [reflexivity|]. reflexivity.
  - cbn [append]. rewrite (IH y (b' ++ W)%string W ltac:(discriminate) eq_refl). reflexivity.
Qed.

Lemma gscan_absent : forall bytes need rest,
  mem_char need bytes = false -> gscan bytes need rest = (false, Some (need, rest)).
Proof.
  induction bytes as [|b bytes IH]; intros need rest H; [reflexivity|].
  cbn [mem_char] in H. apply orb_false_iff in H. destruct H as [H1 H2].
  cbn [gscan]. rewrite H1. apply IH. exact H2.
Qed.

Lemma mem_char_spaces c k : Ascii.eqb c space = false -> mem_char c (spaces k) = false.
Proof. intros H. induction k; cbn; [reflexivity|]. rewrite H. exact IHk. Qed.

(** ** blanks *)

Lemma slen_spaces k : slen (spaces k) = Z.of_nat k.
Proof. unfold slen. induction k; cbn [spaces String.length]; lia. Qed.

Lemma cls_spaces_app k b : count_leading_space (spaces k ++ b) = Z.of_nat k + count_leading_space b.
Proof.
  induction k as [|k IH]; [cbn; lia|].
  cbn [spaces append count_leading_space]. unfold space at 1. rewrite Ascii.eqb_refl. rewrite IH. lia.
Qed.

Lemma sdrop_spaces : forall m k b, (m <= k)%nat -> sdrop m (spaces k ++ b) = (spaces (k - m) ++ b)%string.
Proof.
  induction m as [|m IH]; intros k b H.
  - replace (k - 0)%nat with k by lia. reflexivity.
  - destruct k as [|k]; [lia|]. cbn [spaces append sdrop]. rewrite IH by lia. reflexivity.
Qed.

Lemma cls_le_len s : count_leading_space s <= slen s.
Proof.
  induction s as [|c s IH]; [cbn; unfold slen; cbn; lia|].
  cbn [count_leading_space]. rewrite slen_String. destruct (Ascii.eqb c space); [lia|pose proof (slen_nonneg s); lia].
Qed.

Lemma has_nonspace_cls_app b W :
  has_nonspace b = true -> count_leading_space (b ++ W) = count_leading_space b.
Proof.
  unfold has_nonspace. intros H. apply negb_true_iff in H. apply Nat.eqb_neq in H.
  assert (Hlt : count_leading_space b < slen b).
  { pose proof (cls_le_len b). pose proof (count_leading_space_nonneg b). unfold slen in *. lia. }
  clear H. induction b as [|c b IH]; [cbn in Hlt; unfold slen in Hlt; cbn in Hlt; lia|].
  cbn [append count_leading_space] in *. destruct (Ascii.eqb c space); [|reflexivity].
  rewrite slen_String in Hlt. rewrite IH by lia. reflexivity.
Qed.

Lemma has_nonspace_nonempty b : has_nonspace b = true -> b <> EmptyString.
Proof. intros H E. subst. cbn in H. discriminate. Qed.

(** ** column adjustment on a content line and on the key line *)

Lemma adjust_content indent b W minCol need rest :
  has_nonspace b = true -> minCol - 1 <= Z.of_nat indent -> 1 <= minCol ->
  String need rest = (b ++ W)%string ->
  adjust_col (spaces indent ++ b) minCol need rest = Some (Z.of_nat indent + 1) /\
  sdrop (Z.to_nat (Z.of_nat indent + 1 - 1)) (spaces indent ++ b) = b.
Proof.
  intros Hb Hi Hm E. pose proof (has_nonspace_nonempty b Hb) as Hne.
  assert (Hlb : 1 <= slen b) by (destruct b; [contradiction|rewrite slen_String; pose proof (slen_nonneg b); lia]).
  split.
  - unfold adjust_col. rewrite slen_app, slen_spaces.
    replace (Z.min (Z.of_nat indent + slen b) minCol) with minCol by lia.
    replace (minCol <=? 0) with false by (symmetry; apply Z.leb_gt; lia).
    rewrite sdrop_spaces by lia. rewrite cls_spaces_app. rewrite E, (has_nonspace_cls_app b W Hb).
    set (cb := count_leading_space b).
    destruct (cb <? Z.of_nat (indent - Z.to_nat (minCol - 1)) + cb) eqn:E2.
    + f_equal. lia.
    + apply Z.ltb_ge in E2. f_equal. lia.
  - replace (Z.to_nat (Z.of_nat indent + 1 - 1)) with indent by lia.
    rewrite sdrop_spaces by lia. replace (indent - indent)%nat with 0%nat by lia. reflexivity.
Qed.

Lemma adjust_keyline pre b W need rest :
  b <> EmptyString -> starts_with_space b = false ->
  String need rest = (b ++ W)%string ->
  adjust_col (pre ++ b) (slen pre + 1) need rest = Some (slen pre + 1) /\
  sdrop (Z.to_nat (slen pre + 1 - 1)) (pre ++ b) = b.
Proof.
  intros Hne Hs E.
  assert (Hlb : 1 <= slen b) by (destruct b; [contradiction|rewrite slen_String; pose proof (slen_nonneg b); lia]).
  pose proof (slen_nonneg pre) as Hp.
  assert (Hd : sdrop (Z.to_nat (slen pre + 1 - 1)) (pre ++ b) = b).
  { replace (Z.to_nat (slen pre + 1 - 1)) with (String.length pre) by (unfold slen; lia). apply sdrop_app_length. }
  split; [|exact Hd].
  unfold adjust_col. rewrite slen_app.
  replace (Z.min (slen pre + slen b) (slen pre + 1)) with (slen pre + 1) by lia.
  replace (slen pre + 1 <=? 0) with false by (symmetry; apply Z.leb_gt; lia).
  rewrite Hd.
  assert (Hc0 : count_leading_space b = 0).
  { destruct b as [|c b']; [contradiction|]. cbn in Hs. cbn [count_leading_space]. rewrite Hs. reflexivity. }
  rewrite Hc0. pose proof (count_leading_space_nonneg (String need rest)).
  replace (count_leading_space (String need rest) <? 0) with false by (symmetry; apply Z.ltb_ge; lia).
  reflexivity.
Qed.

(** ** one line carrying a whole segment *)

Lemma segment_line_ok line more col minCol pending b W need rest col2 :
  b <> EmptyString ->
  String need rest = (b ++ W)%string ->
  adjust_col line col need rest = Some col2 ->
  sdrop (Z.to_nat (col2 - 1)) line = b ->
  match W with
  | EmptyString => True
  | String c W' => is_fold_char c = true /\
                   match W' with
                   | EmptyString => c = newline
                   | String n' r' => lay_ok false more minCol minCol (Some c) n' r' = true
                   end
  end ->
  lay_ok false (line :: more) col minCol pending need rest = true.
Proof.
  intros Hne E Hadj Hd HW. cbn [lay_ok andb].
  assert (Hl : slen line =? 0 = false).
  { apply Z.eqb_neq. intros H0. assert (line = EmptyString) by (destruct line; [reflexivity|rewrite slen_String in H0; pose proof (slen_nonneg line); lia]).
    subst line. destruct (Z.to_nat (col2 - 1)); cbn in Hd; congruence. }
  rewrite Hl, Hadj, Hd. rewrite (gscan_exact b need rest W Hne E).
  destruct W as [|c W']; [reflexivity|]. destruct HW as [Hf HW]. rewrite Hf.
  destruct W' as [|n' r']; [subst c; apply Ascii.eqb_refl|exact HW].
Qed.

(** ** after the last segment: only line breaks are left *)

Lemma all_newlines_no_match : forall bytes need rest,
  no_newline_b bytes = true -> Ascii.eqb need newline = true ->
  gscan bytes need rest = (false, Some (need, rest)).
Proof.
  intros bytes need rest Hb Hn. apply gscan_absent. apply Ascii.eqb_eq in Hn. subst need.
  induction bytes as [|b bytes IH]; [reflexivity|].
  cbn [no_newline_b] in Hb. apply andb_true_iff in Hb. destruct Hb as [H1 H2].
  cbn [mem_char]. rewrite Ascii.eqb_sym. apply negb_true_iff in H1. rewrite H1. apply IH. exact H2.
Qed.

Lemma no_newline_b_sdrop : forall n s, no_newline_b s = true -> no_newline_b (sdrop n s) = true.
Proof.
  induction n as [|n IH]; intros s H; [exact H|]. destruct s as [|c s]; [reflexivity|].
  cbn [sdrop]. apply IH. cbn in H. apply andb_true_iff in H. apply H.
Qed.

Lemma tail_ok : forall ls minCol col need rest,
  forallb no_newline_b ls = true -> 1 <= minCol -> 1 <= col ->
  all_newlines (String need rest) = true ->
  lay_ok false ls col minCol (Some newline) need rest = true.
Proof.
  induction ls as [|line more IH]; intros minCol col need rest Hls Hm Hc Hall.
  - cbn [lay_ok andb]. rewrite Ascii.eqb_refl. cbn [andb]. exact Hall.
  - cbn [forallb] in Hls. apply andb_true_iff in Hls. destruct Hls as [Hl Hls].
    cbn [all_newlines] in Hall. apply andb_true_iff in Hall. destruct Hall as [Hn Hr].
    cbn [lay_ok andb].
    assert (Hres : (if slen line =? 0 then Some (false, Some (need, rest))
                    else match adjust_col line col need rest with
                         | None => None
                         | Some col2 => Some (gscan (sdrop (Z.to_nat (col2 - 1)) line) need rest)
                         end) = Some (false, Some (need, rest))).
    { destruct (slen line =? 0) eqn:E0; [reflexivity|].
      apply Z.eqb_neq in E0. pose proof (slen_nonneg line).
      unfold adjust_col. destruct (Z.min (slen line) col <=? 0) eqn:E1; [apply Z.leb_le in E1; lia|].
      f_equal. apply all_newlines_no_match; [apply no_newline_b_sdrop; exact Hl|exact Hn]. }
    rewrite Hres.
    assert (Hf : is_fold_char need = true) by (unfold is_fold_char; rewrite Hn; apply orb_true_r).
    rewrite Hf. destruct rest as [|n' r']; [exact Hn|].
    apply Ascii.eqb_eq in Hn. subst need. apply IH; assumption.
Qed.

(** ** the items of a block scalar *)

Lemma repeat_char_newlines k : all_newlines (repeat_char newline k) = true.
Proof. induction k; cbn [repeat_char all_newlines]; [reflexivity|]. rewrite Ascii.eqb_refl. exact IHk. Qed.

Lemma block_sep_fold literal : is_fold_char (block_sep literal) = true.
Proof. destruct literal; reflexivity. Qed.

Lemma spaces_no_newline k : no_newline_b (spaces k) = true.
Proof. induction k; cbn; [reflexivity|exact IHk]. Qed.

Lemma block_items_ok literal indent minCol after tail : forall items c W',
  minCol - 1 <= Z.of_nat indent -> 1 <= minCol ->
  forallb no_newline_b after = true ->
  items_ok literal items = true ->
  String c W' = vsuffix (block_sep literal) items tail ->
  is_fold_char c = true /\
  match W' with
  | EmptyString => c = newline
  | String n' r' => lay_ok false (map (item_line indent) items ++ after) minCol minCol (Some c) n' r' = true
  end.
Proof.
  induction items as [|it items IH]; intros c W' Hi Hm Haf Hok E.
  - (* only the chomping tail is left *)
    cbn [vsuffix] in E. destruct tail as [|t]; [discriminate|]. cbn [repeat_char] in E. inversion E; subst c W'.
    split; [reflexivity|]. destruct t as [|t]; [reflexivity|]. cbn [repeat_char map app].
    apply tail_ok; try assumption. exact (repeat_char_newlines (S t)).
  - cbn [vsuffix] in E. inversion E; subst c W'. split; [apply block_sep_fold|].
    destruct it as [b|n].
    + (* a content line *)
      cbn [items_ok] in Hok. apply andb_true_iff in Hok. destruct Hok as [Hok Hr].
      apply andb_true_iff in Hok. destruct Hok as [Hb _].
      pose proof (has_nonspace_nonempty b Hb) as Hne.
      cbn [item_text]. destruct b as [|n0 r0]; [contradiction|]. cbn [append map app item_line].
      destruct (adjust_content indent (String n0 r0) (vsuffix (block_sep literal) items tail) minCol n0
                               (r0 ++ vsuffix (block_sep literal) items tail)%string Hb Hi Hm eq_refl) as [Ha Hd].
      eapply segment_line_ok with (b := String n0 r0) (W := vsuffix (block_sep literal) items tail);
        [discriminate|reflexivity|exact Ha|exact Hd|].
      destruct (vsuffix (block_sep literal) items tail) as [|c2 W2] eqn:Ev; [exact I|].
      apply (IH c2 W2 Hi Hm Haf Hr). reflexivity.
    + (* a blank line inside a literal block *)
      cbn [items_ok] in Hok. apply andb_true_iff in Hok. destruct Hok as [Hok Hr].
      apply andb_true_iff in Hok. destruct Hok as [Hlit Hnl]. subst literal.
      destruct items as [|it2 items2]; [discriminate|].
      cbn [item_text append]. cbn [map app item_line].
      remember (vsuffix (block_sep true) (it2 :: items2) tail) as V eqn:Ev.
      destruct V as [|c2 W2]; [cbn in Ev; discriminate|].
      destruct (IH c2 W2 Hi Hm Haf Hr eq_refl) as [Hf2 Hrest].
      assert (Ec2 : c2 = newline) by (cbn in Ev; inversion Ev; reflexivity). subst c2.
      cbn [lay_ok andb].
      assert (Hres : (if slen (spaces n) =? 0 then Some (false, Some (newline, W2))
                      else match adjust_col (spaces n) minCol newline W2 with
                           | None => None
                           | Some col2 => Some (gscan (sdrop (Z.to_nat (col2 - 1)) (spaces n)) newline W2)
                           end) = Some (false, Some (newline, W2))).
      { destruct (slen (spaces n) =? 0) eqn:E0; [reflexivity|].
        apply Z.eqb_neq in E0. pose proof (slen_nonneg (spaces n)).
        unfold adjust_col. destruct (Z.min (slen (spaces n)) minCol <=? 0) eqn:E1; [apply Z.leb_le in E1; lia|].
        f_equal. apply all_newlines_no_match; [apply no_newline_b_sdrop; apply spaces_no_newline|reflexivity]. }
      rewrite Hres. replace (is_fold_char newline) with true by reflexivity.
      destruct W2 as [|n' r']; [reflexivity|]. exact Hrest.
Qed.

Lemma skipn_app_exact {A} (pre l : list A) : skipn (List.length pre) (pre ++ l) = l.
Proof. induction pre; [reflexivity|]. cbn. exact IHpre. Qed.

(** ** Block scalars *)

Lemma skipn_app_succ {A} (pre : list A) x l : skipn (S (List.length pre)) (pre ++ x :: l) = l.
Proof. induction pre; [reflexivity|]. cbn [List.length app skipn]. exact IHpre. Qed.

Theorem block_node_ok : forall literal b minCol,
  block_ok literal b minCol = true ->
  node_ok (bl_lines b) (bl_node literal b) minCol = true.
Proof.
  intros literal b minCol H. unfold block_ok in H.
  repeat (apply andb_true_iff in H; destruct H as [H ?]).
  rename H into Hnn, H0 into Haf, H1 into Hitems, H2 into Hm, H3 into Hi, H4 into Hns.
  apply Z.leb_le in Hm. apply Z.leb_le in Hi.
  pose proof (has_nonspace_nonempty _ Hns) as Hne.
  unfold node_ok, bl_node. cbn [sn_value sn_line sn_col sn_block sn_anchor sn_dq].
  unfold bl_value in *. destruct (bl_first b) as [|f fr] eqn:Ef; [contradiction|]. cbn [append] in *.
  rewrite Hnn. cbn [andb].
  replace (0 <=? Z.of_nat (List.length (bl_pre b)) + 1) with true by (symmetry; apply Z.leb_le; lia).
  cbn [andb]. unfold bl_lines.
  replace (Z.to_nat (Z.of_nat (List.length (bl_pre b)) + 1)) with (S (List.length (bl_pre b))) by lia.
  rewrite skipn_app_succ. rewrite Ef.
  (* the first content line *)
  set (V := (fr ++ vsuffix (block_sep literal) (bl_items b) (bl_tail b))%string).
  assert (Hns' : has_nonspace (String f fr) = true) by exact Hns.
  destruct (adjust_content (bl_indent b) (String f fr) (vsuffix (block_sep literal) (bl_items b) (bl_tail b)) minCol f V
                           Hns' Hi Hm eq_refl) as [Ha Hdc].
  eapply segment_line_ok with (b := String f fr) (W := vsuffix (block_sep literal) (bl_items b) (bl_tail b));
    [discriminate|reflexivity|exact Ha|exact Hdc|].
  destruct (vsuffix (block_sep literal) (bl_items b) (bl_tail b)) as [|c2 W2] eqn:Ev; [exact I|].
  apply (block_items_ok literal (bl_indent b) minCol (bl_after b) (bl_tail b) (bl_items b) c2 W2 Hi Hm Haf Hitems).
  symmetry. exact Ev.
Qed.

(** ** Folded blocks with blank lines *)

Lemma mem_char_sdrop c : forall k s, mem_char c s = false -> mem_char c (sdrop k s) = false.
Proof.
  induction k as [|k IH]; intros s H; [exact H|]. destruct s as [|x s]; [reflexivity|].
  cbn [sdrop]. apply IH. cbn [mem_char] in H. apply orb_false_iff in H. apply H.
Qed.

(** a blank line (spaces only) on which the needed byte is not a space: nothing matches *)
Lemma blank_line_res n minCol need rest :
  1 <= minCol -> Ascii.eqb need space = false ->
  (if slen (spaces n) =? 0 then Some (false, Some (need, rest))
   else match adjust_col (spaces n) minCol need rest with
        | None => None
        | Some col2 =>
            if false && negb (no_backslash_b (sdrop (Z.to_nat (col2 - 1)) (spaces n))) then None
            else Some (gscan (sdrop (Z.to_nat (col2 - 1)) (spaces n)) need rest)
        end) = Some (false, Some (need, rest)).
Proof.
  intros Hm Hns. destruct (slen (spaces n) =? 0) eqn:E0; [reflexivity|].
  apply Z.eqb_neq in E0. pose proof (slen_nonneg (spaces n)).
  unfold adjust_col. destruct (Z.min (slen (spaces n)) minCol <=? 0) eqn:E1; [apply Z.leb_le in E1; lia|].
  cbn [andb]. f_equal. apply gscan_absent. apply mem_char_sdrop. apply mem_char_spaces. exact Hns.
Qed.

Lemma fold_items_lay indent minCol after tail : forall items pb c W',
  minCol - 1 <= Z.of_nat indent -> 1 <= minCol ->
  forallb no_newline_b after = true ->
  fold_items_ok items = true ->
  String c W' = vsuffix_fold pb items tail ->
  match pb, items with
  | true, Body _ :: _ =>
      lay_ok false (map (item_line indent) items ++ after) minCol minCol None c W' = true
  | _, _ =>
      is_fold_char c = true /\
      match W' with
      | EmptyString => c = newline
      | String n' r' => lay_ok false (map (item_line indent) items ++ after) minCol minCol (Some c) n' r' = true
      end
  end.
Proof.
  induction items as [|it items IH]; intros pb c W' Hi Hm Haf Hok E.
  - (* only the chomping tail is left *)
    cbn [vsuffix_fold] in E. destruct tail as [|t]; [discriminate|]. cbn [repeat_char] in E. inversion E; subst c W'.
    assert (G : is_fold_char newline = true /\
                match repeat_char newline t with
                | EmptyString => newline = newline
                | String n' r' => lay_ok false (map (item_line indent) [] ++ after) minCol minCol (Some newline) n' r' = true
                end).
    { split; [reflexivity|]. destruct t as [|t]; [reflexivity|]. cbn [repeat_char map app].
      apply tail_ok; try assumption. exact (repeat_char_newlines (S t)). }
    destruct pb; exact G.
  - destruct it as [b|n].
    + (* a content line *)
      cbn [fold_items_ok] in Hok. apply andb_true_iff in Hok. destruct Hok as [Hok Hr].
      apply andb_true_iff in Hok. destruct Hok as [Hb Hnf].
      pose proof (has_nonspace_nonempty b Hb) as Hne. destruct b as [|n0 r0]; [contradiction|].
      set (V := vsuffix_fold false items tail) in *.
      assert (Hline : forall pending, lay_ok false (map (item_line indent) (Body (String n0 r0) :: items) ++ after)
                                        minCol minCol pending n0 (r0 ++ V) = true).
      { intros pending. cbn [map app item_line].
        destruct (adjust_content indent (String n0 r0) V minCol n0 (r0 ++ V)%string Hb Hi Hm eq_refl) as [Ha Hd].
        eapply segment_line_ok with (b := String n0 r0) (W := V); [discriminate|reflexivity|exact Ha|exact Hd|].
        destruct V as [|c2 W2] eqn:Ev; [exact I|].
        specialize (IH false c2 W2 Hi Hm Haf Hr). rewrite <- Ev in IH. specialize (IH eq_refl).
        destruct items; exact IH. }
      cbn [vsuffix_fold] in E. fold V in E. destruct pb.
      * cbn [append] in E. inversion E; subst c W'. apply Hline.
      * cbn [append] in E. inversion E; subst c W'. split; [reflexivity|]. apply Hline.
    + (* a blank line *)
      cbn [fold_items_ok] in Hok. apply andb_true_iff in Hok. destruct Hok as [Hnl Hr].
      cbn [vsuffix_fold] in E. inversion E; subst c W'.
      assert (G : is_fold_char newline = true /\
                  match vsuffix_fold true items tail with
                  | EmptyString => newline = newline
                  | String n' r' => lay_ok false (map (item_line indent) (Blank n :: items) ++ after) minCol minCol (Some newline) n' r' = true
                  end).
      { split; [reflexivity|].
        destruct items as [|it2 items2]; [discriminate|].
        remember (vsuffix_fold true (it2 :: items2) tail) as V eqn:Ev.
        destruct V as [|c2 W2]; [reflexivity|].
        pose proof (IH true c2 W2 Hi Hm Haf Hr Ev) as IH2.
        cbn [map app item_line]. cbn [lay_ok].
        destruct it2 as [b2|m2].
        - (* the next line is a content line: its first byte is not found on the blank line, nothing is consumed *)
          cbn [fold_items_ok] in Hr. apply andb_true_iff in Hr. destruct Hr as [Hr1 _].
          apply andb_true_iff in Hr1. destruct Hr1 as [Hb2 Hnf2]. apply negb_true_iff in Hnf2.
          pose proof (has_nonspace_nonempty b2 Hb2) as Hne2. destruct b2 as [|x2 y2]; [contradiction|].
          cbn [vsuffix_fold append] in Ev. inversion Ev; subst c2 W2.
          cbn [starts_with_fold_char] in Hnf2.
          assert (Hx : Ascii.eqb x2 space = false).
          { unfold is_fold_char in Hnf2. apply orb_false_iff in Hnf2. apply Hnf2. }
          rewrite (blank_line_res n minCol x2 _ Hm Hx). rewrite Hnf2. exact IH2.
        - (* another blank line follows: this line's break stands for the next line break of the value *)
          cbn [vsuffix_fold] in Ev. inversion Ev; subst c2 W2.
          assert (Hres : (if slen (spaces n) =? 0 then Some (false, Some (newline, vsuffix_fold true items2 tail))
                          else match adjust_col (spaces n) minCol newline (vsuffix_fold true items2 tail) with
                               | None => None
                               | Some col2 =>
                                   if false && negb (no_backslash_b (sdrop (Z.to_nat (col2 - 1)) (spaces n))) then None
                                   else Some (gscan (sdrop (Z.to_nat (col2 - 1)) (spaces n)) newline (vsuffix_fold true items2 tail))
                               end) = Some (false, Some (newline, vsuffix_fold true items2 tail))).
          { apply blank_line_res; [exact Hm|reflexivity]. }
          rewrite Hres. replace (is_fold_char newline) with true by reflexivity.
          destruct IH2 as [_ IH2]. destruct (vsuffix_fold true items2 tail) as [|n' r']; [reflexivity|exact IH2]. }
      destruct pb; exact G.
Qed.

Theorem fold_node_ok : forall b minCol,
  fold_ok b minCol = true ->
  node_ok (bl_lines b) (bl_node_fold b) minCol = true.
Proof.
  intros b minCol H. unfold fold_ok in H.
  repeat (apply andb_true_iff in H; destruct H as [H ?]).
  rename H into Hnn, H0 into Haf, H1 into Hitems, H2 into Hm, H3 into Hi, H4 into Hnf, H5 into Hns.
  apply Z.leb_le in Hm. apply Z.leb_le in Hi.
  pose proof (has_nonspace_nonempty _ Hns) as Hne.
  unfold node_ok, bl_node_fold. cbn [sn_value sn_line sn_col sn_block sn_anchor sn_dq].
  unfold bl_value_fold in *. destruct (bl_first b) as [|f fr] eqn:Ef; [contradiction|]. cbn [append] in *.
  rewrite Hnn. cbn [andb].
  replace (0 <=? Z.of_nat (List.length (bl_pre b)) + 1) with true by (symmetry; apply Z.leb_le; lia).
  cbn [andb]. unfold bl_lines.
  replace (Z.to_nat (Z.of_nat (List.length (bl_pre b)) + 1)) with (S (List.length (bl_pre b))) by lia.
  rewrite skipn_app_succ. rewrite Ef.
  set (V := vsuffix_fold false (bl_items b) (bl_tail b)).
  assert (Hns' : has_nonspace (String f fr) = true) by exact Hns.
  destruct (adjust_content (bl_indent b) (String f fr) V minCol f (fr ++ V)%string Hns' Hi Hm eq_refl) as [Ha Hdc].
  eapply segment_line_ok with (b := String f fr) (W := V); [discriminate|reflexivity|exact Ha|exact Hdc|].
  destruct V as [|c2 W2] eqn:Ev; [exact I|].
  pose proof (fold_items_lay (bl_indent b) minCol (bl_after b) (bl_tail b) (bl_items b) false c2 W2 Hi Hm Haf Hitems) as HL.
  unfold V in Ev. rewrite <- Ev in HL. specialize (HL eq_refl). destruct (bl_items b); exact HL.
Qed.

(** ** Multi-line plain scalars *)

Lemma pm_more_ok minCol after : forall more c W',
  1 <= minCol ->
  forallb (fun ks => has_nonspace (snd ks) && negb (starts_with_space (snd ks)) &&
                     (minCol - 1 <=? Z.of_nat (fst ks))) more = true ->
  String c W' = pm_suffix more ->
  is_fold_char c = true /\
  match W' with
  | EmptyString => c = newline
  | String n' r' => lay_ok false (map (fun ks => (spaces (fst ks) ++ snd ks)%string) more ++ after) minCol minCol (Some c) n' r' = true
  end.
Proof.
  induction more as [|[k seg] more IH]; intros c W' Hm Hok E; [discriminate|].
  cbn [pm_suffix snd] in E. inversion E; subst c W'. split; [reflexivity|].
  cbn [forallb fst snd] in Hok. apply andb_true_iff in Hok. destruct Hok as [Hk Hr].
  apply andb_true_iff in Hk. destruct Hk as [Hk Hi]. apply andb_true_iff in Hk. destruct Hk as [Hns _].
  apply Z.leb_le in Hi.
  pose proof (has_nonspace_nonempty seg Hns) as Hne. destruct seg as [|n0 r0]; [contradiction|].
  cbn [append map app fst snd].
  destruct (adjust_content k (String n0 r0) (pm_suffix more) minCol n0 (r0 ++ pm_suffix more)%string Hns Hi Hm eq_refl) as [Ha Hd].
  eapply segment_line_ok with (b := String n0 r0) (W := pm_suffix more);
    [discriminate|reflexivity|exact Ha|exact Hd|].
  destruct (pm_suffix more) as [|c2 W2] eqn:Ev; [exact I|].
  apply (IH c2 W2 Hm Hr). reflexivity.
Qed.

Lemma first_col_plain pre rest v l :
  ascii_only pre = true ->
  first_col (pre ++ rest) (mksn v l (slen pre + 1) false EmptyString false) = slen pre + 1.
Proof. intros Ha. unfold first_col. cbn [sn_col sn_anchor]. apply byte_column_ascii. exact Ha. Qed.

Theorem plain_ml_node_ok : forall p minCol,
  pm_ok p minCol = true -> node_ok (pm_lines p) (pm_node p) minCol = true.
Proof.
  intros p minCol H. unfold pm_ok in H.
  repeat (apply andb_true_iff in H; destruct H as [H ?]).
  rename H into Hnn, H0 into Hmore, H1 into Hm, H2 into Hsp, H3 into Hns, H4 into Hasc.
  apply negb_true_iff in Hsp. apply Z.leb_le in Hm.
  pose proof (has_nonspace_nonempty _ Hns) as Hne.
  unfold node_ok, pm_node, mksn0. cbn [sn_value sn_line sn_col sn_block sn_anchor sn_dq].
  unfold pm_value in *.
  destruct (pm_first p) as [|f fr] eqn:Ef; [contradiction|]. cbn [append] in *.
  rewrite Hnn. cbn [andb].
  replace (1 <=? Z.of_nat (List.length (pm_pre p)) + 1) with true by (symmetry; apply Z.leb_le; lia).
  cbn [andb]. unfold pm_lines.
  replace (Z.to_nat (Z.of_nat (List.length (pm_pre p)) + 1 - 1)) with (List.length (pm_pre p)) by lia.
  rewrite skipn_app_exact. rewrite Ef. cbv zeta.
  assert (Hl0 : slen (pm_keyline_pre p ++ String f fr) =? 0 = false).
  { apply Z.eqb_neq. rewrite slen_app, slen_String. pose proof (slen_nonneg (pm_keyline_pre p)). pose proof (slen_nonneg fr). lia. }
  rewrite Hl0. rewrite (first_col_plain _ _ _ _ Hasc).
  destruct (adjust_keyline (pm_keyline_pre p) (String f fr) (pm_suffix (pm_more p)) f (fr ++ pm_suffix (pm_more p))%string
                           ltac:(discriminate) Hsp eq_refl) as [Ha Hd].
  eapply segment_line_ok with (b := String f fr) (W := pm_suffix (pm_more p));
    [discriminate|reflexivity|exact Ha|exact Hd|].
  destruct (pm_suffix (pm_more p)) as [|c2 W2] eqn:Ev; [exact I|].
  apply (pm_more_ok minCol (pm_after p) (pm_more p) c2 W2 Hm Hmore). symmetry. exact Ev.
Qed.
