(** C15 — fault SEQUENCES (the same group asked again after upstreams changed their behaviour) and range queries
    cut into several slices.  Additive to Proofs/C15_failover.v. *)
From Coq Require Import List String ZArith Bool Arith Lia.
From PintV Require Import Common.Bytes Gen.Tables Gen.C15 Model.Failover Proofs.C15_failover.
Import ListNotations.
Open Scope string_scope.
Open Scope list_scope.

(** * Errors leave no trace in the client state *)

(** an attempt that fails with anything but "unsupported API" leaves the upstream's client state untouched *)
Lemma after_fresh_unavailable ep r m :
  property_unavailable ep r = true -> after ep (fresh r m) = fresh r m.
Proof.
  intros HU. pose proof (unavailable_not_404 ep r HU) as H4.
  pose proof (run_query_unavailable ep m r) as HA. pose proof (run_query_unsupported ep m r) as HN.
  rewrite HU in HA. rewrite H4 in HN.
  unfold after, process_job, fresh. cbn [u_cached u_disabled u_resp u_marker]. rewrite andb_false_r.
  destruct (run_query ep m r) as [mm|e]; cbn [attempt_unavailable attempt_unsupported] in HA, HN; [discriminate|].
  rewrite HN. reflexivity.
Qed.

Lemma after_fresh_answer_state ep r m a :
  run_query ep m r = AAnswer a -> after ep (fresh r m) = mk_upstream r m false (Some a).
Proof.
  intros ER. unfold after, process_job, fresh. cbn [u_cached u_disabled u_resp u_marker].
  rewrite andb_false_r, ER. reflexivity.
Qed.

Lemma map_after_unavailable ep : forall rs,
  (forall r m, In (r, m) rs -> property_unavailable ep r = true) ->
  map (after ep) (fresh_group rs) = fresh_group rs.
Proof.
  induction rs as [|[r m] rs IH]; intros H; [reflexivity|].
  unfold fresh_group in *. cbn [map fst snd]. rewrite after_fresh_unavailable by (apply (H r m); left; reflexivity).
  f_equal. apply IH. intros r' m' Hin. apply (H r' m'). right. exact Hin.
Qed.

Lemma firstn_S_nth {A} (l : list A) : forall k x, nth_error l k = Some x -> firstn (S k) l = firstn k l ++ [x].
Proof.
  induction l as [|y l IH]; intros k x H; [destruct k; discriminate|].
  destruct k; cbn in H.
  - injection H as ->. reflexivity.
  - cbn [firstn app]. f_equal. apply IH. exact H.
Qed.

(** The exact client state after a call on a fresh group that upstream [k] answered behind unavailable upstreams:
    nothing is remembered about the upstreams that failed, upstream [k] holds its own answer, nobody else changed. *)
Lemma state_after_answer ep rs k resp marker a :
  nth_error rs k = Some (resp, marker) ->
  (forall j rj mj, j < k -> nth_error rs j = Some (rj, mj) -> property_unavailable ep rj = true) ->
  run_query ep marker resp = AAnswer a ->
  fo_state (failover ep (fresh_group rs)) =
    fresh_group (firstn k rs) ++ [mk_upstream resp marker false (Some a)] ++ fresh_group (skipn (S k) rs).
Proof.
  intros Hn Hb ER.
  assert (Hs : skips ep resp = false).
  { pose proof (retry_fresh ep resp marker) as HR. rewrite att_fresh, ER in HR. cbn in HR. symmetry. exact HR. }
  destruct (failover_from_stops ep (fresh_group rs) 0 ONoServers k (fresh resp marker)) as [_ [_ H3]].
  { rewrite nth_error_fresh_group, Hn. reflexivity. }
  { intros j uj Hj Hnj. rewrite nth_error_fresh_group in Hnj.
    destruct (nth_error rs j) as [[rj mj]|] eqn:E; [|discriminate]. cbn in Hnj. injection Hnj as <-.
    cbn [fst snd]. rewrite retry_fresh. rewrite (Hb j rj mj Hj E). reflexivity. }
  { rewrite retry_fresh. exact Hs. }
  unfold failover. rewrite H3. rewrite firstn_fresh_group.
  rewrite (firstn_S_nth rs k (resp, marker) Hn).
  unfold fresh_group at 1. rewrite map_app, map_app. fold (fresh_group (firstn k rs)).
  rewrite map_after_unavailable.
  - cbn [map fst snd]. rewrite (after_fresh_answer_state ep resp marker a ER).
    rewrite <- app_assoc. f_equal. cbn [app]. f_equal. unfold fresh_group. rewrite skipn_map. reflexivity.
  - intros r m Hin. apply In_nth_error in Hin. destruct Hin as [j Hj].
    assert (Hjk : j < k).
    { assert (j < List.length (firstn k rs)) by (apply nth_error_Some; rewrite Hj; discriminate).
      rewrite firstn_length in H. lia. }
    rewrite nth_error_firstn_lt in Hj by exact Hjk. exact (Hb j r m Hjk Hj).
Qed.

(** [set_resps] pointwise *)
Lemma nth_error_set_resps : forall ups rs j,
  nth_error (set_resps ups rs) j =
    match nth_error ups j with
    | None => None
    | Some u => match nth_error rs j with Some r => Some (set_resp u r) | None => Some u end
    end.
Proof.
  induction ups as [|u ups IH]; intros rs j.
  - destruct rs; destruct j; reflexivity.
  - destruct rs as [|r rs].
    + cbn [set_resps]. destruct (nth_error (u :: ups) j); [|reflexivity]. destruct j; reflexivity.
    + destruct j; cbn [set_resps nth_error]; [reflexivity|]. apply IH.
Qed.

Lemma set_resps_length : forall ups rs, List.length (set_resps ups rs) = List.length ups.
Proof. induction ups as [|u ups IH]; intros [|r rs]; cbn [set_resps List.length]; try reflexivity. rewrite IH. reflexivity. Qed.

Lemma nth_error_app_mid {A} (l1 : list A) x l2 : nth_error (l1 ++ [x] ++ l2) (List.length l1) = Some x.
Proof. rewrite nth_error_app2 by lia. rewrite Nat.sub_diag. reflexivity. Qed.

Lemma contacts_all_fresh ep : forall n l,
  (forall j, j <= n -> exists r m, nth_error l j = Some (fresh r m)) ->
  map (contacts ep) (firstn (S n) l) = repeat 1 (S n).
Proof.
  induction n as [|n IH]; intros l Hall.
  - destruct (Hall 0 (le_n 0)) as [r [m H0]]. destruct l as [|u l]; [discriminate|]. cbn in H0. injection H0 as ->.
    cbn. rewrite contacts_fresh_1. reflexivity.
  - destruct (Hall 0 (Nat.le_0_l _)) as [r [m H0]]. destruct l as [|u l]; [discriminate|]. cbn in H0. injection H0 as ->.
    change (firstn (S (S n)) (fresh r m :: l)) with (fresh r m :: firstn (S n) l).
    cbn [map]. rewrite contacts_fresh_1. change (repeat 1 (S (S n))) with (1 :: repeat 1 (S n)). f_equal. apply IH.
    intros j Hj. destruct (Hall (S j)) as [r' [m' H']]; [lia|]. exists r', m'. exact H'.
Qed.

(** Recovery.  First call: upstreams [0..k-1] unavailable, [k] answers.  Then upstream [j0 < k] comes back (its new
    response [r0'] yields the answer [a0]) while the upstreams in front of it are still unavailable; whatever the
    others do now.  The second call on the same group is answered by [j0] with [j0]'s own fresh answer — the earlier
    failure is not remembered and the cached answer of [k] is not used in its place; [0..j0] get one request each, every
    later upstream none. *)
Lemma recovered_upstream_answers ep rs k resp marker a j0 r0 m0 r0' a0 rs2 :
  nth_error rs k = Some (resp, marker) ->
  (forall j rj mj, j < k -> nth_error rs j = Some (rj, mj) -> property_unavailable ep rj = true) ->
  run_query ep marker resp = AAnswer a ->
  j0 < k -> nth_error rs j0 = Some (r0, m0) ->
  nth_error rs2 j0 = Some r0' -> run_query ep m0 r0' = AAnswer a0 ->
  (forall j rj, j < j0 -> nth_error rs2 j = Some rj -> property_unavailable ep rj = true) ->
  List.length rs2 = List.length rs ->
  let st := fo_state (failover ep (fresh_group rs)) in
  let r2 := failover ep (set_resps st rs2) in
  fo_outcome r2 = OAnswer j0 a0 /\
  fo_contacts r2 = repeat 1 (S j0) ++ repeat 0 (List.length rs - S j0).
Proof.
  intros Hn Hb ER Hj0 Hn0 Hn2 ER0 Hb2 Hlen st r2.
  assert (Hk : k < List.length rs) by (apply nth_error_Some; rewrite Hn; discriminate).
  assert (Hst : st = fresh_group (firstn k rs) ++ [mk_upstream resp marker false (Some a)] ++ fresh_group (skipn (S k) rs))
    by (apply state_after_answer; assumption).
  (* the state in front of k is fresh *)
  assert (Hfront : forall j, j < k -> nth_error st j = option_map (fun p => fresh (fst p) (snd p)) (nth_error rs j)).
  { intros j Hj. rewrite Hst, nth_error_app1.
    - rewrite nth_error_fresh_group, nth_error_firstn_lt by exact Hj. reflexivity.
    - unfold fresh_group. rewrite map_length, firstn_length. lia. }
  assert (Hlenst : List.length st = List.length rs).
  { unfold st, failover. destruct (failover_from_length ep (fresh_group rs) 0 ONoServers) as [_ H]. rewrite H.
    unfold fresh_group. apply map_length. }
  assert (Hs0 : skips ep r0' = false).
  { pose proof (retry_fresh ep r0' m0) as HR. rewrite att_fresh, ER0 in HR. cbn in HR. symmetry. exact HR. }
  destruct (failover_from_stops ep (set_resps st rs2) 0 ONoServers j0 (fresh r0' m0)) as [H1 [H2 _]].
  { rewrite nth_error_set_resps, (Hfront j0 Hj0), Hn0, Hn2. reflexivity. }
  { intros j uj Hj Hnj. rewrite nth_error_set_resps, (Hfront j) in Hnj by lia.
    destruct (nth_error rs j) as [[rj mj]|] eqn:E.
    - cbn [option_map fst snd] in Hnj.
      destruct (nth_error rs2 j) as [rj2|] eqn:E2.
      + injection Hnj as <-. change (set_resp (fresh rj mj) rj2) with (fresh rj2 mj).
        rewrite retry_fresh, (Hb2 j rj2 Hj E2). reflexivity.
      + exfalso. apply nth_error_None in E2. assert (j < List.length rs) by (apply nth_error_Some; rewrite E; discriminate). lia.
    - discriminate. }
  { rewrite retry_fresh. exact Hs0. }
  split.
  - unfold r2, failover. rewrite H1. cbn [Nat.add]. rewrite att_fresh_unchanged by exact Hs0. rewrite ER0. reflexivity.
  - unfold r2, failover. rewrite H2, set_resps_length, Hlenst. f_equal.
    (* each of the first j0+1 upstreams of the second call is a fresh upstream: one request *)
    assert (Hall : forall j, j <= j0 -> exists r m, nth_error (set_resps st rs2) j = Some (fresh r m)).
    { intros j Hj. rewrite nth_error_set_resps, (Hfront j) by lia.
      destruct (nth_error rs j) as [[rj mj]|] eqn:E.
      - cbn [option_map fst snd]. destruct (nth_error rs2 j) as [rj2|]; [exists rj2, mj | exists rj, mj]; reflexivity.
      - exfalso. apply nth_error_None in E. lia. }
    apply contacts_all_fresh. exact Hall.
Qed.

(** * Range queries cut into slices

    [Prometheus.RangeQuery] fetches the slices of a window separately from ONE upstream and fails as soon as one slice
    fails, with that slice's error (when several fail, the error reported last wins: [pick] stands for the schedule).
    Otherwise the merged answer carries only this upstream's data. *)
Definition slices_attempt (pick : list attempt -> option perr) (marker : string) (rs : list response) : attempt :=
  match pick (map (run_query ERange marker) rs) with
  | Some e => AErr e
  | None => AAnswer marker
  end.

(** what every schedule satisfies: an error is reported iff some slice failed, and it is one of the slices' errors *)
Definition pick_ok (pick : list attempt -> option perr) : Prop :=
  forall l, match pick l with
            | Some e => In (AErr e) l
            | None => forall a, In a l -> exists m, a = AAnswer m
            end.

Lemma range_answer_is_marker marker r m : run_query ERange marker r = AAnswer m -> m = marker.
Proof.
  destruct r as [t|status b]; cbn [run_query]; [discriminate|].
  destruct (Z.eqb (status / 100) 2); [|discriminate].
  destruct b as [|st et msg p]; cbn [stream_result]; [discriminate|].
  destruct (negb (String.eqb st "success")); [discriminate|].
  destruct p; intro H; try discriminate; injection H as <-; reflexivity.
Qed.

Lemma range_never_unsupported marker r e : run_query ERange marker r = AErr e -> is_unsupported_error e = false.
Proof.
  intro H. pose proof (run_query_unsupported ERange marker r) as HS. rewrite H in HS. cbn [attempt_unsupported] in HS.
  rewrite HS. destruct r as [t|status b]; [reflexivity|]. cbn [unsupported_404 config_like]. apply andb_false_r.
Qed.

(** A range query over several slices has exactly the result of a one-slice query on a fresh upstream whose response
    is one of the slices' responses — a failing one whenever some slice fails.  Hence every theorem about the retry
    loop applies to multi-slice queries: one failing slice makes the whole upstream fail over (or stop) as if it had
    failed entirely. *)
Lemma slices_collapse pick marker rs :
  pick_ok pick -> rs <> [] ->
  exists r, In r rs /\ slices_attempt pick marker rs = att ERange (fresh r marker) /\
            ((exists r' e, In r' rs /\ run_query ERange marker r' = AErr e) -> exists e, run_query ERange marker r = AErr e).
Proof.
  intros Hp Hne. unfold slices_attempt. specialize (Hp (map (run_query ERange marker) rs)).
  destruct (pick (map (run_query ERange marker) rs)) as [e|].
  - apply in_map_iff in Hp. destruct Hp as [r [Hr Hin]]. exists r. split; [exact Hin|]. split.
    + rewrite att_fresh, Hr, (range_never_unsupported marker r e Hr). reflexivity.
    + intros _. exists e. exact Hr.
  - destruct rs as [|r rs]; [contradiction|]. exists r. split; [left; reflexivity|]. split.
    + destruct (Hp (run_query ERange marker r)) as [m Hm]; [left; reflexivity|].
      rewrite att_fresh, Hm. rewrite (range_answer_is_marker marker r m Hm). reflexivity.
    + intros [r' [e [Hin He]]]. exfalso.
      destruct (Hp (run_query ERange marker r')) as [m Hm]; [apply in_map; exact Hin|]. rewrite He in Hm. discriminate.
Qed.

(** * The retry loop as a function of the attempts only (outcome) *)
Fixpoint outcome_loop (ep : endpoint) (i : nat) (last : outcome) (atts : list attempt) : outcome :=
  match atts with
  | [] => last
  | a :: rest => if retry ep a then outcome_loop ep (S i) (outcome_of i a) rest else outcome_of i a
  end.

Lemma failover_from_outcome_loop ep : forall ups i last,
  fo_outcome (failover_from ep i last ups) = outcome_loop ep i last (map (att ep) ups).
Proof.
  induction ups as [|u rest IH]; intros i last; cbn [failover_from map outcome_loop]; [reflexivity|].
  destruct (retry ep (att ep u)); cbn [fo_outcome]; [apply IH | reflexivity].
Qed.

(** A range query over a failover group whose upstreams answer slice by slice ([sls]: per upstream its slice responses
    and its marker), under ANY schedule: the outcome is the outcome of the ONE-slice loop over a fresh group in which
    every upstream sends one of its own slices' responses — a failing one whenever one of its slices fails. *)
Lemma multislice_failover pick : pick_ok pick ->
  forall sls : list (list response * string),
  (forall sl, In sl sls -> fst sl <> []) ->
  exists rs : list (response * string),
    Forall2 (fun sl p => In (fst p) (fst sl) /\ snd p = snd sl /\
                         ((exists r' e, In r' (fst sl) /\ run_query ERange (snd sl) r' = AErr e) ->
                          exists e, run_query ERange (snd sl) (fst p) = AErr e)) sls rs /\
    forall i last,
      outcome_loop ERange i last (map (fun sl => slices_attempt pick (snd sl) (fst sl)) sls) =
      fo_outcome (failover_from ERange i last (fresh_group rs)).
Proof.
  intros Hp. induction sls as [|[rs0 m0] sls IH]; intros Hne.
  - exists []. split; [constructor|]. intros i last. reflexivity.
  - destruct (slices_collapse pick m0 rs0 Hp) as [r [Hin [Hatt Hfail]]].
    { apply (Hne (rs0, m0)). left. reflexivity. }
    destruct IH as [rs [HF Hloop]].
    { intros sl Hsl. apply Hne. right. exact Hsl. }
    exists ((r, m0) :: rs). split.
    + constructor; [|exact HF]. cbn [fst snd]. split; [exact Hin|]. split; [reflexivity|exact Hfail].
    + intros i last. cbn [map outcome_loop fst snd]. rewrite failover_from_outcome_loop.
      unfold fresh_group. cbn [map outcome_loop fst snd]. rewrite Hatt.
      destruct (retry ERange (att ERange (fresh r m0))); [|reflexivity].
      rewrite Hloop, failover_from_outcome_loop. reflexivity.
Qed.
