(** C02: index arithmetic of diags.NewPositionRange as far as lines go (Model/YamlPosLines.v, the executable position
    oracle of the correspondence runs): for a node whose line and column count from 1 and a minimum column >= 1 the
    loop never indexes [lines] or a line out of range (the model answers [Some], never the panic outcome [None]),
    and every line that receives a position lies between the node's line and the last non-blank-final line of the
    text it scans.  This discharges the hypothesis [plines_ok] of Proofs/C02_lines.v for that oracle. *)
From Coq Require Import List String Ascii Arith Bool Lia.
From PintV Require Import Common.Bytes Model.Yaml Model.YamlPosLines Model.Parser Model.YamlFits Run.C19.
Import ListNotations.
Open Scope string_scope.
Open Scope list_scope.

Lemma elen_ge_pred l : List.length l - 1 <= elen l.
Proof.
  induction l as [|x r IH]; [cbn; lia|].
  destruct r as [|y r'].
  - cbn. lia.
  - change (elen (x :: y :: r')) with (S (elen (y :: r'))). change (List.length (x :: y :: r')) with (S (List.length (y :: r'))).
    cbn [List.length] in *. lia.
Qed.

Lemma elen_nonempty : forall l i, i < List.length l -> nth i l "" <> "" -> S i <= elen l.
Proof.
  induction l as [|x r IH]; intros i Hi Hn; [cbn in Hi; lia|].
  destruct r as [|y r'].
  - cbn [List.length] in Hi. assert (i = 0) by lia. subst i. cbn [nth] in Hn. cbn [elen].
    destruct (String.eqb x "") eqn:E; [apply String.eqb_eq in E; contradiction|lia].
  - change (elen (x :: y :: r')) with (S (elen (y :: r'))).
    destruct i as [|i']; [lia|]. cbn [nth] in Hn. cbn [List.length] in Hi.
    assert (Hi' : i' < List.length (y :: r')) by (cbn [List.length]; lia).
    specialize (IH i' Hi' Hn). lia.
Qed.

Lemma byte_column_ge1 : forall fuel s i column, 1 <= column -> 1 <= byte_column fuel s i column.
Proof.
  induction fuel as [|fuel IH]; intros s i column H; cbn [byte_column]; [lia|].
  destruct s as [|c r]; [lia|].
  destruct (Nat.leb column 1) eqn:E; [lia|]. apply Nat.leb_gt in E. apply IH. lia.
Qed.

Lemma skip_blanks_ge : forall fuel line column, column <= skip_blanks fuel line column.
Proof.
  induction fuel as [|fuel IH]; intros line column; cbn [skip_blanks]; [apply le_n|].
  destruct (Nat.leb 1 column && Nat.leb column (String.length line))%bool; [|apply le_n].
  destruct (String.get (column - 1) line) as [c|]; [|apply le_n].
  destruct (Ascii.eqb c sp || Ascii.eqb c tab)%bool; [|apply le_n].
  specialize (IH line (S column)). lia.
Qed.

Section PosLines.
  Variable dq : bool.
  Variable lines : list string.
  Variable mc line first_line anchor_len : nat.
  Hypothesis Hline : 1 <= line.
  Hypothesis Hmc : 1 <= mc.

  (** accumulated extent before the iteration for source line [idx] *)
  Definition Inv (idx : nat) (acc : option (nat * nat)) : Prop :=
    match acc with
    | None => True
    | Some (f, l) => line <= f /\ f <= l /\ l <= elen lines /\ f < idx
    end.

  Definition Post (r : option (nat * nat)) : Prop :=
    match r with
    | None => True
    | Some (f, l) => line <= f /\ f <= l /\ l <= elen lines
    end.

  Lemma inv_post idx acc : Inv idx acc -> Post acc.
  Proof. destruct acc as [[f l]|]; cbn; [tauto|auto]. Qed.

  Lemma inv_upd_prev idx acc (lb : bool) :
    line <= idx -> (lb = true -> line < idx) -> idx <= List.length lines -> Inv idx acc ->
    Inv (S idx) (if lb then upd acc (idx - 1) else acc).
  Proof.
    intros H1 Hlb H2 H. destruct lb.
    - specialize (Hlb eq_refl). pose proof (elen_ge_pred lines).
      destruct acc as [[f l]|]; cbn [upd Inv] in *; lia.
    - destruct acc as [[f l]|]; cbn [Inv] in *; [lia|exact I].
  Qed.

  Lemma inv_upd_here idx acc :
    line <= idx -> idx <= elen lines -> Inv (S idx) acc -> Inv (S idx) (upd acc idx).
  Proof.
    intros H1 H2 H. destruct acc as [[f l]|]; cbn [upd Inv] in *; lia.
  Qed.

  Lemma pl_loop_ok : forall fuel idx col need acc lb,
    line <= idx -> (lb = true -> line < idx) -> 1 <= col -> Inv idx acc ->
    exists r, pl_loop fuel dq lines mc first_line anchor_len idx col need acc lb = Some r /\ Post r.
  Proof.
    induction fuel as [|fuel IH]; intros idx col need acc lb Hidx Hlb Hcol Hacc.
    - exists acc. split; [reflexivity|exact (inv_post idx acc Hacc)].
    - cbn [pl_loop].
      destruct (Nat.ltb (List.length lines) idx) eqn:E1; [exists acc; split; [reflexivity|exact (inv_post idx acc Hacc)]|].
      apply Nat.ltb_ge in E1.
      destruct (Nat.eqb idx 0) eqn:E0; [apply Nat.eqb_eq in E0; lia|].
      pose proof (inv_upd_prev idx acc lb Hidx Hlb E1 Hacc) as H1.
      set (acc1 := if lb then upd acc (idx - 1) else acc) in *.
      assert (Hnext : forall need' acc', Inv (S idx) acc' ->
                exists r, match need' with
                          | String c nr =>
                              if (Ascii.eqb c sp || Ascii.eqb c nl)%bool then
                                match nr with
                                | EmptyString => Some acc'
                                | String _ _ => pl_loop fuel dq lines mc first_line anchor_len (S idx) mc nr acc' true
                                end
                              else pl_loop fuel dq lines mc first_line anchor_len (S idx) mc need' acc' false
                          | EmptyString => Some acc'
                          end = Some r /\ Post r).
      { intros need' acc' Ha. destruct need' as [|c nr]; [exists acc'; split; [reflexivity|exact (inv_post _ _ Ha)]|].
        destruct (Ascii.eqb c sp || Ascii.eqb c nl)%bool.
        - destruct nr as [|c2 nr2]; [exists acc'; split; [reflexivity|exact (inv_post _ _ Ha)]|].
          apply IH; [lia|intros _; lia|exact Hmc|exact Ha].
        - apply IH; [lia|intros X; discriminate X|exact Hmc|exact Ha]. }
      destruct (Nat.eqb (String.length (nth (idx - 1) lines "")) 0) eqn:E2; [exact (Hnext need acc1 H1)|].
      apply Nat.eqb_neq in E2.
      match goal with |- context [Nat.min (String.length (nth (idx - 1) lines "")) ?c0] => set (col0 := c0) end.
      assert (Hcol0 : 1 <= col0).
      { unfold col0. destruct (Nat.eqb idx first_line); [|exact Hcol].
        pose proof (byte_column_ge1 (String.length (nth (idx - 1) lines "")) (nth (idx - 1) lines "") 0 col Hcol) as B.
        destruct (Nat.eqb anchor_len 0); [exact B|].
        match goal with |- 1 <= skip_blanks ?f ?l ?c => pose proof (skip_blanks_ge f l c) end. lia. }
      destruct (Nat.eqb (Nat.min (String.length (nth (idx - 1) lines "")) col0) 0) eqn:E3; [apply Nat.eqb_eq in E3; lia|].
      assert (Hhere : idx <= elen lines).
      { assert (X : S (idx - 1) <= elen lines).
        { apply elen_nonempty; [lia|]. intros C. rewrite C in E2. apply E2. reflexivity. }
        lia. }
      match goal with |- context [scan dq ?a ?b] => destruct (scan dq a b) as [need' matched] end.
      assert (H2 : Inv (S idx) (if matched then upd acc1 idx else acc1)).
      { destruct matched; [apply inv_upd_here; assumption|exact H1]. }
      destruct need' as [|c' nr']; [eexists; split; [reflexivity|exact (inv_post _ _ H2)]|].
      exact (Hnext (String c' nr') _ H2).
  Qed.
End PosLines.

(** NewPositionRange never panics on a node whose line and column count from 1 (minimum column >= 1), and its lines
    are where they should be — for every style (block or not) and anchor length. *)
Theorem pos_lines_ok lines mc line value col block anchor_len dq :
  1 <= line -> 1 <= mc -> 1 <= col ->
  exists f l, pos_lines lines value line col mc block anchor_len dq = Some (f, l) /\
              line <= f /\ f <= l /\ l <= Nat.max line (elen lines).
Proof.
  intros Hline Hmc Hcol. unfold pos_lines. destruct value as [|c v]; [exists line, line; repeat split; lia|].
  assert (Hc0 : 1 <= (if block then mc else col)) by (destruct block; assumption).
  assert (Hs : line <= (if block then S line else line)) by (destruct block; lia).
  destruct (pl_loop_ok dq lines mc line line anchor_len Hline Hmc (S (List.length lines)) (if block then S line else line)
                       (if block then mc else col) (String c v) None false Hs (fun X => False_ind _ (Bool.diff_false_true X)) Hc0 I)
    as (r & E & P).
  rewrite E. destruct r as [[f l]|]; [|exists line, line; repeat split; lia].
  cbn [Post] in P. exists f, l. repeat split; lia.
Qed.

(** The oracle the correspondence runs use satisfies the hypothesis of the "lines inside the file" theorems. *)
Theorem plines_run_ok : forall lines n mc,
  1 <= n_line n -> 1 <= n_col n -> 1 <= mc ->
  n_line n <= fst (plines_run lines n mc) /\ fst (plines_run lines n mc) <= snd (plines_run lines n mc) /\
  snd (plines_run lines n mc) <= Nat.max (n_line n) (elen lines).
Proof.
  intros lines n mc H1 H2 H3. unfold plines_run.
  destruct (pos_lines_ok lines mc (n_line n) (n_value n) (n_col n) (node_block n) (node_anchor_len n) (node_dq n) H1 H3 H2) as (f & l & E & A & B & C).
  rewrite E. cbn [fst snd]. repeat split; assumption.
Qed.

(** ... and never takes the panic branch. *)
Theorem pos_lines_total : forall lines n mc,
  1 <= n_line n -> 1 <= n_col n -> 1 <= mc ->
  forall block anchor_len dq, pos_lines lines (n_value n) (n_line n) (n_col n) mc block anchor_len dq <> None.
Proof.
  intros lines n mc H1 H2 H3 block anchor_len dq.
  destruct (pos_lines_ok lines mc (n_line n) (n_value n) (n_col n) block anchor_len dq H1 H3 H2) as (f & l & E & _). rewrite E. discriminate.
Qed.
