(** C19/C02: what the alias-expansion limit (fix 2108dfa) buys: a document that passes it unfolds to a tree (content and
    alias targets, every alias replaced by its anchor) of at most 1 000 000 nodes — the tree the parse functions walk. *)
From Coq Require Import List String NArith Arith Lia.
From PintV Require Import Common.Bytes Model.Yaml Model.Parser.
Import ListNotations.
Local Open Scope N_scope.

(** exact size of the unfolding *)
Fixpoint tsize (n : node) {struct n} : N :=
  (fix go (l : list node) (total : N) : N :=
     match l with [] => total | c :: r => go r (total + tsize c) end)
    (n_content n) (1 + match n_alias n with Some t => tsize t | None => 0 end).

Fixpoint sum_exact (l : list node) (total : N) : N :=
  match l with [] => total | c :: r => sum_exact r (total + tsize c) end.

Fixpoint sum_sat (l : list node) (total : N) : N :=
  match l with
  | [] => total
  | c :: r => if N.ltb max_alias_expansion total then total else sum_sat r (total + alias_expansion c)
  end.

Lemma tsize_eq n : tsize n = sum_exact (n_content n) (1 + match n_alias n with Some t => tsize t | None => 0 end).
Proof.
  destruct n as [k t v l c a content al em]. cbn [tsize n_content n_alias].
  generalize (1 + match al with Some t0 => tsize t0 | None => 0 end). induction content as [|x r IH]; intros z; [reflexivity|].
  cbn [sum_exact]. apply IH.
Qed.

Lemma alias_expansion_eq n :
  alias_expansion n = sum_sat (n_content n) (1 + match n_alias n with Some t => alias_expansion t | None => 0 end).
Proof.
  destruct n as [k t v l c a content al em]. cbn [alias_expansion n_content n_alias].
  generalize (1 + match al with Some t0 => alias_expansion t0 | None => 0 end). induction content as [|x r IH]; intros z; [reflexivity|].
  cbn [sum_sat]. destruct (N.ltb max_alias_expansion z); [reflexivity|apply IH].
Qed.

Lemma sum_sat_ge l : forall z, z <= sum_sat l z.
Proof.
  induction l as [|c r IH]; intros z; cbn [sum_sat]; [lia|].
  destruct (N.ltb max_alias_expansion z); [lia|]. specialize (IH (z + alias_expansion c)). lia.
Qed.

(** below the limit the saturating count is the exact one *)
Lemma sum_sat_exact l :
  (forall c, In c l -> alias_expansion c <= max_alias_expansion -> alias_expansion c = tsize c) ->
  forall z z', z = z' -> sum_sat l z <= max_alias_expansion -> sum_sat l z = sum_exact l z'.
Proof.
  induction l as [|c r IH]; intros Hc z z' -> H; cbn [sum_sat sum_exact] in *; [reflexivity|].
  destruct (N.ltb max_alias_expansion z') eqn:E; [apply N.ltb_lt in E; lia|].
  pose proof (sum_sat_ge r (z' + alias_expansion c)) as G.
  assert (Ec : alias_expansion c = tsize c) by (apply Hc; [left; reflexivity|lia]).
  apply IH; [intros c0 H0; apply Hc; right; exact H0|now rewrite Ec|exact H].
Qed.

Lemma nodes_size_In c : forall l, In c l -> (node_size c <= nodes_size l)%nat.
Proof.
  induction l as [|x r IH]; intros H; [destruct H|]. cbn [nodes_size].
  destruct H as [->|H]; [lia|]. specialize (IH H). lia.
Qed.

Lemma alias_expansion_exact : forall k n, (node_size n <= k)%nat ->
  alias_expansion n <= max_alias_expansion -> alias_expansion n = tsize n.
Proof.
  induction k as [|k IH]; intros n Hk H; [rewrite node_size_eq in Hk; lia|].
  rewrite node_size_eq in Hk. rewrite alias_expansion_eq in H |- *. rewrite tsize_eq.
  pose proof (sum_sat_ge (n_content n) (1 + match n_alias n with Some t => alias_expansion t | None => 0 end)) as G.
  apply sum_sat_exact; [| |exact H].
  - intros c Hc Hle. apply IH; [pose proof (nodes_size_In c _ Hc); lia|exact Hle].
  - destruct (n_alias n) as [t|] eqn:Ea; [|reflexivity]. f_equal. apply IH; [lia|lia].
Qed.

(** A document that is not refused unfolds to at most a million nodes. *)
Theorem descent_bounded d : too_big d = false -> tsize d <= max_alias_expansion.
Proof.
  unfold too_big. intros H. apply N.ltb_ge in H.
  rewrite <- (alias_expansion_exact (node_size d) d (le_n _) H). exact H.
Qed.
