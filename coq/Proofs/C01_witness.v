(** C01: a concrete document with aliases in value position (corpus/C01/alias_values.yaml as serialised from yaml.v3 with the
    answers of the real libraries) satisfies the guard of C01_sound_partial: the premises of the theorem are satisfiable
    by a document that is not alias-free. *)
From Coq Require Import List String Ascii Arith Bool NArith.
From PintV Require Import Common.Bytes Model.Yaml Model.Parser Model.Routing Model.PromLoader
     Proofs.C19_relaxed Proofs.C01_prom Proofs.C01_rule Proofs.C01_merge Proofs.C01_group.
Import ListNotations.
Open Scope string_scope.
Open Scope list_scope.

Lemma plain_below_intro n :
  plain_node n -> (forall c, In c (n_content n) -> plain_below c) -> plain_below n.
Proof.
  intros Hn Hc m Hr. inversion Hr as [|n0 c m0 Hin Hrc|n0 t m0 Ha Hrt]; subst.
  - exact Hn.
  - exact (Hc c Hin m Hrc).
  - destruct Hn as [Hna _]. congruence.
Qed.

Lemma plain_scalar_below tag v l c a :
  tag <> mapTag -> tag <> seqTag -> tag <> mergeTag -> tag <> nullTag -> plain_below (Sc tag v l c a).
Proof.
  intros. apply plain_below_intro; [|intros ? []]. split; [reflexivity|]. split; [assumption|]. reflexivity.
Qed.

Definition e_t := Sc "!!str" "up == 0" 5 11 65975.
Definition d_t := Sc "!!str" "5m" 6 10 65983.
Definition s_t := Sc "!!str" "page" 8 17 65975.
Definition l_t := Mp "!!map" 7 13 65924 [Sc "!!str" "severity" 8 7 439; s_t].
Definition al (tag name : string) (l c : nat) (t : node) : node := Node KAlias tag name l c 407 [] (Some t) None.
Definition ann1 := Mp "!!map" 10 7 388 [Sc "!!str" "summary" 10 7 439; al "!!str" "s" 10 16 s_t].
Definition r1 := Mp "!!map" 4 5 388 [Sc "!!str" "alert" 4 5 439; Sc "!!str" "A" 4 12 439; Sc "!!str" "expr" 5 5 439; e_t;
   Sc "!!str" "for" 6 5 439; d_t; Sc "!!str" "labels" 7 5 439; l_t; Sc "!!str" "annotations" 9 5 439; ann1].
Definition r2 := Mp "!!map" 11 5 388 [Sc "!!str" "alert" 11 5 439; Sc "!!str" "B" 11 12 439; Sc "!!str" "expr" 12 5 439; al "!!str" "e" 12 11 e_t;
   Sc "!!str" "for" 13 5 439; al "!!str" "d" 13 10 d_t; Sc "!!str" "labels" 14 5 439; al "!!map" "l" 14 13 l_t].
Definition rules_v := Sq "!!seq" 4 3 388 [r1; r2].
Definition g1 := Mp "!!map" 2 3 388 [Sc "!!str" "name" 2 3 439; Sc "!!str" "g" 2 9 439; Sc "!!str" "rules" 3 3 439; rules_v].
Definition groups_v := Sq "!!seq" 2 1 388 [g1].
Definition root_w := Mp "!!map" 1 1 388 [Sc "!!str" "groups" 1 1 439; groups_v].
Definition w_alias : node := Dc 1 1 388 [root_w].

Ltac psc := apply plain_scalar_below; discriminate.
Ltac inv_in H := repeat (destruct H as [H|H]; [inversion H; subst; clear H|]); try contradiction.
Ltac pmap := split; [reflexivity|]; split; [discriminate|]; cbn; repeat split; auto.

Lemma l_t_plain : plain_below l_t.
Proof.
  apply plain_below_intro.
  - pmap. eexists [(_, _)]. split; [reflexivity|]. intros k v H. inv_in H; discriminate.
  - intros c H. cbn in H. inv_in H; psc.
Qed.

Lemma sees_alias tag name l c t : n_tag t = tag -> n_alias t = None -> tag <> mergeTag -> name <> "" -> sees (al tag name l c t) t.
Proof. intros T A M N. right. repeat split; auto. Qed.

Lemma r1_guard : rule_guard r1.
Proof.
  split.
  - pmap. eexists [(_, _); (_, _); (_, _); (_, _); (_, _)]. split; [reflexivity|]. intros k v H. inv_in H; discriminate.
  - intros k x H. cbn in H. inv_in H.
    + split; [psc|]. eexists. split; [left; split; reflexivity|left; psc].
    + split; [psc|]. exists e_t. split; [left; split; reflexivity|left; psc].
    + split; [psc|]. exists d_t. split; [left; split; reflexivity|left; psc].
    + split; [psc|]. exists l_t. split; [left; split; reflexivity|left; exact l_t_plain].
    + split; [psc|]. exists ann1. split; [left; split; reflexivity|]. right. split; [|split; [reflexivity|]].
      * pmap. eexists [(_, _)]. split; [reflexivity|]. intros k v H. inv_in H; discriminate.
      * intros kk vv H. cbn in H. inv_in H. split; [psc|]. exists s_t. split; [|psc].
        apply sees_alias; auto; discriminate.
Qed.

Lemma r2_guard : rule_guard r2.
Proof.
  split.
  - pmap. eexists [(_, _); (_, _); (_, _); (_, _)]. split; [reflexivity|]. intros k v H. inv_in H; discriminate.
  - intros k x H. cbn in H. inv_in H.
    + split; [psc|]. eexists. split; [left; split; reflexivity|left; psc].
    + split; [psc|]. exists e_t. split; [apply sees_alias; auto; discriminate|left; psc].
    + split; [psc|]. exists d_t. split; [apply sees_alias; auto; discriminate|left; psc].
    + split; [psc|]. exists l_t. split; [apply sees_alias; auto; discriminate|left; exact l_t_plain].
Qed.

Theorem w_alias_guard : guards_doc w_alias.
Proof.
  split; [reflexivity|]. exists root_w. split; [reflexivity|]. split.
  - pmap. eexists [(_, _)]. split; [reflexivity|]. intros k v H. inv_in H; discriminate.
  - intros k v H. cbn in H. inv_in H. split; [psc|]. split; [pmap|].
    intros gn H. cbn in H. inv_in H. split.
    + pmap. eexists [(_, _); (_, _)]. split; [reflexivity|]. intros k v H. inv_in H; discriminate.
    + intros k v H. cbn in H. inv_in H.
      * split; [psc|]. split; [intros X; discriminate X|]. intros _. apply plain_leaf. psc.
      * split; [psc|]. split; [|intros X; exfalso; apply X; reflexivity]. intros _. split; [pmap|].
        intros rn H. cbn in H. inv_in H; [left; exact r1_guard|left; exact r2_guard].
Qed.

(** ---- a document with a merge key (corpus/C01/merge_alias.yaml): `- &base {alert, expr, for, labels}` and
    `- <<: *base` overriding alert and for ---- *)
Definition m_lab := Mp "!!map" 9 7 388 [Sc "!!str" "severity" 9 7 439; Sc "!!str" "page" 9 17 439].
Definition m_base := Mp "!!map" 4 5 262532 [Sc "!!str" "alert" 5 5 439; Sc "!!str" "A" 5 12 439; Sc "!!str" "expr" 6 5 439; Sc "!!str" "up == 0" 6 11 439;
   Sc "!!str" "for" 7 5 439; Sc "!!str" "5m" 7 10 447; Sc "!!str" "labels" 8 5 439; m_lab].
Definition m_mk := Sc "!!merge" "<<" 10 5 423.
Definition m_mx := al "!!map" "base" 10 9 m_base.
Definition m_post := [(Sc "!!str" "alert" 11 5 439, Sc "!!str" "B" 11 12 439); (Sc "!!str" "for" 12 5 439, Sc "!!str" "10m" 12 10 447)].
Definition m_rule := Mp "!!map" 10 5 388 [m_mk; m_mx; Sc "!!str" "alert" 11 5 439; Sc "!!str" "B" 11 12 439; Sc "!!str" "for" 12 5 439; Sc "!!str" "10m" 12 10 447].
Definition m_rules := Sq "!!seq" 4 3 388 [m_base; m_rule].
Definition m_group := Mp "!!map" 2 3 388 [Sc "!!str" "name" 2 3 439; Sc "!!str" "g" 2 9 439; Sc "!!str" "rules" 3 3 439; m_rules].
Definition m_root := Mp "!!map" 1 1 388 [Sc "!!str" "groups" 1 1 439; Sq "!!seq" 2 1 388 [m_group]].
Definition w_merge_ok : node := Dc 1 1 388 [m_root].

Lemma m_lab_plain : plain_below m_lab.
Proof.
  apply plain_below_intro.
  - pmap. eexists [(_, _)]. split; [reflexivity|]. intros k v H. inv_in H; discriminate.
  - intros c H. cbn in H. inv_in H; psc.
Qed.

Lemma m_base_plain : plain_below m_base.
Proof.
  apply plain_below_intro.
  - pmap. eexists [(_, _); (_, _); (_, _); (_, _)]. split; [reflexivity|]. intros k v H. inv_in H; discriminate.
  - intros c H. cbn in H. inv_in H; try psc. exact m_lab_plain.
Qed.

Lemma m_rule_guard : merge_rule_guard m_rule [] m_mk m_mx m_post m_base.
Proof.
  split; [|split; [reflexivity|split; [reflexivity|]]].
  - pmap. eexists [(_, _); (_, _); (_, _)]. split; [reflexivity|]. intros k v H. inv_in H; discriminate.
  - split; [repeat split; reflexivity|]. split; [repeat split; auto; discriminate|].
    split; [exact (plain_self m_base m_base_plain)|]. split; [reflexivity|]. split.
    + intros k v H. cbn in H. inv_in H; (split; [psc|]); (split; [try psc; try exact m_lab_plain|split; discriminate]).
    + split.
      * cbn. repeat constructor; cbn; intuition discriminate.
      * intros k x H. cbn in H. inv_in H; (split; [psc|]); eexists; (split; [left; split; reflexivity|left; psc]).
Qed.

Theorem w_merge_guard : guards_doc w_merge_ok.
Proof.
  split; [reflexivity|]. exists m_root. split; [reflexivity|]. split.
  - pmap. eexists [(_, _)]. split; [reflexivity|]. intros k v H. inv_in H; discriminate.
  - intros k v H. cbn in H. inv_in H. split; [psc|]. split; [pmap|].
    intros gn H. cbn in H. inv_in H. split.
    + pmap. eexists [(_, _); (_, _)]. split; [reflexivity|]. intros k v H. inv_in H; discriminate.
    + intros k v H. cbn in H. inv_in H.
      * split; [psc|]. split; [intros X; discriminate X|]. intros _. apply plain_leaf. psc.
      * split; [psc|]. split; [|intros X; exfalso; apply X; reflexivity]. intros _. split; [pmap|].
        intros rn H. cbn in H. inv_in H.
        -- left. apply plain_rule_guard. exact m_base_plain.
        -- right. exists [], m_mk, m_mx, m_post, m_base. exact m_rule_guard.
Qed.
