(** C18 — finite theorems over the generated site / validator tables and the reviewed disposition table. *)
From Coq Require Import List String Bool.
From PintV Require Import Common.Bytes Gen.Tables Gen.C18 Model.TemplatedRegexpSites.
Import ListNotations.
Open Scope string_scope.
Open Scope list_scope.

Lemma all_sites_accounted : forallb site_ok all_sites = true.
Proof. vm_compute. reflexivity. Qed.

Lemma no_stale_rows : forallb row_is_live reviewed = true.
Proof. vm_compute. reflexivity. Qed.

Lemma must_pairs_backed : forallb must_pair_backed must_pairs = true.
Proof. vm_compute. reflexivity. Qed.

Lemma helper_validators_backed : forallb helper_validator_backed helper_validators = true.
Proof. vm_compute. reflexivity. Qed.

(** the open known findings whose class is a crash at a reviewed site (edited together with known_findings.d/C18.json) *)
Definition known_crash_findings : list string := [].

Lemma crash_rows_exactly : crash_findings = known_crash_findings.
Proof. vm_compute. reflexivity. Qed.

Lemma crash_rows_are_listed : forallb (fun f => mem_str f known_crash_findings) crash_findings = true.
Proof. vm_compute. reflexivity. Qed.

Lemma site_ok_spec s : site_ok s = true ->
  exists d, disposition_of s = Some d /\
    match d with
    | ValidatedSame vf vc va g =>
        callee_compatible (ds_callee s) vc = true /\
        exists v, In v validators /\ v_func v = vf /\ v_callee v = vc /\ v_arg v = va /\ (g = false -> v_guard v = "")
    | ValidatedWrapped vf vc va _ =>
        exists v, In v validators /\ v_func v = vf /\ v_callee v = vc /\ v_arg v = va /\ v_guard v = ""
    | _ => True
    end.
Proof.
  unfold site_ok. destruct (disposition_of s) as [d|]; [|discriminate]. intro H. exists d. split; [reflexivity|].
  destruct d; try exact I.
  - apply andb_true_iff in H. destruct H as [Hc Hv]. split; [exact Hc|].
    unfold has_validator in Hv. apply existsb_exists in Hv. destruct Hv as [v [Hin Hv]].
    repeat (apply andb_true_iff in Hv; destruct Hv as [Hv ?]).
    apply String.eqb_eq in Hv. apply String.eqb_eq in H1. apply String.eqb_eq in H0.
    exists v. split; [exact Hin|]. split; [exact Hv|]. split; [exact H1|]. split; [exact H0|].
    intro G. subst use_guarded. simpl in H. apply String.eqb_eq. exact H.
  - unfold has_validator in H. apply existsb_exists in H. destruct H as [v [Hin Hv]].
    repeat (apply andb_true_iff in Hv; destruct Hv as [Hv ?]).
    apply String.eqb_eq in Hv. apply String.eqb_eq in H1. apply String.eqb_eq in H0.
    exists v. split; [exact Hin|]. split; [exact Hv|]. split; [exact H1|]. split; [exact H0|].
    simpl in H. apply String.eqb_eq. exact H.
Qed.
