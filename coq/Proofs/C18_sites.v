(** C18 — finite theorems over the generated site / validator / guard / schema tables and the reviewed disposition table. *)
From Coq Require Import List String Bool.
From PintV Require Import Common.Bytes Gen.Tables Gen.C18 Model.TemplatedRegexpSites.
Import ListNotations.
Open Scope string_scope.
Open Scope list_scope.

Lemma all_sites_accounted : forallb site_ok all_sites = true.
Proof. vm_compute. reflexivity. Qed.

Lemma no_stale_rows : forallb row_is_live reviewed = true.
Proof. vm_compute. reflexivity. Qed.

Lemma must_pairs_backed : forallb must_pair_backed must_pairs = true.
Proof. vm_compute. reflexivity. Qed.

Lemma helper_validators_backed : forallb helper_validator_backed helper_validators = true.
Proof. vm_compute. reflexivity. Qed.

Lemma all_blocks_validated : forallb block_validated config_blocks = true.
Proof. vm_compute. reflexivity. Qed.

Lemma all_blocks_reachable : forallb block_reachable config_blocks = true.
Proof. vm_compute. reflexivity. Qed.

Lemma all_attrs_accounted : forallb attr_ok config_attrs = true.
Proof. vm_compute. reflexivity. Qed.

Lemma no_stale_attr_rows : forallb unvalidated_row_live unvalidated_attrs = true.
Proof. vm_compute. reflexivity. Qed.

(** unfolding of the boolean checks into statements about the generated tables *)

Lemma has_validator_spec vf vc va ng : has_validator vf vc va ng = true ->
  exists v, In v validators /\ v_func v = vf /\ v_callee v = vc /\ v_arg v = va /\ (ng = true -> v_guard v = "").
Proof.
  unfold has_validator. intro H. apply existsb_exists in H. destruct H as [v [Hin Hv]].
  apply andb_true_iff in Hv. destruct Hv as [Hv Hg].
  apply andb_true_iff in Hv. destruct Hv as [Hv Ha].
  apply andb_true_iff in Hv. destruct Hv as [Hf Hc].
  apply String.eqb_eq in Hf. apply String.eqb_eq in Hc. apply String.eqb_eq in Ha.
  exists v. repeat split; try assumption.
  intro E. subst ng. cbn [negb orb] in Hg. apply String.eqb_eq. exact Hg.
Qed.

(** every occurrence of site [s] in the source is under a guard `X.f != ""` *)
Definition all_uses_guarded_on (s : dropped_site) (f : string) : Prop :=
  guards_of s <> [] /\ forall g, In g (guards_of s) -> g <> "" /\ after_dot g = f.

Lemma used_only_when_nonempty_spec s f : used_only_when_nonempty s f = true -> all_uses_guarded_on s f.
Proof.
  unfold used_only_when_nonempty, all_uses_guarded_on. intro H. apply andb_true_iff in H. destruct H as [Hne Hall].
  split.
  - destruct (guards_of s); [discriminate|]. discriminate.
  - intros g Hg. pose proof (proj1 (forallb_forall _ _) Hall g Hg) as Hx. cbn beta in Hx.
    apply andb_true_iff in Hx. destruct Hx as [H1 H2]. split.
    + intro E. subst g. discriminate.
    + apply String.eqb_eq. exact H2.
Qed.

Lemma validator_covers_spec s vf vc va : validator_covers s vf vc va = true ->
  exists v, In v validators /\ v_func v = vf /\ v_callee v = vc /\ v_arg v = va /\
            (v_guard v = "" \/ all_uses_guarded_on s (after_dot (v_guard v))).
Proof.
  unfold validator_covers. intro H. apply existsb_exists in H. destruct H as [v [Hin Hv]].
  apply andb_true_iff in Hv. destruct Hv as [Hv Hg].
  apply andb_true_iff in Hv. destruct Hv as [Hv Ha].
  apply andb_true_iff in Hv. destruct Hv as [Hf Hc].
  apply String.eqb_eq in Hf. apply String.eqb_eq in Hc. apply String.eqb_eq in Ha.
  exists v. repeat split; try assumption.
  apply orb_true_iff in Hg. destruct Hg as [Hg|Hg].
  - left. apply String.eqb_eq. exact Hg.
  - right. apply used_only_when_nonempty_spec. exact Hg.
Qed.

(** what a disposition claims about the generated tables *)
Definition disposition_holds (s : dropped_site) (d : disposition) : Prop :=
  match d with
  | ValidatedSame vf vc va =>
      callee_compatible (ds_callee s) vc = true /\
      exists v, In v validators /\ v_func v = vf /\ v_callee v = vc /\ v_arg v = va /\
                (v_guard v = "" \/ all_uses_guarded_on s (after_dot (v_guard v)))
  | ValidatedDefaulted vf vc va _ =>
      callee_compatible (ds_callee s) vc = true /\
      exists v, In v validators /\ v_func v = vf /\ v_callee v = vc /\ v_arg v = va
  | ValidatedWrapped vf vc va _ =>
      exists v, In v validators /\ v_func v = vf /\ v_callee v = vc /\ v_arg v = va /\ v_guard v = ""
  | ZeroValue _ | RuleData _ | Constant _ | Harmless _ | HelperDef _ | CliFlag _ => True
  end.

Lemma site_ok_spec s : site_ok s = true -> exists d, disposition_of s = Some d /\ disposition_holds s d.
Proof.
  unfold site_ok. destruct (disposition_of s) as [d|]; [|discriminate]. intro H. exists d. split; [reflexivity|].
  destruct d; cbn [disposition_holds]; try exact I.
  - apply andb_true_iff in H. destruct H as [Hc Hv]. split; [exact Hc|]. apply validator_covers_spec. exact Hv.
  - apply andb_true_iff in H. destruct H as [Hc Hv]. split; [exact Hc|].
    destruct (has_validator_spec _ _ _ _ Hv) as [v [H1 [H2 [H3 [H4 _]]]]]. exists v. repeat split; assumption.
  - destruct (has_validator_spec _ _ _ _ H) as [v [H1 [H2 [H3 [H4 H5]]]]]. exists v. repeat split; try assumption.
    apply H5. reflexivity.
Qed.

Lemma block_validated_spec b : block_validated b = true ->
  In (cb_type b) validate_methods /\
  exists c, In c validate_calls /\ vc_owner c = cb_struct b /\ vc_field c = cb_field b /\
            vc_func c = validate_func_of (cb_struct b) /\ vc_error_returned c = true.
Proof.
  unfold block_validated. intro H. apply andb_true_iff in H. destruct H as [Hm He]. split.
  - apply mem_str_In. exact Hm.
  - apply existsb_exists in He. destruct He as [c [Hin Hc]].
    apply andb_true_iff in Hc. destruct Hc as [Hc Hr].
    apply andb_true_iff in Hc. destruct Hc as [Hc Hf].
    apply andb_true_iff in Hc. destruct Hc as [Ho Hfi].
    apply String.eqb_eq in Ho. apply String.eqb_eq in Hfi. apply String.eqb_eq in Hf.
    exists c. repeat split; assumption.
Qed.

(** * What a [ValidatedSame] disposition buys, semantically

    [f] is the function both sides call (parseDuration, ParseSeverity, NewTemplatedRegexp, …: any partial function),
    [is_empty] the `== ""` test.  The validator rejects the configuration unless [f a] succeeds — always, or only when
    [a] is non-empty; the use site calls [f a] and DROPS the error — always, or only when [a] is non-empty (falling
    back to a default otherwise).  If the validator is unconditional, or both are conditional (exactly what
    [validator_covers] checks on the generated tables), the dropped error is never an error for an accepted value. *)
Section SameFunction.
  Variables (A B : Type) (f : A -> option B) (is_empty : A -> bool).

  Definition validator_accepts (guarded : bool) (a : A) : bool :=
    if guarded && is_empty a then true else match f a with Some _ => true | None => false end.

  Definition use_result (guarded : bool) (a : A) (default : B) : option B :=
    if guarded && is_empty a then Some default else f a.

  Lemma same_function_never_drops gv gu a d :
    (gv = true -> gu = true) -> validator_accepts gv a = true -> use_result gu a d <> None.
  Proof.
    unfold validator_accepts, use_result. intros Himp Hv.
    destruct gu; cbn [andb].
    - destruct (is_empty a); [discriminate|]. destruct gv; cbn [andb] in Hv; destruct (f a); discriminate.
    - destruct gv; [specialize (Himp eq_refl); discriminate|]. cbn [andb] in Hv. destruct (f a); discriminate.
  Qed.

  (** and the shape the mechanical check REJECTS does drop errors: validated only when non-empty, used always, with
      an [f] that fails on the empty value (parseDuration "", ParseSeverity "": the shape of 0b2762d) *)
  Lemma guarded_validator_unguarded_use_drops a d :
    is_empty a = true -> f a = None -> validator_accepts true a = true /\ use_result false a d = None.
  Proof. unfold validator_accepts, use_result. intros He Hf. rewrite He. cbn [andb]. split; [reflexivity | exact Hf]. Qed.
End SameFunction.
