(** "A changed rule is never skipped", end to end over GitBranchFinder.Find (model [find]) and for any faithful history:
    a rule of the HEAD tree whose content differs from every rule of the base version of its file ends in a state other
    than Noop in the list `pint ci` lints -- a state selected by CIStates -- provided it is the first glob entry at its
    path and rule position (GlobFinder lists every rule once). *)
From Coq Require Import List String Ascii ZArith NArith Bool Lia Permutation.
From PintV Require Import Common.Bytes Model.GitBranch Proofs.C03_match Proofs.C03_state Proofs.C03_merge Proofs.C03_final.
Import ListNotations.
Open Scope string_scope.
Open Scope list_scope.

(** same rule position: what Rule.IsSame compares besides the error flags *)
Definition same_pos (x g : entry) : bool :=
  kind_eqb (e_kind x) (e_kind g) && Z.eqb (e_first x) (e_first g) && Z.eqb (e_last x) (e_last g).

(** [g], at index [i], is the first entry of the list at its path and position *)
Definition first_at (all : list entry) (i : nat) (g : entry) : Prop :=
  forall j x, j < i -> nth_error all j = Some x -> e_path x = e_path g -> same_pos x g = false.

Lemma is_same_pos e x g : is_same e x = true -> is_same e g = true -> same_pos x g = true.
Proof.
  unfold is_same, same_pos. intros H1 H2.
  apply andb_true_iff in H1. destruct H1 as [H1 L1]. apply andb_true_iff in H1. destruct H1 as [H1 F1].
  apply andb_true_iff in H1. destruct H1 as [H1 _]. apply andb_true_iff in H1. destruct H1 as [K1 _].
  apply andb_true_iff in H2. destruct H2 as [H2 L2]. apply andb_true_iff in H2. destruct H2 as [H2 F2].
  apply andb_true_iff in H2. destruct H2 as [H2 _]. apply andb_true_iff in H2. destruct H2 as [K2 _].
  apply kind_eqb_eq in K1. apply kind_eqb_eq in K2. apply Z.eqb_eq in L1, F1, L2, F2.
  assert (Ek : e_kind x = e_kind g) by congruence. rewrite Ek.
  assert (Hk : kind_eqb (e_kind g) (e_kind g) = true) by (apply kind_eqb_eq; reflexivity).
  rewrite Hk. simpl. apply andb_true_iff. split; apply Z.eqb_eq; congruence.
Qed.

Lemma same_pos_strip_l x y g : strip x = strip y -> same_pos x g = same_pos y g.
Proof.
  intro H. unfold same_pos.
  pose proof (f_equal e_kind H) as H1. pose proof (f_equal e_first H) as H3. pose proof (f_equal e_last H) as H4.
  cbn in H1, H3, H4. rewrite H1, H3, H4. reflexivity.
Qed.

Lemma same_pos_strip_r x g g1 : strip g = strip g1 -> same_pos x g = same_pos x g1.
Proof.
  intro H. unfold same_pos.
  pose proof (f_equal e_kind H) as H1. pose proof (f_equal e_first H) as H3. pose proof (f_equal e_last H) as H4.
  cbn in H1, H3, H4. rewrite H1, H3, H4. reflexivity.
Qed.

(** a matching entry overwrites exactly the first entry at its path and position *)
Lemma update_first_hits e : forall all i g,
  nth_error all i = Some g -> first_at all i g -> e_path e = e_path g -> is_same e g = true ->
  exists all', update_first e all = Some all' /\ nth_error all' i = Some (set_state g (e_state e) (e_mod e)) /\
               (forall j x, j < i -> nth_error all j = Some x -> nth_error all' j = Some x).
Proof.
  induction all as [|x r IH]; intros i g Hn Hf Hp Hs; [destruct i; discriminate|].
  destruct i as [|i]; simpl in Hn.
  - inversion Hn; subst x. simpl. rewrite Hp, String.eqb_refl, Hs. simpl.
    eexists. split; [reflexivity|]. split; [reflexivity|]. intros j x Hj. lia.
  - simpl. destruct (String.eqb (e_path e) (e_path x) && is_same e x) eqn:E.
    + exfalso. apply andb_true_iff in E. destruct E as [E1 E2]. apply String.eqb_eq in E1.
      assert (Hx : same_pos x g = false) by (apply (Hf 0 x); [lia | reflexivity | congruence]).
      rewrite (is_same_pos e x g E2 Hs) in Hx. discriminate.
    + assert (Hf' : first_at r i g).
      { intros j y Hj Hy. apply (Hf (S j) y); [lia | exact Hy]. }
      destruct (IH i g Hn Hf' Hp Hs) as (r' & HU & HN & HK). rewrite HU.
      exists (x :: r'). split; auto. split; [exact HN|].
      intros j y Hj Hy. destruct j as [|j]; simpl in *; auto. apply HK; auto. lia.
Qed.

Definition matches (e g : entry) : Prop :=
  e_state e <> Removed /\ e_path e = e_path g /\ is_same e g = true.

(** with [g] first at its position: its final state is its own iff no branch entry matches it, and otherwise that of a
    matching branch entry *)
Lemma merge_one_first all e i g :
  nth_error all i = Some g -> first_at all i g ->
  exists g', nth_error (merge_one all e) i = Some g' /\ strip g' = strip g /\ first_at (merge_one all e) i g' /\
             ((~ matches e g /\ g' = g) \/ (matches e g /\ g' = set_state g (e_state e) (e_mod e))).
Proof.
  intros Hn Hf. unfold merge_one.
  assert (Hlt : i < List.length all) by (apply nth_error_Some; congruence).
  assert (Happ : nth_error (all ++ [e]) i = Some g) by (rewrite nth_error_app1; auto).
  assert (Hfapp : first_at (all ++ [e]) i g).
  { intros j x Hj Hx. rewrite nth_error_app1 in Hx by lia. apply (Hf j x Hj Hx). }
  destruct (state_eqb (e_state e) Removed) eqn:Es.
  - exists g. split; auto. split; auto. split; auto. left. split; auto.
    intros (Hne & _). apply Hne. destruct (e_state e); try discriminate. reflexivity.
  - apply state_eqb_false in Es.
    destruct (String.eqb (e_path e) (e_path g) && is_same e g) eqn:Em.
    + apply andb_true_iff in Em. destruct Em as [Ep Ei]. apply String.eqb_eq in Ep.
      destruct (update_first_hits e all i g Hn Hf Ep Ei) as (all' & HU & HN & HK). rewrite HU.
      eexists. split; [exact HN|]. split; [apply strip_set_state|]. split.
      * intros j x Hj Hx Hpx.
        (* entries before i are unchanged *)
        destruct (nth_error all j) as [y|] eqn:Ey.
        -- pose proof (HK j y Hj Ey) as Hy. rewrite Hy in Hx. inversion Hx; subst x.
           rewrite <- (same_pos_strip_r y g _ (eq_sym (strip_set_state g (e_state e) (e_mod e)))).
           apply (Hf j y Hj Ey). exact Hpx.
        -- exfalso. apply nth_error_None in Ey. lia.
      * right. split; [split; auto | reflexivity].
    + assert (Hnm : ~ matches e g).
      { intros (_ & Hp & Hi). rewrite Hp, String.eqb_refl, Hi in Em. discriminate. }
      destruct (update_first e all) as [all'|] eqn:U.
      * destruct (update_first_state e _ _ _ _ U Hn) as (g' & H1 & H2 & [->|(Hp & Hi & _)]).
        -- exists g. split; auto. split; auto. split; [|left; auto].
           intros j x Hj Hx Hpx.
           assert (Hjl : j < List.length all) by lia.
           destruct (nth_error all j) as [y|] eqn:Ey; [|apply nth_error_None in Ey; lia].
           destruct (update_first_state e _ _ _ _ U Ey) as (y' & Hy1 & Hy2 & _).
           rewrite Hy1 in Hx. inversion Hx; subst y'.
           rewrite (same_pos_strip_l x y g Hy2). apply (Hf j y Hj Ey).
           rewrite <- Hpx. symmetry. apply strip_path. exact Hy2.
        -- exfalso. apply Hnm. split; auto.
      * exists g. split; [exact Happ|]. split; [reflexivity|]. split; [exact Hfapp|]. left. split; auto.
Qed.

Lemma merge_first : forall branch all i g,
  nth_error all i = Some g -> first_at all i g ->
  exists g', nth_error (merge all branch) i = Some g' /\ strip g' = strip g /\
    (((forall e, In e branch -> ~ matches e g) /\ g' = g) \/
     (exists e, In e branch /\ matches e g /\ e_state g' = e_state e /\ e_mod g' = e_mod e)).
Proof.
  unfold merge. induction branch as [|e r IH]; intros all i g Hn Hf; simpl.
  - exists g. split; [exact Hn|]. split; [reflexivity|]. left. split; [intros e []|reflexivity].
  - destruct (merge_one_first all e i g Hn Hf) as (g1 & H1 & Hs1 & Hf1 & Hc1).
    destruct (IH _ _ _ H1 Hf1) as (g2 & H2 & Hs2 & Hc2).
    exists g2. split; auto. split; [congruence|].
    assert (Hm : forall x, matches x g1 <-> matches x g).
    { intro x. unfold matches. rewrite (strip_path _ _ Hs1), (strip_is_same_r x _ _ Hs1). tauto. }
    destruct Hc2 as [(Hno & ->)|(e' & Hin & Hme & Hst & Hmd)].
    + destruct Hc1 as [(Hne & ->)|(Hme & ->)].
      * left. split; [|reflexivity]. intros x [<-|Hx]; [exact Hne | apply Hno; exact Hx].
      * right. exists e. split; [left; reflexivity|]. split; auto.
    + right. exists e'. split; [right; exact Hin|]. split; [apply Hm; exact Hme|]. auto.
Qed.

(** * changed => never Noop in the final list *)
Theorem changed_final_not_noop glob cs i g :
  nth_error glob i = Some g -> first_at glob i g ->
  (* some change of the branch has a HEAD entry at g's path and position ... *)
  (exists c a, In c cs /\ In a (ci_after c) /\ e_path a = e_path g /\ is_same a g = true) ->
  (* ... and every such entry differs in content from every base rule of its change *)
  (forall c a, In c cs -> In a (ci_after c) -> e_path a = e_path g -> is_same a g = true ->
     forall b, In b (ci_before c) -> is_identical a b = false) ->
  exists g', nth_error (find glob cs) i = Some g' /\ strip g' = strip g /\
             (e_state g' = Added \/ e_state g' = Modified \/ e_state g' = Moved).
Proof.
  intros Hn Hf (c0 & a0 & Hc0 & Ha0 & Hp0 & Hs0) Hdiff. unfold find.
  destruct (merge_first (branch_entries cs) glob i g Hn Hf) as (g' & H1 & H2 & [(Hno & _)|(e & Hin & (Hne & Hp & Hi) & Hst & _)]).
  - (* impossible: the entry produced for a0 matches g *)
    exfalso.
    destruct (change_entries_split c0) as (heads & removed & E & Hh & _).
    assert (Hex : exists e, In e heads /\ from_after e a0).
    { clear -Hh Ha0. induction Hh as [|x y l l' Hxy _ IH]; [destruct Ha0|].
      destruct Ha0 as [<-|Hin]; [exists x; split; [left; reflexivity|exact Hxy]|].
      destruct (IH Hin) as (e & He & Hfe). exists e. split; [right; exact He|exact Hfe]. }
    destruct Hex as (e & He & (s & ml & -> & Hs)).
    apply (Hno (set_state a0 s ml)).
    + unfold branch_entries. apply in_flat_map. exists c0. split; auto. rewrite E. apply in_or_app. left. exact He.
    + split; [|split].
      * cbn. destruct Hs as [->|[->|[->| ->]]]; discriminate.
      * exact Hp0.
      * exact Hs0.
  - exists g'. split; auto. split; auto. rewrite Hst.
    unfold branch_entries in Hin. apply in_flat_map in Hin. destruct Hin as [c [Hc He]].
    destruct (branch_entry_origin c e He Hne) as (m & a & Hm & Ha & Hea & Hse & Hina).
    assert (Hpa : e_path a = e_path g) by (rewrite <- Hp; symmetry; apply strip_path; exact Hse).
    assert (Hsa : is_same a g = true) by (rewrite <- Hi; symmetry; apply strip_is_same_l; exact Hse).
    assert (Hd : forall b, In b (ci_before c) -> is_identical e b = false).
    { intros b Hb. pose proof (Hdiff c a Hc Hina Hpa Hsa b Hb) as Hab.
      unfold is_identical in *. pose proof (f_equal e_kind Hse) as K. pose proof (f_equal e_cid Hse) as Ci. cbn in K, Ci.
      rewrite K, Ci. exact Hab. }
    pose proof (changed_not_noop c e He Hd) as Hnn.
    destruct (change_entries_split c) as (heads & removed & E & Hh & Hr).
    rewrite E in He. apply in_app_or in He. destruct He as [He|He].
    + assert (Hs : e_state e = Noop \/ e_state e = Added \/ e_state e = Modified \/ e_state e = Moved).
      { clear -Hh He. induction Hh as [|x y l l' Hxy _ IH]; [destruct He|].
        destruct He as [<-|Hin]; [|auto]. destruct Hxy as (s & ml & -> & Hs). exact Hs. }
      destruct Hs as [Hs|Hs]; [contradiction|exact Hs].
    + destruct (Hr _ He) as [Hs _]. contradiction.
Qed.
