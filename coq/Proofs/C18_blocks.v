(** C18 — block-level TemplatedRegexp protocol: an accepted annotation / label / reject / name / link / aggregate block
    builds checks whose every regexp use is total, for all behaviours of text/template and regexp. *)
From Coq Require Import List String Bool.
From PintV Require Import Common.Bytes Model.TemplatedRegexp Model.TemplatedRegexpBlocks Proofs.C18_template.
Import ListNotations.
Open Scope string_scope.
Open Scope list_scope.

Section Oracles.
  Variables (Tmpl Re : Type).
  Variable tmpl_parse : string -> option Tmpl.
  Variable tmpl_exec : Tmpl -> tctx -> option string.
  Variable re_compile : string -> option Re.
  Hypothesis never_matching_compiles : re_compile never_matching <> None.

  Notation mexpand := (must_expand Tmpl Re tmpl_parse tmpl_exec re_compile).

  Lemma mexpand_ok t r : is_ok (mexpand t r) = true.
  Proof.
    destruct (must_expand_total Tmpl Re tmpl_parse tmpl_exec re_compile never_matching_compiles t r) as [re E].
    rewrite E. reflexivity.
  Qed.

  Lemma opt_uses_ok (o : option templated) r :
    forallb is_ok (match o with Some t => [mexpand t r] | None => [] end) = true.
  Proof. destruct o as [t|]; cbn [forallb]; [rewrite mexpand_ok|]; reflexivity. Qed.

  (** annotation / label *)
  Lemma kv_block_total s name required r :
    validate_kv Tmpl Re tmpl_parse tmpl_exec re_compile s = true ->
    let c := build_kv Tmpl Re tmpl_parse tmpl_exec re_compile s in
    (exists k, kc_key c = Some k /\ t_original k = ks_key s) /\
    is_ok (kv_string name required c) = true /\
    forallb is_ok (kv_uses Tmpl Re tmpl_parse tmpl_exec re_compile c r) = true /\
    (* nothing was silently dropped: an option that is set yields a pointer *)
    (ks_token s <> "" -> kc_token c <> None) /\ (ks_value s <> "" -> kc_value c <> None).
  Proof.
    unfold validate_kv. intro V.
    apply andb_true_iff in V. destruct V as [V Vv].
    apply andb_true_iff in V. destruct V as [V Vt].
    apply andb_true_iff in V. destruct V as [_ Vk].
    destruct (validated_is_built Tmpl Re tmpl_parse tmpl_exec re_compile (ks_key s) Vk) as [k Ek].
    destruct (validated_raw_is_built Tmpl Re tmpl_parse tmpl_exec re_compile (ks_token s) Vt) as [t Et].
    destruct (validated_is_built Tmpl Re tmpl_parse tmpl_exec re_compile (ks_value s) Vv) as [v Ev].
    cbn zeta. unfold build_kv. cbn [kc_key kc_token kc_value]. rewrite Ek.
    split; [|split; [|split; [|split]]].
    - exists k. split; [reflexivity|].
      unfold must_templated, new_templated in Ek.
      destruct (expand Tmpl Re tmpl_parse tmpl_exec re_compile _ empty_rule); [|discriminate].
      injection Ek as <-. reflexivity.
    - unfold kv_string. cbn [kc_key kc_value]. destruct (if String.eqb (ks_value s) "" then None else _); reflexivity.
    - unfold kv_uses. cbn [kc_key kc_token kc_value use_site forallb]. rewrite mexpand_ok. cbn [andb].
      rewrite forallb_app. rewrite !opt_uses_ok. reflexivity.
    - intro Hne. destruct (String.eqb_spec (ks_token s) ""); [contradiction|]. rewrite Et. discriminate.
    - intro Hne. destruct (String.eqb_spec (ks_value s) ""); [contradiction|]. rewrite Ev. discriminate.
  Qed.

  (** conversely: the key pointer is the one that validation protects — an unvalidated failing key crashes String() *)
  Lemma kv_block_unvalidated_key_crashes s name required :
    validate_templated Tmpl Re tmpl_parse tmpl_exec re_compile (ks_key s) = false ->
    is_ok (kv_string name required (build_kv Tmpl Re tmpl_parse tmpl_exec re_compile s)) = false.
  Proof.
    unfold validate_templated, build_kv, kv_string, must_templated. cbn [kc_key]. intro V.
    destruct (new_templated Tmpl Re tmpl_parse tmpl_exec re_compile (ks_key s)); [discriminate|reflexivity].
  Qed.

  (** reject: total even without validation (every use is behind `!= nil`); validation guarantees that the configured
      regexp is really in force in every check that was asked for *)
  Lemma reject_block_total regex lk lv ak av r :
    forall c, In c (build_reject Tmpl Re tmpl_parse tmpl_exec re_compile regex lk lv ak av) ->
      forallb is_ok (reject_uses Tmpl Re tmpl_parse tmpl_exec re_compile c r) = true.
  Proof.
    intros c _. unfold reject_uses. rewrite forallb_app, !opt_uses_ok. reflexivity.
  Qed.

  Lemma reject_block_in_force regex lk lv ak av :
    validate_reject Tmpl Re tmpl_parse tmpl_exec re_compile regex = true ->
    forall c, In c (build_reject Tmpl Re tmpl_parse tmpl_exec re_compile regex lk lv ak av) ->
      rc_key c <> None \/ rc_value c <> None.
  Proof.
    unfold validate_reject. intro V.
    destruct (validated_is_built Tmpl Re tmpl_parse tmpl_exec re_compile regex V) as [t E].
    intros c Hin. unfold build_reject in Hin. rewrite E in Hin.
    repeat (apply in_app_or in Hin; destruct Hin as [Hin|Hin]);
      try (destruct lk; cbn in Hin; [destruct Hin as [<-|[]]; cbn; left; discriminate | contradiction]);
      try (destruct lv; cbn in Hin; [destruct Hin as [<-|[]]; cbn; right; discriminate | contradiction]);
      try (destruct ak; cbn in Hin; [destruct Hin as [<-|[]]; cbn; left; discriminate | contradiction]);
      try (destruct av; cbn in Hin; [destruct Hin as [<-|[]]; cbn; right; discriminate | contradiction]).
  Qed.

  (** name / link *)
  Lemma single_block_total regex name r :
    validate_single Tmpl Re tmpl_parse tmpl_exec re_compile regex = true ->
    let c := build_single Tmpl Re tmpl_parse tmpl_exec re_compile regex in
    is_ok (single_string name c) = true /\
    forallb is_ok (single_uses Tmpl Re tmpl_parse tmpl_exec re_compile c r) = true.
  Proof.
    unfold validate_single, build_single. intro V.
    destruct (validated_is_built Tmpl Re tmpl_parse tmpl_exec re_compile regex V) as [t E]. cbn zeta. rewrite E.
    split; [reflexivity|]. unfold single_uses. cbn [use_site forallb]. rewrite mexpand_ok. reflexivity.
  Qed.

  (** aggregate *)
  Lemma aggregate_block_total name r :
    validate_aggregate Tmpl Re tmpl_parse tmpl_exec re_compile name = true ->
    forallb is_ok (single_uses Tmpl Re tmpl_parse tmpl_exec re_compile
                     (build_aggregate Tmpl Re tmpl_parse tmpl_exec re_compile name) r) = true.
  Proof.
    unfold validate_aggregate, build_aggregate. intro V. apply andb_true_iff in V. destruct V as [Hne V].
    destruct (String.eqb name ""); [discriminate|].
    destruct (validated_is_built Tmpl Re tmpl_parse tmpl_exec re_compile name V) as [t E]. rewrite E.
    unfold single_uses. cbn [use_site forallb]. rewrite mexpand_ok. reflexivity.
  Qed.
End Oracles.
