(** C14 — invariants of all reachable states of the key-lock / worker-pool / cache transition system. *)
From Coq Require Import List Arith Bool Lia Permutation.
From PintV Require Import Model.KeyLock Proofs.C14_lists.
Import ListNotations.

(** Side condition on the static configuration: a caller never asks the same request twice, and callers
    that take different lock keys ask disjoint sets of requests (the lock key determines the cache keys). *)
Record side_cond (cf : config) : Prop := {
  sc_nodup : forall c, NoDup (jobs_of cf c);
  sc_disj : forall c c' ck, key_of cf c <> key_of cf c' -> In ck (jobs_of cf c) -> In ck (jobs_of cf c') -> False
}.

Record Inv (cf : config) (s : state) : Prop := {
  i_idle : forall w, pool cf <= w -> wst s w = WIdle;
  i_held_nodup : NoDup (held s);
  i_held : forall k, In k (held s) <-> exists c, crit (phase s c) = true /\ key_of cf c = k;
  i_mutex : forall c c', crit (phase s c) = true -> crit (phase s c') = true ->
                         key_of cf c = key_of cf c' -> c = c';
  i_jobs_nodup : NoDup (insys cf s);
  i_jobs_owner : forall c ck, In (c, ck) (insys cf s) -> exists ts out, phase s c = PCrit ts out /\ In ck out;
  i_caller : forall c ts out, phase s c = PCrit ts out ->
                              NoDup (ts ++ out) /\ forall ck, In ck (ts ++ out) -> In ck (jobs_of cf c);
  i_served : cache s = served s;
  i_cache_nodup : NoDup (map fst (cache s));
  i_running_miss : forall w c ck, wst s w = WRunning (c, ck) -> lookup ck (cache s) = None
}.

Lemma insys_wl cf s : insys cf s = queue s ++ wl (wst s) (seq 0 (pool cf)).
Proof. reflexivity. Qed.

Lemma inv_init cf : Inv cf init.
Proof.
  constructor; cbn; try (intros; reflexivity); try constructor; try discriminate.
  - tauto.
  - intros [c [H _]]. discriminate.
  - unfold insys. cbn. induction (seq 0 (pool cf)); cbn; [constructor | auto].
  - intros c ck H. exfalso. unfold insys in H. cbn in H. induction (seq 0 (pool cf)); cbn in H; auto.
Qed.

(** A worker holding a job is inside the pool. *)
Lemma worker_in_pool cf s w : Inv cf s -> wst s w <> WIdle -> w < pool cf.
Proof. intros I H. destruct (Nat.lt_ge_cases w (pool cf)) as [L|L]; [exact L|]. exfalso. apply H. apply (i_idle _ _ I). exact L. Qed.

Lemma worker_job_insys cf s w j : w < pool cf -> In j (wjob (wst s w)) -> In j (insys cf s).
Proof.
  intros L H. rewrite insys_wl, in_app_iff. right. apply wl_In. exists w. split; [apply in_seq; lia | exact H].
Qed.

(** Two jobs in the pool with the same cache key are the same job — this is where the side condition is used. *)
Lemma same_ck_same_job cf s c c' ck :
  side_cond cf -> Inv cf s -> In (c, ck) (insys cf s) -> In (c', ck) (insys cf s) -> c = c'.
Proof.
  intros SC I H1 H2.
  destruct (i_jobs_owner _ _ I c ck H1) as [ts [out [P1 O1]]].
  destruct (i_jobs_owner _ _ I c' ck H2) as [ts' [out' [P2 O2]]].
  destruct (Nat.eq_dec (key_of cf c) (key_of cf c')) as [E|N].
  - apply (i_mutex _ _ I); [rewrite P1 | rewrite P2 |]; auto.
  - exfalso. apply (sc_disj _ SC c c' ck N).
    + apply (proj2 (i_caller _ _ I c ts out P1)). apply in_app_iff. right. exact O1.
    + apply (proj2 (i_caller _ _ I c' ts' out' P2)). apply in_app_iff. right. exact O2.
Qed.

(** Two different workers never hold jobs with the same cache key. *)
Lemma workers_distinct_ck cf s w w' j j' :
  side_cond cf -> Inv cf s -> w <> w' -> In j (wjob (wst s w)) -> In j' (wjob (wst s w')) -> snd j = snd j' -> False.
Proof.
  intros SC I N H H' E.
  assert (L : w < pool cf) by (apply (worker_in_pool cf s w I); intros X; rewrite X in H; exact H).
  assert (L' : w' < pool cf) by (apply (worker_in_pool cf s w' I); intros X; rewrite X in H'; exact H').
  destruct j as [c ck], j' as [c' ck']. cbn in E. subst ck'.
  assert (c = c') as <-.
  { eapply same_ck_same_job; eauto using worker_job_insys. }
  pose proof (i_jobs_nodup _ _ I) as ND. rewrite insys_wl in ND. apply NoDup_app_r in ND.
  eapply (NoDup_flat_map_disjoint (fun w => wjob (wst s w)) (seq 0 (pool cf)) w w' (c, ck)); eauto.
  - apply seq_NoDup.
  - apply in_seq. lia.
  - apply in_seq. lia.
Qed.

(** * Preservation, one action at a time *)

Section Step.
Variable cf : config.
Hypothesis SC : side_cond cf.

Lemma step_lock s c s' : Inv cf s -> step cf s (ALock c) = Some s' -> Inv cf s'.
Proof.
  intros I H. cbn in H. destruct (phase s c) eqn:P; try discriminate.
  destruct (mem (key_of cf c) (held s)) eqn:M; [discriminate|]. injection H as <-.
  apply mem_false in M.
  assert (Hcrit : forall c0, crit (upd (phase s) c (PCrit (jobs_of cf c) []) c0) = true <-> c0 = c \/ crit (phase s c0) = true).
  { intros c0. unfold upd. destruct (Nat.eqb_spec c0 c) as [->|N]; cbn; [tauto|]. split; [auto | intros [X|X]; [congruence | exact X]]. }
  constructor; cbn.
  - apply (i_idle _ _ I).
  - constructor; [exact M | apply (i_held_nodup _ _ I)].
  - intros k. split.
    + intros [<-|Hk].
      * exists c. split; [apply Hcrit; auto | reflexivity].
      * apply (i_held _ _ I) in Hk. destruct Hk as [c0 [Hc Hk]]. exists c0. split; [apply Hcrit; auto | exact Hk].
    + intros [c0 [Hc Hk]]. apply Hcrit in Hc. destruct Hc as [->|Hc]; [left; exact Hk|].
      right. apply (i_held _ _ I). exists c0. auto.
  - intros c1 c2 H1 H2 E. apply Hcrit in H1. apply Hcrit in H2.
    assert (Hfree : forall c0, crit (phase s c0) = true -> key_of cf c0 = key_of cf c -> False).
    { intros c0 Hc Hk. apply M. apply (i_held _ _ I). exists c0. auto. }
    destruct H1 as [->|H1], H2 as [->|H2]; auto.
    + exfalso. eapply Hfree; eauto.
    + exfalso. eapply Hfree; eauto.
    + apply (i_mutex _ _ I); auto.
  - apply (i_jobs_nodup _ _ I).
  - intros c0 ck Hin. destruct (i_jobs_owner _ _ I c0 ck Hin) as [ts [out [P0 O]]].
    exists ts, out. split; [|exact O]. rewrite upd_other; [exact P0|]. intros ->. congruence.
  - intros c0 ts out. unfold upd. destruct (Nat.eqb_spec c0 c) as [->|N].
    + intros [= <- <-]. rewrite app_nil_r. split; [apply (sc_nodup _ SC) | auto].
    + apply (i_caller _ _ I).
  - apply (i_served _ _ I).
  - apply (i_cache_nodup _ _ I).
  - apply (i_running_miss _ _ I).
Qed.

Lemma step_enq s c s' : Inv cf s -> step cf s (AEnq c) = Some s' -> Inv cf s'.
Proof.
  intros I H. cbn in H. destruct (phase s c) as [|ts out|] eqn:P; try discriminate.
  destruct ts as [|ck ts]; [discriminate|]. injection H as <-.
  destruct (i_caller _ _ I c (ck :: ts) out P) as [ND Hsub].
  assert (Hcrit : forall c0, crit (upd (phase s) c (PCrit ts (ck :: out)) c0) = crit (phase s c0)).
  { intros c0. unfold upd. destruct (Nat.eqb_spec c0 c) as [->|N]; [rewrite P; reflexivity | reflexivity]. }
  assert (Hnew : ~ In (c, ck) (insys cf s)).
  { intros Hin. destruct (i_jobs_owner _ _ I c ck Hin) as [ts' [out' [P' O]]]. rewrite P in P'. injection P' as <- <-.
    cbn in ND. inversion ND as [|? ? Hn _]; subst. apply Hn. apply in_app_iff. right. exact O. }
  constructor; cbn.
  - apply (i_idle _ _ I).
  - apply (i_held_nodup _ _ I).
  - intros k. rewrite (i_held _ _ I). split; intros [c0 [Hc Hk]]; exists c0; [rewrite Hcrit | rewrite Hcrit in Hc]; auto.
  - intros c1 c2 H1 H2. rewrite Hcrit in H1, H2. apply (i_mutex _ _ I); auto.
  - unfold insys. cbn. rewrite <- app_assoc. cbn.
    pose proof (i_jobs_nodup _ _ I) as NDj. rewrite insys_wl in NDj, Hnew.
    apply (Permutation_NoDup (l := (c, ck) :: queue s ++ wl (wst s) (seq 0 (pool cf)))).
    + apply Permutation_middle.
    + constructor; auto.
  - intros c0 ck0 Hin. unfold insys in Hin. cbn in Hin. rewrite <- app_assoc in Hin. cbn in Hin.
    assert (Hin' : (c0, ck0) = (c, ck) \/ In (c0, ck0) (insys cf s)).
    { rewrite insys_wl. unfold wl. apply in_app_or in Hin. rewrite in_app_iff.
      destruct Hin as [Hq|[He|Hw]]; [right; left; exact Hq | left; symmetry; exact He | right; right; exact Hw]. }
    destruct Hin' as [[= -> ->]|Hin'].
    + exists ts, (ck :: out). rewrite upd_same. split; [reflexivity | left; reflexivity].
    + destruct (i_jobs_owner _ _ I c0 ck0 Hin') as [ts' [out' [P' O]]].
      unfold upd. destruct (Nat.eqb_spec c0 c) as [->|N].
      * rewrite P in P'. injection P' as <- <-. exists ts, (ck :: out). split; [reflexivity | right; exact O].
      * exists ts', out'. auto.
  - intros c0 ts0 out0. unfold upd. destruct (Nat.eqb_spec c0 c) as [->|N].
    + intros [= <- <-]. split.
      * apply (Permutation_NoDup (l := ck :: ts ++ out)); [apply Permutation_middle | exact ND].
      * intros ck0 Hin. apply Hsub. rewrite in_app_iff in *. cbn in *. tauto.
    + apply (i_caller _ _ I).
  - apply (i_served _ _ I).
  - apply (i_cache_nodup _ _ I).
  - apply (i_running_miss _ _ I).
Qed.

Lemma step_take s w s' : Inv cf s -> step cf s (ATake w) = Some s' -> Inv cf s'.
Proof.
  intros I H. unfold step in H. destruct (Nat.ltb_spec w (pool cf)) as [L|L]; [|discriminate].
  destruct (wst s w) eqn:W; try discriminate. destruct (queue s) as [|j q] eqn:Q; [discriminate|]. injection H as <-.
  destruct (wl_split (wst s) (pool cf) w L) as [A [B [E1 E2]]]. rewrite W in E1. cbn in E1.
  assert (Hperm : Permutation (insys cf s) (q ++ wl (upd (wst s) w (WTaken j)) (seq 0 (pool cf)))).
  { rewrite insys_wl, Q, E1, E2. cbn. rewrite !(app_assoc q A). apply Permutation_middle. }
  constructor; cbn.
  - intros w0 L0. rewrite upd_other by lia. apply (i_idle _ _ I). exact L0.
  - apply (i_held_nodup _ _ I).
  - apply (i_held _ _ I).
  - apply (i_mutex _ _ I).
  - unfold insys. cbn. eapply Permutation_NoDup; [exact Hperm | apply (i_jobs_nodup _ _ I)].
  - intros c ck Hin. apply (i_jobs_owner _ _ I). eapply Permutation_in; [symmetry; exact Hperm | exact Hin].
  - apply (i_caller _ _ I).
  - apply (i_served _ _ I).
  - apply (i_cache_nodup _ _ I).
  - intros w0 c ck. unfold upd. destruct (Nat.eqb_spec w0 w); [discriminate | apply (i_running_miss _ _ I)].
Qed.

(** Changing the state of worker [w] without changing the job it holds leaves the pool's job list alone. *)
Lemma insys_same_job s w x j (I : Inv cf s) :
  wjob (wst s w) = [j] -> wjob x = [j] ->
  queue s ++ wl (upd (wst s) w x) (seq 0 (pool cf)) = insys cf s.
Proof.
  intros W X.
  assert (L : w < pool cf) by (apply (worker_in_pool cf s w I); intros E; rewrite E in W; discriminate).
  destruct (wl_split (wst s) (pool cf) w L) as [A [B [E1 E2]]]. rewrite insys_wl, E1, E2, W, X. reflexivity.
Qed.

Lemma step_check s w s' : Inv cf s -> step cf s (ACheck w) = Some s' -> Inv cf s'.
Proof.
  intros I H. cbn in H. destruct (wst s w) as [|[c ck]| |] eqn:W; try discriminate.
  destruct (lookup ck (cache s)) as [v|] eqn:LK; injection H as <-.
  - assert (E : queue s ++ wl (upd (wst s) w (WReply (c, ck) (ROk v))) (seq 0 (pool cf)) = insys cf s)
      by (apply (insys_same_job s w _ (c, ck) I); [rewrite W|]; reflexivity).
    constructor; cbn; try apply I.
    + intros w0 L0. unfold upd. destruct (Nat.eqb_spec w0 w) as [->|N]; [|apply (i_idle _ _ I); exact L0].
      exfalso. rewrite (i_idle _ _ I w L0) in W. discriminate.
    + unfold wl in E. rewrite E. apply I.
    + unfold wl in E. rewrite E. apply I.
    + intros w0 c0 ck0. unfold upd. destruct (Nat.eqb_spec w0 w); [discriminate | apply (i_running_miss _ _ I)].
  - assert (E : queue s ++ wl (upd (wst s) w (WRunning (c, ck))) (seq 0 (pool cf)) = insys cf s)
      by (apply (insys_same_job s w _ (c, ck) I); [rewrite W|]; reflexivity).
    constructor; cbn; try apply I.
    + intros w0 L0. unfold upd. destruct (Nat.eqb_spec w0 w) as [->|N]; [|apply (i_idle _ _ I); exact L0].
      exfalso. rewrite (i_idle _ _ I w L0) in W. discriminate.
    + unfold wl in E. rewrite E. apply I.
    + unfold wl in E. rewrite E. apply I.
    + intros w0 c0 ck0. unfold upd. destruct (Nat.eqb_spec w0 w).
      * intros [= <- <-]. exact LK.
      * apply (i_running_miss _ _ I).
Qed.

Lemma step_end s w r s' : Inv cf s -> step cf s (AEnd w r) = Some s' -> Inv cf s'.
Proof.
  intros I H. cbn in H. destruct (wst s w) as [| |[c ck]|] eqn:W; try discriminate.
  assert (E : forall r0, queue s ++ wl (upd (wst s) w (WReply (c, ck) r0)) (seq 0 (pool cf)) = insys cf s)
    by (intros r0; apply (insys_same_job s w _ (c, ck) I); [rewrite W|]; reflexivity).
  assert (Hidle : forall r0 w0, pool cf <= w0 -> upd (wst s) w (WReply (c, ck) r0) w0 = WIdle).
  { intros r0 w0 L0. unfold upd. destruct (Nat.eqb_spec w0 w) as [->|N]; [|apply (i_idle _ _ I); exact L0].
    exfalso. rewrite (i_idle _ _ I w L0) in W. discriminate. }
  destruct r as [v|]; injection H as <-.
  - pose proof (i_running_miss _ _ I w c ck W) as Miss.
    constructor; cbn; try apply I.
    + apply Hidle.
    + unfold wl in E. rewrite E. apply I.
    + unfold wl in E. rewrite E. apply I.
    + f_equal. apply (i_served _ _ I).
    + constructor; [apply lookup_None; exact Miss | apply (i_cache_nodup _ _ I)].
    + intros w0 c0 ck0. unfold upd. destruct (Nat.eqb_spec w0 w) as [->|N]; [discriminate|]. intros W0.
      destruct (Nat.eqb_spec ck0 ck) as [->|Nk]; [|apply (i_running_miss _ _ I w0 c0 ck0 W0)].
      exfalso. apply (workers_distinct_ck cf s w0 w (c0, ck) (c, ck) SC I N); [rewrite W0 | rewrite W |]; cbn; auto.
  - constructor; cbn; try apply I.
    + apply Hidle.
    + unfold wl in E. rewrite E. apply I.
    + unfold wl in E. rewrite E. apply I.
    + intros w0 c0 ck0. unfold upd. destruct (Nat.eqb_spec w0 w); [discriminate | apply (i_running_miss _ _ I)].
Qed.

Lemma step_reply s w s' : Inv cf s -> step cf s (AReply w) = Some s' -> Inv cf s'.
Proof.
  intros I H. cbn in H. destruct (wst s w) as [| | |[c ck] r] eqn:W; try discriminate.
  destruct (phase s c) as [|ts out|] eqn:P; try discriminate.
  destruct (mem ck out) eqn:M; [|discriminate]. injection H as <-. apply mem_In in M.
  assert (L : w < pool cf) by (apply (worker_in_pool cf s w I); rewrite W; discriminate).
  destruct (wl_split (wst s) (pool cf) w L) as [A [B [E1 E2]]]. rewrite W in E1. cbn in E1.
  assert (Hcrit : forall c0, crit (upd (phase s) c (PCrit ts (remove1 ck out)) c0) = crit (phase s c0)).
  { intros c0. unfold upd. destruct (Nat.eqb_spec c0 c) as [->|N]; [rewrite P; reflexivity | reflexivity]. }
  destruct (i_caller _ _ I c ts out P) as [ND Hsub].
  pose proof (i_jobs_nodup _ _ I) as NDj. rewrite insys_wl, E1 in NDj.
  assert (Hnew : insys cf (mk_state (held s) (upd (phase s) c (PCrit ts (remove1 ck out))) (queue s)
                                    (upd (wst s) w WIdle) (cache s) (served s) ((c, ck, r) :: delivered s))
                 = queue s ++ A ++ B).
  { unfold insys. cbn. fold (wl (upd (wst s) w WIdle) (seq 0 (pool cf))). rewrite E2. reflexivity. }
  assert (Hgone : ~ In (c, ck) (queue s ++ A ++ B)).
  { intros Hin. apply (Permutation_NoDup (l' := (c, ck) :: queue s ++ A ++ B)) in NDj.
    - inversion NDj; auto.
    - rewrite (app_assoc (queue s) A). symmetry. rewrite (app_assoc (queue s) A). apply Permutation_middle. }
  assert (Hsubsys : forall j, In j (queue s ++ A ++ B) -> In j (insys cf s)).
  { intros j. rewrite insys_wl, E1, !in_app_iff. cbn. tauto. }
  constructor.
  - cbn. intros w0 L0. unfold upd. destruct (Nat.eqb_spec w0 w); [reflexivity | apply (i_idle _ _ I); exact L0].
  - apply (i_held_nodup _ _ I).
  - cbn. intros k. rewrite (i_held _ _ I). split; intros [c0 [Hc Hk]]; exists c0; [rewrite Hcrit | rewrite Hcrit in Hc]; auto.
  - cbn. intros c1 c2 H1 H2. rewrite Hcrit in H1, H2. apply (i_mutex _ _ I); auto.
  - rewrite Hnew. apply (Permutation_NoDup (l' := (c, ck) :: queue s ++ A ++ B)) in NDj.
    + inversion NDj; auto.
    + rewrite (app_assoc (queue s) A). symmetry. rewrite (app_assoc (queue s) A). apply Permutation_middle.
  - rewrite Hnew. intros c0 ck0 Hin. destruct (i_jobs_owner _ _ I c0 ck0 (Hsubsys _ Hin)) as [ts' [out' [P' O]]].
    cbn. unfold upd. destruct (Nat.eqb_spec c0 c) as [->|N].
    + rewrite P in P'. injection P' as <- <-. exists ts, (remove1 ck out). split; [reflexivity|].
      apply remove1_In_neq; [exact O|]. intros ->. apply Hgone. exact Hin.
    + exists ts', out'. auto.
  - cbn. intros c0 ts0 out0. unfold upd. destruct (Nat.eqb_spec c0 c) as [->|N].
    + intros [= <- <-]. split.
      * apply NoDup_app_l in ND as ND1. pose proof (NoDup_app_r _ _ ND) as ND2.
        clear - ND. induction ts as [|t ts IH]; cbn in *; [apply remove1_NoDup; exact ND|].
        inversion ND as [|? ? Hn Hr]; subst. constructor; [|auto].
        rewrite in_app_iff in *. intros [X|X]; [tauto|]. apply Hn. right. eapply remove1_In; eauto.
      * intros ck0 Hin. apply Hsub. rewrite in_app_iff in *. destruct Hin as [X|X]; [auto|]. right. eapply remove1_In; eauto.
    + apply (i_caller _ _ I).
  - apply (i_served _ _ I).
  - apply (i_cache_nodup _ _ I).
  - cbn. intros w0 c0 ck0. unfold upd. destruct (Nat.eqb_spec w0 w); [discriminate | apply (i_running_miss _ _ I)].
Qed.

Lemma step_unlock s c s' : Inv cf s -> step cf s (AUnlock c) = Some s' -> Inv cf s'.
Proof.
  intros I H. cbn in H. destruct (phase s c) as [|ts out|] eqn:P; try discriminate.
  destruct ts; [|discriminate]. destruct out; [|discriminate]. injection H as <-.
  assert (Hcrit : forall c0, crit (upd (phase s) c PDone c0) = true <-> c0 <> c /\ crit (phase s c0) = true).
  { intros c0. unfold upd. destruct (Nat.eqb_spec c0 c) as [->|N]; cbn; [split; [discriminate | tauto] | tauto]. }
  assert (Hc : crit (phase s c) = true) by (rewrite P; reflexivity).
  constructor; cbn.
  - apply (i_idle _ _ I).
  - apply remove1_NoDup. apply (i_held_nodup _ _ I).
  - intros k. split.
    + intros Hk. assert (Hk' := remove1_In _ _ _ Hk). apply (i_held _ _ I) in Hk'. destruct Hk' as [c0 [Hc0 Hk0]].
      exists c0. split; [|exact Hk0]. apply Hcrit. split; [|exact Hc0]. intros ->. subst k.
      apply (remove1_NoDup_notin (key_of cf c) (held s) (i_held_nodup _ _ I)). exact Hk.
    + intros [c0 [Hc0 Hk0]]. apply Hcrit in Hc0. destruct Hc0 as [N Hc0]. apply remove1_In_neq.
      * apply (i_held _ _ I). exists c0. auto.
      * intros E. apply N. apply (i_mutex _ _ I); auto. congruence.
  - intros c1 c2 H1 H2. apply Hcrit in H1. apply Hcrit in H2. apply (i_mutex _ _ I); tauto.
  - apply (i_jobs_nodup _ _ I).
  - intros c0 ck Hin. destruct (i_jobs_owner _ _ I c0 ck Hin) as [ts [out [P0 O]]].
    exists ts, out. split; [|exact O]. rewrite upd_other; [exact P0|]. intros ->. rewrite P in P0. injection P0 as <- <-. destruct O.
  - intros c0 ts out. unfold upd. destruct (Nat.eqb_spec c0 c); [discriminate | apply (i_caller _ _ I)].
  - apply (i_served _ _ I).
  - apply (i_cache_nodup _ _ I).
  - apply (i_running_miss _ _ I).
Qed.

Lemma step_gc s ev s' : Inv cf s -> step cf s (AGc ev) = Some s' -> Inv cf s'.
Proof.
  intros I H. cbn in H. injection H as <-.
  constructor; cbn; try apply I.
  - f_equal. apply (i_served _ _ I).
  - apply drop_keys_NoDup. apply (i_cache_nodup _ _ I).
  - intros w c ck W. apply drop_keys_lookup_None. apply (i_running_miss _ _ I w c ck W).
Qed.

Theorem step_inv s a s' : Inv cf s -> step cf s a = Some s' -> Inv cf s'.
Proof.
  destruct a; eauto using step_lock, step_enq, step_take, step_check, step_end, step_reply, step_unlock, step_gc.
Qed.

Theorem run_inv : forall l s s', Inv cf s -> run cf s l = Some s' -> Inv cf s'.
Proof.
  induction l as [|a l IH]; cbn; intros s s' I H.
  - injection H as <-. exact I.
  - destruct (step cf s a) as [s1|] eqn:E; [|discriminate]. eapply IH; [eapply step_inv; eauto | exact H].
Qed.

Theorem reachable_inv s : reachable cf s -> Inv cf s.
Proof. intros [l H]. eapply run_inv; [apply inv_init | exact H]. Qed.

End Step.
