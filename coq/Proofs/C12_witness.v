(** Checked derivation trees: an executable certificate checker for [Sem], used to state the [_refuted] /
    non-vacuity witnesses by [vm_compute]. *)
From Coq Require Import List String Bool Floats NArith.
From PintV Require Import Common.Bytes Gen.C04 Model.PromQL Model.PromSem.
Import ListNotations.
Open Scope string_scope.
Open Scope list_scope.

Inductive rtree := RT (R : result) (kids : list rtree).

Definition rt_result (t : rtree) : result := match t with RT R _ => R end.

Fixpoint check_tree (db : list labelset) (e : expr) (t : rtree) {struct t} : bool :=
  match t with
  | RT R kids =>
      (match local db e (map rt_result kids) R with Some true => true | _ => false end) &&
      (fix go (es : list expr) (ts : list rtree) {struct ts} : bool :=
         match es, ts with
         | [], [] => true
         | e' :: es', t' :: ts' => check_tree db e' t' && go es' ts'
         | _, _ => false
         end) (children e) kids
  end.

Lemma check_tree_sound db : forall t e, check_tree db e t = true -> Sem db e (rt_result t).
Proof.
  fix IH 1. intros [R kids] e H. cbn [check_tree] in H. apply andb_true_iff in H. destruct H as [Hl Hk].
  cbn [rt_result]. apply (SemNode db e (map rt_result kids) R).
  - revert Hk. generalize (children e) as es. clear Hl.
    induction kids as [|t ts IHk]; intros es Hk; destruct es as [|e' es']; try discriminate.
    + constructor.
    + apply andb_true_iff in Hk. destruct Hk as [H1 H2]. simpl. constructor.
      * apply IH. exact H1.
      * apply IHk. exact H2.
  - destruct (local db e (map rt_result kids) R) as [[|]|]; try discriminate. reflexivity.
Qed.

(** pre-order result list (the format of the correspondence cases, i.e. REAL engine results) -> tree *)
Fixpoint tree_of (e : expr) (rs : list result) {struct e} : rtree * list result :=
  match rs with
  | [] => (RT RErr [], [])
  | R :: rest =>
      let '(kids, rest) :=
        match e with
        | ENum _ | EStr _ | ESel _ => ([], rest)
        | EMatrix e1 | ESubq e1 | EParen e1 | EUnary _ e1 =>
            let '(t, rest) := tree_of e1 rest in ([t], rest)
        | EAgg _ _ _ (Some p) e1 =>
            let '(tp, rest) := tree_of p rest in
            let '(t, rest) := tree_of e1 rest in ([tp; t], rest)
        | EAgg _ _ _ None e1 =>
            let '(t, rest) := tree_of e1 rest in ([t], rest)
        | ECall _ _ args =>
            (fix go (l : list expr) (rest : list result) : list rtree * list result :=
               match l with
               | [] => ([], rest)
               | a :: r =>
                   let '(t, rest) := tree_of a rest in
                   let '(ts, rest) := go r rest in
                   (t :: ts, rest)
               end) args rest
        | EBin _ _ _ l r =>
            let '(tl, rest) := tree_of l rest in
            let '(tr, rest) := tree_of r rest in ([tl; tr], rest)
        end in
      (RT R kids, rest)
  end.

(** [certified db e rs]: the pre-order results [rs] form a valid [Sem] derivation for [e] on [db]. *)
Definition certified (db : list labelset) (e : expr) (rs : list result) : bool :=
  check_tree db e (fst (tree_of e rs)).

Lemma certified_sound db e rs : certified db e rs = true -> Sem db e (rt_result (fst (tree_of e rs))).
Proof. apply check_tree_sound. Qed.

Definition db_total_b (U : list string) (db : list labelset) : bool :=
  forallb (fun ls => forallb (has ls) U) db.

Lemma db_total_b_sound U db : db_total_b U db = true -> db_total U db.
Proof.
  unfold db_total_b, db_total. rewrite forallb_forall. intros H ls Hls l Hl.
  specialize (H ls Hls). rewrite forallb_forall in H. auto.
Qed.
