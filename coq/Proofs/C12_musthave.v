(** C12: [must_have] is sound on db_total databases: if [must_have U e l] then every result admitted by [Sem]
    for [e] is a vector/matrix all of whose series carry label [l]. *)
From Coq Require Import List String Bool Floats NArith Arith Lia.
From PintV Require Import Common.Bytes Gen.C04 Model.PromQL Model.Source Model.PromSem Model.PromFrag
  Proofs.C04_lists Proofs.C04_transfer Proofs.C04_walk Proofs.C04_sound Proofs.C04_calls Proofs.C04_binops Proofs.C04_main.
Import ListNotations.
Open Scope string_scope.
Open Scope list_scope.

Section MustHave.
  Variable U : list string.
  Variable db : list labelset.
  Hypothesis Htotal : db_total U db.

  Definition MH (l : string) (R : result) : Prop :=
    is_series_result R = true /\ forall ls, In ls (series_of R) -> has ls l = true.

  Definition Q (e : expr) : Prop := forall l, must_have U e l = true -> forall R, Sem db e R -> MH l R.

  Lemma all_has_seteq l R C : seteq_ls R C = true -> (forall z, In z C -> has z l = true) -> forall x, In x R -> has x l = true.
  Proof.
    intros H HC x Hx. destruct (seteq_ls_l _ _ H x Hx) as [y [Hy He]]. rewrite (has_ext x y He). auto.
  Qed.

  Lemma all_has_subset l R C : subset_ls R C = true -> (forall z, In z C -> has z l = true) -> forall x, In x R -> has x l = true.
  Proof.
    intros H HC x Hx. destruct (subset_ls_spec _ _ H x Hx) as [y [Hy He]]. rewrite (has_ext x y He). auto.
  Qed.

  Lemma has_drop_name_keep ls l : l <> metric_name -> has (drop_name ls) l = has ls l.
  Proof.
    intros H. unfold has. rewrite get_drop_name. apply String.eqb_neq in H. rewrite H. reflexivity.
  Qed.

  Lemma all_has_map_drop l C : l <> metric_name -> (forall z, In z C -> has z l = true) ->
    forall y, In y (map drop_name C) -> has y l = true.
  Proof.
    intros Hl HC y Hy. apply in_map_iff in Hy. destruct Hy as [z [<- Hz]]. rewrite has_drop_name_keep; auto.
  Qed.

  Lemma Q_sel ms : Q (ESel ms).
  Proof.
    intros l Hm R HS. cbn [must_have] in Hm. apply mem_str_true in Hm.
    apply Sem_inv in HS. destruct HS as [cs [Hc Hl]]. inversion Hc; subst.
    destruct R as [| |R0| |]; try discriminate. cbn [local] in Hl. apply Some_true_inj in Hl.
    apply andb_true_iff in Hl. destruct Hl as [Hl _]. rewrite forallb_forall in Hl.
    split; [reflexivity|]. intros ls Hin. specialize (Hl ls Hin). apply andb_true_iff in Hl. destruct Hl as [Hl _].
    apply mem_ls_spec in Hl. destruct Hl as [y [Hy He]]. rewrite (has_ext ls y He). apply (Htotal y Hy l Hm).
  Qed.

  Lemma Q_matrix e : Q e -> Q (EMatrix e).
  Proof.
    intros IH l Hm R HS. cbn [must_have] in Hm.
    apply Sem_inv in HS. destruct HS as [cs [Hc Hl]]. cbn [children] in Hc.
    apply Forall2_1 in Hc. destruct Hc as [c [-> Hc]].
    destruct c as [| |C| |]; destruct R as [| |R0|R0|]; try discriminate. cbn [local] in Hl. apply Some_true_inj in Hl.
    destruct (IH l Hm _ Hc) as [_ I2]. split; [reflexivity|]. apply (all_has_seteq l _ _ Hl I2).
  Qed.

  Lemma Q_subq e : Q e -> Q (ESubq e).
  Proof.
    intros IH l Hm R HS. cbn [must_have] in Hm.
    apply Sem_inv in HS. destruct HS as [cs [Hc Hl]]. cbn [children] in Hc.
    apply Forall2_1 in Hc. destruct Hc as [c [-> Hc]].
    destruct c as [| |C| |]; destruct R as [| |R0|R0|]; try discriminate. cbn [local] in Hl. apply Some_true_inj in Hl.
    destruct (IH l Hm _ Hc) as [_ I2]. split; [reflexivity|]. apply (all_has_seteq l _ _ Hl I2).
  Qed.

  Lemma Q_paren e : Q e -> Q (EParen e).
  Proof.
    intros IH l Hm R HS. cbn [must_have] in Hm.
    apply Sem_inv in HS. destruct HS as [cs [Hc Hl]]. cbn [children] in Hc.
    apply Forall2_1 in Hc. destruct Hc as [c [-> Hc]].
    destruct (IH l Hm _ Hc) as [I1 I2].
    destruct c as [| |C|C|]; try discriminate; destruct R as [| |R0|R0|]; try discriminate;
      cbn [local] in Hl; apply Some_true_inj in Hl; (split; [reflexivity|]); apply (all_has_seteq l _ _ Hl I2).
  Qed.

  Lemma Q_unary b e : Q e -> Q (EUnary b e).
  Proof.
    intros IH l Hm R HS. cbn [must_have] in Hm. apply andb_true_iff in Hm. destruct Hm as [Hn Hm].
    apply Sem_inv in HS. destruct HS as [cs [Hc Hl]]. cbn [children] in Hc.
    apply Forall2_1 in Hc. destruct Hc as [c [-> Hc]].
    destruct (IH l Hm _ Hc) as [I1 I2].
    destruct c as [| |C| |]; try discriminate; destruct R as [| |R0| |]; try discriminate.
    cbn [local] in Hl. apply Some_true_inj in Hl. split; [reflexivity|].
    apply (all_has_seteq l _ _ Hl). destruct b; [|exact I2].
    simpl in Hn. apply negb_true_iff in Hn. apply String.eqb_neq in Hn. apply all_has_map_drop; auto.
  Qed.

  Lemma has_group_key_keep (w : bool) g z l :
    (if w then negb (String.eqb l metric_name) && negb (mem_str l g) else mem_str l g) = true ->
    has (group_key w g z) l = has z l.
  Proof.
    intros H. unfold has, group_key. destruct w.
    - apply andb_true_iff in H. destruct H as [H1 H2]. apply negb_true_iff in H1, H2.
      rewrite get_without. simpl. rewrite H1, H2. reflexivity.
    - rewrite get_keep, H. reflexivity.
  Qed.

  Lemma Q_agg op w g p e : Q e -> Q (EAgg op w g p e).
  Proof.
    intros IH l Hm R HS. cbn [must_have] in Hm.
    apply Sem_inv in HS. destruct HS as [cs [Hc Hl]].
    assert (Hcore : forall C R0, Sem db e (RVec C) -> agg_rule op w g p C R0 = Some true -> MH l (RVec R0)).
    { intros C R0 HSe Hr. split; [reflexivity|].
      destruct op; try discriminate;
        try (destruct (IH l Hm _ HSe) as [_ I2]; cbn [agg_rule] in Hr; apply Some_true_inj in Hr;
             apply (all_has_subset l _ _ Hr I2)).
      all: assert (Hk : (if w then negb (String.eqb l metric_name) && negb (mem_str l g) else mem_str l g) = true /\
                        must_have U e l = true)
        by (destruct w; [apply andb_true_iff in Hm; destruct Hm as [Hm Hm2]; split; auto | apply andb_true_iff in Hm; tauto]).
      all: destruct Hk as [Hk Hme]; destruct (IH l Hme _ HSe) as [_ I2]; cbn [agg_rule] in Hr; apply Some_true_inj in Hr.
      all: apply (all_has_seteq l _ _ Hr); intros y Hy; apply in_map_iff in Hy; destruct Hy as [z [<- Hz]];
        rewrite (has_group_key_keep w g z l Hk); auto. }
    destruct p as [pe|]; cbn [children] in Hc.
    - apply Forall2_2 in Hc. destruct Hc as [cp [c [-> [_ Hc]]]].
      cbn [local] in Hl. destruct cp; destruct c as [| |C| |]; destruct R as [| |R0| |]; try discriminate; eauto.
    - apply Forall2_1 in Hc. destruct Hc as [c [-> Hc]].
      cbn [local] in Hl. destruct c as [| |C| |]; destruct R as [| |R0| |]; try discriminate; eauto.
  Qed.

  Lemma nth_must_spec l : forall args i,
    (fix nth_must (l' : list expr) (i : nat) {struct l'} : bool :=
       match l' with
       | [] => false
       | a :: r => match i with O => must_have U a l | S k => nth_must r k end
       end) args i = true ->
    exists a, nth_error args i = Some a /\ must_have U a l = true.
  Proof.
    induction args as [|a r IH]; intros i H; [discriminate|].
    destruct i as [|i]; simpl; [eauto | apply IH; exact H].
  Qed.

  Lemma Q_call f ats args : Forall Q args -> Q (ECall f ats args).
  Proof.
    intros IH l Hm R HS. cbn [must_have] in Hm. rewrite Forall_forall in IH.
    apply Sem_inv in HS. destruct HS as [cs [Hc Hl]]. cbn [children] in Hc.
    cbn [local] in Hl. unfold call_rule in Hl.
    destruct (sem_class f) eqn:Ec; try discriminate.
    destruct (first_vec_arg ats (List.length args) 0) as [i|] eqn:Ef; [|discriminate].
    apply andb_true_iff in Hm. destruct Hm as [Hn Hm]. apply nth_must_spec in Hm. destruct Hm as [a [Ha Hma]].
    destruct R as [| |R0| |]; try discriminate.
    destruct (nth_error cs i) as [C|] eqn:En; [|discriminate].
    destruct (is_series_result C) eqn:Es; [|discriminate]. apply Some_true_inj in Hl.
    destruct (Forall2_nth _ _ _ _ _ Hc En) as [a' [Ha' HSa]]. rewrite Ha in Ha'. inversion Ha'; subst a'.
    destruct (IH a (nth_error_In _ _ Ha) l Hma _ HSa) as [_ I2].
    split; [reflexivity|]. unfold map_rule in Hl. apply andb_true_iff in Hl. destruct Hl as [Hl _].
    apply (all_has_subset l _ _ Hl). destruct keep_name; [exact I2|].
    simpl in Hn. apply negb_true_iff in Hn. apply String.eqb_neq in Hn. apply all_has_map_drop; auto.
  Qed.

  Lemma get_result_metric_keep op rb vm m o l :
    l <> metric_name -> ~ In l (vm_include vm) ->
    (match vm_card vm with
     | OneToOne => if vm_on vm then mem_str l (vm_labels vm) else negb (mem_str l (vm_labels vm))
     | _ => true end) = true ->
    get (result_metric op rb vm m o) l = get m l.
  Proof.
    intros Hn Hi Hc. unfold result_metric. rewrite get_fold_include. rewrite (mem_str_of_notIn _ _ Hi).
    assert (Hp : get (if should_drop_name op || rb then drop_name m else m) l = get m l).
    { destruct (should_drop_name op || rb); auto. rewrite get_drop_name. apply String.eqb_neq in Hn. rewrite Hn. reflexivity. }
    destruct (vm_card vm); try exact Hp.
    destruct (vm_on vm).
    - rewrite get_keep, Hc. exact Hp.
    - rewrite get_without. apply negb_true_iff in Hc. rewrite Hc. exact Hp.
  Qed.

  Lemma Q_bin op rb vm a b : Q a -> Q b -> Q (EBin op rb vm a b).
  Proof.
    intros IHa IHb l Hm R HS. cbn [must_have] in Hm.
    apply Sem_inv in HS. destruct HS as [cs [Hc Hl]]. cbn [children] in Hc.
    apply Forall2_2 in Hc. destruct Hc as [cl [cr [-> [HSa HSb]]]].
    destruct vm as [vm|].
    - cbn [local] in Hl.
      destruct cl as [| |Cl| |]; try discriminate; destruct cr as [| |Cr| |]; try discriminate;
        destruct R as [| |R0| |]; try discriminate.
      apply and_opt_true in Hl. destruct Hl as [Hl _].
      split; [reflexivity|].
      destruct (is_setop op) eqn:Eset.
      + destruct op; try discriminate; cbn [bin_rule] in Hl; apply Some_true_inj in Hl.
        * destruct (IHa l Hm _ HSa) as [_ I2]. apply (all_has_seteq l _ _ Hl).
          intros z Hz. apply In_filter_weak in Hz. auto.
        * apply andb_true_iff in Hm. destruct Hm as [Hma Hmb].
          destruct (IHa l Hma _ HSa) as [_ I2]. destruct (IHb l Hmb _ HSb) as [_ J2].
          apply (all_has_seteq l _ _ Hl). intros z Hz. apply in_app_or in Hz. destruct Hz as [Hz|Hz]; auto.
          apply In_filter_weak in Hz. auto.
        * destruct (IHa l Hm _ HSa) as [_ I2]. apply (all_has_seteq l _ _ Hl).
          intros z Hz. apply In_filter_weak in Hz. auto.
      + rewrite (bin_rule_arith op rb vm Cl Cr R0 Eset) in Hl.
        assert (Hm' : negb (String.eqb l metric_name) && negb (mem_str l (vm_include vm)) &&
                      match vm_card vm with
                      | OneToOne => (if vm_on vm then mem_str l (vm_labels vm) else negb (mem_str l (vm_labels vm))) && must_have U a l
                      | ManyToOne => must_have U a l
                      | OneToMany => must_have U b l
                      | ManyToMany => false
                      end = true) by (destruct op; try discriminate; exact Hm).
        clear Hm. apply andb_true_iff in Hm'. destruct Hm' as [Hm1 Hm2]. apply andb_true_iff in Hm1. destruct Hm1 as [Hn Hi].
        apply negb_true_iff in Hn. apply String.eqb_neq in Hn. apply negb_true_iff in Hi. apply mem_str_false in Hi.
        assert (Hmany : forall m, In m (match vm_card vm with OneToMany => Cr | _ => Cl end) -> has m l = true).
        { destruct (vm_card vm).
          - apply andb_true_iff in Hm2. destruct Hm2 as [_ Hm2]. destruct (IHa l Hm2 _ HSa) as [_ I2]. exact I2.
          - destruct (IHa l Hm2 _ HSa) as [_ I2]. exact I2.
          - destruct (IHb l Hm2 _ HSb) as [_ I2]. exact I2.
          - discriminate. }
        assert (Hcard : (match vm_card vm with
                         | OneToOne => if vm_on vm then mem_str l (vm_labels vm) else negb (mem_str l (vm_labels vm))
                         | _ => true end) = true).
        { destruct (vm_card vm); auto. apply andb_true_iff in Hm2. tauto. }
        intros x Hx.
        assert (Hl' : exists m o, In m (match vm_card vm with OneToMany => Cr | _ => Cl end) /\
                                  forall n, get x n = get (result_metric op rb vm m o) n).
        { destruct (vm_card vm); cbv zeta in Hl; apply Some_true_inj in Hl; apply andb_true_iff in Hl; destruct Hl as [Hl _];
            destruct (subset_ls_spec _ _ Hl x Hx) as [y [Hy He]]; apply outs_spec in Hy;
            destruct Hy as [m [o [Hm [Ho ->]]]]; exists m, o; split; auto. }
        destruct Hl' as [m [o [Hm He]]].
        unfold has. rewrite He, (get_result_metric_keep op rb vm m o l Hn Hi Hcard).
        apply (Hmany m Hm).
    - apply andb_true_iff in Hm. destruct Hm as [Hm Hor]. apply andb_true_iff in Hm. destruct Hm as [Hset Hn].
      apply negb_true_iff in Hset. apply negb_true_iff in Hn. apply String.eqb_neq in Hn.
      cbn [local] in Hl.
      destruct cl as [| |V| |]; try discriminate; destruct cr as [| |V'| |]; try discriminate;
        destruct R as [| |R0| |]; try discriminate.
      + (* scalar op scalar: impossible *)
        apply orb_true_iff in Hor. destruct Hor as [Hor|Hor].
        * destruct (IHa l Hor _ HSa) as [I1 _]. discriminate.
        * destruct (IHb l Hor _ HSb) as [I1 _]. discriminate.
      + (* scalar op vector *)
        assert (Hb : must_have U b l = true).
        { apply orb_true_iff in Hor. destruct Hor as [Hor|Hor]; auto. destruct (IHa l Hor _ HSa) as [I1 _]. discriminate. }
        destruct (IHb l Hb _ HSb) as [_ I2]. split; [reflexivity|].
        apply and_opt_true in Hl. destruct Hl as [Hl _].
        unfold binscalar_rule in Hl. rewrite Hset in Hl.
        destruct (is_comparison op && negb rb); apply Some_true_inj in Hl.
        * apply (all_has_subset l _ _ Hl I2).
        * apply (all_has_seteq l _ _ Hl). apply all_has_map_drop; auto.
      + (* vector op scalar *)
        assert (Ha : must_have U a l = true).
        { apply orb_true_iff in Hor. destruct Hor as [Hor|Hor]; auto. destruct (IHb l Hor _ HSb) as [I1 _]. discriminate. }
        destruct (IHa l Ha _ HSa) as [_ I2]. split; [reflexivity|].
        apply and_opt_true in Hl. destruct Hl as [Hl _].
        unfold binscalar_rule in Hl. rewrite Hset in Hl.
        destruct (is_comparison op && negb rb); apply Some_true_inj in Hl.
        * apply (all_has_subset l _ _ Hl I2).
        * apply (all_has_seteq l _ _ Hl). apply all_has_map_drop; auto.
  Qed.

  Theorem must_have_sound : forall e, Q e.
  Proof.
    induction e using expr_ind'.
    - intros l Hm. discriminate. - intros l Hm. discriminate. - apply Q_sel. - apply Q_matrix; auto.
    - apply Q_subq; auto. - apply Q_paren; auto. - apply Q_unary; auto. - apply Q_agg; auto.
    - apply Q_call; auto. - apply Q_bin; auto.
  Qed.
End MustHave.
