(** C06 lemmas, part 9: the common case end to end.  For a one-line PLAIN scalar the positions are exactly one
    range over the token, [readRange] of a column window is exactly the sub-range, and the carets sit under it. *)
From Coq Require Import List String Ascii ZArith Bool Lia.
From PintV Require Import Common.Bytes Model.Position Model.Layout
     Proofs.C06_expand Proofs.C06_match Proofs.C06_styles Proofs.C06_carets.
Import ListNotations.
Local Open Scope Z_scope.
Local Open Scope list_scope.

Definition contig (line c0 col : Z) : list prange :=
  if c0 =? col then [] else [mkp line c0 (col - 1)].

Lemma scan_line_match need more line col n' r' offs :
  scan_line (String need more) line col need (String n' r') offs =
  scan_line more line (col + 1) n' r' (append_position offs line col).
Proof. cbn [scan_line]. rewrite Ascii.eqb_refl. reflexivity. Qed.

Lemma scan_line_contig : forall rest need post line c0 col,
  c0 <= col ->
  scan_line (String need rest ++ post) line col need rest (contig line c0 col) =
  ScanDone [mkp line c0 (col + slen (String need rest) - 1)].
Proof.
  induction rest as [|n' r' IH]; intros need post line c0 col Hc.
  - cbn [append scan_line]. rewrite Ascii.eqb_refl. f_equal.
    unfold contig. destruct (c0 =? col) eqn:E.
    + apply Z.eqb_eq in E. subst. cbn [append_position]. f_equal. f_equal. unfold slen. cbn. lia.
    + cbn [append_position pr_line pr_last pr_first]. rewrite Z.eqb_refl.
      replace (col - 1 + 1 =? col) with true by (symmetry; apply Z.eqb_eq; lia). cbn [andb].
      f_equal. f_equal. unfold slen. cbn. lia.
  - change (String need (String n' r') ++ post)%string with (String need (String n' r' ++ post)).
    rewrite scan_line_match.
    assert (Hap : append_position (contig line c0 col) line col = contig line c0 (col + 1)).
    { unfold contig. replace (c0 =? col + 1) with false by (symmetry; apply Z.eqb_neq; lia).
      destruct (c0 =? col) eqn:E.
      - apply Z.eqb_eq in E. subst. cbn [append_position]. f_equal. f_equal. lia.
      - cbn [append_position pr_line pr_last pr_first]. rewrite Z.eqb_refl.
        replace (col - 1 + 1 =? col) with true by (symmetry; apply Z.eqb_eq; lia). cbn [andb].
        f_equal. f_equal. lia. }
    rewrite Hap.
    rewrite (IH n' post line c0 (col + 1)) by lia. f_equal. f_equal. f_equal.
    rewrite !slen_String. lia.
Qed.

(** exact positions of a one-line plain scalar *)
Theorem plain_exact_positions : forall lines n minCol,
  Lay1 Plain lines n ->
  new_position_range lines n minCol =
  Ok [mkp (sn_line n) (sn_col n) (sn_col n + slen (sn_value n) - 1)].
Proof.
  intros lines n minCol [Hv [Hnn [Hblk [Hanc [Hdq [[l [pre [post [Hl [El [Hasc Ec]]]]]] [Hp _]]]]]]].
  unfold new_position_range. destruct (sn_value n) as [|need rest] eqn:Ev; [contradiction|].
  unfold npr_entry. rewrite Hblk, Hdq.
  unfold line_at in Hl. destruct (1 <=? sn_line n) eqn:E1; [|discriminate]. apply Z.leb_le in E1.
  replace (sn_line n <=? 0) with false by (symmetry; apply Z.leb_gt; lia).
  assert (Hsk : exists more, skipn (Z.to_nat (sn_line n - 1)) lines = l :: more).
  { clear -Hl. revert Hl. generalize (Z.to_nat (sn_line n - 1)). intros k. revert lines.
    induction k as [|k IH]; intros lines H.
    - destruct lines as [|x r]; [discriminate|]. cbn in H. inversion H; subst. exists r. reflexivity.
    - destruct lines as [|x r]; [discriminate|]. cbn in H. cbn [skipn]. apply IH. exact H. }
  destruct Hsk as [more Hsk]. rewrite Hsk. cbv zeta.
  assert (Hlen : slen l =? 0 = false).
  { apply Z.eqb_neq. subst l. cbn [token_of]. rewrite !slen_app, slen_String.
    pose proof (slen_nonneg pre). pose proof (slen_nonneg post). pose proof (slen_nonneg rest). lia. }
  rewrite Hlen.
  assert (Hfc : first_col l n = sn_col n).
  { unfold first_col. rewrite Hanc. rewrite Ec. subst l. apply byte_column_ascii. exact Hasc. }
  rewrite Hfc. cbn [npr_loop token_of] in *.
  specialize (Hp eq_refl).
  (* the adjustment only looks at the value, not at what follows it *)
  assert (Hadj : adjust_col l (sn_col n) need rest = Some (sn_col n)).
  { subst l. rewrite Ec. unfold adjust_col. rewrite !slen_app.
    pose proof (slen_nonneg pre). pose proof (slen_nonneg post). pose proof (slen_nonneg rest).
    rewrite slen_String.
    replace (Z.min (slen pre + (slen rest + 1 + slen post)) (slen pre + 1)) with (slen pre + 1) by lia.
    replace (slen pre + 1 <=? 0) with false by (symmetry; apply Z.leb_gt; lia).
    replace (Z.to_nat (slen pre + 1 - 1)) with (String.length pre) by (unfold slen; lia).
    rewrite sdrop_app_length.
    assert (Hc0 : count_leading_space (String need rest ++ post) = 0).
    { cbn [append count_leading_space]. cbn in Hp. rewrite Hp. reflexivity. }
    rewrite Hc0. pose proof (count_leading_space_nonneg (String need rest)).
    replace (count_leading_space (String need rest) <? 0) with false by (symmetry; apply Z.ltb_ge; lia).
    reflexivity. }
  unfold line_step, scan.
  rewrite Hlen, Hadj.
  assert (Hdrop : sdrop (Z.to_nat (sn_col n - 1)) l = (String need rest ++ post)%string).
  { subst l. rewrite Ec. replace (Z.to_nat (slen pre + 1 - 1)) with (String.length pre) by (unfold slen; lia).
    apply sdrop_app_length. }
  rewrite Hdrop.
  pose proof (scan_line_contig rest need post (sn_line n) (sn_col n) (sn_col n) ltac:(lia)) as Hs.
  unfold contig in Hs. rewrite Z.eqb_refl in Hs. rewrite Hs. reflexivity.
Qed.

(** [readRange] on one range *)
Definition rr_out (l c0 a b idx : Z) : list prange :=
  if idx <? a then [] else [mkp l (c0 + a - 1) (c0 + Z.min idx b - 1)].

Lemma rr_cols_single l c0 a b : 1 <= a -> a <= b ->
  forall n idx, 0 <= idx ->
  rr_cols n l (c0 + idx) idx a b (rr_out l c0 a b idx) = (idx + Z.of_nat n, rr_out l c0 a b (idx + Z.of_nat n)).
Proof.
  intros Ha Hab. induction n as [|n IH]; intros idx Hidx.
  - cbn. f_equal; [lia|]. f_equal. lia.
  - cbn [rr_cols].
    assert (Hstep : (if (a <=? idx + 1) && (idx + 1 <=? b)
                     then append_position (rr_out l c0 a b idx) l (c0 + idx)
                     else rr_out l c0 a b idx) = rr_out l c0 a b (idx + 1)).
    { unfold rr_out. destruct (a <=? idx + 1) eqn:E1; destruct (idx + 1 <=? b) eqn:E2; cbn [andb];
        try apply Z.leb_le in E1; try apply Z.leb_le in E2; try apply Z.leb_gt in E1; try apply Z.leb_gt in E2.
      - replace (idx + 1 <? a) with false by (symmetry; apply Z.ltb_ge; lia).
        destruct (idx <? a) eqn:E3.
        + apply Z.ltb_lt in E3. cbn [append_position]. f_equal. f_equal; lia.
        + apply Z.ltb_ge in E3. cbn [append_position pr_line pr_last pr_first]. rewrite Z.eqb_refl.
          replace (c0 + Z.min idx b - 1 + 1 =? c0 + idx) with true by (symmetry; apply Z.eqb_eq; lia).
          cbn [andb]. f_equal. f_equal. lia.
      - replace (idx + 1 <? a) with false by (symmetry; apply Z.ltb_ge; lia).
        replace (idx <? a) with false by (symmetry; apply Z.ltb_ge; lia).
        f_equal. f_equal. lia.
      - replace (idx + 1 <? a) with true by (symmetry; apply Z.ltb_lt; lia).
        replace (idx <? a) with true by (symmetry; apply Z.ltb_lt; lia). reflexivity.
      - lia. }
    rewrite Hstep. replace (c0 + idx + 1) with (c0 + (idx + 1)) by lia.
    rewrite IH by lia. f_equal; [lia|]. f_equal. lia.
Qed.

Theorem read_range_single : forall l c0 c1 a b,
  1 <= a -> a <= b -> b <= c1 - c0 + 1 ->
  read_range a b [mkp l c0 c1] = [mkp l (c0 + a - 1) (c0 + b - 1)].
Proof.
  intros l c0 c1 a b Ha Hab Hb. unfold read_range. cbn [fold_left fst snd pr_line pr_first pr_last].
  pose proof (rr_cols_single l c0 a b Ha Hab (Z.to_nat (c1 - c0 + 1)) 0 ltac:(lia)) as H.
  unfold rr_out at 1 in H. replace (0 <? a) with true in H by (symmetry; apply Z.ltb_lt; lia).
  replace (c0 + 0) with c0 in H by lia. rewrite H. cbn [snd]. unfold rr_out.
  replace (0 + Z.of_nat (Z.to_nat (c1 - c0 + 1)) <? a) with false by (symmetry; apply Z.ltb_ge; lia).
  f_equal. f_equal. lia.
Qed.

Lemma plen_single l c0 c1 : plen [mkp l c0 c1] = c1 - c0 + 1.
Proof. unfold plen. cbn. lia. Qed.

(** END TO END for the common case: a one-line plain scalar and a diagnostic over columns [a..b] of its value. *)
Theorem plain_end_to_end : forall lines n minCol a b len,
  Lay1 Plain lines n ->
  1 <= a -> a <= b -> b <= slen (sn_value n) ->
  sn_col n + b - 1 <= Z.of_nat len ->
  exists pos,
    new_position_range lines n minCol = Ok pos /\
    diag_positions a b pos = [mkp (sn_line n) (sn_col n + a - 1) (sn_col n + b - 1)] /\
    caret_marks len (sn_line n) (diag_positions a b pos) =
      (repeat_char space (Z.to_nat (sn_col n + a - 2)) ++ repeat_char "^"%char (Z.to_nat (b - a + 1)))%string.
Proof.
  intros lines n minCol a b len HL Ha Hab Hb Hlen.
  assert (Hc : 1 <= sn_col n).
  { destruct HL as [_ [_ [_ [_ [_ [[l [pre [post [_ [_ [_ Ec]]]]]] _]]]]]]. pose proof (slen_nonneg pre). lia. }
  eexists. split; [apply plain_exact_positions; exact HL|].
  assert (Hd : diag_positions a b [mkp (sn_line n) (sn_col n) (sn_col n + slen (sn_value n) - 1)] =
               [mkp (sn_line n) (sn_col n + a - 1) (sn_col n + b - 1)]).
  { unfold diag_positions. rewrite plen_single.
    replace (Z.min a (sn_col n + slen (sn_value n) - 1 - sn_col n + 1)) with a by lia.
    replace (Z.min b (sn_col n + slen (sn_value n) - 1 - sn_col n + 1)) with b by lia.
    apply read_range_single; lia. }
  split; [exact Hd|]. rewrite Hd.
  pose proof (carets_single_range_lemma len (sn_line n) [] (sn_col n + a - 1) (sn_col n + b - 1)
                                        ltac:(constructor) ltac:(constructor) ltac:(lia) ltac:(lia) Hlen) as Hcar.
  cbn [app] in Hcar. rewrite Hcar. f_equal; f_equal; lia.
Qed.
