(** C13 — several series in one response stream: MergeRanges and the final sort treat every series
    (fingerprint) independently, so the per-series part of the multi-series result is the single-series
    result. *)
From Coq Require Import List ZArith NArith Bool Lia Arith Permutation.
From PintV Require Import Common.GoTime Model.Range Model.RangeRef
  Proofs.C13_slice Proofs.C13_grid Proofs.C13_fold Proofs.C13_overlaps Proofs.C13_stair Proofs.C13_imerge
  Proofs.C13_sim Proofs.C13_runs Proofs.C13_final Proofs.C13_headline.
Import ListNotations.
Open Scope Z_scope.

Definition homog (fp : N) (l : list range) : Prop := forall x, In x l -> r_fp x = fp.

(** --- filtering by fingerprint ------------------------------------------------------------------ *)

Lemma group_of_app fp a b : group_of fp (a ++ b) = group_of fp a ++ group_of fp b.
Proof. apply filter_app. Qed.

Lemma group_of_homog fp l : homog fp l -> group_of fp l = l.
Proof. intros H. apply filter_all. intros x Hx. rewrite (H x Hx). apply N.eqb_refl. Qed.

Lemma group_of_other fp fp' l : homog fp' l -> fp' <> fp -> group_of fp l = [].
Proof.
  intros H Hne. induction l as [|x r IH]; [reflexivity|]. cbn [group_of filter].
  rewrite (H x (or_introl eq_refl)). destruct (N.eqb_spec fp' fp) as [E|E]; [contradiction|].
  apply IH. intros y Hy. apply H. right. exact Hy.
Qed.

Lemma group_of_flat_map {A} fp (f : A -> list range) l :
  group_of fp (flat_map f l) = flat_map (fun x => group_of fp (f x)) l.
Proof. induction l as [|x r IH]; [reflexivity|]. cbn [flat_map]. rewrite group_of_app, IH. reflexivity. Qed.

(** --- sorting ------------------------------------------------------------------------------------ *)

Inductive sorted_s : list range -> Prop :=
| ss0 : sorted_s []
| ss1 x l : (forall y, In y l -> r_start x <= r_start y) -> sorted_s l -> sorted_s (x :: l).

Lemma insert_In x l y : In y (insert_by_start x l) <-> y = x \/ In y l.
Proof.
  induction l as [|z r IH]; cbn [insert_by_start In]; [intuition congruence|].
  destruct (r_start z <? r_start x); cbn [In]; [rewrite IH|]; intuition congruence.
Qed.

Lemma sort_In l y : In y (sort_by_start l) <-> In y l.
Proof. induction l as [|x r IH]; [tauto|]. cbn [sort_by_start]. rewrite insert_In, IH. cbn [In]. intuition congruence. Qed.

Lemma insert_sorted x l : sorted_s l -> sorted_s (insert_by_start x l).
Proof.
  induction 1 as [|z r Hz Hr IH]; cbn [insert_by_start]; [constructor; [intros ? []|constructor]|].
  destruct (r_start z <? r_start x) eqn:E.
  - apply Z.ltb_lt in E. constructor; [|exact IH]. intros y Hy. apply insert_In in Hy. destruct Hy as [->|Hy]; [lia|apply Hz; exact Hy].
  - apply Z.ltb_ge in E. constructor; [|constructor; assumption]. intros y [->|Hy]; [exact E|specialize (Hz y Hy); lia].
Qed.

Lemma sort_sorted l : sorted_s (sort_by_start l).
Proof. induction l as [|x r IH]; [constructor|]. cbn [sort_by_start]. apply insert_sorted. exact IH. Qed.

Lemma sort_of_sorted l : sorted_s l -> sort_by_start l = l.
Proof.
  induction 1 as [|x r Hx Hr IH]; [reflexivity|]. cbn [sort_by_start]. rewrite IH.
  destruct r as [|y r']; [reflexivity|]. cbn [insert_by_start].
  specialize (Hx y (or_introl eq_refl)). destruct (r_start y <? r_start x) eqn:E; [apply Z.ltb_lt in E; lia|reflexivity].
Qed.

Lemma sort_idem l : sort_by_start (sort_by_start l) = sort_by_start l.
Proof. apply sort_of_sorted. apply sort_sorted. Qed.

Lemma sort_homog fp l : homog fp l -> homog fp (sort_by_start l).
Proof. intros H x Hx. apply H. apply sort_In. exact Hx. Qed.

(** --- canon_sorted, per series --------------------------------------------------------------------- *)

Lemma fps_of_spec l : forall seen fp, In fp (fps_of l seen) <-> ((exists x, In x l /\ r_fp x = fp) /\ ~ In fp seen).
Proof.
  induction l as [|x r IH]; intros seen fp; cbn [fps_of].
  - split; [intros []|intros [[y [[] _]] _]].
  - destruct (existsb (N.eqb (r_fp x)) seen) eqn:E.
    + rewrite IH. apply existsb_exists in E. destruct E as [s [Hs Es]]. apply N.eqb_eq in Es. subst s.
      split; intros [[y [Hy Ey]] Hn]; (split; [|exact Hn]).
      * exists y. split; [right; exact Hy|exact Ey].
      * destruct Hy as [->|Hy]; [subst fp; contradiction|exists y; tauto].
    + assert (~ In (r_fp x) seen) as Hns.
      { intro Hin. assert (existsb (N.eqb (r_fp x)) seen = true) as C by (apply existsb_exists; exists (r_fp x); split; [exact Hin|apply N.eqb_refl]). congruence. }
      cbn [In]. rewrite IH. cbn [In]. split.
      * intros [<-|[[y [Hy Ey]] Hn]]; [split; [exists x; tauto|exact Hns]|]. split; [exists y; tauto|tauto].
      * intros [[y [[->|Hy] Ey]] Hn]; [left; exact Ey|]. destruct (N.eq_dec (r_fp x) fp) as [E2|E2]; [left; exact E2|].
        right. split; [exists y; tauto|]. intros [C|C]; [contradiction|contradiction].
Qed.

Lemma fps_of_nodup l : forall seen, NoDup (fps_of l seen).
Proof.
  induction l as [|x r IH]; intros seen; cbn [fps_of]; [constructor|].
  destruct (existsb (N.eqb (r_fp x)) seen); [apply IH|]. constructor; [|apply IH].
  intro H. apply fps_of_spec in H. destruct H as [_ H]. apply H. left. reflexivity.
Qed.

Lemma insert_N_In x l y : In y (insert_N x l) <-> y = x \/ In y l.
Proof.
  induction l as [|z r IH]; cbn [insert_N In]; [intuition congruence|]. destruct (z <? x)%N; cbn [In]; [rewrite IH|]; intuition congruence.
Qed.

Lemma insert_N_nodup x l : NoDup l -> ~ In x l -> NoDup (insert_N x l).
Proof.
  induction 1 as [|z r Hz Hr IH]; intros Hx; cbn [insert_N]; [constructor; [intros []|constructor]|].
  destruct (z <? x)%N.
  - constructor; [|apply IH; intro C; apply Hx; right; exact C].
    intro C. apply insert_N_In in C. destruct C as [->|C]; [apply Hx; left; reflexivity|contradiction].
  - constructor; [exact Hx|constructor; assumption].
Qed.

Lemma sorted_fps_spec l fp : In fp (sorted_fps l) <-> exists x, In x l /\ r_fp x = fp.
Proof.
  unfold sorted_fps. assert (forall m, In fp (fold_right insert_N [] m) <-> In fp m) as H.
  { induction m as [|z r IH]; [tauto|]. cbn [fold_right]. rewrite insert_N_In, IH. cbn [In]. intuition congruence. }
  rewrite H, fps_of_spec. cbn [In]. tauto.
Qed.

Lemma sorted_fps_nodup l : NoDup (sorted_fps l).
Proof.
  unfold sorted_fps. pose proof (fps_of_nodup l []) as H. induction H as [|z r Hz Hr IH]; [constructor|].
  cbn [fold_right]. apply insert_N_nodup; [exact IH|].
  intro C. apply Hz. clear -C. induction r as [|a r IH]; [exact C|]. cbn [fold_right] in C. apply insert_N_In in C.
  destruct C as [->|C]; [left; reflexivity|right; apply IH; exact C].
Qed.

Lemma group_of_idem fp fp' l : group_of fp (group_of fp' l) = if (fp' =? fp)%N then group_of fp l else [].
Proof.
  induction l as [|x r IH]; [destruct (fp' =? fp)%N; reflexivity|]. cbn [group_of filter].
  destruct (N.eqb_spec (r_fp x) fp') as [E1|E1]; cbn [filter].
  - destruct (N.eqb_spec (r_fp x) fp) as [E2|E2]; destruct (N.eqb_spec fp' fp) as [E3|E3]; try congruence.
    + fold (group_of fp' r). fold (group_of fp (group_of fp' r)). rewrite IH. destruct (N.eqb_spec fp' fp); [reflexivity|contradiction].
    + fold (group_of fp' r). fold (group_of fp (group_of fp' r)). rewrite IH. destruct (N.eqb_spec fp' fp); [contradiction|reflexivity].
  - fold (group_of fp' r). fold (group_of fp (group_of fp' r)). rewrite IH.
    destruct (N.eqb_spec fp' fp) as [E3|E3]; [|reflexivity]. destruct (N.eqb_spec (r_fp x) fp); [congruence|reflexivity].
Qed.

Lemma group_of_is_homog fp l : homog fp (group_of fp l).
Proof. intros x Hx. apply filter_In in Hx. destruct Hx as [_ E]. apply N.eqb_eq in E. exact E. Qed.

(** the part of [canon_sorted l] that belongs to series [fp] is the stably sorted group of [fp] *)
Lemma group_of_canon_sorted fp l : group_of fp (canon_sorted l) = sort_by_start (group_of fp l).
Proof.
  unfold canon_sorted. rewrite group_of_flat_map.
  assert (forall fps, NoDup fps ->
            flat_map (fun fp' => group_of fp (sort_by_start (group_of fp' l))) fps
            = if existsb (N.eqb fp) fps then sort_by_start (group_of fp l) else []) as H.
  { induction 1 as [|z r Hz Hr IH]; [reflexivity|]. cbn [flat_map existsb]. rewrite IH.
    destruct (N.eqb_spec fp z) as [E|E].
    - subst z. rewrite (group_of_homog fp) by (apply sort_homog; apply group_of_is_homog).
      cbn [orb]. destruct (existsb (N.eqb fp) r) eqn:Ex.
      + exfalso. apply existsb_exists in Ex. destruct Ex as [y [Hy Ey]]. apply N.eqb_eq in Ey. subst y. contradiction.
      + apply app_nil_r.
    - rewrite (group_of_other fp z) by (try apply sort_homog; try apply group_of_is_homog; congruence). reflexivity. }
  rewrite (H _ (sorted_fps_nodup l)).
  destruct (existsb (N.eqb fp) (sorted_fps l)) eqn:E; [reflexivity|].
  assert (group_of fp l = []) as ->; [|reflexivity].
  destruct (group_of fp l) as [|x r] eqn:Eg; [reflexivity|]. exfalso.
  assert (In x (group_of fp l)) as Hx by (rewrite Eg; left; reflexivity).
  apply filter_In in Hx. destruct Hx as [Hx Ex]. apply N.eqb_eq in Ex.
  assert (existsb (N.eqb fp) (sorted_fps l) = true) as C; [|congruence].
  apply existsb_exists. exists fp. split; [apply sorted_fps_spec; exists x; tauto|apply N.eqb_refl].
Qed.

(** --- AppendSampleToRanges / ExpandRangesEnd, per series --------------------------------------------- *)

Lemma append_one_other fp fp' ts step dst : fp' <> fp ->
  group_of fp (fst (append_one dst fp' ts step)) = group_of fp dst.
Proof.
  intros Hne. induction dst as [|d r IH]; [reflexivity|]. cbn [append_one].
  destruct (N.eqb_spec (r_fp d) fp') as [E|E]; cbn [negb].
  - assert ((r_fp d =? fp)%N = false) as Ed by (apply N.eqb_neq; congruence).
    destruct ((r_start d - step <=? ts) && (ts <=? r_start d)); [cbn [fst group_of filter r_fp]; rewrite Ed; reflexivity|].
    destruct ((r_start d <=? ts) && (ts <=? r_end d + step)); [cbn [fst group_of filter r_fp]; rewrite Ed; reflexivity|].
    destruct (append_one r fp' ts step) as [r' f]. cbn [fst group_of filter] in *. rewrite Ed. exact IH.
  - destruct (append_one r fp' ts step) as [r' f]. cbn [fst group_of filter] in *. rewrite IH. reflexivity.
Qed.

Lemma append_one_same fp ts step dst :
  append_one (group_of fp dst) fp ts step
  = (group_of fp (fst (append_one dst fp ts step)), snd (append_one dst fp ts step)).
Proof.
  induction dst as [|d r IH]; [reflexivity|]. destruct d as [dfp ds de]. cbn [append_one group_of filter r_fp r_start r_end].
  destruct (N.eqb_spec dfp fp) as [E|E]; cbn [negb].
  - subst dfp. cbn [append_one r_fp r_start r_end]. rewrite N.eqb_refl. cbn [negb].
    destruct ((ds - step <=? ts) && (ts <=? ds)).
    { cbn [fst snd group_of filter r_fp]. rewrite N.eqb_refl. reflexivity. }
    destruct ((ds <=? ts) && (ts <=? de + step)).
    { cbn [fst snd group_of filter r_fp]. rewrite N.eqb_refl. reflexivity. }
    fold (group_of fp r). rewrite IH. destruct (append_one r fp ts step) as [r' f]. cbn [fst snd group_of filter r_fp].
    rewrite N.eqb_refl. reflexivity.
  - fold (group_of fp r). rewrite IH. destruct (append_one r fp ts step) as [r' f]. cbn [fst snd group_of filter r_fp].
    destruct (N.eqb_spec dfp fp); [contradiction|reflexivity].
Qed.

Lemma append_sample_group fp fp' step ts dst :
  group_of fp (append_sample dst fp' step ts)
  = if (fp' =? fp)%N then append_sample (group_of fp dst) fp step ts else group_of fp dst.
Proof.
  unfold append_sample. destruct (N.eqb_spec fp' fp) as [E|E].
  - subst fp'. rewrite append_one_same. destruct (append_one dst fp ts step) as [d' f]. cbn [fst snd].
    destruct f; [reflexivity|]. rewrite group_of_app. cbn [group_of filter r_fp]. rewrite N.eqb_refl. reflexivity.
  - pose proof (append_one_other fp fp' ts step dst E) as H. destruct (append_one dst fp' ts step) as [d' f]. cbn [fst] in H.
    destruct f; [exact H|]. rewrite group_of_app. cbn [group_of filter r_fp].
    destruct (N.eqb_spec fp' fp); [contradiction|]. apply app_nil_r.
Qed.

Lemma append_samples_group fp fp' step vals : forall dst,
  group_of fp (append_samples dst fp' vals step)
  = if (fp' =? fp)%N then append_samples (group_of fp dst) fp vals step else group_of fp dst.
Proof.
  unfold append_samples. induction vals as [|ts r IH]; intros dst; cbn [fold_left]; [destruct (fp' =? fp)%N; reflexivity|].
  rewrite IH, append_sample_group. destruct (fp' =? fp)%N; reflexivity.
Qed.

Lemma expand_end_group fp step l : group_of fp (expand_end l step) = expand_end (group_of fp l) step.
Proof.
  induction l as [|x r IH]; [reflexivity|]. cbn [expand_end map group_of filter r_fp].
  destruct (r_fp x =? fp)%N; cbn [map]; unfold expand_end, group_of in IH; rewrite IH; reflexivity.
Qed.

Section PerSlice.
  Variables (step : Z) (sl : tr).
  Definition svals (s : N * presence) : list Z := server_samples (snd s) (fst sl) (snd sl) step.
  Definition sfold (ss : series) (dst : list range) : list range :=
    fold_left (fun dst s => append_samples dst (fst s) (svals s) step) ss dst.

  Lemma sfold_other fp ss : (forall s, In s ss -> fst s <> fp) -> forall dst, group_of fp (sfold ss dst) = group_of fp dst.
  Proof.
    induction ss as [|s r IH]; intros H dst; [reflexivity|]. cbn [sfold fold_left]. fold (sfold r).
    rewrite IH by (intros x Hx; apply H; right; exact Hx). rewrite append_samples_group.
    destruct (N.eqb_spec (fst s) fp) as [E|E]; [exfalso; apply (H s (or_introl eq_refl)); exact E|reflexivity].
  Qed.

  Lemma sfold_group fp pres ss : NoDup (map fst ss) -> In (fp, pres) ss -> forall dst,
    group_of fp (sfold ss dst) = append_samples (group_of fp dst) fp (svals (fp, pres)) step.
  Proof.
    induction ss as [|s r IH]; intros Hnd Hin dst; [contradiction|]. cbn [sfold fold_left]. fold (sfold r).
    cbn [map] in Hnd. inversion Hnd as [|? ? Hn Hr]; subst. destruct Hin as [E|Hin].
    - subst s. cbn [fst]. rewrite sfold_other.
      + rewrite append_samples_group, N.eqb_refl. reflexivity.
      + intros x Hx E. apply Hn. cbn [fst]. rewrite <- E. apply (in_map fst). exact Hx.
    - rewrite (IH Hr Hin). rewrite append_samples_group.
      destruct (N.eqb_spec (fst s) fp) as [E|E]; [|reflexivity].
      exfalso. apply Hn. rewrite E. change fp with (fst (fp, pres)). apply in_map. exact Hin.
  Qed.

  Lemma per_slice_group fp pres ss : NoDup (map fst ss) -> In (fp, pres) ss ->
    group_of fp (per_slice step ss sl) = per_slice1 step fp pres sl.
  Proof.
    intros Hnd Hin. unfold per_slice1, per_slice. rewrite expand_end_group.
    change (fold_left _ ss []) with (sfold ss []). rewrite (sfold_group fp pres ss Hnd Hin). reflexivity.
  Qed.

  Lemma per_slice_fps ss x : In x (per_slice step ss sl) -> exists s, In s ss /\ fst s = r_fp x.
  Proof.
    unfold per_slice. change (fold_left _ ss []) with (sfold ss []).
    intros Hx. destruct (in_dec N.eq_dec (r_fp x) (map fst ss)) as [Hi|Hn].
    - apply in_map_iff in Hi. destruct Hi as [s [E Hs]]. exists s. tauto.
    - exfalso. assert (group_of (r_fp x) (expand_end (sfold ss []) step) = []) as E.
      { rewrite expand_end_group, sfold_other; [reflexivity|]. intros s Hs E. apply Hn. rewrite <- E. apply in_map. exact Hs. }
      assert (In x (group_of (r_fp x) (expand_end (sfold ss []) step))) as C
        by (apply filter_In; split; [exact Hx|apply N.eqb_refl]).
      rewrite E in C. exact C.
  Qed.
End PerSlice.

(** --- MergeRanges, per series ----------------------------------------------------------------------- *)

Section Merge.
  Variable step : Z.

  Fixpoint lookup (fp : N) (gs : groups) : option (list range) :=
    match gs with
    | [] => None
    | (k, l) :: r => if (k =? fp)%N then Some l else lookup fp r
    end.

  (** one element against the (optional) group of its own series *)
  Definition ostep (st : option (list range) * bool) (src : range) : option (list range) * bool :=
    let '(o, h) := st in
    match o with
    | Some M => let '(M', f) := absorb step src M in (Some (if f then M' else M ++ [src]), h || f)
    | None => (Some [src], h)
    end.

  Lemma upd_group_lookup src gs :
    let fp0 := r_fp src in
    (forall fp, lookup fp (fst (upd_group step src gs))
                = if (fp0 =? fp)%N then fst (ostep (lookup fp0 gs, false) src) else lookup fp gs) /\
    snd (upd_group step src gs) = snd (ostep (lookup fp0 gs, false) src).
  Proof.
    cbv zeta. induction gs as [|[k l] r [IH1 IH2]].
    - cbn [upd_group fst snd lookup ostep]. split; [|reflexivity]. intros fp. destruct (r_fp src =? fp)%N; reflexivity.
    - cbn [upd_group lookup]. destruct (N.eqb_spec k (r_fp src)) as [E|E].
      + subst k. cbn [ostep]. destruct (absorb step src l) as [l' f]. cbn [fst snd lookup orb]. split; [|reflexivity].
        intros fp. destruct (N.eqb_spec (r_fp src) fp); reflexivity.
      + destruct (upd_group step src r) as [r' f]. cbn [fst snd lookup] in *. split; [|exact IH2].
        intros fp. destruct (N.eqb_spec k fp) as [E2|E2].
        * destruct (N.eqb_spec (r_fp src) fp); [congruence|reflexivity].
        * apply IH1.
  Qed.

  Lemma ostep_had o h src : snd (ostep (o, h) src) = h || snd (ostep (o, false) src).
  Proof. unfold ostep. destruct o as [M|]; [destruct (absorb step src M) as [M' f]; cbn [snd]; reflexivity|cbn [snd]; rewrite orb_false_r; reflexivity]. Qed.

  Lemma ostep_fst o h src : fst (ostep (o, h) src) = fst (ostep (o, false) src).
  Proof. unfold ostep. destruct o as [M|]; [destruct (absorb step src M) as [M' f]|]; reflexivity. Qed.

  Definition rstep' (st : groups * bool) (src : range) : groups * bool :=
    let '(gs, had) := st in let '(gs', f) := upd_group step src gs in (gs', had || f).

  Lemma fold_ostep_flag l : forall o h,
    fst (fold_left ostep l (o, h)) = fst (fold_left ostep l (o, false)) /\
    snd (fold_left ostep l (o, h)) = h || snd (fold_left ostep l (o, false)).
  Proof.
    induction l as [|x r IH]; intros o h; cbn [fold_left]; [cbn [fst snd]; rewrite orb_false_r; tauto|].
    rewrite (surjective_pairing (ostep (o, h) x)), (surjective_pairing (ostep (o, false) x)).
    rewrite ostep_had, ostep_fst. cbn [orb].
    destruct (IH (fst (ostep (o, false) x)) (h || snd (ostep (o, false) x))) as [A B].
    destruct (IH (fst (ostep (o, false) x)) (snd (ostep (o, false) x))) as [C D].
    rewrite A, B, C, D. split; [reflexivity|]. rewrite orb_assoc. reflexivity.
  Qed.

  (** the pass over a mixed list, seen from one series *)
  Lemma pass_lookup_fst L : forall gs had gs' had',
    fold_left rstep' L (gs, had) = (gs', had') ->
    forall fp, fst (fold_left ostep (group_of fp L) (lookup fp gs, false)) = lookup fp gs'.
  Proof.
    induction L as [|src r IH]; intros gs had gs' had' H fp.
    - cbn [fold_left] in H. inversion H; subst. reflexivity.
    - cbn [fold_left] in H. unfold rstep' at 2 in H. destruct (upd_group_lookup src gs) as [U1 _].
      destruct (upd_group step src gs) as [gs1 f] eqn:Eu. cbn [fst] in U1.
      specialize (IH gs1 (had || f) gs' had' H fp). rewrite U1 in IH.
      cbn [group_of filter]. fold (group_of fp r). destruct (N.eqb_spec (r_fp src) fp) as [E|E].
      + cbn [fold_left]. rewrite E in *.
        rewrite (surjective_pairing (ostep (lookup fp gs, false) src)).
        rewrite (proj1 (fold_ostep_flag _ _ _)). exact IH.
      + exact IH.
  Qed.

  Lemma pass_nohad L : forall gs had gs',
    fold_left rstep' L (gs, had) = (gs', false) ->
    had = false /\ forall fp, snd (fold_left ostep (group_of fp L) (lookup fp gs, false)) = false.
  Proof.
    induction L as [|src r IH]; intros gs had gs' H.
    - cbn [fold_left] in H. inversion H; subst. split; [reflexivity|]. intros fp. reflexivity.
    - cbn [fold_left] in H. unfold rstep' at 2 in H. destruct (upd_group_lookup src gs) as [U1 U2].
      destruct (upd_group step src gs) as [gs1 f] eqn:Eu. cbn [fst snd] in U1, U2.
      destruct (IH gs1 (had || f) gs' H) as [Hh Hg]. apply orb_false_iff in Hh. destruct Hh as [Hh Hf].
      split; [exact Hh|]. intros fp. specialize (Hg fp). rewrite U1 in Hg.
      cbn [group_of filter]. fold (group_of fp r). destruct (N.eqb_spec (r_fp src) fp) as [E|E].
      + cbn [fold_left]. rewrite E in *.
        rewrite (surjective_pairing (ostep (lookup fp gs, false) src)).
        rewrite (proj2 (fold_ostep_flag _ _ _)), Hg, <- U2, Hf. reflexivity.
      + exact Hg.
  Qed.
End Merge.

Section Merge2.
  Variable step : Z.
  Notation ostep' := (ostep step).
  Notation rstep'' := (rstep' step).

  Lemma merge_pass_fold L : merge_pass step L = fold_left rstep'' L ([], false).
  Proof. reflexivity. Qed.

  Lemma absorb_homog fp src M : homog fp M -> homog fp (fst (absorb step src M)).
  Proof.
    induction M as [|m r IH]; intros H; [intros ? []|]. cbn [absorb].
    assert (homog fp r) as Hr by (intros x Hx; apply H; right; exact Hx). specialize (IH Hr).
    destruct (absorb step src r) as [r' f]. cbn [fst] in IH.
    destruct (overlaps m src step) as [[s e]|]; cbn [fst]; intros x [Hx|Hx]; try (apply IH; exact Hx); subst x.
    - cbn [r_fp]. apply H. left. reflexivity.
    - apply H. left. reflexivity.
  Qed.

  Lemma absorb_length src M : length (fst (absorb step src M)) = length M.
  Proof.
    induction M as [|m r IH]; [reflexivity|]. cbn [absorb]. destruct (absorb step src r) as [r' f]. cbn [fst] in IH.
    destruct (overlaps m src step) as [[s e]|]; cbn [fst length]; congruence.
  Qed.

  Lemma ostep_homog fp o h src : r_fp src = fp -> (forall M, o = Some M -> homog fp M) ->
    forall M, fst (ostep' (o, h) src) = Some M -> homog fp M.
  Proof.
    intros Hs Ho M. unfold ostep. destruct o as [M0|].
    - pose proof (absorb_homog fp src M0 (Ho M0 eq_refl)) as Ha. destruct (absorb step src M0) as [M' f]. cbn [fst] in *.
      intros E. inversion E; subst M. destruct f; [exact Ha|].
      intros x Hx. apply in_app_or in Hx. destruct Hx as [Hx|[Hx|[]]]; [apply (Ho M0 eq_refl); exact Hx|subst x; exact Hs].
    - cbn [fst]. intros E. inversion E; subst M. intros x [Hx|[]]. subst x. exact Hs.
  Qed.

  Lemma fold_ostep_some G : forall o h, (G <> [] \/ o <> None) -> exists M, fst (fold_left ostep' G (o, h)) = Some M.
  Proof.
    induction G as [|x r IH]; intros o h Hne.
    - destruct Hne as [C|C]; [contradiction|]. destruct o as [M|]; [exists M; reflexivity|contradiction].
    - cbn [fold_left]. rewrite (surjective_pairing (ostep' (o, h) x)). apply IH. right.
      unfold ostep. destruct o as [M|]; [destruct (absorb step x M) as [M' f]|]; cbn [fst]; discriminate.
  Qed.

  Lemma fold_ostep_homog fp G : homog fp G -> forall o h, (forall M, o = Some M -> homog fp M) ->
    forall M, fst (fold_left ostep' G (o, h)) = Some M -> homog fp M.
  Proof.
    induction G as [|x r IH]; intros HG o h Ho M; cbn [fold_left].
    - cbn [fst]. intros E. apply Ho. exact E.
    - rewrite (surjective_pairing (ostep' (o, h) x)). apply IH.
      + intros y Hy. apply HG. right. exact Hy.
      + apply (ostep_homog fp o h x (HG x (or_introl eq_refl)) Ho).
  Qed.

  (** no absorption at all: the group is the input itself *)
  Lemma fold_ostep_nomerge G : forall o,
    snd (fold_left ostep' G (o, false)) = false ->
    fst (fold_left ostep' G (o, false)) =
      match o with Some M0 => Some (M0 ++ G) | None => match G with [] => None | _ => Some G end end.
  Proof.
    induction G as [|x r IH]; intros o H; cbn [fold_left] in *.
    - destruct o; [rewrite app_nil_r|]; reflexivity.
    - rewrite (surjective_pairing (ostep' (o, false) x)) in *.
      rewrite (proj2 (fold_ostep_flag step r _ _)) in H. apply orb_false_iff in H. destruct H as [H1 H2].
      rewrite (proj1 (fold_ostep_flag step r _ _)). rewrite (IH _ H2).
      unfold ostep in *. destruct o as [M0|].
      + destruct (absorb step x M0) as [M' f]. cbn [fst snd orb] in *. subst f. rewrite <- app_assoc. reflexivity.
      + cbn [fst]. reflexivity.
  Qed.

  (** the pass over a single-series list has one group *)
  Lemma single_fold fp G : homog fp G -> forall M h,
    fold_left rstep'' G ([(fp, M)], h)
    = ([(fp, match fst (fold_left ostep' G (Some M, h)) with Some M' => M' | None => [] end)],
       snd (fold_left ostep' G (Some M, h))).
  Proof.
    induction G as [|x r IH]; intros HG M h; [reflexivity|]. cbn [fold_left]. unfold rstep' at 2. cbn [upd_group].
    rewrite (HG x (or_introl eq_refl)), N.eqb_refl. unfold ostep at 2 4.
    destruct (absorb step x M) as [M' f]. apply IH. intros y Hy. apply HG. right. exact Hy.
  Qed.

  Lemma single_pass fp x r : homog fp (x :: r) ->
    exists M h, fold_left ostep' (x :: r) (None, false) = (Some M, h) /\ merge_pass step (x :: r) = ([(fp, M)], h).
  Proof.
    intros HG. rewrite merge_pass_fold. cbn [fold_left]. unfold rstep' at 2. cbn [upd_group ostep orb].
    rewrite (HG x (or_introl eq_refl)).
    assert (Some [x] <> None) as Hsn by discriminate.
    destruct (fold_ostep_some r (Some [x]) false (or_intror Hsn)) as [M EM].
    exists M, (snd (fold_left ostep' r (Some [x], false))). split.
    - rewrite (surjective_pairing (fold_left ostep' r (Some [x], false))), EM. reflexivity.
    - pose proof (single_fold fp r (fun y Hy => HG y (or_intror Hy)) [x] false) as E. rewrite EM in E. exact E.
  Qed.

  (** MergeRanges on a single-series list, unfolded once *)
  Lemma merge_single fp x r f : homog fp (x :: r) ->
    exists M h, fold_left ostep' (x :: r) (None, false) = (Some M, h) /\
      merge_ranges (S f) step (x :: r) =
        if h then option_map (fun l => (sort_by_start l, true)) (rloop (merge_ranges f step) (S (length M)) M)
        else Some (x :: r, false).
  Proof.
    intros HG. destruct (single_pass fp x r HG) as [M [h [E1 E2]]]. exists M, h. split; [exact E1|].
    rewrite merge_ranges_unfold, E2. destruct h; cbn [negb]; [|reflexivity]. cbn [map snd all_some].
    destruct (rloop (merge_ranges f step) (S (length M)) M) as [l|]; cbn [option_map flat_map]; [rewrite app_nil_r|]; reflexivity.
  Qed.
End Merge2.

Section Merge3.
  Variable step : Z.
  Notation ostep' := (ostep step).
  Notation rstep'' := (rstep' step).
  Notation keys := (map (@fst N (list range))).

  (** homogeneity is preserved by MergeRanges *)
  Lemma rloop_homog fp rec :
    (forall l r b, homog fp l -> rec l = Some (r, b) -> homog fp r) ->
    forall n l l', homog fp l -> rloop rec n l = Some l' -> homog fp l'.
  Proof.
    intros Hrec. induction n as [|n IH]; intros l l' Hl E; [discriminate|]. cbn [rloop] in E.
    destruct (rec l) as [[l1 b1]|] eqn:E1; [|discriminate]. pose proof (Hrec l l1 b1 Hl E1) as H1.
    destruct b1; [apply (IH l1 l' H1 E)|inversion E; subst; exact H1].
  Qed.

  Lemma merge_nil f : merge_ranges (S f) step [] = Some ([], false).
  Proof. reflexivity. Qed.

  Lemma merge_homog fp : forall f l r b, homog fp l -> merge_ranges f step l = Some (r, b) -> homog fp r.
  Proof.
    induction f as [|f IH]; intros l r b Hl E; [discriminate|]. destruct l as [|x l0].
    - rewrite merge_nil in E. inversion E; subst. exact Hl.
    - destruct (merge_single step fp x l0 f Hl) as [M [h [E1 E2]]]. rewrite E2 in E. destruct h.
      + destruct (rloop (merge_ranges f step) (S (length M)) M) as [l1|] eqn:El; [|discriminate]. cbn [option_map] in E.
        inversion E; subst. apply sort_homog. apply (rloop_homog fp (merge_ranges f step) IH (S (length M)) M l1); [|exact El].
        apply (fold_ostep_homog step fp (x :: l0) Hl None false); [intros ? C; discriminate|]. rewrite E1. reflexivity.
      + inversion E; subst. exact Hl.
  Qed.

  (** keys of the groups *)
  Lemma lookup_none_keys fp gs : lookup fp gs = None <-> ~ In fp (keys gs).
  Proof.
    induction gs as [|[k l] r IH]; cbn [lookup map fst In]; [tauto|].
    destruct (N.eqb_spec k fp) as [E|E]; [split; [discriminate|intros C; exfalso; apply C; left; exact E]|].
    rewrite IH. tauto.
  Qed.

  Lemma upd_group_keys src gs :
    keys (fst (upd_group step src gs)) = keys gs ++ (match lookup (r_fp src) gs with Some _ => [] | None => [r_fp src] end).
  Proof.
    induction gs as [|[k l] r IH]; [reflexivity|]. cbn [upd_group lookup].
    destruct (N.eqb_spec k (r_fp src)) as [E|E].
    - destruct (absorb step src l) as [l' f]. cbn [fst map]. rewrite app_nil_r. reflexivity.
    - destruct (upd_group step src r) as [r' f]. cbn [fst map] in *. rewrite IH. reflexivity.
  Qed.

  Lemma pass_keys_nodup L : forall gs had gs' had', NoDup (keys gs) ->
    fold_left rstep'' L (gs, had) = (gs', had') -> NoDup (keys gs').
  Proof.
    induction L as [|src r IH]; intros gs had gs' had' Hn H; cbn [fold_left] in H; [inversion H; subst; exact Hn|].
    unfold rstep' at 2 in H. pose proof (upd_group_keys src gs) as K.
    destruct (upd_group step src gs) as [gs1 f]. cbn [fst] in K. apply (IH gs1 (had || f) gs' had'); [|exact H].
    rewrite K. destruct (lookup (r_fp src) gs) eqn:El; [rewrite app_nil_r; exact Hn|].
    apply lookup_none_keys in El. clear -Hn El. induction (keys gs) as [|a l IHl]; cbn [app].
    + constructor; [intros []|constructor].
    + inversion Hn; subst. constructor.
      * intro C. apply in_app_or in C. destruct C as [C|[C|[]]]; [contradiction|]. subst a. apply El. left. reflexivity.
      * apply IHl; [assumption|]. intro C. apply El. right. exact C.
  Qed.
End Merge3.

Section Merge4.
  Variable step : Z.
  Notation ostep' := (ostep step).
  Notation rstep'' := (rstep' step).
  Notation keys := (map (@fst N (list range))).

  Definition Fg (rec : list range -> option (list range * bool)) (g : N * list range) : option (list range) :=
    rloop rec (S (length (snd g))) (snd g).

  Lemma lookup_in gs k M : NoDup (keys gs) -> In (k, M) gs -> lookup k gs = Some M.
  Proof.
    induction gs as [|[k0 l0] r IH]; intros Hn Hin; [contradiction|]. cbn [map fst] in Hn. inversion Hn as [|? ? Hk Hr]; subst.
    cbn [lookup]. destruct Hin as [E|Hin].
    - inversion E; subst. rewrite N.eqb_refl. reflexivity.
    - destruct (N.eqb_spec k0 k) as [E|E]; [|apply IH; assumption].
      exfalso. subst k0. apply Hk. change k with (fst (k, M)). apply in_map. exact Hin.
  Qed.

  Lemma flat_groups rec gs : forall ls, NoDup (keys gs) ->
    (forall k M l, In (k, M) gs -> Fg rec (k, M) = Some l -> homog k l) ->
    all_some (map (Fg rec) gs) = Some ls ->
    forall fp, group_of fp (flat_map sort_by_start ls)
               = match lookup fp gs with
                 | Some M => match Fg rec (fp, M) with Some l => sort_by_start l | None => [] end
                 | None => []
                 end.
  Proof.
    induction gs as [|[k M] r IH]; intros ls Hn Hh Ha fp.
    - cbn [map all_some] in Ha. inversion Ha; subst. reflexivity.
    - cbn [map all_some] in Ha. destruct (Fg rec (k, M)) as [l|] eqn:EF; [|discriminate].
      destruct (all_some (map (Fg rec) r)) as [ls'|] eqn:Er; [|discriminate]. inversion Ha; subst ls.
      cbn [map fst] in Hn. inversion Hn as [|? ? Hk Hr]; subst.
      cbn [flat_map lookup]. rewrite group_of_app.
      rewrite (IH ls' Hr (fun k0 M0 l0 Hi => Hh k0 M0 l0 (or_intror Hi)) eq_refl fp).
      pose proof (Hh k M l (or_introl eq_refl) EF) as Hl.
      destruct (N.eqb_spec k fp) as [E|E].
      + subst k. rewrite (group_of_homog fp) by (apply sort_homog; exact Hl).
        assert (lookup fp r = None) as -> by (apply lookup_none_keys; exact Hk).
        assert (Fg rec (fp, M) = Some l) as -> by exact EF. apply app_nil_r.
      + rewrite (group_of_other fp k) by (try apply sort_homog; try exact Hl; exact E). reflexivity.
  Qed.

  (** MergeRanges over several series = MergeRanges per series (after sorting each series) *)
  Lemma multi_merge f L : (1 <= f)%nat ->
    (forall fp, merge_ranges (S f) step (group_of fp L) <> None) ->
    exists res b, merge_ranges (S f) step L = Some (res, b) /\
      forall fp r1 b1, merge_ranges (S f) step (group_of fp L) = Some (r1, b1) ->
                       sort_by_start (group_of fp res) = sort_by_start r1.
  Proof.
    intros Hf Hsome. rewrite merge_ranges_unfold, merge_pass_fold.
    destruct (fold_left rstep'' L ([], false)) as [gs had] eqn:Ep.
    pose proof (pass_lookup_fst step L [] false gs had Ep) as F1. cbn [lookup] in F1.
    (* what the single-series run on the group of fp looks like *)
    assert (forall fp x r, group_of fp L = x :: r ->
              exists M h, lookup fp gs = Some M /\ fold_left ostep' (x :: r) (None, false) = (Some M, h) /\ homog fp M /\
                (forall f', merge_ranges (S f') step (x :: r) =
                   if h then option_map (fun l => (sort_by_start l, true)) (Fg (merge_ranges f' step) (fp, M))
                   else Some (x :: r, false)) /\
                (h = false -> M = x :: r)) as Hgrp.
    { intros fp x r Eg. assert (homog fp (x :: r)) as Hh by (rewrite <- Eg; apply group_of_is_homog).
      destruct (merge_single step fp x r 0 Hh) as [M [h [E1 _]]]. exists M, h.
      split; [rewrite <- F1, Eg, E1; reflexivity|]. split; [exact E1|].
      split; [apply (fold_ostep_homog step fp (x :: r) Hh None false); [intros ? C; discriminate|rewrite E1; reflexivity]|].
      split.
      - intros f'. destruct (merge_single step fp x r f' Hh) as [M2 [h2 [E3 E4]]]. rewrite E1 in E3. inversion E3; subst M2 h2. exact E4.
      - intros Hh0. subst h. pose proof (fold_ostep_nomerge step (x :: r) None) as Hn. rewrite E1 in Hn. cbn [fst snd] in Hn.
        specialize (Hn eq_refl). inversion Hn. reflexivity. }
    destruct had; cbn [negb].
    - (* something merged somewhere *)
      assert (NoDup (keys gs)) as Hnd by (apply (pass_keys_nodup step L [] false gs true); [constructor|exact Ep]).
      assert (forall k M, In (k, M) gs -> exists x r, group_of k L = x :: r /\ lookup k gs = Some M) as Hin.
      { intros k M Hi. pose proof (lookup_in gs k M Hnd Hi) as El. destruct (group_of k L) as [|x r] eqn:Eg.
        - specialize (F1 k). rewrite Eg in F1. cbn [fold_left fst] in F1. congruence.
        - exists x, r. tauto. }
      destruct f as [|f0]; [lia|].
      assert (forall k M, In (k, M) gs -> exists l, Fg (merge_ranges (S f0) step) (k, M) = Some l /\ homog k l) as Hok.
      { intros k M Hi. destruct (Hin k M Hi) as [x [r [Eg El]]]. destruct (Hgrp k x r Eg) as [M2 [h [El2 [E1 [HM [Hm Hn]]]]]].
        rewrite El in El2. inversion El2; subst M2.
        assert (forall l, Fg (merge_ranges (S f0) step) (k, M) = Some l -> homog k l) as Hhl.
        { intros l El'. apply (rloop_homog k (merge_ranges (S f0) step) (merge_homog step k (S f0)) _ M l HM El'). }
        destruct h.
        - specialize (Hsome k). rewrite Eg, (Hm (S f0)) in Hsome.
          destruct (Fg (merge_ranges (S f0) step) (k, M)) as [l|] eqn:EF; [exists l; split; [reflexivity|apply Hhl; reflexivity]|].
          exfalso. apply Hsome. reflexivity.
        - rewrite (Hn eq_refl) in *. exists (x :: r). split; [|assumption].
          unfold Fg. cbn [snd rloop]. rewrite (Hm f0). reflexivity. }
      assert (exists ls, all_some (map (Fg (merge_ranges (S f0) step)) gs) = Some ls) as [ls Els].
      { clear -Hok. induction gs as [|[k M] r IH]; [exists []; reflexivity|]. cbn [map all_some].
        destruct (Hok k M (or_introl eq_refl)) as [l [El _]]. rewrite El.
        destruct IH as [ls' E']; [intros k0 M0 Hi; apply Hok; right; exact Hi|]. rewrite E'. eexists. reflexivity. }
      change (map (fun g => rloop (merge_ranges (S f0) step) (S (length (snd g))) (snd g)) gs)
        with (map (Fg (merge_ranges (S f0) step)) gs). rewrite Els.
      exists (flat_map sort_by_start ls), true. split; [reflexivity|].
      intros fp r1 b1 E1.
      assert (forall k M l, In (k, M) gs -> Fg (merge_ranges (S f0) step) (k, M) = Some l -> homog k l) as Hhom.
      { intros k M l Hi EF. destruct (Hok k M Hi) as [l' [El' Hl']]. rewrite EF in El'. inversion El'; subst. exact Hl'. }
      rewrite (flat_groups (merge_ranges (S f0) step) gs ls Hnd Hhom Els).
      destruct (group_of fp L) as [|x r] eqn:Eg.
      + rewrite merge_nil in E1. inversion E1; subst. specialize (F1 fp). rewrite Eg in F1. cbn [fold_left fst] in F1.
        rewrite <- F1. reflexivity.
      + destruct (Hgrp fp x r Eg) as [M [h [El [_ [HM [Hm Hn]]]]]]. rewrite El. rewrite (Hm (S f0)) in E1. destruct h.
        * destruct (Fg (merge_ranges (S f0) step) (fp, M)) as [l|]; [|discriminate]. cbn [option_map] in E1. inversion E1; subst. reflexivity.
        * inversion E1; subst r1 b1. rewrite (Hn eq_refl).
          assert (Fg (merge_ranges (S f0) step) (fp, x :: r) = Some (x :: r)) as ->
            by (unfold Fg; cbn [snd rloop]; rewrite (Hm f0); reflexivity).
          apply sort_idem.
    - (* nothing merged anywhere *)
      exists L, false. split; [reflexivity|]. intros fp r1 b1 E1.
      destruct (pass_nohad step L [] false gs Ep) as [_ Hno]. cbn [lookup] in Hno.
      destruct (group_of fp L) as [|x r] eqn:Eg.
      + rewrite merge_nil in E1. inversion E1; subst. reflexivity.
      + destruct (Hgrp fp x r Eg) as [M [h [_ [E2 [_ [Hm _]]]]]]. specialize (Hno fp). rewrite Eg, E2 in Hno. cbn [snd] in Hno. subst h.
        rewrite (Hm f) in E1. inversion E1; subst. reflexivity.
  Qed.
End Merge4.

(** --- several series: the theorem --------------------------------------------------------------------- *)

Section Multi.
  Variable step : Z.
  Hypothesis Hstep : sec <= step.

  Lemma merge_one f x : merge_ranges (S f) step [x] = Some ([x], false).
  Proof. reflexivity. Qed.

  Lemma finalize_via_merge fp f G r1 b1 : homog fp G ->
    merge_ranges (S f) step G = Some (r1, b1) -> finalize (S f) step G = Some (sort_by_start r1).
  Proof.
    intros HG E. destruct G as [|x [|y r]].
    - rewrite merge_nil in E. inversion E; subst. reflexivity.
    - rewrite merge_one in E. inversion E; subst. unfold finalize. rewrite (canon_sorted_single fp [x] HG). reflexivity.
    - unfold finalize. rewrite E. rewrite (canon_sorted_single fp r1); [reflexivity|].
      apply (merge_homog step fp (S f) _ r1 b1 HG E).
  Qed.

  Lemma flat_map_length_group {A} fp (f : A -> list range) l :
    (length (group_of fp (flat_map f l)) <= length (flat_map f l))%nat.
  Proof. unfold group_of. generalize (flat_map f l). induction l0 as [|x r IH]; cbn [filter length]; [lia|]. destruct (r_fp x =? fp)%N; cbn [length]; lia. Qed.

  (** For several series with distinct fingerprints in the responses, the part of the merged, sorted result
      that belongs to any one of them is exactly that series' runs of the unsliced grid. *)
  Theorem series_independent (ss : series) fuel0 start end_ lookback sl arrival fp pres :
    step <= max_int64 - 2 * hour ->
    NoDup (map fst ss) -> In (fp, pres) ss ->
    query_slices fuel0 start end_ lookback step = Some sl ->
    Permutation arrival sl ->
    exists res, sliced (merge_fuel (flat_map (per_slice step ss) arrival)) step ss arrival = Some res /\
                group_of fp res = runs_of fp step pres (first_start sl start) end_.
  Proof.
    intros Hmax Hnd Hin Hq Hperm. unfold sliced. set (L := flat_map (per_slice step ss) arrival).
    assert (forall fp' pres', In (fp', pres') ss -> group_of fp' L = flat_map (per_slice1 step fp' pres') arrival) as HG.
    { intros fp' pres' Hi. unfold L. rewrite group_of_flat_map. apply flat_map_ext_in. intros s _.
      apply (per_slice_group step s fp' pres' ss Hnd Hi). }
    assert (forall fp', ~ In fp' (map fst ss) -> group_of fp' L = []) as HG0.
    { intros fp' Hn. destruct (group_of fp' L) as [|x r] eqn:Eg; [reflexivity|]. exfalso.
      assert (In x (group_of fp' L)) as Hx by (rewrite Eg; left; reflexivity).
      apply filter_In in Hx. destruct Hx as [Hx Ex]. apply N.eqb_eq in Ex. unfold L in Hx. apply in_flat_map in Hx.
      destruct Hx as [s [_ Hx]]. destruct (per_slice_fps step s ss x Hx) as [s' [Hs' Es']]. apply Hn. rewrite <- Ex, <- Es'.
      apply in_map. exact Hs'. }
    assert (forall fp' pres' fuel, In (fp', pres') ss -> (length L < fuel)%nat ->
              finalize fuel step (group_of fp' L) = Some (runs_of fp' step pres' (first_start sl start) end_)) as Hfin.
    { intros fp' pres' fuel Hi Hl. rewrite (HG fp' pres' Hi).
      apply (finalize_eq_unsliced step fp' pres' Hstep fuel0 start end_ lookback sl arrival fuel Hmax Hq Hperm).
      rewrite <- (HG fp' pres' Hi). pose proof (flat_map_length_group fp' (per_slice step ss) arrival). fold L in H. lia. }
    assert (forall fp' f, (length L < S f)%nat -> merge_ranges (S f) step (group_of fp' L) <> None) as Hsome.
    { intros fp' f Hl. destruct (in_dec N.eq_dec fp' (map fst ss)) as [Hi|Hn].
      - apply in_map_iff in Hi. destruct Hi as [[k pr] [Ek Hi]]. cbn [fst] in Ek. subst k.
        pose proof (Hfin fp' pr (S f) Hi Hl) as Hf. destruct (group_of fp' L) as [|x [|y r]].
        + rewrite merge_nil. discriminate.
        + rewrite merge_one. discriminate.
        + unfold finalize in Hf. destruct (merge_ranges (S f) step (x :: y :: r)); [discriminate|discriminate].
      - rewrite (HG0 fp' Hn), merge_nil. discriminate. }
    unfold merge_fuel. set (f := S (length L)).
    assert (group_of fp L = match L with [] | [_] => group_of fp L | _ => group_of fp L end) as _ by (destruct L as [|? [|? ?]]; reflexivity).
    pose proof (Hfin fp pres (S f) Hin ltac:(unfold f; lia)) as Hfp.
    destruct L as [|x [|y r]] eqn:EL.
    - exists (canon_sorted []). split; [reflexivity|]. cbn [group_of filter finalize] in Hfp. inversion Hfp. reflexivity.
    - exists (canon_sorted [x]). split; [reflexivity|]. rewrite group_of_canon_sorted.
      destruct (group_of fp [x]) as [|z [|? ?]] eqn:Eg.
      + cbn [finalize] in Hfp. inversion Hfp. reflexivity.
      + unfold finalize in Hfp. rewrite (canon_sorted_single fp [z]) in Hfp by (rewrite <- Eg; apply group_of_is_homog).
        inversion Hfp. reflexivity.
      + exfalso. assert (length (group_of fp [x]) <= 1)%nat by (cbn [group_of filter]; destruct (r_fp x =? fp)%N; cbn [length]; lia).
        rewrite Eg in H. cbn [length] in H. lia.
    - destruct (multi_merge step f (x :: y :: r) ltac:(unfold f; lia)) as [res0 [b [Em Hproj]]].
      + intros fp'. apply Hsome. unfold f. lia.
      + unfold finalize. rewrite Em. exists (canon_sorted res0). split; [reflexivity|].
        rewrite group_of_canon_sorted.
        destruct (merge_ranges (S f) step (group_of fp (x :: y :: r))) as [[r1 b1]|] eqn:E1;
          [|exfalso; apply (Hsome fp f ltac:(unfold f; lia)); exact E1].
        rewrite (Hproj fp r1 b1 E1).
        rewrite (finalize_via_merge fp f _ r1 b1 (group_of_is_homog fp _) E1) in Hfp. inversion Hfp. reflexivity.
  Qed.

  (** The whole result, for any finite set of series (pairwise distinct fingerprints), every response listing its
      series in an order of its own: the merged, sorted result consists, series by series, of exactly that series'
      runs of the unsliced grid - and of nothing else. *)
  Theorem all_series (ss : series) (ord : tr -> series) fuel0 start end_ lookback sl arrival :
    step <= max_int64 - 2 * hour ->
    NoDup (map fst ss) -> (forall s, Permutation (ord s) ss) ->
    query_slices fuel0 start end_ lookback step = Some sl ->
    Permutation arrival sl ->
    exists res,
      sliced_ord (merge_fuel (flat_map (fun s => per_slice step (ord s) s) arrival)) step ord arrival = Some res /\
      (forall fp pres, In (fp, pres) ss -> group_of fp res = runs_of fp step pres (first_start sl start) end_) /\
      (forall fp, ~ In fp (map fst ss) -> group_of fp res = []).
  Proof.
    intros Hmax Hnd Hord Hq Hperm. unfold sliced_ord. set (L := flat_map (fun s => per_slice step (ord s) s) arrival).
    assert (forall s, NoDup (map fst (ord s))) as Hnd'.
    { intro s. apply (Permutation_NoDup (l := map fst ss)); [apply Permutation_map, Permutation_sym, Hord|exact Hnd]. }
    assert (forall fp' pres', In (fp', pres') ss -> group_of fp' L = flat_map (per_slice1 step fp' pres') arrival) as HG.
    { intros fp' pres' Hi. unfold L. rewrite group_of_flat_map. apply flat_map_ext_in. intros s _.
      apply (per_slice_group step s fp' pres' (ord s) (Hnd' s)).
      apply (Permutation_in (l := ss)); [apply Permutation_sym, Hord|exact Hi]. }
    assert (forall fp', ~ In fp' (map fst ss) -> group_of fp' L = []) as HG0.
    { intros fp' Hn. destruct (group_of fp' L) as [|x r] eqn:Eg; [reflexivity|]. exfalso.
      assert (In x (group_of fp' L)) as Hx by (rewrite Eg; left; reflexivity).
      apply filter_In in Hx. destruct Hx as [Hx Ex]. apply N.eqb_eq in Ex. unfold L in Hx. apply in_flat_map in Hx.
      destruct Hx as [s [_ Hx]]. destruct (per_slice_fps step s (ord s) x Hx) as [s' [Hs' Es']]. apply Hn. rewrite <- Ex, <- Es'.
      apply in_map. apply (Permutation_in (l := ord s)); [apply Hord|exact Hs']. }
    assert (forall fp' pres' fuel, In (fp', pres') ss -> (length L < fuel)%nat ->
              finalize fuel step (group_of fp' L) = Some (runs_of fp' step pres' (first_start sl start) end_)) as Hfin.
    { intros fp' pres' fuel Hi Hl. rewrite (HG fp' pres' Hi).
      apply (finalize_eq_unsliced step fp' pres' Hstep fuel0 start end_ lookback sl arrival fuel Hmax Hq Hperm).
      rewrite <- (HG fp' pres' Hi).
      assert (length (group_of fp' L) <= length L)%nat as Hle.
      { unfold group_of. generalize L. intro l0. induction l0 as [|x r IH]; cbn [filter length]; [lia|]. destruct (r_fp x =? fp')%N; cbn [length]; lia. }
      lia. }
    assert (forall fp' f, (length L < S f)%nat -> merge_ranges (S f) step (group_of fp' L) <> None) as Hsome.
    { intros fp' f Hl. destruct (in_dec N.eq_dec fp' (map fst ss)) as [Hi|Hn].
      - apply in_map_iff in Hi. destruct Hi as [[k pr] [Ek Hi]]. cbn [fst] in Ek. subst k.
        pose proof (Hfin fp' pr (S f) Hi Hl) as Hf. destruct (group_of fp' L) as [|x [|y r]].
        + rewrite merge_nil. discriminate.
        + rewrite merge_one. discriminate.
        + unfold finalize in Hf. destruct (merge_ranges (S f) step (x :: y :: r)); [discriminate|discriminate].
      - rewrite (HG0 fp' Hn), merge_nil. discriminate. }
    unfold merge_fuel. set (f := S (length L)).
    (* the per-series content of the result, whatever the shape of L *)
    assert (exists res, finalize (S f) step L = Some res /\
              forall fp, exists r1 b1, merge_ranges (S f) step (group_of fp L) = Some (r1, b1) /\
                                       group_of fp res = sort_by_start r1) as [res [Eres Hres]].
    { destruct L as [|x [|y r]] eqn:EL.
      - exists (canon_sorted []). split; [reflexivity|]. intro fp. exists [], false. split; reflexivity.
      - exists (canon_sorted [x]). split; [reflexivity|]. intro fp. rewrite group_of_canon_sorted.
        destruct (merge_ranges (S f) step (group_of fp [x])) as [[r1 b1]|] eqn:E1;
          [|exfalso; apply (Hsome fp f ltac:(unfold f; cbn [length]; lia)); exact E1].
        exists r1, b1. split; [reflexivity|].
        cbn [group_of filter] in *. destruct (r_fp x =? fp)%N.
        + rewrite merge_one in E1. inversion E1; subst. reflexivity.
        + rewrite merge_nil in E1. inversion E1; subst. reflexivity.
      - destruct (multi_merge step f (x :: y :: r) ltac:(unfold f; lia)) as [res0 [b [Em Hproj]]].
        + intros fp'. apply Hsome. unfold f. lia.
        + unfold finalize. rewrite Em. exists (canon_sorted res0). split; [reflexivity|]. intro fp.
          destruct (merge_ranges (S f) step (group_of fp (x :: y :: r))) as [[r1 b1]|] eqn:E1;
            [|exfalso; apply (Hsome fp f ltac:(unfold f; lia)); exact E1].
          exists r1, b1. split; [reflexivity|]. rewrite group_of_canon_sorted. apply (Hproj fp r1 b1 E1). }
    exists res. split; [exact Eres|]. split.
    - intros fp pres Hin. destruct (Hres fp) as [r1 [b1 [E1 Eg]]]. rewrite Eg.
      pose proof (Hfin fp pres (S f) Hin ltac:(unfold f; lia)) as Hfp.
      rewrite (finalize_via_merge fp f _ r1 b1 (group_of_is_homog fp _) E1) in Hfp. inversion Hfp. reflexivity.
    - intros fp Hn. destruct (Hres fp) as [r1 [b1 [E1 Eg]]]. rewrite Eg.
      rewrite (HG0 fp Hn), merge_nil in E1. inversion E1; subst. reflexivity.
  Qed.
End Multi.
