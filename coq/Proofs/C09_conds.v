(** C09 — each condition of a match/ignore block on its own: a block that sets ONLY that condition is satisfied
    exactly when the documented meaning of that one condition holds (the other eight early returns of Match.IsMatch do
    not fire), plus the two "parse error" clauses of the duration conditions stated on their own. *)
From Coq Require Import List String Ascii ZArith Bool Lia.
From PintV Require Import Common.Bytes Gen.Tables Model.Match Proofs.C09_match.
Import ListNotations.
Open Scope string_scope.
Open Scope list_scope.

(** blocks with one condition *)
Definition only_command (c : string) : mblock :=
  {| m_label := None; m_annotation := None; m_command := Some c; m_path := ""; m_name := ""; m_kind := ""; m_for := ""; m_keep := ""; m_state := [] |}.
Definition only_path (p : string) : mblock :=
  {| m_label := None; m_annotation := None; m_command := None; m_path := p; m_name := ""; m_kind := ""; m_for := ""; m_keep := ""; m_state := [] |}.
Definition only_name (p : string) : mblock :=
  {| m_label := None; m_annotation := None; m_command := None; m_path := ""; m_name := p; m_kind := ""; m_for := ""; m_keep := ""; m_state := [] |}.
Definition only_kind (k : string) : mblock :=
  {| m_label := None; m_annotation := None; m_command := None; m_path := ""; m_name := ""; m_kind := k; m_for := ""; m_keep := ""; m_state := [] |}.
Definition only_state (st : list string) : mblock :=
  {| m_label := None; m_annotation := None; m_command := None; m_path := ""; m_name := ""; m_kind := ""; m_for := ""; m_keep := ""; m_state := st |}.
Definition only_label (k v : string) : mblock :=
  {| m_label := Some {| km_key := k; km_value := v |}; m_annotation := None; m_command := None; m_path := ""; m_name := ""; m_kind := ""; m_for := ""; m_keep := ""; m_state := [] |}.
Definition only_annotation (k v : string) : mblock :=
  {| m_label := None; m_annotation := Some {| km_key := k; km_value := v |}; m_command := None; m_path := ""; m_name := ""; m_kind := ""; m_for := ""; m_keep := ""; m_state := [] |}.
Definition only_for (x : string) : mblock :=
  {| m_label := None; m_annotation := None; m_command := None; m_path := ""; m_name := ""; m_kind := ""; m_for := x; m_keep := ""; m_state := [] |}.
Definition only_keep (x : string) : mblock :=
  {| m_label := None; m_annotation := None; m_command := None; m_path := ""; m_name := ""; m_kind := ""; m_for := ""; m_keep := x; m_state := [] |}.

Section Conds.
  Variable full_match : string -> string -> bool.
  Variable parse_dur : string -> option Z.
  Notation mim := (match_is_match full_match parse_dur).

  (** command: the block is satisfied iff pint runs that very command (for EVERY entry) *)
  Lemma command_alone cmd c e : mim cmd (only_command c) e = String.eqb cmd c.
  Proof. unfold match_is_match, only_command; cbn. destruct (String.eqb cmd c); reflexivity. Qed.

  (** path: iff the whole path is in the language of the pattern (the empty pattern is "not set") *)
  Lemma path_alone cmd p e : p <> "" -> mim cmd (only_path p) e = full_match p (me_path e).
  Proof.
    intro Hp. unfold match_is_match, only_path; cbn.
    destruct (String.eqb p "") eqn:E; [apply String.eqb_eq in E; contradiction|]. cbn.
    destruct (full_match p (me_path e)); reflexivity.
  Qed.

  (** name: alert name of an alerting rule, record name of a recording rule *)
  Lemma name_alone cmd p e : p <> "" -> me_kind e <> Neither -> mim cmd (only_name p) e = full_match p (me_name e).
  Proof.
    intros Hp Hk. unfold match_is_match, only_name; cbn.
    destruct (String.eqb p "") eqn:E; [apply String.eqb_eq in E; contradiction|]. cbn.
    destruct (me_kind e); try contradiction; destruct (full_match p (me_name e)); reflexivity.
  Qed.

  (** kind *)
  Lemma kind_alone cmd k e : k <> "" ->
    mim cmd (only_kind k) e =
    match me_kind e with Alerting => String.eqb k "alerting" | Recording => String.eqb k "recording" | Neither => true end.
  Proof.
    intro Hk. unfold match_is_match, only_kind; cbn.
    destruct (String.eqb k "") eqn:E; [apply String.eqb_eq in E; contradiction|]. cbn.
    destruct (me_kind e); cbn; [destruct (String.eqb k "alerting")|destruct (String.eqb k "recording")|]; reflexivity.
  Qed.

  (** state *)
  Lemma state_alone cmd st e : st <> [] -> mim cmd (only_state st) e = doc_state st (me_state e).
  Proof.
    intro Hs. destruct st as [|s r]; [contradiction|].
    unfold match_is_match, only_state; cbn [m_command m_state m_kind m_path m_name m_label m_annotation m_for m_keep].
    rewrite state_matches_doc. cbn [String.eqb negb andb].
    destruct (doc_state (s :: r) (me_state e)); reflexivity.
  Qed.

  (** annotation: only alerting rules that HAVE annotations, some annotation's key and value both match *)
  Lemma annotation_alone cmd k v e :
    mim cmd (only_annotation k v) e =
    match me_kind e, me_annotations e with
    | Alerting, Some items => existsb (fun kv => full_match k (fst kv) && full_match v (snd kv)) items
    | _, _ => false
    end.
  Proof.
    unfold match_is_match, only_annotation, annotation_is_matching, kv_is_matching; cbn.
    destruct (me_kind e); cbn; try reflexivity.
    destruct (me_annotations e) as [items|]; cbn; [|reflexivity].
    destruct (existsb _ items); reflexivity.
  Qed.

  (** label: some EFFECTIVE label (group labels not overridden by the rule + the rule's labels) matches key and value *)
  Lemma label_alone cmd k v e : wf_labels e ->
    mim cmd (only_label k v) e = existsb (fun kv => full_match k (fst kv) && full_match v (snd kv)) (doc_labels e).
  Proof.
    intro W. unfold match_is_match, only_label, kv_is_matching; cbn.
    rewrite (existsb_ext_set _ (entry_labels e) (doc_labels e) (entry_labels_same_set e W)).
    destruct (existsb _ (doc_labels e)); reflexivity.
  Qed.

  (** for / keep_firing_for: only alerting rules that have the field; the comparison is made on parsed durations *)
  Lemma for_alone cmd x e : x <> "" -> mim cmd (only_for x) e = doc_duration parse_dur x e (me_for e).
  Proof.
    intro Hx. unfold match_is_match, only_for; cbn.
    destruct (String.eqb x "") eqn:E; [apply String.eqb_eq in E; contradiction|]. cbn.
    unfold duration_cond, doc_duration. destruct (me_kind e); try reflexivity.
    destruct (me_for e) as [v|]; [|reflexivity]. destruct (parse_dur v) as [d|]; [|reflexivity].
    rewrite duration_is_match_doc. destruct (doc_cmp _ d _); reflexivity.
  Qed.

  Lemma keep_alone cmd x e : x <> "" -> mim cmd (only_keep x) e = doc_duration parse_dur x e (me_keep e).
  Proof.
    intro Hx. unfold match_is_match, only_keep; cbn.
    destruct (String.eqb x "") eqn:E; [apply String.eqb_eq in E; contradiction|]. cbn.
    unfold duration_cond, doc_duration. destruct (me_kind e); try reflexivity.
    destruct (me_keep e) as [v|]; [|reflexivity]. destruct (parse_dur v) as [d|]; [|reflexivity].
    rewrite duration_is_match_doc. destruct (doc_cmp _ d _); reflexivity.
  Qed.

  (** * the parse-error clauses, on their own *)

  (** (a) a condition value that passes load-time validation (parseDurationMatch returns no error: every [for]
      condition, since Match.validate checks it) is used exactly as parsed: dropping the error loses nothing *)
  Lemma validated_condition_is_used_as_parsed x dm :
    parse_duration_match parse_dur x = Some dm -> duration_match_dropping_error parse_dur x = dm.
  Proof.
    unfold parse_duration_match, duration_match_dropping_error.
    destruct (split_space x) as [[o d]|].
    - destruct (parse_op o) as [op|]; [|discriminate]. destruct (parse_dur d) as [v|]; [|discriminate].
      intro H. inversion H. reflexivity.
    - destruct (parse_dur x) as [v|]; [|discriminate]. intro H. inversion H. reflexivity.
  Qed.

  (** (b) a condition value that does NOT parse (possible for keep_firing_for only, which is not validated at load):
      an unknown operator reads as "= 0", a known operator with a bad duration compares with 0 *)
  Lemma unparsable_condition_reads_as_zero x :
    parse_duration_match parse_dur x = None ->
    snd (duration_match_dropping_error parse_dur x) = 0%Z /\
    (match split_space x with
     | Some (o, _) => match parse_op o with
                      | Some op => fst (duration_match_dropping_error parse_dur x) = op
                      | None => fst (duration_match_dropping_error parse_dur x) = OpEqual
                      end
     | None => fst (duration_match_dropping_error parse_dur x) = OpEqual
     end).
  Proof.
    unfold parse_duration_match, duration_match_dropping_error.
    destruct (split_space x) as [[o d]|].
    - destruct (parse_op o) as [op|]; [|intros _; split; reflexivity].
      destruct (parse_dur d) as [v|]; [discriminate|]. intros _. split; reflexivity.
    - destruct (parse_dur x) as [v|]; [discriminate|]. intros _. split; reflexivity.
  Qed.

  (** (c) a RULE whose for / keep_firing_for value is not a duration satisfies every duration condition, whatever the
      operator and bound (the "parse error => condition passes" quirk of Match.IsMatch) *)
  Lemma unparsable_rule_value_passes x v :
    parse_dur v = None -> duration_cond parse_dur x Alerting (Some v) = true.
  Proof. intro H. unfold duration_cond. rewrite H. reflexivity. Qed.

  (** ... while a rule WITHOUT the field, or a recording rule, never satisfies it *)
  Lemma missing_field_fails x k : duration_cond parse_dur x k None = false.
  Proof. unfold duration_cond. destruct k; reflexivity. Qed.

  Lemma recording_rule_fails x f : duration_cond parse_dur x Recording f = false.
  Proof. reflexivity. Qed.
End Conds.
