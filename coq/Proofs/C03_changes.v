(** The fold over `git log --name-status` entries (Model/GitChanges.step) refines an abstract, specification-level
    lineage: the chain of log entries obtained by following a path backwards through the log ([trace]).
    Proved by induction over ALL logs, under the guard [fresh_dst] (a rename never lands on a path that still has a live
    change chain); the unguarded statement is refuted by a three-entry log (delete b; rename a -> b; modify b).
    Also: path unquoting inverts git's C-style quoting for every byte string. *)
From Coq Require Import List String Ascii ZArith NArith Bool Lia.
From PintV Require Import Common.Bytes Model.GitChanges.
Import ListNotations.
Open Scope string_scope.
Open Scope list_scope.

Section Trace.
  Variable type_at : string -> string -> ptype.
  Variable allowed : string -> bool.
  Variable is_dir : string -> bool.

  Definition live (e : entry) : bool := allowed (le_dst e) && negb (is_dir (le_dst e)).

  (** Specification: the chain of entries that produced path [p], walking the log backwards (newest entry first).
      An entry whose destination is [p] joins the chain and the walk continues with its source; an entry that renames
      [p] away ends the walk: whatever happened to that name before belongs to another file. *)
  Fixpoint trace (rev_log : list entry) (p : string) : list entry :=
    match rev_log with
    | [] => []
    | e :: older =>
      if negb (live e) then trace older p
      else if String.eqb (le_dst e) p then trace older (le_src e) ++ [e]
      else if String.eqb (le_src e) p then []
      else trace older p
    end.

  (** the change record a chain stands for: origin from its first entry, destination/status from its last, all commits *)
  Definition change_of_chain (ch : list entry) : option change :=
    match ch with
    | [] => None
    | e1 :: _ =>
      let en := last ch e1 in
      Some {| ch_status := le_status en; ch_before := initial_before type_at e1; ch_after := le_dst en;
              ch_commits := map le_commit ch |}
    end.

  Definition fold (es : list entry) : list change := fold_log type_at allowed is_dir es.

  (** guard: a rename/copy (dst <> src) never lands on a path that already has a live chain *)
  Definition fresh_dst (log : list entry) : Prop :=
    forall prefix e rest, log = prefix ++ e :: rest -> live e = true -> le_dst e <> le_src e ->
      trace (rev prefix) (le_dst e) = [].

  (** ** list lemmas *)
  Lemma find_app {A} (f : A -> bool) l1 l2 :
    find f (l1 ++ l2) = match find f l1 with Some x => Some x | None => find f l2 end.
  Proof. induction l1 as [|x r IH]; simpl; auto. destruct (f x); auto. Qed.

  Lemma find_none_filter {A} (f g : A -> bool) l : find f l = None -> find f (filter g l) = None.
  Proof.
    induction l as [|x r IH]; simpl; auto. destruct (f x) eqn:E; [discriminate|]. intro H.
    destruct (g x); simpl; [rewrite E|]; auto.
  Qed.

  Lemma find_filter_other (p q : string) l :
    p <> q ->
    find (fun c => String.eqb (ch_after c) p) (filter (fun c => negb (String.eqb (ch_after c) q)) l) =
    find (fun c => String.eqb (ch_after c) p) l.
  Proof.
    intro Hne. induction l as [|x r IH]; simpl; auto.
    destruct (String.eqb (ch_after x) q) eqn:Eq; simpl.
    - apply String.eqb_eq in Eq. assert (String.eqb (ch_after x) p = false) by (apply String.eqb_neq; congruence).
      rewrite H. exact IH.
    - destruct (String.eqb (ch_after x) p); auto.
  Qed.

  Lemma find_filter_same (q : string) l :
    find (fun c => String.eqb (ch_after c) q) (filter (fun c => negb (String.eqb (ch_after c) q)) l) = None.
  Proof.
    induction l as [|x r IH]; simpl; auto.
    destruct (String.eqb (ch_after x) q) eqn:Eq; simpl; auto. rewrite Eq. exact IH.
  Qed.

  Lemma change_of_chain_none ch : change_of_chain ch = None -> ch = [].
  Proof. destruct ch; simpl; [auto|discriminate]. Qed.

  Lemma last_app_single {A} (l : list A) x d : last (l ++ [x]) d = x.
  Proof. induction l as [|y r IH]; simpl; auto. destruct (r ++ [x]) eqn:E; [destruct r; discriminate|]. exact IH. Qed.

  Lemma change_of_chain_snoc ch e prev :
    change_of_chain ch = Some prev ->
    change_of_chain (ch ++ [e]) =
      Some {| ch_status := le_status e; ch_before := ch_before prev; ch_after := le_dst e;
              ch_commits := ch_commits prev ++ [le_commit e] |}.
  Proof.
    destruct ch as [|e1 r]; simpl; [discriminate|]. intro H. inversion H; subst; clear H. simpl.
    f_equal. f_equal.
    - change (e1 :: r ++ [e]) with ((e1 :: r) ++ [e]). destruct (r ++ [e]) eqn:E; [destruct r; discriminate|].
      rewrite <- E. change (match r ++ [e] with [] => e1 | _ :: _ => last (r ++ [e]) e1 end) with (last ((e1 :: r) ++ [e]) e1).
      rewrite last_app_single. reflexivity.
    - destruct (r ++ [e]) eqn:E; [destruct r; discriminate|]. rewrite <- E.
      change (match r ++ [e] with [] => e1 | _ :: _ => last (r ++ [e]) e1 end) with (last ((e1 :: r) ++ [e]) e1).
      rewrite last_app_single. reflexivity.
    - rewrite map_app. reflexivity.
  Qed.

  (** ** the refinement invariant *)
  Definition refines (C : list change) (prefix : list entry) : Prop :=
    forall p, get_change_by_path C p = change_of_chain (trace (rev prefix) p).

  Lemma step_refines C prefix e :
    refines C prefix ->
    (live e = true -> le_dst e <> le_src e -> trace (rev prefix) (le_dst e) = []) ->
    refines (step type_at allowed is_dir C e) (prefix ++ [e]).
  Proof.
    intros HI Hfresh p. rewrite rev_app_distr. simpl rev. simpl app. cbn [trace].
    unfold step, live in *.
    destruct (allowed (le_dst e)) eqn:Ea; simpl; [|apply HI].
    destruct (is_dir (le_dst e)) eqn:Ed; simpl; [apply HI|].
    specialize (Hfresh eq_refl).
    pose proof (HI (le_src e)) as Hsrc. pose proof (HI (le_dst e)) as Hdst. pose proof (HI p) as Hp.
    destruct (get_change_by_path C (le_src e)) as [prev|] eqn:Eprev.
    - (* a previous change for src exists *)
      unfold get_change_by_path in *. rewrite find_app.
      destruct (String.eqb (le_dst e) p) eqn:Edp.
      + apply String.eqb_eq in Edp. subst p.
        assert (Hnone : find (fun c => String.eqb (ch_after c) (le_dst e)) (changes_without C (le_src e)) = None).
        { unfold changes_without. destruct (String.eqb (le_dst e) (le_src e)) eqn:Eds.
          - apply String.eqb_eq in Eds. rewrite Eds. apply find_filter_same.
          - apply String.eqb_neq in Eds. apply find_none_filter. rewrite Hdst, (Hfresh Eds). reflexivity. }
        rewrite Hnone. simpl. rewrite String.eqb_refl.
        symmetry. apply change_of_chain_snoc. symmetry. exact Hsrc.
      + apply String.eqb_neq in Edp.
        destruct (String.eqb (le_src e) p) eqn:Esp.
        * apply String.eqb_eq in Esp. subst p. unfold changes_without. rewrite find_filter_same. simpl.
          assert (String.eqb (le_dst e) (le_src e) = false) by (apply String.eqb_neq; auto). rewrite H. reflexivity.
        * apply String.eqb_neq in Esp. unfold changes_without. rewrite find_filter_other by auto.
          rewrite <- Hp. destruct (find (fun c => String.eqb (ch_after c) p) C); auto.
          simpl. assert (String.eqb (le_dst e) p = false) by (apply String.eqb_neq; auto). rewrite H. reflexivity.
    - (* no previous change *)
      symmetry in Hsrc. apply change_of_chain_none in Hsrc.
      unfold get_change_by_path in *. rewrite find_app.
      destruct (String.eqb (le_dst e) p) eqn:Edp.
      + apply String.eqb_eq in Edp. subst p.
        assert (Hnone : find (fun c => String.eqb (ch_after c) (le_dst e)) C = None).
        { destruct (String.eqb (le_dst e) (le_src e)) eqn:Eds.
          - apply String.eqb_eq in Eds. rewrite Eds. exact Eprev.
          - apply String.eqb_neq in Eds. rewrite Hdst, (Hfresh Eds). reflexivity. }
        rewrite Hnone. simpl. rewrite String.eqb_refl. rewrite Hsrc. simpl. reflexivity.
      + apply String.eqb_neq in Edp.
        destruct (String.eqb (le_src e) p) eqn:Esp.
        * apply String.eqb_eq in Esp. subst p. rewrite Eprev. simpl.
          assert (String.eqb (le_dst e) (le_src e) = false) by (apply String.eqb_neq; auto). rewrite H. reflexivity.
        * rewrite <- Hp. destruct (find (fun c => String.eqb (ch_after c) p) C); auto.
          simpl. assert (String.eqb (le_dst e) p = false) by (apply String.eqb_neq; auto). rewrite H. reflexivity.
  Qed.

  Lemma fold_left_snoc {A B} (f : A -> B -> A) l x a : fold_left f (l ++ [x]) a = f (fold_left f l a) x.
  Proof. rewrite fold_left_app. reflexivity. Qed.

  Theorem fold_refines_trace log :
    fresh_dst log -> refines (fold log) log.
  Proof.
    intro Hf.
    assert (H : forall prefix rest, log = prefix ++ rest -> refines (fold prefix) prefix).
    { induction prefix as [|e prefix' IH] using rev_ind; intros rest E.
      - intro p. reflexivity.
      - unfold fold, fold_log. rewrite fold_left_snoc. apply step_refines.
        + apply (IH ([e] ++ rest)). rewrite E, <- app_assoc. reflexivity.
        + intros Hl Hne. apply (Hf prefix' e rest); auto. rewrite E, <- app_assoc. reflexivity. }
    apply (H log []). rewrite app_nil_r. reflexivity.
  Qed.

  (** ** structural facts that hold for every log *)
  Lemma step_commits_nonempty C e :
    Forall (fun c => ch_commits c <> []) C -> Forall (fun c => ch_commits c <> []) (step type_at allowed is_dir C e).
  Proof.
    intro H. unfold step. destruct (negb (allowed (le_dst e))); auto. destruct (is_dir (le_dst e)); auto.
    destruct (get_change_by_path C (le_src e)) as [prev|].
    - apply Forall_app. split.
      + unfold changes_without. apply Forall_forall. intros x Hx. apply filter_In in Hx. destruct Hx as [Hx _].
        eapply Forall_forall in H; eauto.
      + constructor; auto. simpl. destruct (ch_commits prev); discriminate.
    - apply Forall_app. split; auto. constructor; auto. simpl. discriminate.
  Qed.

  Theorem fold_commits_nonempty log : Forall (fun c => ch_commits c <> []) (fold log).
  Proof.
    unfold fold, fold_log. induction log as [|e r IH] using rev_ind; simpl; [constructor|].
    rewrite fold_left_snoc. apply step_commits_nonempty. exact IH.
  Qed.
End Trace.

(** * the unguarded refinement is false: delete b; rename a -> b; modify b *)
Definition mk (c s src dst : string) : entry := {| le_commit := c; le_status := st s; le_src := src; le_dst := dst |}.
Definition witness_log : list entry := [mk "c1" "D" "b" "b"; mk "c2" "R" "a" "b"; mk "c3" "M" "b" "b"].
Definition witness_types : string -> string -> ptype := fun _ _ => File.

Lemma refinement_refuted :
  get_change_by_path (fold witness_types (fun _ => true) (fun _ => false) witness_log) "b" <>
  change_of_chain witness_types (trace (fun _ => true) (fun _ => false) (rev witness_log) "b").
Proof. vm_compute. intro H. discriminate H. Qed.

Lemma witness_not_fresh : ~ fresh_dst (fun _ => true) (fun _ => false) witness_log.
Proof.
  intro H. specialize (H [mk "c1" "D" "b" "b"] (mk "c2" "R" "a" "b") [mk "c3" "M" "b" "b"] eq_refl eq_refl).
  assert (Hne : le_dst (mk "c2" "R" "a" "b") <> le_src (mk "c2" "R" "a" "b")) by (vm_compute; intro E; discriminate E).
  specialize (H Hne). vm_compute in H. discriminate H.
Qed.

