(** The fold over `git log --name-status` entries (Model/GitChanges.step) refines an abstract, specification-level
    lineage: the chain of log entries obtained by following a path backwards through the log ([trace]).
    Proved by induction over ALL logs, with no guard (since fix d9e7954: the most recent record for a path is the one
    that is continued, and only that record is dropped).  The specification is indexed by a depth [k]: a path can carry
    several records at once (a deletion of b, then a rename a -> b: both end at b); [k = 0] is the file that is at the path
    now -- what getChangeByPath returns --, [k+1] the record it shadows. *)
From Coq Require Import List String Ascii ZArith NArith Bool Lia.
From PintV Require Import Common.Bytes Model.GitChanges.
Import ListNotations.
Open Scope string_scope.
Open Scope list_scope.

Section Trace.
  Variable type_at : string -> string -> ptype.
  Variable allowed : string -> bool.
  Variable is_dir : string -> bool.

  Definition live (e : entry) : bool := allowed (le_dst e) && negb (is_dir (le_dst e)).

  (** Specification: the chain of entries that produced the [k]-th most recent file at path [p], walking the log
      backwards (newest entry first).
      - an entry that modifies [p] in place (src = dst = p) belongs to the file currently at [p] (k = 0) and is
        irrelevant for the files that one shadows;
      - an entry that moves another path onto [p] is the last step of the file currently at [p] (k = 0; the walk
        continues with its source); going further back it is the point where the file now at depth k was at depth k-1;
      - an entry that renames [p] away took the file that was then at [p] with it: what is at depth k now was at depth
        k+1 before;
      - a COPY entry (status C, fix e81cbba) starts a file of its own at its destination -- the chain is just that entry --
        and leaves its source alone. *)
  Fixpoint trace (rev_log : list entry) (p : string) (k : nat) : list entry :=
    match rev_log with
    | [] => []
    | e :: older =>
      if negb (live e) then trace older p k
      else if String.eqb (le_dst e) p then
        match k with
        | O => if is_copy e then [e] else trace older (le_src e) O ++ [e]
        | S k' => if String.eqb (le_src e) p && negb (is_copy e) then trace older p k else trace older p k'
        end
      else if String.eqb (le_src e) p && negb (is_copy e) then trace older p (S k)
      else trace older p k
    end.

  (** the same walk for logs without copy entries (what `git log` prints unless copy detection is configured) *)
  Fixpoint trace_nc (rev_log : list entry) (p : string) (k : nat) : list entry :=
    match rev_log with
    | [] => []
    | e :: older =>
      if negb (live e) then trace_nc older p k
      else if String.eqb (le_dst e) p then
        match k with
        | O => trace_nc older (le_src e) O ++ [e]
        | S k' => if String.eqb (le_src e) p then trace_nc older p k else trace_nc older p k'
        end
      else if String.eqb (le_src e) p then trace_nc older p (S k)
      else trace_nc older p k
    end.

  Lemma trace_nocopy : forall rl, (forall e, In e rl -> is_copy e = false) -> forall p k, trace rl p k = trace_nc rl p k.
  Proof.
    induction rl as [|e r IH]; intros Hnc p k; [reflexivity|].
    assert (He : is_copy e = false) by (apply Hnc; left; reflexivity).
    assert (Hr : forall x, In x r -> is_copy x = false) by (intros x Hx; apply Hnc; right; exact Hx).
    cbn [trace trace_nc]. rewrite He. cbn [negb]. rewrite !andb_true_r.
    destruct (negb (live e)); [apply IH; auto|].
    destruct (String.eqb (le_dst e) p).
    - destruct k as [|k']; [rewrite IH by auto; reflexivity|].
      destruct (String.eqb (le_src e) p); apply IH; auto.
    - destruct (String.eqb (le_src e) p); apply IH; auto.
  Qed.

  (** the change record a chain stands for: origin from its first entry, destination/status from its last, all commits *)
  Definition change_of_chain (ch : list entry) : option change :=
    match ch with
    | [] => None
    | e1 :: _ =>
      let en := last ch e1 in
      Some {| ch_status := le_status en; ch_before := initial_before type_at e1; ch_after := le_dst en;
              ch_commits := map le_commit ch |}
    end.

  Definition fold (es : list entry) : list change := fold_log type_at allowed is_dir es.

  (** observation of a change list: the k-th most recent record whose After.Name is p (k = 0: getChangeByPath) *)
  Definition nth_by_path (C : list change) (p : string) (k : nat) : option change :=
    nth_error (filter (has_after p) (rev C)) k.

  (** ** list lemmas *)
  Lemma find_nth0 {A} (f : A -> bool) l : find f l = nth_error (filter f l) 0.
  Proof. induction l as [|x r IH]; simpl; auto. destruct (f x); simpl; auto. Qed.

  Lemma get_is_nth0 C p : get_change_by_path C p = nth_by_path C p 0.
  Proof. apply find_nth0. Qed.

  Lemma filter_remove_first_same {A} (f : A -> bool) l : filter f (remove_first f l) = tl (filter f l).
  Proof.
    induction l as [|x r IH]; simpl; auto. destruct (f x) eqn:E; simpl; auto. rewrite E. exact IH.
  Qed.

  Lemma filter_remove_first_other {A} (f g : A -> bool) l :
    (forall x, f x = true -> g x = false) -> filter g (remove_first f l) = filter g l.
  Proof.
    intro H. induction l as [|x r IH]; simpl; auto. destruct (f x) eqn:E; simpl.
    - rewrite (H x E). reflexivity.
    - rewrite IH. reflexivity.
  Qed.

  Lemma has_after_other p q c : p <> q -> has_after q c = true -> has_after p c = false.
  Proof.
    unfold has_after. intros Hne H. apply String.eqb_eq in H. apply String.eqb_neq. congruence.
  Qed.

  Lemma nth_error_tl {A} (l : list A) k : nth_error (tl l) k = nth_error l (S k).
  Proof. destruct l; simpl; auto. destruct k; reflexivity. Qed.

  Lemma nth0_none_all {A} (l : list A) k : nth_error l 0 = None -> nth_error l k = None.
  Proof. destruct l; [destruct k; reflexivity | discriminate]. Qed.

  Lemma change_of_chain_none ch : change_of_chain ch = None -> ch = [].
  Proof. destruct ch; simpl; [auto|discriminate]. Qed.

  Lemma last_app_single {A} (l : list A) x d : last (l ++ [x]) d = x.
  Proof. induction l as [|y r IH]; simpl; auto. destruct (r ++ [x]) eqn:E; [destruct r; discriminate|]. exact IH. Qed.

  Lemma change_of_chain_snoc ch e prev :
    change_of_chain ch = Some prev ->
    change_of_chain (ch ++ [e]) =
      Some {| ch_status := le_status e; ch_before := ch_before prev; ch_after := le_dst e;
              ch_commits := ch_commits prev ++ [le_commit e] |}.
  Proof.
    destruct ch as [|e1 r]; simpl; [discriminate|]. intro H. inversion H; subst; clear H. simpl.
    f_equal. f_equal.
    - change (e1 :: r ++ [e]) with ((e1 :: r) ++ [e]). destruct (r ++ [e]) eqn:E; [destruct r; discriminate|].
      rewrite <- E. change (match r ++ [e] with [] => e1 | _ :: _ => last (r ++ [e]) e1 end) with (last ((e1 :: r) ++ [e]) e1).
      rewrite last_app_single. reflexivity.
    - destruct (r ++ [e]) eqn:E; [destruct r; discriminate|]. rewrite <- E.
      change (match r ++ [e] with [] => e1 | _ :: _ => last (r ++ [e]) e1 end) with (last ((e1 :: r) ++ [e]) e1).
      rewrite last_app_single. reflexivity.
    - rewrite map_app. reflexivity.
  Qed.

  (** ** the refinement invariant: every observation of the change list is the record of the specified chain *)
  Definition refines (C : list change) (prefix : list entry) : Prop :=
    forall p k, nth_by_path C p k = change_of_chain (trace (rev prefix) p k).

  Lemma step_refines C prefix e :
    refines C prefix -> refines (step type_at allowed is_dir C e) (prefix ++ [e]).
  Proof.
    intros HI p k. rewrite rev_app_distr. simpl rev. simpl app. cbn [trace].
    unfold step, live.
    destruct (allowed (le_dst e)) eqn:Ea; simpl; [|apply HI].
    destruct (is_dir (le_dst e)) eqn:Ed; simpl; [apply HI|].
    destruct (is_copy e) eqn:Ecp; cbn [negb]; rewrite ?andb_false_r, ?andb_true_r.
    - (* a copy: a fresh record is appended, nothing is continued or dropped *)
      unfold nth_by_path in *. rewrite rev_app_distr. simpl rev. simpl app. cbn [filter]. unfold has_after at 1. cbn [ch_after].
      destruct (String.eqb (le_dst e) p) eqn:Edp.
      + destruct k as [|k']; simpl; [reflexivity | apply (HI p k')].
      + apply (HI p k).
    - pose proof (HI (le_src e) 0) as Hsrc.
      rewrite get_is_nth0.
      destruct (nth_by_path C (le_src e) 0) as [prev|] eqn:Eprev.
      + (* a previous change for src exists: it is continued and dropped *)
        unfold nth_by_path in *. rewrite rev_app_distr. simpl rev. unfold changes_without. rewrite rev_involutive.
        simpl app. cbn [filter]. unfold has_after at 1. cbn [ch_after].
        destruct (String.eqb (le_dst e) p) eqn:Edp.
        * destruct (String.eqb (le_src e) p) eqn:Esp.
          -- apply String.eqb_eq in Esp. rewrite <- Esp in *. rewrite filter_remove_first_same.
             destruct k as [|k']; simpl.
             ++ symmetry. apply change_of_chain_snoc. symmetry. exact Hsrc.
             ++ rewrite nth_error_tl. apply (HI (le_src e) (S k')).
          -- apply String.eqb_neq in Esp. rewrite filter_remove_first_other by (intros x Hx; eapply has_after_other; eauto).
             destruct k as [|k']; simpl.
             ++ symmetry. apply change_of_chain_snoc. symmetry. exact Hsrc.
             ++ apply (HI p k').
        * destruct (String.eqb (le_src e) p) eqn:Esp.
          -- apply String.eqb_eq in Esp. rewrite <- Esp in *. rewrite filter_remove_first_same.
             rewrite nth_error_tl. apply (HI (le_src e) (S k)).
          -- apply String.eqb_neq in Esp. rewrite filter_remove_first_other by (intros x Hx; eapply has_after_other; eauto).
             apply (HI p k).
      + (* no previous change: nothing ends at src, at any depth *)
        assert (Hnone : forall j, trace (rev prefix) (le_src e) j = []).
        { intro j. apply change_of_chain_none. rewrite <- (HI (le_src e) j). unfold nth_by_path in *.
          apply nth0_none_all. exact Eprev. }
        unfold nth_by_path in *. rewrite rev_app_distr. simpl rev. simpl app. cbn [filter]. unfold has_after at 1. cbn [ch_after].
        destruct (String.eqb (le_dst e) p) eqn:Edp.
        * destruct (String.eqb (le_src e) p) eqn:Esp.
          -- apply String.eqb_eq in Esp. rewrite <- Esp in *.
             destruct k as [|k']; simpl.
             ++ rewrite (Hnone 0). reflexivity.
             ++ rewrite (Hnone (S k')). rewrite (nth0_none_all _ k' Eprev). reflexivity.
          -- destruct k as [|k']; simpl.
             ++ rewrite (Hnone 0). reflexivity.
             ++ apply (HI p k').
        * destruct (String.eqb (le_src e) p) eqn:Esp.
          -- apply String.eqb_eq in Esp. rewrite <- Esp in *. rewrite (Hnone (S k)).
             rewrite (nth0_none_all _ k Eprev). reflexivity.
          -- apply (HI p k).
  Qed.

  Lemma fold_left_snoc {A B} (f : A -> B -> A) l x a : fold_left f (l ++ [x]) a = f (fold_left f l a) x.
  Proof. rewrite fold_left_app. reflexivity. Qed.

  Theorem fold_refines_trace log : refines (fold log) log.
  Proof.
    induction log as [|e prefix IH] using rev_ind.
    - intros p k. unfold nth_by_path. simpl. destruct k; reflexivity.
    - unfold fold, fold_log. rewrite fold_left_snoc. apply step_refines. exact IH.
  Qed.

  (** every record of a change list is one of these observations *)
  Lemma in_filter_nth {A} (f : A -> bool) l x : In x l -> f x = true -> exists k, nth_error (filter f l) k = Some x.
  Proof.
    intros Hin Hf. apply (In_nth_error (filter f l) x). apply filter_In. split; auto.
  Qed.

  Lemma nth_by_path_after C p k ch : nth_by_path C p k = Some ch -> ch_after ch = p.
  Proof.
    unfold nth_by_path. intro H. apply nth_error_In in H. apply filter_In in H. destruct H as [_ H].
    apply String.eqb_eq. exact H.
  Qed.

  Lemma member_is_observed C ch : In ch C -> exists k, nth_by_path C (ch_after ch) k = Some ch.
  Proof.
    intro Hin. unfold nth_by_path. apply in_filter_nth; [apply -> in_rev; exact Hin | apply String.eqb_refl].
  Qed.

  (** ** structural facts that hold for every log *)
  Lemma remove_first_In {A} (f : A -> bool) l x : In x (remove_first f l) -> In x l.
  Proof.
    induction l as [|y r IH]; simpl; auto. destruct (f y); simpl; auto. intros [->|H]; auto.
  Qed.

  Lemma step_commits_nonempty C e :
    Forall (fun c => ch_commits c <> []) C -> Forall (fun c => ch_commits c <> []) (step type_at allowed is_dir C e).
  Proof.
    intro H. unfold step. destruct (negb (allowed (le_dst e))); auto. destruct (is_dir (le_dst e)); auto.
    destruct (if is_copy e then None else get_change_by_path C (le_src e)) as [prev|].
    - apply Forall_app. split.
      + unfold changes_without. apply Forall_forall. intros x Hx. apply in_rev in Hx. apply remove_first_In in Hx.
        apply in_rev in Hx. eapply Forall_forall in H; eauto.
      + constructor; auto. simpl. destruct (ch_commits prev); discriminate.
    - apply Forall_app. split; auto. constructor; auto. simpl. discriminate.
  Qed.

  Theorem fold_commits_nonempty log : Forall (fun c => ch_commits c <> []) (fold log).
  Proof.
    unfold fold, fold_log. induction log as [|e r IH] using rev_ind; simpl; [constructor|].
    rewrite fold_left_snoc. apply step_commits_nonempty. exact IH.
  Qed.
End Trace.

Definition mk (c s src dst : string) : entry := {| le_commit := c; le_status := st s; le_src := src; le_dst := dst |}.

(** the former counterexample (delete b; rename a -> b; modify b) now refines its specification: the file at b is the
    renamed a with commits c2, c3, and the deletion of the old b is still reported (depth 1). *)
Definition witness_log : list entry := [mk "c1" "D" "b" "b"; mk "c2" "R" "a" "b"; mk "c3" "M" "b" "b"].
Definition witness_types : string -> string -> ptype := fun _ _ => File.

Lemma witness_now_tracked :
  map (fun c => (ch_status c, ch_before c, ch_after c, ch_commits c))
      (fold witness_types (fun _ => true) (fun _ => false) witness_log) =
  [(st "D", "b", "b", ["c1"]); (st "M", "a", "b", ["c2"; "c3"])].
Proof. vm_compute. reflexivity. Qed.
