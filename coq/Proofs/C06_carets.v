(** C06 lemmas, part 8: the caret line of InjectDiagnostics (after fix e721538): one mark per column, a caret exactly
    under the columns the diagnostic's ranges cover on its last line. *)
From Coq Require Import List String Ascii ZArith NArith Bool Lia.
From PintV Require Import Common.Bytes Model.CommentsUnicode Model.Position Model.Layout Proofs.C06_expand.
Import ListNotations.
Local Open Scope Z_scope.
Local Open Scope list_scope.

(** column [c] of line [L] is covered by some range *)
Definition on_point (L c : Z) (prs : list prange) : bool :=
  existsb (fun p => (pr_line p =? L) && ((pr_first p <=? c) && (c <=? pr_last p))) prs.

(** the last covered column of line [L] (0 if none) *)
Definition last_col (L : Z) (prs : list prange) : Z :=
  fold_right (fun p m => if pr_line p =? L then Z.max (pr_last p) m else m) 0 prs.

Lemma sconcat_app a b : sconcat (a ++ b) = (sconcat a ++ sconcat b)%string.
Proof.
  induction a as [|x a IH]; [reflexivity|]. cbn [app sconcat]. rewrite IH.
  clear. induction x as [|c x IHx]; [reflexivity|]. cbn. rewrite IHx. reflexivity.
Qed.

Lemma sconcat_map_ext (f g : nat -> string) : forall n s,
  (forall k, (s <= k < s + n)%nat -> f k = g k) -> sconcat (map f (seq s n)) = sconcat (map g (seq s n)).
Proof.
  induction n as [|n IH]; intros s H; [reflexivity|].
  cbn [seq map sconcat]. rewrite (H s) by lia. f_equal. apply IH. intros k Hk. apply H. lia.
Qed.

Lemma sconcat_map_empty (f : nat -> string) : forall n s,
  (forall k, (s <= k < s + n)%nat -> f k = EmptyString) -> sconcat (map f (seq s n)) = EmptyString.
Proof.
  induction n as [|n IH]; intros s H; [reflexivity|].
  cbn [seq map sconcat]. rewrite (H s) by lia. cbn [append]. apply IH. intros k Hk. apply H. lia.
Qed.

Lemma sconcat_map_const (f : nat -> string) ch : forall n s,
  (forall k, (s <= k < s + n)%nat -> f k = String ch EmptyString) ->
  sconcat (map f (seq s n)) = repeat_char ch n.
Proof.
  induction n as [|n IH]; intros s H; [reflexivity|].
  cbn [seq map sconcat repeat_char]. rewrite (H s) by lia. cbn [append]. f_equal.
  apply IH. intros k Hk. apply H. lia.
Qed.

Lemma existsb_filter {A} (f g : A -> bool) : forall l,
  existsb g (filter f l) = existsb (fun x => f x && g x) l.
Proof.
  induction l as [|x l IH]; [reflexivity|]. cbn [filter existsb].
  destruct (f x); cbn [existsb andb]; rewrite IH; reflexivity.
Qed.

Lemma inside_on_point c L prs :
  existsb (fun p => (pr_first p <=? c) && (c <=? pr_last p)) (filter (fun p => pr_line p =? L) prs) = on_point L c prs.
Proof. rewrite existsb_filter. reflexivity. Qed.

Lemma last_col_bounds L : forall prs,
  wf prs ->
  0 <= last_col L prs /\
  (forall p, In p prs -> pr_line p = L -> pr_first p <= pr_last p <= last_col L prs) /\
  (0 < last_col L prs -> exists p, In p prs /\ pr_line p = L /\ pr_last p = last_col L prs).
Proof.
  induction prs as [|q prs IH]; intros Hwf.
  - cbn. split; [lia|]. split; [intros p []|intros H; lia].
  - inversion Hwf as [|? ? Hq Hr]; subst. destruct (IH Hr) as [H0 [H1 H2]].
    unfold wf_range in Hq. cbn [last_col fold_right]. fold (last_col L prs).
    destruct (pr_line q =? L) eqn:E.
    + apply Z.eqb_eq in E. split; [|split].
      * lia.
      * intros p0 [Hp|Hp] Hl; [subst p0; lia|]. specialize (H1 p0 Hp Hl). lia.
      * intros Hpos. destruct (Z.max_spec (pr_last q) (last_col L prs)) as [[Hlt Hm]|[Hge Hm]]; rewrite Hm.
        -- destruct (H2 ltac:(lia)) as [p [Hp [Hl He]]]. exists p. repeat split; [right; exact Hp|exact Hl|exact He].
        -- exists q. repeat split; [left; reflexivity|exact E].
    + split; [exact H0|split].
      * intros p0 [Hp|Hp] Hl; [subst p0; apply Z.eqb_neq in E; contradiction|]. apply H1; assumption.
      * intros Hpos. destruct (H2 Hpos) as [p [Hp Hr2]]. exists p. split; [right; exact Hp|exact Hr2].
Qed.

Lemma on_point_true L c prs : on_point L c prs = true <->
  exists p, In p prs /\ pr_line p = L /\ pr_first p <= c <= pr_last p.
Proof.
  unfold on_point. rewrite existsb_exists. split.
  - intros [p [Hp H]]. apply andb_true_iff in H. destruct H as [H1 H2].
    apply andb_true_iff in H2. destruct H2 as [H2 H3].
    apply Z.eqb_eq in H1. apply Z.leb_le in H2. apply Z.leb_le in H3. exists p. repeat split; auto.
  - intros [p [Hp [H1 [H2 H3]]]]. exists p. split; [exact Hp|].
    apply andb_true_iff. split; [apply Z.eqb_eq; exact H1|].
    apply andb_true_iff. split; apply Z.leb_le; assumption.
Qed.

(** The mark under column [c >= 1]. *)
Lemma caret_col_spec L prs c :
  wf prs -> 1 <= c ->
  caret_col c L prs =
  if on_point L c prs then "^"%string
  else if c <=? last_col L prs then " "%string else EmptyString.
Proof.
  intros Hwf Hc. unfold caret_col. rewrite inside_on_point.
  destruct (on_point L c prs) eqn:Eon; [reflexivity|].
  rewrite existsb_filter.
  destruct (last_col_bounds L prs Hwf) as [H0 [H1 H2]].
  destruct (c <=? last_col L prs) eqn:Ec.
  - apply Z.leb_le in Ec.
    destruct (H2 ltac:(lia)) as [p [Hp [Hl He]]].
    assert (Hahead : c < pr_first p).
    { destruct (Z.lt_ge_cases c (pr_first p)) as [Hlt|Hge]; [exact Hlt|].
      exfalso. assert (on_point L c prs = true) by (apply on_point_true; exists p; repeat split; auto; lia).
      congruence. }
    replace (existsb (fun x => (pr_line x =? L) && (c <? pr_first x)) prs) with true; [reflexivity|].
    symmetry. apply existsb_exists. exists p. split; [exact Hp|].
    apply andb_true_iff. split; [apply Z.eqb_eq; exact Hl|apply Z.ltb_lt; exact Hahead].
  - apply Z.leb_gt in Ec.
    replace (existsb (fun x => (pr_line x =? L) && (c <? pr_first x)) prs) with false; [reflexivity|].
    symmetry. apply Bool.not_true_iff_false. intros Hex. apply existsb_exists in Hex.
    destruct Hex as [p [Hp H]]. apply andb_true_iff in H. destruct H as [Hl Ha].
    apply Z.eqb_eq in Hl. apply Z.ltb_lt in Ha. specialize (H1 p Hp Hl). lia.
Qed.

(** THE CARET THEOREM: under a line of [len] bytes the marks are one character per column up to the last covered
    column, a caret exactly where the column is covered by a range of that line, a blank otherwise. *)
Theorem carets_exact_lemma : forall len L prs,
  wf prs -> last_col L prs <= Z.of_nat len ->
  caret_marks len L prs =
  sconcat (map (fun k => if on_point L (Z.of_nat k + 1) prs then "^"%string else " "%string)
               (seq 0 (Z.to_nat (last_col L prs)))).
Proof.
  intros len L prs Hwf Hlen. unfold caret_marks.
  destruct (last_col_bounds L prs Hwf) as [H0 _].
  replace len with (Z.to_nat (last_col L prs) + (len - Z.to_nat (last_col L prs)))%nat at 1 by lia.
  rewrite seq_app, map_app, sconcat_app.
  rewrite (sconcat_map_empty _ (len - Z.to_nat (last_col L prs))).
  - rewrite (sconcat_map_ext _ (fun k => if on_point L (Z.of_nat k + 1) prs then "^"%string else " "%string)).
    + clear. generalize (sconcat (map (fun k : nat => if on_point L (Z.of_nat k + 1) prs then "^"%string else " "%string)
                                      (seq 0 (Z.to_nat (last_col L prs))))).
      intros s. induction s; cbn; congruence.
    + intros k Hk. rewrite (caret_col_spec L prs _ Hwf) by lia.
      destruct (on_point L (Z.of_nat k + 1) prs); [reflexivity|].
      replace (Z.of_nat k + 1 <=? last_col L prs) with true by (symmetry; apply Z.leb_le; lia). reflexivity.
  - intros k Hk. rewrite (caret_col_spec L prs _ Hwf) by lia.
    assert (Hoff : on_point L (Z.of_nat k + 1) prs = false).
    { apply Bool.not_true_iff_false. intros Hon. apply on_point_true in Hon.
      destruct Hon as [p [Hp [Hl Hr]]]. destruct (last_col_bounds L prs Hwf) as [_ [H1 _]].
      specialize (H1 p Hp Hl). lia. }
    rewrite Hoff. replace (Z.of_nat k + 1 <=? last_col L prs) with false by (symmetry; apply Z.leb_gt; lia).
    reflexivity.
Qed.

(** Corollary: one range on the last line. *)
Theorem carets_single_range_lemma : forall len L others a b,
  Forall (fun p => pr_line p <> L) others -> wf others ->
  1 <= a -> a <= b -> b <= Z.of_nat len ->
  caret_marks len L (others ++ [mkp L a b]) =
  (repeat_char space (Z.to_nat (a - 1)) ++ repeat_char "^"%char (Z.to_nat (b - a + 1)))%string.
Proof.
  intros len L others a b Ho Hwo Ha Hab Hb.
  assert (Hwf : wf (others ++ [mkp L a b])).
  { apply Forall_app. split; [exact Hwo|]. constructor; [unfold wf_range; cbn; lia|constructor]. }
  assert (Hlast : last_col L (others ++ [mkp L a b]) = b).
  { clear Hwf Hwo. induction others as [|q r IH].
    - cbn. rewrite Z.eqb_refl. lia.
    - inversion Ho as [|? ? Hq Hr]; subst. cbn [app last_col fold_right]. fold (last_col L (r ++ [mkp L a b])).
      replace (pr_line q =? L) with false by (symmetry; apply Z.eqb_neq; exact Hq). apply IH. exact Hr. }
  assert (Hon : forall c, on_point L c (others ++ [mkp L a b]) = (a <=? c) && (c <=? b)).
  { intros c. clear Hwf Hwo Hlast. induction others as [|q r IH].
    - cbn. rewrite Z.eqb_refl. cbn. rewrite orb_false_r. reflexivity.
    - inversion Ho as [|? ? Hq Hr]; subst. unfold on_point. cbn [app existsb].
      replace (pr_line q =? L) with false by (symmetry; apply Z.eqb_neq; exact Hq). cbn [andb orb]. apply IH. exact Hr. }
  rewrite (carets_exact_lemma len L _ Hwf) by lia. rewrite Hlast.
  replace (Z.to_nat b) with (Z.to_nat (a - 1) + Z.to_nat (b - a + 1))%nat by lia.
  rewrite seq_app, map_app, sconcat_app. f_equal.
  - apply sconcat_map_const. intros k Hk. rewrite Hon.
    replace (a <=? Z.of_nat k + 1) with false by (symmetry; apply Z.leb_gt; lia). reflexivity.
  - apply sconcat_map_const. intros k Hk. rewrite Hon.
    replace (a <=? Z.of_nat k + 1) with true by (symmetry; apply Z.leb_le; lia).
    replace (Z.of_nat k + 1 <=? b) with true by (symmetry; apply Z.leb_le; lia). reflexivity.
Qed.


(** ** The caret line under any source line ([caret_marks_line]: one mark per character) is, for an ASCII line, the
    per-byte [caret_marks] the theorems above speak about. *)
Lemma decode_from_ascii_starts : forall s i,
  ascii_only s = true -> map fst (decode_from 0 i s) = seq i (String.length s).
Proof.
  induction s as [|c r IH]; intros i H; [reflexivity|].
  cbn [ascii_only] in H. apply andb_true_iff in H. destruct H as [Hc Hr].
  cbn [decode_from decode1 String.length seq]. rewrite Hc. cbn [map fst Nat.pred]. f_equal. apply IH. exact Hr.
Qed.

Theorem caret_marks_line_ascii : forall line L prs,
  ascii_only line = true -> caret_marks_line line L prs = caret_marks (String.length line) L prs.
Proof.
  intros line L prs H. unfold caret_marks_line, caret_marks, decode_all.
  rewrite (decode_from_ascii_starts line 0 H). reflexivity.
Qed.
