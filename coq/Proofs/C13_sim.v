(** C13 — simulation: on grid-aligned ranges of one series, the functions of Model/Range.v (absorb,
    merge_pass, sort, merge_ranges, finalize) compute exactly the image of their index-level counterparts of
    Proofs/C13_imerge.v.  The only arithmetic fact used is [overlaps_aligned]. *)
From Coq Require Import List ZArith NArith Bool Lia Arith.
From PintV Require Import Common.GoTime Model.Range Proofs.C13_overlaps Proofs.C13_stair Proofs.C13_imerge.
Import ListNotations.
Open Scope Z_scope.

Section Sim.
  Variables (g0 step : Z) (fp : N).
  Hypothesis Hstep : sec <= step.

  Notation Rx := (R g0 step fp).
  Definition Rm (l : list ival) : list range := map Rx l.

  Lemma step_pos : 0 < step.
  Proof. unfold sec in Hstep. lia. Qed.

  (** validity is preserved by everything (unconditionally) *)
  Lemma hull_valid a b : fst a <= snd a -> fst b <= snd b -> fst (hull a b) <= snd (hull a b).
  Proof. unfold hull. cbn [fst snd]. lia. Qed.

  Lemma iov_valid a b h : fst a <= snd a -> fst b <= snd b -> iov a b = Some h -> fst h <= snd h.
  Proof.
    unfold iov. intros Ha Hb H. destruct (hole a b); [discriminate|]. destruct (touch a b); [|discriminate].
    inversion H; subst. apply hull_valid; assumption.
  Qed.

  Lemma iabsorb_valid src M : fst src <= snd src -> valid M -> valid (fst (iabsorb src M)).
  Proof.
    intros Hs. induction M as [|m r IH]; intros Hv; [intros x []|]. cbn [iabsorb].
    assert (valid r) as Hr by (intros x Hx; apply Hv; right; exact Hx). specialize (IH Hr).
    destruct (iabsorb src r) as [r' f]. cbn [fst] in IH.
    destruct (iov m src) as [h|] eqn:E; cbn [fst]; intros x [Hx|Hx]; try (apply IH; exact Hx); subst x.
    - apply (iov_valid m src h); [apply Hv; left; reflexivity|exact Hs|exact E].
    - apply Hv. left. reflexivity.
  Qed.

  Lemma istep_valid M had src : fst src <= snd src -> valid M -> valid (fst (istep (M, had) src)).
  Proof.
    intros Hs Hv. unfold istep. pose proof (iabsorb_valid src M Hs Hv) as H.
    destruct (iabsorb src M) as [M' f]. cbn [fst] in *. destruct f; [exact H|].
    intros x Hx. apply in_app_or in Hx. destruct Hx as [Hx|[Hx|[]]]; [apply Hv; exact Hx|subst x; exact Hs].
  Qed.

  Lemma fold_valid rest : forall M had, valid M -> valid rest -> valid (fst (fold_left istep rest (M, had))).
  Proof.
    induction rest as [|s r IH]; intros M had HM Hr; [exact HM|]. cbn [fold_left].
    pose proof (istep_valid M had s (Hr s (or_introl eq_refl)) HM) as H.
    destruct (istep (M, had) s) as [M1 h1]. apply IH; [exact H|]. intros x Hx. apply Hr. right. exact Hx.
  Qed.

  Lemma ipass_valid L : valid L -> valid (fst (ipass L)).
  Proof. intros H. unfold ipass. apply fold_valid; [intros x []|exact H]. Qed.

  Lemma isort_valid l : valid l -> valid (isort l).
  Proof. intros H x Hx. apply H. apply isort_In. exact Hx. Qed.

  Lemma imerge_valid : forall fuel L R b, valid L -> imerge fuel L = Some (R, b) -> valid R.
  Proof.
    induction fuel as [|f IH]; intros L R b HL H; [discriminate|]. cbn [imerge] in H.
    pose proof (ipass_valid L HL) as HM. destruct (ipass L) as [M had]. cbn [fst] in HM.
    destruct had; cbn [negb] in H; [|inversion H; subst; exact HL].
    assert (forall n l l', valid l -> iloop (imerge f) n l = Some l' -> valid l') as Hloop.
    { induction n as [|n IHn]; intros l l' Hl E; [discriminate|]. cbn [iloop] in E.
      destruct (imerge f l) as [[l1 b1]|] eqn:E1; [|discriminate].
      pose proof (IH l l1 b1 Hl E1) as H1. destruct b1; [apply (IHn l1 l' H1 E)|inversion E; subst; exact H1]. }
    destruct (iloop (imerge f) (S (length M)) M) as [l|] eqn:El; [|discriminate].
    inversion H; subst. apply isort_valid. apply (Hloop _ _ _ HM El).
  Qed.

  (** absorb *)
  Lemma absorb_sim src M : fst src <= snd src -> valid M ->
    absorb step (Rx src) (Rm M) = (Rm (fst (iabsorb src M)), snd (iabsorb src M)).
  Proof.
    intros Hs. induction M as [|m r IH]; intros Hv; [reflexivity|]. cbn [Rm map absorb iabsorb].
    fold (Rm r). rewrite IH by (intros x Hx; apply Hv; right; exact Hx).
    destruct (iabsorb src r) as [r' f]. cbn [fst snd].
    destruct m as [m1 m2], src as [s1 s2]. cbn [fst snd] in *.
    rewrite (overlaps_aligned g0 step fp m1 m2 s1 s2 Hstep (Hv (m1, m2) (or_introl eq_refl)) Hs).
    destruct (iov (m1, m2) (s1, s2)) as [h|]; cbn [option_map R_tr fst snd Rm map]; reflexivity.
  Qed.

  (** the groups of merge_pass for a single series *)
  Definition grp (M : list ival) : groups := match M with [] => [] | _ => [(fp, Rm M)] end.

  Lemma upd_group_sim src M had : fst src <= snd src -> valid M ->
    (let '(gs, f) := upd_group step (Rx src) (grp M) in (gs, had || f))
    = (grp (fst (istep (M, had) src)), snd (istep (M, had) src)).
  Proof.
    intros Hs Hv. destruct M as [|m r].
    - cbn [grp upd_group istep iabsorb app fst snd Rm map r_fp R]. rewrite orb_false_r. reflexivity.
    - unfold grp at 1. cbn [upd_group r_fp R]. rewrite N.eqb_refl.
      rewrite (absorb_sim src (m :: r) Hs Hv). unfold istep.
      pose proof (iabsorb_valid src (m :: r) Hs Hv) as Hv'.
      destruct (iabsorb src (m :: r)) as [M' f] eqn:E. cbn [fst snd].
      assert (length M' = length (m :: r)) as Hlen.
      { clear -E. revert M' f E. generalize (m :: r). induction l as [|a l IH]; intros M' f E; cbn [iabsorb] in E.
        - inversion E; reflexivity.
        - destruct (iabsorb src l) as [r' f']. specialize (IH r' f' eq_refl).
          destruct (iov a src); inversion E; subst; cbn [length]; congruence. }
      destruct f.
      + destruct M' as [|x M'']; [discriminate|]. reflexivity.
      + cbn [app grp]. unfold Rm. cbn [map]. rewrite map_app. reflexivity.
  Qed.

  Definition rstep (st : groups * bool) (src : range) : groups * bool :=
    let '(gs, had) := st in let '(gs', f) := upd_group step src gs in (gs', had || f).

  Lemma merge_pass_fold rest : forall M had, valid M -> valid rest ->
    fold_left rstep (Rm rest) (grp M, had)
    = (grp (fst (fold_left istep rest (M, had))), snd (fold_left istep rest (M, had))).
  Proof.
    induction rest as [|s r IH]; intros M had HM Hr; [reflexivity|]. cbn [Rm map fold_left]. fold (Rm r).
    assert (fst s <= snd s) as Hs by (apply Hr; left; reflexivity).
    assert (rstep (grp M, had) (Rx s) = (grp (fst (istep (M, had) s)), snd (istep (M, had) s))) as E
      by (unfold rstep; apply upd_group_sim; assumption).
    rewrite E. pose proof (istep_valid M had s Hs HM) as Hv1.
    destruct (istep (M, had) s) as [M1 h1]. cbn [fst snd] in *.
    apply IH; [exact Hv1|]. intros x Hx. apply Hr. right. exact Hx.
  Qed.

  Lemma merge_pass_sim L : valid L ->
    merge_pass step (Rm L) = (grp (fst (ipass L)), snd (ipass L)).
  Proof.
    intros HL. unfold merge_pass, ipass. change (fold_left _ (Rm L) ([], false)) with (fold_left rstep (Rm L) (grp [], false)).
    apply merge_pass_fold; [intros x []|exact HL].
  Qed.

  Lemma start_ltb x y : (r_start (Rx y) <? r_start (Rx x)) = (fst y <? fst x).
  Proof.
    pose proof step_pos as Hp. cbn [R r_start].
    destruct (fst y <? fst x) eqn:E; [apply Z.ltb_lt in E; apply Z.ltb_lt; nia|apply Z.ltb_ge in E; apply Z.ltb_ge; nia].
  Qed.

  Lemma insert_sim x l : insert_by_start (Rx x) (Rm l) = Rm (iinsert x l).
  Proof.
    induction l as [|y r IH]; [reflexivity|]. cbn [Rm map insert_by_start iinsert]. fold (Rm r).
    rewrite start_ltb. destruct (fst y <? fst x); [rewrite IH; reflexivity|reflexivity].
  Qed.

  Lemma sort_sim l : sort_by_start (Rm l) = Rm (isort l).
  Proof.
    induction l as [|x r IH]; [reflexivity|]. cbn [Rm map sort_by_start isort]. fold (Rm r). rewrite IH. apply insert_sim.
  Qed.

  Lemma ipass_nonempty rest : forall M had, M <> [] -> fst (fold_left istep rest (M, had)) <> [].
  Proof.
    induction rest as [|s r IH]; intros M had HM; [exact HM|]. cbn [fold_left].
    destruct (istep (M, had) s) as [M1 h1] eqn:E. apply IH. unfold istep in E.
    destruct (iabsorb s M) as [M' f] eqn:Ea.
    assert (length M' = length M) as Hl.
    { clear -Ea. revert M' f Ea. induction M as [|a l IH]; intros M' f E; cbn [iabsorb] in E.
      - inversion E; reflexivity.
      - destruct (iabsorb s l) as [r' f']. specialize (IH r' f' eq_refl).
        destruct (iov a s); inversion E; subst; cbn [length]; congruence. }
    inversion E; subst. destruct f.
    - destruct M' as [|? ?]; [destruct M; [contradiction|discriminate]|discriminate].
    - destruct M; [contradiction|discriminate].
  Qed.

  Lemma ipass_had_nonempty L : snd (ipass L) = true -> fst (ipass L) <> [].
  Proof.
    destruct L as [|s r]; [discriminate|]. intros _. unfold ipass. cbn [fold_left].
    destruct (istep ([], false) s) as [M1 h1] eqn:E. cbn [istep iabsorb app orb] in E. inversion E; subst.
    apply ipass_nonempty. discriminate.
  Qed.

  (** MergeRanges: the inner [for ok] loop as a top-level function *)
  Fixpoint rloop (rec : list range -> option (list range * bool)) (n : nat) (l : list range) : option (list range) :=
    match n with
    | O => None
    | S n' => match rec l with
              | None => None
              | Some (l', true) => rloop rec n' l'
              | Some (l', false) => Some l'
              end
    end.

  Lemma merge_ranges_unfold f src :
    merge_ranges (S f) step src =
    let '(gs, had) := merge_pass step src in
    if negb had then Some (src, false)
    else match all_some (map (fun g => rloop (merge_ranges f step) (S (length (snd g))) (snd g)) gs) with
         | None => None
         | Some ls => Some (flat_map sort_by_start ls, true)
         end.
  Proof.
    cbn [merge_ranges]. destruct (merge_pass step src) as [gs had]. destruct (negb had); [reflexivity|].
    match goal with
    | |- match all_some (map ?F1 gs) with _ => _ end = match all_some (map ?F2 gs) with _ => _ end =>
        assert (forall g, F1 g = F2 g) as E; [|rewrite (map_ext _ _ E); reflexivity]
    end.
    intros g. cbn [rloop]. destruct (merge_ranges f step (snd g)) as [[l0 b0]|]; [|reflexivity].
    destruct b0; [|reflexivity]. generalize (length (snd g)) l0. clear.
    induction n as [|n IHn]; intros l; [reflexivity|]. cbn [rloop].
    destruct (merge_ranges f step l) as [[l' b]|]; [|reflexivity]. destruct b; [apply IHn|reflexivity].
  Qed.

  Lemma merge_sim : forall fuel L, valid L ->
    merge_ranges fuel step (Rm L) = option_map (fun p => (Rm (fst p), snd p)) (imerge fuel L).
  Proof.
    induction fuel as [|f IH]; intros L HL; [reflexivity|]. rewrite merge_ranges_unfold. cbn [imerge].
    rewrite (merge_pass_sim L HL). pose proof (ipass_valid L HL) as HM. pose proof (ipass_had_nonempty L) as Hne.
    destruct (ipass L) as [M had]. cbn [fst snd] in *. destruct had; cbn [negb]; [|reflexivity].
    specialize (Hne eq_refl). destruct M as [|m0 M0]; [contradiction|]. unfold grp. cbn [map snd all_some].
    set (M := m0 :: M0) in *.
    assert (forall n l, valid l -> rloop (merge_ranges f step) n (Rm l) = option_map Rm (iloop (imerge f) n l)) as Hloop.
    { induction n as [|n IHn]; intros l Hl; [reflexivity|]. cbn [rloop iloop].
      rewrite (IH l Hl). destruct (imerge f l) as [[l1 b1]|] eqn:E1; cbn [option_map fst snd]; [|reflexivity].
      destruct b1; [|reflexivity]. apply IHn. apply (imerge_valid f l l1 true Hl E1). }
    unfold Rm at 1. rewrite map_length. fold (Rm M). rewrite (Hloop (S (length M)) M HM).
    destruct (iloop (imerge f) (S (length M)) M) as [l|]; cbn [option_map fst snd]; [|reflexivity].
    cbn [flat_map]. rewrite app_nil_r, sort_sim. reflexivity.
  Qed.
End Sim.
