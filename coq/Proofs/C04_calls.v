(** C04: function calls.  The analyser's case table (regenerated from source.go into Gen/C04.v) is compatible
    with the semantic classes of the functions; transfer lemmas per kind. *)
From Coq Require Import List String Bool Floats NArith Arith Lia.
From PintV Require Import Common.Bytes Gen.C04 Model.PromQL Model.Source Model.PromSem Model.PromFrag
  Proofs.C04_lists Proofs.C04_transfer Proofs.C04_walk Proofs.C04_sound.
Import ListNotations.
Open Scope string_scope.
Open Scope list_scope.

Definition all_sem_funcs : list string :=
  ["abs"; "sgn"; "acos"; "acosh"; "asin"; "asinh"; "atan"; "atanh"; "cos"; "cosh"; "sin"; "sinh"; "tan"; "tanh";
   "ceil"; "floor"; "round"; "deg"; "rad"; "ln"; "log10"; "log2"; "sqrt"; "exp"; "timestamp"; "clamp_max"; "clamp_min"]
  ++ ["clamp"; "changes"; "resets"; "avg_over_time"; "count_over_time"; "max_over_time"; "min_over_time";
      "present_over_time"; "quantile_over_time"; "stddev_over_time"; "stdvar_over_time"; "sum_over_time";
      "delta"; "idelta"; "increase"; "deriv"; "irate"; "rate"; "holt_winters"; "predict_linear"]
  ++ ["sort"; "sort_desc"] ++ ["last_over_time"] ++ ["absent"; "absent_over_time"] ++ ["vector"]
  ++ ["scalar"; "time"; "pi"]
  ++ ["days_in_month"; "day_of_month"; "day_of_week"; "day_of_year"; "hour"; "minute"; "month"; "year"]
  ++ ["label_replace"; "label_join"].

Lemma sem_class_in f : sem_class f <> SCNone -> In f all_sem_funcs.
Proof.
  unfold sem_class, all_sem_funcs. intros H.
  repeat match goal with
         | H : context [if mem_str f ?l then _ else _] |- _ =>
             let E := fresh "E" in destruct (mem_str f l) eqn:E;
             [apply mem_str_true in E; repeat (apply in_or_app; first [left; exact E | right]); try exact E |]
         end.
  congruence.
Qed.

(** kind of the analyser's case vs semantic class *)
Definition compat (f : string) : bool :=
  let k := func_kind f in
  match sem_class f with
  | SCMap _ _ => String.eqb k "preserve" || String.eqb k "sort"
  | SCAbsent => String.eqb k "absent"
  | SCVector => String.eqb k "vector"
  | SCScalar => String.eqb k "scalar"
  | SCTimeLike => String.eqb k "timelike"
  | SCDst => String.eqb k "arg1"
  | SCNone => true
  end.

(** finite check against the table generated from the CURRENT source.go *)
Lemma compat_table : forallb compat all_sem_funcs = true.
Proof. vm_compute. reflexivity. Qed.

Lemma compat_of f : sem_class f <> SCNone -> compat f = true.
Proof.
  intros H. apply sem_class_in in H. pose proof compat_table as T. rewrite forallb_forall in T. auto.
Qed.

Lemma gmatches_eq : gmatches = ["MatchEqual"; "MatchRegexp"].
Proof. reflexivity. Qed.

(** ** parse_promql_func per kind *)

Lemma ppf_preserve s f args a0 : func_kind f = "preserve" ->
  parse_promql_func s f args a0 = guarantee_label (set_returns s VVector) (labels_from_selectors gmatches (s_selector s)).
Proof. intros H. unfold parse_promql_func. rewrite H. reflexivity. Qed.

Lemma ppf_sort s f args a0 : func_kind f = "sort" -> parse_promql_func s f args a0 = set_returns s VVector.
Proof. intros H. unfold parse_promql_func. rewrite H. reflexivity. Qed.

Lemma ppf_scalar s f args a0 : func_kind f = "scalar" ->
  parse_promql_func s f args a0 = set_always (set_fixed (clear_labels (set_returns s VScalar)) true) true.
Proof. intros H. unfold parse_promql_func. rewrite H. reflexivity. Qed.

Lemma ppf_absent s f args a0 : func_kind f = "absent" ->
  parse_promql_func s f args a0 =
  fold_left (fun s name => guarantee_label (include_label s [name]) [name])
            (absent_names (nth_error args 0))
            (clear_labels (set_fixed (set_always (set_dead_label (set_dead (set_returns s VVector) false) None) false) true)).
Proof. intros H. unfold parse_promql_func. rewrite H. reflexivity. Qed.

(** fix f3c0f95: whatever the operand's flags, a source of absent() is neither dead nor always returning *)
Lemma fold_absent_flags names : forall s,
  s_dead (fold_left (fun s name => guarantee_label (include_label s [name]) [name]) names s) = s_dead s /\
  s_always (fold_left (fun s name => guarantee_label (include_label s [name]) [name]) names s) = s_always s /\
  s_dead_label (fold_left (fun s name => guarantee_label (include_label s [name]) [name]) names s) = s_dead_label s.
Proof.
  induction names as [|n r IH]; intros s; cbn [fold_left]; [auto|].
  destruct (IH (guarantee_label (include_label s [n]) [n])) as [H1 [H2 H3]].
  rewrite H1, H2, H3. repeat split.
Qed.

Lemma ppf_absent_flags s f args a0 : func_kind f = "absent" ->
  s_dead (parse_promql_func s f args a0) = false /\
  s_always (parse_promql_func s f args a0) = false /\
  s_dead_label (parse_promql_func s f args a0) = None.
Proof.
  intros H. rewrite (ppf_absent _ _ _ _ H).
  match goal with |- context [fold_left ?fn ?nms ?s0] => destruct (fold_absent_flags nms s0) as [H1 [H2 H3]] end.
  rewrite H1, H2, H3. repeat split.
Qed.

Lemma ppf_timelike s f args a0 : func_kind f = "timelike" ->
  parse_promql_func s f args a0 =
  match args with
  | [] => clear_labels (set_always (set_fixed (set_returns s VVector) true) true)
  | _ => guarantee_label (set_returns s VVector) (labels_from_selectors gmatches (s_selector s))
  end.
Proof. intros H. unfold parse_promql_func. rewrite H. reflexivity. Qed.

Lemma ppf_arg1 s f args a0 : func_kind f = "arg1" ->
  parse_promql_func s f args a0 =
  match lit_of (nth_error args 1) with
  | Some dst => guarantee_label (set_returns s VVector) [dst]
  | None => set_returns s VVector
  end.
Proof. intros H. unfold parse_promql_func. rewrite H. reflexivity. Qed.

Lemma ppf_vector s f args a0 : func_kind f = "vector" ->
  parse_promql_func s f args a0 =
  fold_left (fun s vs => if s_known vs then set_known (set_number s (s_number vs)) true else s) a0
            (set_always (set_fixed (clear_labels (set_returns s VVector)) true) true).
Proof. intros H. unfold parse_promql_func. rewrite H. reflexivity. Qed.

Definition pre_call (f : string) (args : list expr) (es : source) : source :=
  set_call (set_operation (set_type es TFunc) f) (Some (f, List.length args)).

Lemma spr_pre_call f args es : spr (pre_call f args es) es.
Proof. unfold pre_call. repeat split. Qed.

Lemma call_src_unfold f args a0 es : call_src f args a0 es = parse_promql_func (pre_call f args es) f args a0.
Proof. reflexivity. Qed.

(** label-preserving kinds only add permissions *)
Lemma call_src_le f args a0 es :
  (func_kind f = "preserve" \/ func_kind f = "sort" \/ func_kind f = "arg1" \/ (func_kind f = "timelike" /\ args <> [])) ->
  le_perm es (call_src f args a0 es) /\ s_returns (call_src f args a0 es) = VVector.
Proof.
  intros H. rewrite call_src_unfold.
  assert (Hp : le_perm es (set_returns (pre_call f args es) VVector)).
  { apply same_perm_le. repeat split. }
  destruct H as [H|[H|[H|[H Ha]]]].
  - rewrite (ppf_preserve _ _ _ _ H). split; [|reflexivity]. eapply le_perm_trans; [exact Hp | apply le_perm_guarantee].
  - rewrite (ppf_sort _ _ _ _ H). split; [exact Hp | reflexivity].
  - rewrite (ppf_arg1 _ _ _ _ H). destruct (lit_of (nth_error args 1)); (split; [|reflexivity]);
      [eapply le_perm_trans; [exact Hp | apply le_perm_guarantee] | exact Hp].
  - rewrite (ppf_timelike _ _ _ _ H). destruct args; [congruence|]. split; [|reflexivity].
    eapply le_perm_trans; [exact Hp | apply le_perm_guarantee].
Qed.

Lemma call_src_arg1_dst f args a0 es dst :
  func_kind f = "arg1" -> lit_of (nth_error args 1) = Some dst -> nd es ->
  can_have_label (call_src f args a0 es) dst = true.
Proof.
  intros H Hn Hnd. rewrite call_src_unfold, (ppf_arg1 _ _ _ _ H), Hn.
  apply can_have_guarantee_new; [|simpl; auto]. exact Hnd.
Qed.

Lemma fold_vector_spr a0 : forall s,
  spr (fold_left (fun s vs => if s_known vs then set_known (set_number s (s_number vs)) true else s) a0 s) s.
Proof. apply spr_fold. intros s x. destruct (s_known x); repeat split. Qed.

Lemma call_src_ret f args a0 es :
  sem_class f <> SCNone ->
  s_returns (call_src f args a0 es) = match sem_class f with SCScalar => VScalar | _ => VVector end.
Proof.
  intros Hc. pose proof (compat_of f Hc) as Hk. unfold compat in Hk. rewrite call_src_unfold.
  destruct (sem_class f) eqn:E; try congruence.
  - apply orb_true_iff in Hk. destruct Hk as [Hk|Hk]; apply String.eqb_eq in Hk.
    + rewrite (ppf_preserve _ _ _ _ Hk). reflexivity.
    + rewrite (ppf_sort _ _ _ _ Hk). reflexivity.
  - apply String.eqb_eq in Hk. rewrite (ppf_absent _ _ _ _ Hk).
    match goal with |- s_returns (fold_left ?fn ?nms ?s0) = _ =>
      assert (Hf : forall l s, s_returns (fold_left fn l s) = s_returns s) end.
    { induction l as [|x r IH]; intros s; simpl; auto. rewrite IH. reflexivity. }
    rewrite Hf. reflexivity.
  - apply String.eqb_eq in Hk. rewrite (ppf_vector _ _ _ _ Hk).
    destruct (fold_vector_spr a0 (set_always (set_fixed (clear_labels (set_returns (pre_call f args es) VVector)) true) true)) as [_ Hr].
    rewrite Hr. reflexivity.
  - apply String.eqb_eq in Hk. rewrite (ppf_scalar _ _ _ _ Hk). reflexivity.
  - apply String.eqb_eq in Hk. rewrite (ppf_timelike _ _ _ _ Hk). destruct args; reflexivity.
  - apply String.eqb_eq in Hk. rewrite (ppf_arg1 _ _ _ _ Hk). destruct (lit_of (nth_error args 1)); reflexivity.
Qed.

(** ** absent *)

Lemma fold_absent_can_have l names : forall s,
  nd s -> (In l names \/ can_have_label s l = true) ->
  can_have_label (fold_left (fun s name => guarantee_label (include_label s [name]) [name]) names s) l = true.
Proof.
  induction names as [|n r IH]; intros s Hnd H; simpl.
  - destruct H as [[]|H]; exact H.
  - apply IH; [apply nd_guarantee; apply nd_include; exact Hnd|].
    destruct (string_dec l n) as [->|Hne].
    + right. apply can_have_guarantee_new; [apply nd_include; exact Hnd | simpl; auto].
    + destruct H as [[H|H]|H]; [congruence | left; exact H | right].
      apply le_perm_guarantee. apply le_perm_include. exact H.
Qed.

Definition absent_step (acc : labelset * list string) (m : matcher) : labelset * list string :=
  let '(b, seen) := acc in
  if String.eqb (m_name m) metric_name then acc
  else if matchtype_eqb (m_type m) MEq && negb (mem_str (m_name m) seen)
       then (ls_set b (m_name m) (m_value m), m_name m :: seen)
       else (ls_without b [m_name m], seen).

(** the analyser's walk (absentLabels) and the engine's walk (createLabelsForAbsentFunction) in lock step: same [seen],
    and every label the engine's builder holds is a name the analyser collected *)
Lemma absent_walks ms : forall b seen names,
  (forall l, has b l = true -> In l names) ->
  forall l, has (fst (fold_left absent_step ms (b, seen))) l = true ->
            In l (fst (fold_left absent_walk ms (names, seen))).
Proof.
  induction ms as [|m r IH]; intros b seen names Hinv l Hl; cbn [fold_left] in *; [apply Hinv; exact Hl|].
  unfold absent_step at 2 in Hl. unfold absent_walk at 2.
  destruct (String.eqb (m_name m) metric_name) eqn:En; [apply (IH b seen names Hinv l Hl)|].
  destruct (matchtype_eqb (m_type m) MEq && negb (mem_str (m_name m) seen)) eqn:E.
  - destruct (String.eqb (m_value m) "") eqn:Ev; cbn [negb].
    + apply String.eqb_eq in Ev. refine (IH _ _ _ _ l Hl). intros l' Hl'.
      unfold ls_set in Hl'. rewrite Ev in Hl'. cbn [String.eqb] in Hl'.
      apply has_get in Hl'. rewrite get_without in Hl'. simpl in Hl'.
      destruct (String.eqb l' (m_name m)) eqn:El; [congruence|].
      apply In_remove_from_keep; [apply Hinv; apply has_get; exact Hl'|].
      simpl. intros [H|[]]. subst l'. rewrite String.eqb_refl in El. discriminate.
    + refine (IH _ _ _ _ l Hl). intros l' Hl'. apply In_append_to.
      apply has_get in Hl'. rewrite get_set in Hl'.
      destruct (String.eqb l' (m_name m)) eqn:El.
      * apply String.eqb_eq in El. right. left. auto.
      * left. apply Hinv. apply has_get. exact Hl'.
  - refine (IH _ _ _ _ l Hl). intros l' Hl'.
    apply has_get in Hl'. rewrite get_without in Hl'. simpl in Hl'.
    destruct (String.eqb l' (m_name m)) eqn:El; [congruence|].
    apply In_remove_from_keep; [apply Hinv; apply has_get; exact Hl'|].
    simpl. intros [H|[]]. subst l'. rewrite String.eqb_refl in El. discriminate.
Qed.

Lemma absent_labels_names ms l :
  has (fst (fold_left absent_step ms ([], []))) l = true -> In l (fst (fold_left absent_walk ms ([], []))).
Proof.
  apply absent_walks. intros l' Hl'. unfold has, get in Hl'. simpl in Hl'. discriminate.
Qed.

Lemma unwrap_strip e : unwrap_parens e = strip_parens e.
Proof. reflexivity. Qed.

Lemma sel_src_selector ms : s_selector (sel_src ms) = Some ms.
Proof.
  unfold sel_src.
  match goal with |- s_selector (fold_left ?fn ?nms ?s0) = _ =>
    assert (Hf : forall l s, s_selector (fold_left fn l s) = s_selector s) end.
  { induction l as [|x r IH]; intros s; simpl; auto. rewrite IH. reflexivity. }
  rewrite Hf. reflexivity.
Qed.

Definition sel_of_arg (a : expr) : option (list matcher) :=
  match strip_parens a with ESel ms => Some ms | EMatrix (ESel ms) => Some ms | _ => None end.

Lemma call_src_absent f a a0 es ms l :
  func_kind f = "absent" -> sel_of_arg a = Some ms -> nd es ->
  has (fst (fold_left absent_step ms ([], []))) l = true ->
  can_have_label (call_src f [a] a0 es) l = true.
Proof.
  intros Hk Hs Hnd Hl. rewrite call_src_unfold, (ppf_absent _ _ _ _ Hk).
  apply fold_absent_can_have.
  - exact Hnd.
  - left. cbn [nth_error]. unfold absent_names. rewrite unwrap_strip.
    unfold sel_of_arg in Hs. rewrite Hs. apply absent_labels_names. exact Hl.
Qed.

(** ** argument sources *)

Lemma In_call_srcs_intro (w : expr -> list source) F ats a s0 : forall args i k,
  nth_error args i = Some a -> is_vec_or_matrix (arg_type ats (k + i)) = true -> In s0 (w a) ->
  In (F s0) (call_srcs w F ats k args).
Proof.
  induction args as [|x r IH]; intros i k Hn Hv Hin; [destruct i; discriminate|].
  simpl. apply in_or_app. destruct i as [|i].
  - left. simpl in Hn. inversion Hn; subst. rewrite Nat.add_0_r in Hv. rewrite Hv. apply in_map. exact Hin.
  - right. simpl in Hn. apply (IH i (S k)); auto. replace (S k + i)%nat with (k + S i)%nat by lia. exact Hv.
Qed.

Lemma first_vec_arg_spec ats : forall n k i,
  first_vec_arg ats n k = Some i -> (k <= i < k + n)%nat /\ is_vec_or_matrix_t (arg_type_of ats i) = true.
Proof.
  induction n as [|n IH]; intros k i H; simpl in H; [discriminate|].
  destruct (is_vec_or_matrix_t (arg_type_of ats k)) eqn:E.
  - inversion H; subst. split; [lia | exact E].
  - apply IH in H. destruct H as [H1 H2]. split; [lia | exact H2].
Qed.

Section WalkCall.
  Variables fmod fpow : float -> float -> float.
  Notation walk := (walk_node fmod fpow).

  Definition arg0_of (args : list expr) : list source := match args with a :: _ => walk a | [] => [] end.

  Lemma walk_call_In f ats args s :
    In s (walk (ECall f ats args)) ->
    exists es, s = call_src f args (arg0_of args) es /\ nd es.
  Proof.
    cbn [walk_node]. fold (arg0_of args).
    destruct (call_srcs walk (call_src f args (arg0_of args)) ats 0 args) as [|c0 cr] eqn:E; intros H.
    - destruct H as [<-|[]]. exists zero_source. split; [reflexivity | apply nd_zero].
    - rewrite <- E in H. apply In_call_srcs in H. destruct H as [a [s0 [Ha [Hs0 ->]]]].
      exists s0. split; [reflexivity|]. eapply walk_nd; eauto.
  Qed.

  Lemma walk_call_intro f ats args i a s0 :
    nth_error args i = Some a -> is_vec_or_matrix (arg_type ats i) = true -> In s0 (walk a) ->
    In (call_src f args (arg0_of args) s0) (walk (ECall f ats args)).
  Proof.
    intros Hn Hv Hin. cbn [walk_node]. fold (arg0_of args).
    pose proof (In_call_srcs_intro walk (call_src f args (arg0_of args)) ats a s0 args i 0 Hn Hv Hin) as H.
    destruct (call_srcs walk (call_src f args (arg0_of args)) ats 0 args) as [|c0 cr]; [inversion H | exact H].
  Qed.

  Lemma walk_call_exists f ats args : exists s, In s (walk (ECall f ats args)).
  Proof.
    cbn [walk_node]. destruct (call_srcs _ _ _ _ _) as [|c0 cr]; eexists; left; reflexivity.
  Qed.
End WalkCall.
