(** C11: the arrival stream is not just a permutation but an INTERLEAVING of the per-job report lists: the reports
    of one job reach summary.Report in the order its check produced them (a worker sends them in order, both
    channels are FIFO).  This is why the harness replays job-order-preserving interleavings of the recorded jobs. *)
From Coq Require Import List Arith Lia Permutation Bool.
From PintV Require Import Model.ScanLTS Proofs.C11_lts.
Import ListNotations.

(** [interleaving ls l]: [l] is built by repeatedly appending the next element of one of the component lists, i.e. [l]
    is a merge of the lists [ls] in which every component keeps its internal order *)
Inductive interleaving {A : Type} : list (list A) -> list A -> Prop :=
| il_nil : forall ls, Forall (fun d => d = []) ls -> interleaving ls []
| il_snoc : forall l1 d a l2 l, interleaving (l1 ++ d :: l2) l -> interleaving (l1 ++ (d ++ [a]) :: l2) (l ++ [a]).

Section Order.
  Variables J A : Type.
  Variable run : J -> list A.
  Variable cap : nat.

  Notation state := (state J A).
  Notation step := (step J A run cap).
  Notation reachable := (reachable J A run cap).
  Notation pend := (pend A).

  Definition ne (l : list A) : bool := match l with [] => false | _ => true end.

  (** the lists of reports still to be sent: per worker, then per queued job *)
  Definition remaining (s : state) : list (list A) :=
    map pend (workers J A s) ++ map run (jobs J A s ++ todo J A s).

  Lemma perm_filter {X} (f : X -> bool) l l' : Permutation l l' -> Permutation (filter f l) (filter f l').
  Proof.
    induction 1 as [|x l l' _ IH|x y l|l l' l'' _ IH1 _ IH2]; cbn.
    - constructor.
    - destruct (f x); auto.
    - destruct (f x), (f y); auto. apply perm_swap.
    - eapply Permutation_trans; eauto.
  Qed.

  Lemma filter_mid_nil (X Y : list (list A)) : filter ne (X ++ [] :: Y) = filter ne (X ++ Y).
  Proof. now rewrite !filter_app. Qed.

  Lemma filter_mid_ne (X Y : list (list A)) a p : filter ne (X ++ (a :: p) :: Y) = filter ne X ++ (a :: p) :: filter ne Y.
  Proof. now rewrite filter_app. Qed.

  Lemma perm_mid_replace (L1 L2 R1 R2 : list (list A)) a p :
    Permutation (filter ne (L1 ++ (a :: p) :: L2)) (filter ne (R1 ++ (a :: p) :: R2)) ->
    Permutation (filter ne (L1 ++ p :: L2)) (filter ne (R1 ++ p :: R2)).
  Proof.
    rewrite !filter_mid_ne. intros P. apply Permutation_app_inv in P.
    rewrite !filter_app. cbn [filter]. destruct (ne p).
    - eapply Permutation_trans; [apply Permutation_sym, Permutation_middle|].
      eapply Permutation_trans; [|apply Permutation_middle]. now constructor.
    - exact P.
  Qed.

  (** the order invariant: every job's list is split into a delivered prefix and a remaining suffix; the delivered
      prefixes interleave to what has left the workers; the non-empty suffixes are exactly the non-empty remaining lists *)
  Definition ord_inv (js0 : list J) (s : state) : Prop :=
    exists tr : list (list A * list A),
      map (fun t => fst t ++ snd t) tr = map run js0 /\
      interleaving (map fst tr) (summary J A s ++ results J A s) /\
      Permutation (filter ne (map snd tr)) (filter ne (remaining s)).

  Lemma ord_init n js : ord_inv js (init J A n js).
  Proof.
    exists (map (fun j => ([], run j)) js). split; [|split].
    - rewrite map_map. reflexivity.
    - cbn. apply il_nil. rewrite map_map. cbn. apply Forall_forall. intros d Hd. apply in_map_iff in Hd.
      now destruct Hd as (j & <- & _).
    - unfold remaining. cbn. rewrite map_map. cbn. rewrite filter_app.
      replace (filter ne (map pend (repeat WIdle n))) with (@nil (list A)); [reflexivity|].
      induction n; cbn; auto.
  Qed.

  Lemma ord_step js0 s s' : ord_inv js0 s -> step s s' -> ord_inv js0 s'.
  Proof.
    intros (tr & E & M & P) H. unfold ord_inv. destruct H; unfold remaining in P; cbn [workers jobs todo summary results] in *.
    - (* produce *) exists tr. repeat split; auto. unfold remaining. cbn [workers jobs todo].
      assert (Eq : (js ++ [j]) ++ t = js ++ j :: t) by (rewrite <- app_assoc; reflexivity). rewrite Eq. exact P.
    - exists tr. repeat split; auto.
    - (* take *) exists tr. repeat split; auto. unfold remaining. cbn [workers jobs todo].
      eapply Permutation_trans; [exact P|].
      rewrite !map_app. cbn [map pend]. rewrite <- !app_assoc. cbn [app].
      rewrite filter_mid_nil. apply perm_filter.
      apply Permutation_app_head. rewrite !app_assoc.
      eapply Permutation_trans; [apply Permutation_sym, Permutation_middle|].
      rewrite <- !app_assoc. reflexivity.
    - (* send *)
      assert (I : In (a :: p) (filter ne (map snd tr))).
      { apply (Permutation_in _ (Permutation_sym P)). rewrite !map_app. cbn [map pend]. rewrite <- app_assoc. cbn [app].
        rewrite filter_mid_ne. apply in_or_app. right. now left. }
      apply filter_In in I. destruct I as [I _]. apply in_map_iff in I. destruct I as ([d r] & Er & I). cbn in Er. subst r.
      apply in_split in I. destruct I as (t1 & t2 & ->).
      exists (t1 ++ (d ++ [a], p) :: t2). split; [|split].
      + rewrite <- E, !map_app. cbn. now rewrite <- app_assoc.
      + rewrite map_app in *. cbn [map fst] in *. rewrite app_assoc. now apply il_snoc.
      + unfold remaining. cbn [workers jobs todo]. rewrite !map_app in *. cbn [map snd pend] in *. rewrite <- !app_assoc in *. cbn [app] in *.
        now apply perm_mid_replace with (a := a).
    - (* finish *) exists tr. repeat split; auto. unfold remaining. cbn [workers jobs todo]. now rewrite !map_app in *.
    - (* exit *) exists tr. repeat split; auto. unfold remaining. cbn [workers jobs todo]. now rewrite !map_app in *.
    - exists tr. repeat split; auto.
    - (* recv *) exists tr. repeat split; auto. now rewrite <- app_assoc.
    - exists tr. repeat split; auto.
  Qed.

  Lemma ord_reachable n js s : reachable (init J A n js) s -> ord_inv js s.
  Proof. induction 1; [apply ord_init|eapply ord_step; eauto]. Qed.

  Lemma filter_ne_nil (l : list (list A)) : filter ne l = [] -> Forall (fun d => d = []) l.
  Proof.
    induction l as [|d l IH]; cbn; [constructor|]. destruct d; cbn; [|discriminate]. intros H. constructor; auto.
  Qed.

  (** once the main loop has ended, the arrival stream is an interleaving of the per-job lists *)
  Theorem arrival_is_interleaving n js s :
    1 <= n -> reachable (init J A n js) s -> done J A s = true ->
    interleaving (map run js) (summary J A s).
  Proof.
    intros N R D. destruct (ord_reachable n js s R) as (tr & E & M & P).
    destruct (inv_reachable J A run cap n js s R) as [_ I2 I3 I4 I5 I6].
    destruct (I6 D) as [RC RE]. specialize (I5 RC).
    assert (X : In WExited (workers J A s)).
    { destruct (workers J A s) as [|w ws]; cbn in I2; [lia|]. inversion I5; subst. now left. }
    destruct (I4 X) as [JC JE]. specialize (I3 JC).
    unfold remaining in P. rewrite JE, I3 in P. cbn in P. rewrite app_nil_r in P.
    assert (Z : filter ne (map pend (workers J A s)) = []).
    { clear -I5. induction I5 as [|w ws Ew _ IH]; cbn; auto. subst w. cbn. exact IH. }
    rewrite Z in P. apply Permutation_sym, Permutation_nil in P. apply filter_ne_nil in P.
    rewrite RE, app_nil_r in M.
    replace (map run js) with (map fst tr); [exact M|].
    rewrite <- E. clear -P. induction tr as [|[d r] tr IH]; cbn; auto.
    inversion P as [|? ? Hr Ht]. cbn in Hr. subst. rewrite app_nil_r. f_equal. now apply IH.
  Qed.
End Order.
