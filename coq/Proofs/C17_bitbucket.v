(** C17, BitBucket reconciliation (Model/PlatformBitbucket.v): coverage, no duplicates, stale removal and idempotence
    under the echo assumption and in the absence of comments anchored to a COMMIT diff. *)
From Coq Require Import List String ZArith NArith Bool Lia.
From PintV Require Import Common.Bytes Model.PlatformBitbucket.
Import ListNotations.
Local Open Scope string_scope.

Lemma anchor_eqb_refl a : anchor_eqb a a = true.
Proof. unfold anchor_eqb. now rewrite !String.eqb_refl, Z.eqb_refl. Qed.

(** law L1 for BitBucket (echo): what is posted for a pending comment is equal to it when listed back *)
Lemma bb_equal_posted id p : bb_equal (bb_posted id p) p = true.
Proof. unfold bb_equal, bb_posted. cbn. now rewrite anchor_eqb_refl, String.eqb_refl. Qed.

Definition no_commit (l : list bb_existing) : Prop :=
  forall e, In e l -> String.eqb (ba_diff_type (be_anchor e)) "COMMIT" = false.

Lemma add_flag_no_commit ex p b :
  no_commit ex ->
  fold_left (fun add e => let add := if bb_equal e p then false else add in
                          if String.eqb (ba_diff_type (be_anchor e)) "COMMIT" then true else add) ex b =
  b && negb (existsb (fun e => bb_equal e p) ex).
Proof.
  revert b. induction ex as [|e r IH]; intros b H; cbn [fold_left existsb]; [now rewrite andb_true_r|].
  rewrite IH by (intros x Hx; apply H; now right). rewrite (H e) by now left. cbn zeta.
  destruct (bb_equal e p); cbn [orb negb]; [now rewrite andb_false_r|reflexivity].
Qed.

Lemma add_flag_spec ex p : no_commit ex -> bb_add_flag ex p = negb (existsb (fun e => bb_equal e p) ex).
Proof. intros H. unfold bb_add_flag. now rewrite add_flag_no_commit. Qed.

Lemma in_number_from p l : forall n, In p l -> exists id, In (bb_posted id p) (number_from n l).
Proof.
  induction l as [|q r IH]; intros n []; cbn [number_from].
  - subst. exists n. now left.
  - destruct (IH (N.succ n) H) as [id Hid]. exists id. now right.
Qed.

Lemma number_from_in e l : forall n, In e (number_from n l) -> exists id p, In p l /\ e = bb_posted id p.
Proof.
  induction l as [|q r IH]; intros n; cbn [number_from]; [intros []|]. intros [<-|H].
  - exists n, q. split; [now left|reflexivity].
  - destruct (IH _ H) as (id & p & Hp & ->). exists id, p. split; [now right|reflexivity].
Qed.

(** after a run every pending comment has an equal comment in pint's view *)
Lemma bb_covered id ex pend p :
  no_commit ex -> In p pend -> exists e, In e (bb_run id ex pend) /\ bb_equal e p = true.
Proof.
  intros NC Hp. unfold bb_run. destruct (existsb (fun e => bb_equal e p) ex) eqn:Ex.
  - apply existsb_exists in Ex. destruct Ex as (e & He & Heq). exists e. split; auto.
    apply in_or_app. left. apply filter_In. split; auto. unfold bb_keep. apply existsb_exists. eauto.
  - assert (In p (bb_add ex pend)) as Ha.
    { unfold bb_add. apply filter_In. split; auto. rewrite add_flag_spec by exact NC. now rewrite Ex. }
    destruct (in_number_from p _ id Ha) as [i Hi]. exists (bb_posted i p). split; [apply in_or_app; now right|apply bb_equal_posted].
Qed.

(** nothing equal to an existing comment is posted *)
Lemma bb_no_duplicate ex pend p :
  no_commit ex -> In p (bb_add ex pend) -> In p pend /\ forall e, In e ex -> bb_equal e p = false.
Proof.
  intros NC H. unfold bb_add in H. apply filter_In in H. destruct H as [Hp Hf]. split; auto.
  rewrite add_flag_spec in Hf by exact NC. apply negb_true_iff in Hf. intros e He.
  destruct (bb_equal e p) eqn:Eq; auto.
  assert (existsb (fun e0 => bb_equal e0 p) ex = true) by (apply existsb_exists; eauto). congruence.
Qed.

(** exactly the comments equal to no pending one are pruned; the others stay *)
Lemma bb_stale id ex pend e :
  In e ex ->
  (bb_keep pend e = false -> In (be_id e) (map fst (bb_prune ex pend)) /\ ~ In e (filter (bb_keep pend) ex)) /\
  (bb_keep pend e = true -> In e (bb_run id ex pend)).
Proof.
  intros He. split; intros K.
  - split.
    + unfold bb_prune. apply in_map_iff. eexists (be_id e, _). split; [reflexivity|].
      apply in_flat_map. exists e. split; auto. rewrite K. now left.
    + intros H. apply filter_In in H. destruct H; congruence.
  - unfold bb_run. apply in_or_app. left. apply filter_In. auto.
Qed.

Lemma filter_all' {A} (f : A -> bool) l : (forall x, In x l -> f x = true) -> filter f l = l.
Proof.
  induction l as [|a l IH]; intros H; cbn [filter]; auto. rewrite (H a) by now left. f_equal. apply IH. intros x Hx. apply H. now right.
Qed.

Lemma filter_none' {A} (f : A -> bool) l : (forall x, In x l -> f x = false) -> filter f l = [].
Proof.
  induction l as [|a l IH]; intros H; cbn [filter]; auto. rewrite (H a) by now left. apply IH. intros x Hx. apply H. now right.
Qed.

Lemma bb_prune_nil l pend : (forall e, In e l -> bb_keep pend e = true) -> bb_prune l pend = [].
Proof.
  unfold bb_prune. induction l as [|e r IH]; intros H; cbn [flat_map]; auto. rewrite (H e) by now left. cbn [app].
  apply IH. intros x Hx. apply H. now right.
Qed.

(** idempotence: repeating the run with the same pending list prunes nothing, adds nothing, changes nothing *)
Lemma bb_idempotent id id' ex pend :
  no_commit ex -> (forall p, In p pend -> String.eqb (ba_diff_type (bp_anchor p)) "COMMIT" = false) ->
  let ex' := bb_run id ex pend in
  bb_prune ex' pend = [] /\ bb_add ex' pend = [] /\ bb_run id' ex' pend = ex'.
Proof.
  intros NC NP ex'.
  assert (NC' : no_commit ex').
  { intros e He. unfold ex', bb_run in He. apply in_app_or in He. destruct He as [He|He].
    - apply filter_In in He. apply NC. tauto.
    - apply number_from_in in He. destruct He as (i & p & Hp & ->). cbn. apply NP. unfold bb_add in Hp. apply filter_In in Hp. tauto. }
  assert (Keep : forall e, In e ex' -> bb_keep pend e = true).
  { intros e He. unfold ex', bb_run in He. apply in_app_or in He. destruct He as [He|He].
    - apply filter_In in He. tauto.
    - apply number_from_in in He. destruct He as (i & p & Hp & ->). unfold bb_keep. apply existsb_exists. exists p.
      split; [unfold bb_add in Hp; apply filter_In in Hp; tauto|apply bb_equal_posted]. }
  assert (Add : bb_add ex' pend = []).
  { unfold bb_add. apply filter_none'. intros p Hp. rewrite add_flag_spec by exact NC'.
    destruct (bb_covered id ex pend p NC Hp) as (e & He & Heq). apply negb_false_iff. apply existsb_exists. eauto. }
  repeat split; auto.
  - now apply bb_prune_nil.
  - unfold bb_run. rewrite Add. cbn [number_from]. rewrite app_nil_r. now apply filter_all'.
Qed.
