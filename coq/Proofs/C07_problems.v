(** C07 — from the selection of checks to the reported problems.

    "A disable/snooze comment removes exactly the problems of that check on that rule": the selection part is
    Proofs/C07_enable.v.  Here the checks are opaque functions and the lifting is proved from two NAMED hypotheses
    about the checks that stay selected:
      - insensitivity: a kept check answers the same on the entry with the extra comment;
      - equivariance : on the rule moved down by the inserted comment line it answers the same problems, shifted.
    Then  problems(e', moved rule) = shift (filter (not targeted) (problems(e, rule))).

    Which real checks do NOT satisfy the hypotheses (by inspection of internal/checks, see notes/C07.md):
      - promql/series reads `# pint disable promql/series(<selector>)`, `# pint snooze .. promql/series(..)` and
        `# pint rule/set promql/series ...` comments itself: it is sensitive to exactly those comments;
      - every other check reads none of the rule's comments.
    The hypotheses are only required of checks that are selected before and kept after, so a comment that targets
    promql/series as a whole (`disable promql/series`) is covered; the partial forms are the case
    [untargeted_comment_selection] below: they do not change the SELECTION at all, what they change is inside the
    series check (property C16's territory). *)
From Coq Require Import List String Ascii NArith ZArith Bool Lia.
From PintV Require Import Common.Bytes Model.CommentsUnicode Model.Comments Model.Enable Proofs.C07_enable.
Import ListNotations.
Open Scope string_scope.
Open Scope list_scope.

(* ---------------------------------------------------------------------------------------------- *)
(** * comments that are not a disable/snooze of a selected check leave the selection alone *)
Section Untargeted.
Variable now : Z.

(** a comment that disables none of the configured checks on this rule: every comment type other than
    disable/snooze (rule/set, rule/owner, file/owner, file/disable ... attached to the rule), an expired snooze,
    and a disable/snooze whose match is no spelling of any configured check (`promql/series(selector)`) *)
Definition untargeting (prs : list prule) (c : comment) : Prop :=
  forall pr, In pr prs -> comment_disables now (pr_name pr) (ck_string (pr_check pr)) (pr_tags pr) c = false.

Lemma select_ext en dis cfg (e e' : entry) : forall prs sofar,
  (forall sofar pr, In pr prs ->
     parsed_rule_is_enabled now en dis sofar e' cfg pr = parsed_rule_is_enabled now en dis sofar e cfg pr) ->
  select now en dis e' cfg prs sofar = select now en dis e cfg prs sofar.
Proof.
  induction prs as [|pr t IH]; intros sofar H; [reflexivity|].
  cbn [select]. rewrite (H _ pr (or_introl eq_refl)).
  destruct (pr_match pr && parsed_rule_is_enabled now en dis (map (fun p => ck_string (pr_check p)) sofar) e cfg pr);
    apply IH; intros s p Hp; apply H; right; exact Hp.
Qed.

Theorem untargeted_comment_selection en dis cfg e c1 c2 c prs :
  e_comments e = c1 ++ c2 -> untargeting prs c ->
  get_checks now en dis (with_comments e (c1 ++ c :: c2)) cfg prs = get_checks now en dis e cfg prs.
Proof.
  intros He Hu. unfold get_checks. apply select_ext. intros sofar pr Hp.
  unfold parsed_rule_is_enabled. cbn [with_comments e_comments e_disabled e_state]. rewrite He.
  assert (E : forall d, is_enabled now en d (c1 ++ c :: c2) (pr_name pr) (pr_check pr) (pr_tags pr) (pr_locked pr) =
                        is_enabled now en d (c1 ++ c2) (pr_name pr) (pr_check pr) (pr_tags pr) (pr_locked pr)).
  { intros d. rewrite (is_enabled_insert now en d c1 c2 c pr false (Hu pr Hp)). now rewrite orb_true_r. }
  now rewrite !E.
Qed.

(** every comment type but disable and snooze is untargeting, whatever it says *)
Lemma other_types_untargeting prs c :
  c_type c <> DisableType -> c_type c <> SnoozeType -> untargeting prs c.
Proof.
  intros H1 H2 pr _. unfold comment_disables. destruct (c_type c); try reflexivity; contradiction.
Qed.

(** a disable/snooze whose match is no spelling (name, String(), name(+tag)) of any configured check *)
Lemma unknown_match_untargeting prs m :
  (forall pr, In pr prs -> targets m (pr_name pr) (ck_string (pr_check pr)) (pr_tags pr) = false) ->
  (untargeting prs (mk_disable m)) /\ (forall until, untargeting prs (mk_snooze until m)).
Proof.
  intros H. split; [|intros u]; intros pr Hp; unfold comment_disables, mk_disable, mk_snooze; cbn [c_type c_val];
    rewrite (H pr Hp); [reflexivity|apply andb_false_r].
Qed.
End Untargeted.

(* ---------------------------------------------------------------------------------------------- *)
(** * live snooze, NoDup form *)
Section SnoozeNoDup.
Variable now : Z.

Theorem snooze_live_exact_nodup en dis cfg e c1 c2 until m prs :
  NoDup (map cstr prs) -> e_comments e = c1 ++ c2 -> (now < until)%Z ->
  get_checks now en dis (with_comments e (c1 ++ mk_snooze until m :: c2)) cfg prs =
  filter (rule_keep m) (get_checks now en dis e cfg prs).
Proof.
  intros Hnd He Hl. rewrite (snooze_live_exact now en dis cfg e c1 c2 until m prs He Hl).
  rewrite (get_checks_nodup now en dis cfg e prs Hnd).
  rewrite (get_checks_nodup now en dis cfg e (filter (rule_keep m) prs)) by (apply NoDup_map_filter; exact Hnd).
  apply filter_comm.
Qed.
End SnoozeNoDup.

(* ---------------------------------------------------------------------------------------------- *)
(** * lifting to problems *)
Section Lift.
Variable now : Z.
Variable problem : Type.
Variable content : Type.
(** [check.Check(ctx, entry, entries)]: what a selected check reports; [entry] = what the enable decision reads
    (comments, file-level disables, state), [content] = everything else the check reads (the rule with its
    positions, the file, the other entries) *)
Variable run : prule -> entry -> content -> list problem.
(** the same content with the comment line inserted above the rule: every line of the rule moves down by one
    (identity for a trailing comment on an existing line) *)
Variable ins : content -> content.
(** the same problem one line further down (identity for a trailing comment) *)
Variable shift : problem -> problem.

Definition problems_of en dis cfg (e : entry) (x : content) (prs : list prule) : list (prule * problem) :=
  flat_map (fun pr => map (fun p => (pr, p)) (run pr e x)) (get_checks now en dis e cfg prs).

Definition shift_pp (pp : prule * problem) : prule * problem := (fst pp, shift (snd pp)).

(** H-insensitive: the check does not react to the change of the entry's comments *)
Definition insensitive (e e' : entry) (pr : prule) : Prop := forall x, run pr e' x = run pr e x.
(** H-equivariant: moving the rule down by one line moves the check's problems down by one line *)
Definition equivariant (e : entry) (pr : prule) : Prop := forall x, run pr e (ins x) = map shift (run pr e x).

Lemma flat_map_ext_in {X Y} (f g : X -> list Y) l : (forall a, In a l -> f a = g a) -> flat_map f l = flat_map g l.
Proof.
  induction l as [|a t IH]; intros H; [reflexivity|]. cbn [flat_map].
  rewrite (H a (or_introl eq_refl)), IH; [reflexivity|]. intros b Hb. apply H. right. exact Hb.
Qed.

Lemma map_flat_map {X Y Z} (h : Y -> Z) (f : X -> list Y) l : map h (flat_map f l) = flat_map (fun a => map h (f a)) l.
Proof. induction l as [|a t IH]; [reflexivity|]. cbn [flat_map]. now rewrite map_app, IH. Qed.

(** generic: whenever the new selection is the old selection filtered by [keep], and the kept selected checks are
    insensitive and equivariant, the new problems are the old ones of the kept checks, shifted *)
Theorem problems_lift en dis cfg (e e' : entry) keep prs x :
  get_checks now en dis e' cfg prs = filter keep (get_checks now en dis e cfg prs) ->
  (forall pr, In pr (get_checks now en dis e cfg prs) -> keep pr = true -> insensitive e e' pr) ->
  (forall pr, In pr (get_checks now en dis e cfg prs) -> keep pr = true -> equivariant e pr) ->
  problems_of en dis cfg e' (ins x) prs =
  map shift_pp (filter (fun pp => keep (fst pp)) (problems_of en dis cfg e x prs)).
Proof.
  intros Hsel Hins Heq. unfold problems_of. rewrite Hsel.
  rewrite (flat_map_ext_in _ (fun pr => map shift_pp (map (fun p => (pr, p)) (run pr e x)))).
  - rewrite <- map_flat_map. f_equal.
    apply (flat_map_filter (fun pr => map (fun p => (pr, p)) (run pr e x)) keep (fun pp => keep (fst pp))).
    intros a b Hb. apply in_map_iff in Hb. destruct Hb as (p & <- & _). reflexivity.
  - intros pr Hpr. apply filter_In in Hpr. destruct Hpr as [Hin Hk].
    rewrite (Hins pr Hin Hk (ins x)), (Heq pr Hin Hk x), !map_map. reflexivity.
Qed.

(** one extra `# pint disable m` *)
Theorem problems_exact_disable en dis cfg e c1 c2 m prs x :
  NoDup (map cstr prs) -> e_comments e = c1 ++ c2 ->
  let e' := with_comments e (c1 ++ mk_disable m :: c2) in
  (forall pr, In pr (get_checks now en dis e cfg prs) -> rule_keep m pr = true -> insensitive e e' pr) ->
  (forall pr, In pr (get_checks now en dis e cfg prs) -> rule_keep m pr = true -> equivariant e pr) ->
  problems_of en dis cfg e' (ins x) prs =
  map shift_pp (filter (fun pp => rule_keep m (fst pp)) (problems_of en dis cfg e x prs)).
Proof.
  intros Hnd He e' Hi Hq. apply problems_lift; auto. apply disable_exact_nodup; assumption.
Qed.

(** one extra live `# pint snooze until m` *)
Theorem problems_exact_snooze_live en dis cfg e c1 c2 until m prs x :
  NoDup (map cstr prs) -> e_comments e = c1 ++ c2 -> (now < until)%Z ->
  let e' := with_comments e (c1 ++ mk_snooze until m :: c2) in
  (forall pr, In pr (get_checks now en dis e cfg prs) -> rule_keep m pr = true -> insensitive e e' pr) ->
  (forall pr, In pr (get_checks now en dis e cfg prs) -> rule_keep m pr = true -> equivariant e pr) ->
  problems_of en dis cfg e' (ins x) prs =
  map shift_pp (filter (fun pp => rule_keep m (fst pp)) (problems_of en dis cfg e x prs)).
Proof.
  intros Hnd He Hl e' Hi Hq. apply problems_lift; auto. apply snooze_live_exact_nodup; assumption.
Qed.

(** a comment that targets nothing (other comment types, expired snooze, unknown match): all problems stay, shifted *)
Theorem problems_exact_untargeted en dis cfg e c1 c2 c prs x :
  e_comments e = c1 ++ c2 -> untargeting now prs c ->
  let e' := with_comments e (c1 ++ c :: c2) in
  (forall pr, In pr (get_checks now en dis e cfg prs) -> insensitive e e' pr) ->
  (forall pr, In pr (get_checks now en dis e cfg prs) -> equivariant e pr) ->
  problems_of en dis cfg e' (ins x) prs = map shift_pp (problems_of en dis cfg e x prs).
Proof.
  intros He Hu e' Hi Hq.
  rewrite (problems_lift en dis cfg e e' (fun _ => true) prs x); auto.
  - f_equal. apply filter_true.
  - rewrite filter_true. apply untargeted_comment_selection; assumption.
Qed.

(** without the NoDup premise (two parsed rules may share a String() and differ in locked/tags): the statement is
    about the configuration with the targeted checks deleted, which is exact *)
Theorem problems_exact_disable_cfg en dis cfg e c1 c2 m prs x :
  e_comments e = c1 ++ c2 ->
  let e' := with_comments e (c1 ++ mk_disable m :: c2) in
  (forall pr, In pr (get_checks now en dis e cfg (filter (rule_keep m) prs)) -> insensitive e e' pr) ->
  (forall pr, In pr (get_checks now en dis e cfg (filter (rule_keep m) prs)) -> equivariant e pr) ->
  problems_of en dis cfg e' (ins x) prs = map shift_pp (problems_of en dis cfg e x (filter (rule_keep m) prs)).
Proof.
  intros He e' Hi Hq. unfold problems_of.
  subst e'. rewrite (disable_exact now en dis cfg e c1 c2 m prs He).
  rewrite map_flat_map. apply flat_map_ext_in. intros pr Hpr.
  rewrite (Hi pr Hpr (ins x)), (Hq pr Hpr x), !map_map. reflexivity.
Qed.
End Lift.
