(** C19, part 1: on strict-valid forests the relaxed descent finds exactly the rules strict mode returns. *)
From Coq Require Import List String Ascii Arith Bool Lia.
From PintV Require Import Common.Bytes Model.Yaml Model.Parser.
Import ListNotations.
Open Scope string_scope.
Open Scope list_scope.

Definition all_rules (gs : list group) : list rule := flat_map g_rules gs.

Definition rule_ok (r : rule) : Prop := r_error r = None.
Definition group_ok (g : group) : Prop := g_error g = None /\ forall r, In r (g_rules g) -> rule_ok r.
Definition strict_valid (f : file) : Prop := f_error f = None /\ forall g, In g (f_groups f) -> group_ok g.

(** Structural facts about yaml.v3 forests that the theorem needs (guards). *)
Definition inert (m : node) : Prop := n_content m = [] /\ n_embedded m = None.

Inductive reach : node -> node -> Prop :=
| reach_refl n : reach n n
| reach_content n c m : In c (n_content n) -> reach c m -> reach n m
| reach_alias n t m : n_alias n = Some t -> reach t m -> reach n m.

(** What the proof needs of a node: alias fields only on alias nodes, and wherever strict mode's kindMismatch test
    (b22de24, 4a0d172) lets the node pass as a [k], it either is a [k] or holds nothing (an alias node, a null).
    [wf_doc_of_shape] below derives this from purely structural facts about yaml.v3 forests plus strict validity. *)
Definition wf_node (m : node) : Prop :=
  (n_alias m <> None -> n_kind m = KAlias) /\
  (forall k, kind_mismatch m k = false -> n_kind m = k \/ inert m).

Definition wf_doc (d : node) : Prop :=
  n_kind d = KDocument /\ (forall c, In c (n_content d) -> n_alias c = None) /\ forall m, reach d m -> wf_node m.

Lemma reach_trans a b c : reach a b -> reach b c -> reach a c.
Proof. induction 1; intros; eauto using reach. Qed.

Lemma all_rules_app a b : all_rules (a ++ b) = all_rules a ++ all_rules b.
Proof. apply flat_map_app. Qed.

Section C19.
  Variable plines : list string -> node -> nat -> nat * nat.
  Variables metric_ok lname_ok lvalue_ok dur_ok : string -> bool.
  Variable int_ok : node -> bool.
  Variable null_ok : node -> bool.

  Notation PR := (parse_rule plines metric_ok lname_ok lvalue_ok).
  Notation PRS := (parse_rule_strict plines metric_ok lname_ok lvalue_ok).
  Notation PG := (parse_group plines metric_ok lname_ok lvalue_ok dur_ok int_ok).
  Notation PN := (parse_node plines metric_ok lname_ok lvalue_ok).
  Notation TPG := (try_parse_group plines).

  Lemma parse_node_S fuel lines off n parent grp :
    PN (S fuel) lines off n parent grp =
    let children := concat_opt (map (fun c => PN fuel lines off c (Some n) grp) (unpack_nodes n)) in
    match n_kind n with
    | KSequence =>
        if parent_is parent "groups" then
          concat_opt (map (fun c => match TPG lines off c with
                                    | Some (g, (rk, rv)) => PN fuel lines off rv (Some rk) (Some g)
                                    | None => Some []
                                    end) (unpack_nodes n))
        else
          let g0 := match grp with Some g => g | None => empty_group end in
          let step := fun c =>
                        let '(r, is_empty) := PR lines off c in
                        if is_empty then inr (PN fuel lines off c (Some n) None) else inl r in
          let results := map step (unpack_nodes n) in
          let rules := flat_map (fun x => match x with inl r => [r] | inr _ => [] end) results in
          let nested := concat_opt (flat_map (fun x => match x with inl _ => [] | inr o => [o] end) results) in
          match nested with
          | None => None
          | Some nested =>
              Some (app (match rules with
                         | _ :: _ => [g_add_rules g0 rules]
                         | [] => if parent_is parent "rules" then [g0] else []
                         end) nested)
          end
    | KMapping => concat_opt (map (fun '(k, v) => PN fuel lines off v (Some k) grp) (mapping_nodes n))
    | KScalar =>
        if (Nat.ltb 1 (count_char nlc (n_value n)) && negb (String.eqb (n_value n) (join_lines lines))
            && Nat.ltb (n_line n) (List.length lines))%bool then
          match n_embedded n with
          | Some e => PN fuel (split_lines (n_value n)) (off + n_line n) e (Some n) grp
          | None => children
          end
        else children
    | _ => children
    end.
  Proof. reflexivity. Qed.

  (** A rule accepted by strict mode is parsed identically by parseRule with zero offsets. *)
  Lemma strict_rule_is_parse_rule lines c :
    rule_ok (PRS lines c) -> PR lines 0 c = (PRS lines c, false).
  Proof.
    unfold parse_rule_strict, rule_ok.
    destruct (negb (is_tag (n_tag c) mapTag) || kind_mismatch c KMapping)%bool; [discriminate|].
    destruct (bad_rule_key (unpack_nodes c)); [discriminate|].
    destruct (PR lines 0 c) as [r e]. destruct e; [discriminate|]. reflexivity.
  Qed.

  (** The rules sequence of a group: every item is a rule, nothing is nested. *)
  Lemma rules_seq_relaxed fuel lines rv rk g :
    n_kind rv = KSequence -> node_value rk = "rules" ->
    (forall c, In c (unpack_nodes rv) -> rule_ok (PRS lines c)) ->
    exists g', PN (S fuel) lines 0 rv (Some rk) (Some g) = Some [g'] /\
               g_rules g' = g_rules g ++ map (PRS lines) (unpack_nodes rv).
  Proof.
    intros Hk Hrk Hall. rewrite parse_node_S. rewrite Hk. cbn zeta.
    assert (Hp : parent_is (Some rk) "groups" = false) by (unfold parent_is; rewrite Hrk; reflexivity).
    assert (Hp2 : parent_is (Some rk) "rules" = true) by (unfold parent_is; rewrite Hrk; reflexivity).
    rewrite Hp, Hp2.
    set (step := fun c => let '(r, is_empty) := PR lines 0 c in
                          if is_empty then inr (PN fuel lines 0 c (Some rv) None) else inl r).
    assert (Hmap : map step (unpack_nodes rv) = map (fun c => inl (PRS lines c)) (unpack_nodes rv)).
    { apply map_ext_in. intros c Hc. unfold step. rewrite (strict_rule_is_parse_rule lines c (Hall c Hc)). reflexivity. }
    rewrite Hmap.
    assert (Hr : forall l : list node,
               flat_map (fun x : rule + option (list group) => match x with inl r => [r] | inr _ => [] end)
                        (map (fun c => inl (PRS lines c)) l) = map (PRS lines) l).
    { induction l as [|x l IH]; cbn; [reflexivity|]. now rewrite IH. }
    assert (Hn : forall l : list node,
               flat_map (fun x : rule + option (list group) => match x with inl _ => [] | inr o => [o] end)
                        (map (fun c => inl (PRS lines c)) l) = []).
    { induction l as [|x l IH]; cbn; [reflexivity|]. exact IH. }
    rewrite Hr, Hn. cbn [concat_opt].
    destruct (map (PRS lines) (unpack_nodes rv)) as [|r rs] eqn:E.
    - exists g. split; [reflexivity|]. now rewrite app_nil_r.
    - exists (g_add_rules g (r :: rs)). split; reflexivity.
  Qed.

  (** ---- group level ---- *)
  Ltac break_if :=
    match goal with
    | |- context [if ?b then _ else _] => let E := fresh "E" in destruct b eqn:E
    | |- context [match ?b with Some _ => _ | None => _ end] => let E := fresh "E" in destruct b eqn:E
    | |- context [let (_, _) := ?p in _] => destruct p
    end.

  Lemma gerr_error g l m : g_error (gerr g l m) <> None.
  Proof. discriminate. Qed.

  Lemma group_entry_inl thanos lines g k v g1 :
    group_entry plines metric_ok lname_ok lvalue_ok dur_ok int_ok thanos lines g k v = inl g1 -> g_error g1 <> None.
  Proof.
    unfold group_entry. repeat break_if; intros H; try discriminate; inversion H; subst; apply gerr_error.
  Qed.

  Ltac eqb_hyps :=
    repeat match goal with
           | H : (_ =? _)%string = true |- _ => apply String.eqb_eq in H
           | H : (_ =? _)%string = false |- _ => apply String.eqb_neq in H
           | H : (_ || _)%bool = true |- _ => apply orb_true_iff in H; destruct H
           | H : (_ || _)%bool = false |- _ => apply orb_false_iff in H; destruct H
           | H : negb _ = false |- _ => apply negb_false_iff in H
           | H : negb _ = true |- _ => apply negb_true_iff in H
           end.

  Ltac neq_const :=
    match goal with
    | H : ?x = _ |- ?x <> _ => rewrite H; discriminate
    | H : ?x <> ?c |- ?x <> ?c => exact H
    end.

  Lemma group_entry_inr thanos lines g k v g1 :
    group_entry plines metric_ok lname_ok lvalue_ok dur_ok int_ok thanos lines g k v = inr g1 ->
    (node_value k = "name" /\ g1 = g_set_name g (n_value v) /\ n_kind v = KScalar /\ n_value v <> "") \/
    (node_value k = "labels" /\ g1 = g_set_labels g (new_yaml_map plines lines 0 k (match n_alias v with Some t => t | None => v end))) \/
    (node_value k = "rules" /\ g1 = g_add_rules g (map (PRS lines) (unpack_nodes v)) /\ kind_mismatch v KSequence = false) \/
    (node_value k <> "name" /\ node_value k <> "labels" /\ node_value k <> "rules" /\ g1 = g).
  Proof.
    unfold group_entry. repeat break_if; intros H; try discriminate; inversion H; subst; clear H; eqb_hyps.
    all: first
      [ solve [right; right; right; repeat split; try neq_const]
      | solve [right; left; split; auto]
      | solve [right; right; left; repeat split; auto]
      | solve [left; repeat split; auto;
               match goal with
               | X : scalar_with_tag _ _ = true |- _ =>
                   unfold scalar_with_tag in X; apply andb_true_iff in X; destruct X as [X _]; now apply kind_eqb_eq in X
               end] ].
  Qed.

  Definition value_wf (v : node) : Prop := wf_node v.

  Definition entries_wf (l : list (node * node)) : Prop :=
    forall k v, In (k, v) l -> value_wf v.

  Lemma node_value_noalias n : n_alias n = None -> node_value n = n_value n.
  Proof. unfold node_value. now intros ->. Qed.

  Lemma unpack_nodes_inert v : n_content v = [] -> unpack_nodes v = [].
  Proof. unfold unpack_nodes. now intros ->. Qed.

  Lemma is_tag_cases tag want : is_tag tag want = true -> tag = nullTag \/ tag = want.
  Proof.
    unfold is_tag. destruct (String.eqb tag nullTag) eqn:E.
    - apply String.eqb_eq in E. auto.
    - intros H. apply String.eqb_eq in H. auto.
  Qed.

  Definition rules_inv (lines : list string) (g : group) (sk : list string) (ro : option (node * node)) : Prop :=
    match ro with
    | Some (rk, rv) => n_kind rv = KSequence /\ node_value rk = "rules" /\
                       g_rules g = map (PRS lines) (unpack_nodes rv) /\ mem_str "rules" sk = true
    | None => g_rules g = []
    end.

  Lemma group_loop_relaxed thanos lines im nline : forall l g sk g' ro,
    entries_wf l -> g_error g = None ->
    (mem_str "name" sk = true -> g_name g' <> "") ->
    rules_inv lines g sk ro ->
    group_ok (group_loop plines metric_ok lname_ok lvalue_ok dur_ok int_ok thanos lines im nline g sk l) ->
    match try_group_loop plines lines 0 l g' ro with
    | (g'', Some (rk, rv)) =>
        n_kind rv = KSequence /\ node_value rk = "rules" /\
        g_rules (group_loop plines metric_ok lname_ok lvalue_ok dur_ok int_ok thanos lines im nline g sk l) = map (PRS lines) (unpack_nodes rv) /\
        g_name g'' <> ""
    | (_, None) => g_rules (group_loop plines metric_ok lname_ok lvalue_ok dur_ok int_ok thanos lines im nline g sk l) = []
    end.
  Proof.
    induction l as [|[k v] r IH]; intros g sk g' ro Hwf Hg Hname Hinv Hok.
    - cbn [group_loop try_group_loop] in *.
      destruct ((mem_str "rules" sk || im) && negb (mem_str "name" sk))%bool eqn:C.
      + destruct Hok as [He _]. discriminate.
      + destruct ro as [[rk rv]|]; cbn [rules_inv] in Hinv.
        * destruct Hinv as (Hk & Hv & Hr & Hm). repeat split; auto.
          rewrite Hm in C. cbn in C. apply negb_false_iff in C. auto.
        * exact Hinv.
    - cbn [group_loop] in *.
      pose proof (Hwf k v (or_introl eq_refl)) as Hvwf.
      assert (Hwf' : entries_wf r) by (intros k0 v0 Hin; apply (Hwf k0 v0); right; exact Hin).
      destruct (group_entry plines metric_ok lname_ok lvalue_ok dur_ok int_ok thanos lines g k v) as [g1|g1] eqn:GE.
      { destruct Hok as [He _]. exfalso. exact (group_entry_inl _ _ _ _ _ _ GE He). }
      destruct (mem_str (node_value k) sk) eqn:Dup.
      { destruct Hok as [He _]. discriminate. }
      cbn [try_group_loop].
      destruct (group_entry_inr _ _ _ _ _ _ GE) as [(Hkv & -> & Hkind & Hne) | [(Hkv & ->) | [(Hkv & -> & Htag) | (N1 & N2 & N3 & ->)]]].
      + (* name *)
        rewrite Hkv in *. cbn [String.eqb Ascii.eqb Bool.eqb].
        assert (Hva : n_alias v = None).
        { destruct (n_alias v) eqn:A; [|reflexivity]. destruct Hvwf as [W0 _].
          assert (X : n_kind v = KAlias) by (apply W0; rewrite A; discriminate). congruence. }
        rewrite (node_value_noalias v Hva).
        apply IH; auto.
      + (* labels *)
        rewrite Hkv in *. cbn [String.eqb Ascii.eqb Bool.eqb].
        apply IH; auto.
      + (* rules *)
        rewrite Hkv in *. cbn [String.eqb Ascii.eqb Bool.eqb].
        destruct ro as [[rk rv]|]; cbn [rules_inv] in Hinv.
        { destruct Hinv as (_ & _ & _ & D). rewrite D in Dup. discriminate. }
        destruct (kind_eqb (n_kind v) KSequence) eqn:KS.
        * apply kind_eqb_eq in KS. apply IH; auto.
          cbn [rules_inv g_add_rules g_rules]. rewrite Hinv. cbn [app]. repeat split; auto.
        * assert (Hin : inert v).
          { destruct Hvwf as (_ & W4). destruct (W4 KSequence Htag) as [K|I]; [|exact I]. rewrite K in KS. discriminate. }
          apply IH; auto.
          cbn [rules_inv g_add_rules g_rules]. rewrite Hinv. destruct Hin as [Hc _].
          now rewrite (unpack_nodes_inert v Hc).
      + (* other keys *)
        apply String.eqb_neq in N1, N2, N3. rewrite N1, N2, N3.
        apply IH; auto.
        * intros H. apply Hname. cbn [mem_str] in H. rewrite String.eqb_sym in N1. rewrite N1 in H. exact H.
        * destruct ro as [[rk rv]|]; cbn [rules_inv] in *; auto.
          destruct Hinv as (A & B & C & D). repeat split; auto. cbn [mem_str]. rewrite String.eqb_sym in N3. rewrite N3. exact D.
  Qed.

  Lemma try_group_loop_rules lines : forall l g ro,
    g_rules (fst (try_group_loop plines lines 0 l g ro)) = g_rules g.
  Proof.
    induction l as [|[k v] r IH]; intros g ro; cbn [try_group_loop fst]; [reflexivity|].
    repeat break_if; rewrite IH; reflexivity.
  Qed.

  (** What relaxed mode does with one item of a `groups` sequence. *)
  Definition relaxed_group (fuel : nat) (lines : list string) (c : node) : option (list group) :=
    match TPG lines 0 c with
    | Some (g, (rk, rv)) => PN fuel lines 0 rv (Some rk) (Some g)
    | None => Some []
    end.

  Lemma group_relaxed fuel thanos lines c :
    entries_wf (mapping_nodes c) -> group_ok (PG thanos lines c) ->
    exists gs, relaxed_group (S fuel) lines c = Some gs /\ all_rules gs = g_rules (PG thanos lines c).
  Proof.
    intros Hwf Hok. unfold parse_group in *.
    destruct (negb (is_tag (n_tag c) mapTag) || kind_mismatch c KMapping)%bool.
    { destruct Hok as [He _]. discriminate. }
    pose proof (group_loop_relaxed thanos lines (kind_eqb (n_kind c) KMapping) (n_line c) (mapping_nodes c) empty_group [] empty_group None
                  Hwf eq_refl (fun H => False_ind _ (Bool.diff_false_true H)) eq_refl Hok) as H.
    unfold relaxed_group, try_parse_group.
    pose proof (try_group_loop_rules lines (mapping_nodes c) empty_group None) as Hr.
    destruct (try_group_loop plines lines 0 (mapping_nodes c) empty_group None) as [g'' [[rk rv]|]].
    - destruct H as (Hk & Hv & Hrules & Hn). cbn [fst] in Hr.
      apply String.eqb_neq in Hn. rewrite Hn.
      destruct (rules_seq_relaxed fuel lines rv rk g'' Hk Hv) as [g' [E1 E2]].
      { intros x Hx. destruct Hok as [_ Hall]. apply Hall. rewrite Hrules. now apply in_map. }
      exists [g']. split; [exact E1|]. cbn. rewrite app_nil_r, E2, Hr, Hrules. reflexivity.
    - exists []. split; [reflexivity|]. now rewrite H.
  Qed.

  Lemma groups_seq_relaxed fuel thanos lines : forall items names acc names' acc',
    (forall c, In c items -> entries_wf (mapping_nodes c)) ->
    groups_of_seq plines metric_ok lname_ok lvalue_ok dur_ok int_ok thanos lines items names acc = inr (names', acc') ->
    (forall g, In g acc' -> group_ok g) ->
    exists gs new, acc' = acc ++ new /\
                   concat_opt (map (relaxed_group (S fuel) lines) items) = Some gs /\
                   all_rules gs = all_rules new.
  Proof.
    induction items as [|c r IH]; intros names acc names' acc' Hwf H Hok; cbn [groups_of_seq] in H.
    - inversion H; subst. exists [], []. now rewrite app_nil_r.
    - destruct (mem_str _ names); [discriminate|].
      destruct (IH _ _ _ _ (fun x Hx => Hwf x (or_intror Hx)) H Hok) as (gs & new & -> & Hc & Hr).
      destruct (group_relaxed fuel thanos lines c (Hwf c (or_introl eq_refl))) as (g1 & E1 & E2).
      { apply Hok. apply in_or_app. left. apply in_or_app. right. left. reflexivity. }
      exists (g1 ++ gs), (PG thanos lines c :: new). split; [now rewrite <- app_assoc|].
      cbn [map concat_opt]. rewrite E1, Hc. split; [reflexivity|].
      rewrite all_rules_app, E2, Hr. reflexivity.
  Qed.

  Lemma inert_relaxed fuel lines off v parent :
    inert v -> exists gs, PN (S fuel) lines off v parent None = Some gs /\ all_rules gs = [].
  Proof.
    intros [Hc He]. rewrite parse_node_S. rewrite (unpack_nodes_inert v Hc). unfold mapping_nodes. rewrite Hc, He.
    cbn [map concat_opt flat_map mapping_nodes_l].
    destruct (n_kind v); try (exists []; split; reflexivity).
    - destruct (parent_is parent "groups"); [exists []; split; reflexivity|].
      destruct (parent_is parent "rules"); [exists [empty_group]|exists []]; split; reflexivity.
    - break_if; exists []; split; reflexivity.
  Qed.

  (** ---- unpackNodes: where the unpacked nodes come from ---- *)
  Lemma filter_pairs_In parent : forall l c, In c (filter_pairs parent l) -> In c l.
  Proof.
    fix IH 1. intros [|k [|v r]] c H; cbn [filter_pairs] in H.
    - exact H.
    - destruct (negb (has_key parent (n_value k))); [exact H|destruct H].
    - apply in_app_or in H. destruct H as [H|H].
      + destruct (negb (has_key parent (n_value k))); [|destruct H].
        destruct H as [<-|[<-|[]]]; [left|right; left]; reflexivity.
      + right. right. exact (IH r c H).
  Qed.

  Lemma filter_pairs_mapping parent : forall l k v,
    In (k, v) (mapping_nodes_l (filter_pairs parent l)) -> In (k, v) (mapping_nodes_l l).
  Proof.
    fix IH 1. intros [|k0 [|v0 r]] k v H; cbn [filter_pairs] in H.
    - destruct H.
    - destruct (negb (has_key parent (n_value k0))); destruct H.
    - cbn [mapping_nodes_l].
      destruct (negb (has_key parent (n_value k0))); cbn [app mapping_nodes_l] in H.
      + destruct H as [H|H]; [left; exact H|right; exact (IH r k v H)].
      + right. exact (IH r k v H).
  Qed.

  Lemma mapping_nodes_l_In : forall l k v, In (k, v) (mapping_nodes_l l) -> In k l /\ In v l.
  Proof.
    fix IH 1. intros [|k0 [|v0 r]] k v H; cbn [mapping_nodes_l] in H; try destruct H.
    - inversion H; subst. split; [left|right; left]; reflexivity.
    - destruct (IH r k v H). split; right; right; assumption.
  Qed.

  Lemma unpack_loop_cases self : forall l m c,
    In c (unpack_loop self l m) ->
    In c l \/
    (exists p t, In p l /\ n_alias p = Some t /\ c = set_content p (filter_pairs p (n_content t))) \/
    (exists p t, In p l /\ n_alias p = Some t /\ In c (filter_pairs self (n_content t))).
  Proof.
    induction l as [|part r IH]; intros m c H; cbn [unpack_loop] in H; [destruct H|].
    set (m' := if ((n_tag part =? mergeTag) && (n_value part =? "<<"))%bool then true else m) in *.
    destruct (n_alias part) as [t|] eqn:A.
    - apply in_app_or in H. destruct H as [H|H].
      + destruct m'.
        * right. right. exists part, t. split; [left; reflexivity|]. split; [exact A|].
          unfold resolve_map_alias in H. rewrite A in H. exact H.
        * destruct H as [<-|[]]. right. left. exists part, t. split; [left; reflexivity|]. split; [exact A|].
          unfold resolve_map_alias. rewrite A. reflexivity.
      + destruct (IH _ _ H) as [X|[(p & t' & X1 & X2 & X3)|(p & t' & X1 & X2 & X3)]].
        * left. right. exact X.
        * right. left. exists p, t'. split; [right; exact X1|]. auto.
        * right. right. exists p, t'. split; [right; exact X1|]. auto.
    - assert (H' : In c (part :: unpack_loop self r m') \/ In c (unpack_loop self r m')).
      { destruct m'; [right|left]; exact H. }
      assert (H'' : c = part \/ In c (unpack_loop self r m')).
      { destruct H' as [[<-|X]|X]; auto. }
      destruct H'' as [->|X]; [left; left; reflexivity|].
      destruct (IH _ _ X) as [Y|[(p & t' & X1 & X2 & X3)|(p & t' & X1 & X2 & X3)]].
      + left. right. exact Y.
      + right. left. exists p, t'. split; [right; exact X1|]. auto.
      + right. right. exists p, t'. split; [right; exact X1|]. auto.
  Qed.

  Lemma unpack_noalias_In d c :
    (forall p, In p (n_content d) -> n_alias p = None) -> In c (unpack_nodes d) -> In c (n_content d).
  Proof.
    intros Hna H. destruct (unpack_loop_cases d _ _ _ H) as [X|[(p & t & X1 & X2 & _)|(p & t & X1 & X2 & _)]].
    - exact X.
    - rewrite (Hna p X1) in X2. discriminate.
    - rewrite (Hna p X1) in X2. discriminate.
  Qed.

  Lemma wf_value m : wf_node m -> value_wf m.
  Proof. exact (fun H => H). Qed.

  Lemma entries_wf_of_node root c :
    (forall m, reach root m -> wf_node m) -> reach root c -> entries_wf (mapping_nodes c).
  Proof.
    intros Hwf Hr k v Hin.
    apply wf_value, Hwf. destruct (mapping_nodes_l_In _ _ _ Hin) as [_ Hv].
    eapply reach_trans; [exact Hr|]. eapply reach_content; [exact Hv|apply reach_refl].
  Qed.

  Lemma unpack_entries_wf root v c :
    (forall m, reach root m -> wf_node m) -> reach root v -> In c (unpack_nodes v) -> entries_wf (mapping_nodes c).
  Proof.
    intros Hwf Hr H.
    destruct (unpack_loop_cases v _ _ _ H) as [X|[(p & t & X1 & X2 & ->)|(p & t & X1 & X2 & X3)]].
    - apply (entries_wf_of_node root); [exact Hwf|].
      eapply reach_trans; [exact Hr|]. eapply reach_content; [exact X|apply reach_refl].
    - assert (Ht : reach root t).
      { eapply reach_trans; [exact Hr|]. eapply reach_content; [exact X1|]. eapply reach_alias; [exact X2|apply reach_refl]. }
      intros k v' Hin. unfold mapping_nodes, set_content in Hin. cbn [n_content] in Hin.
      apply filter_pairs_mapping in Hin. exact (entries_wf_of_node root t Hwf Ht k v' Hin).
    - apply filter_pairs_In in X3.
      apply (entries_wf_of_node root); [exact Hwf|].
      eapply reach_trans; [exact Hr|]. eapply reach_content; [exact X1|]. eapply reach_alias; [exact X2|].
      eapply reach_content; [exact X3|apply reach_refl].
  Qed.

  (** ---- the `groups:` entry, the document roots, the document ---- *)
  Lemma groups_of_entries_true thanos lines l names acc x :
    groups_of_entries plines metric_ok lname_ok lvalue_ok dur_ok int_ok thanos lines l true names acc = inr x -> l = [].
  Proof.
    destruct l as [|[k v] r]; [reflexivity|]. cbn [groups_of_entries].
    repeat break_if; discriminate.
  Qed.

  Lemma entries_relaxed fuel thanos lines root l names acc names' acc' :
    (forall m, reach root m -> wf_node m) ->
    (forall k v, In (k, v) l -> reach root v) ->
    groups_of_entries plines metric_ok lname_ok lvalue_ok dur_ok int_ok thanos lines l false names acc = inr (names', acc') ->
    (forall g, In g acc' -> group_ok g) ->
    exists gs new, acc' = acc ++ new /\
      concat_opt (map (fun '(k, v) => PN (S (S fuel)) lines 0 v (Some k) None) l) = Some gs /\
      all_rules gs = all_rules new.
  Proof.
    intros Hwf Hl H Hok. destruct l as [|[k v] r].
    - cbn in H. inversion H; subst. exists [], []. now rewrite app_nil_r.
    - cbn [groups_of_entries] in H.
      destruct (negb (n_tag k =? strTag)); [discriminate|].
      destruct (negb (node_value k =? "groups")) eqn:Ek; [discriminate|]. apply negb_false_iff, String.eqb_eq in Ek.
      destruct (negb (is_tag (n_tag v) seqTag) || kind_mismatch v KSequence)%bool eqn:Eo; [discriminate|]. apply orb_false_iff in Eo. destruct Eo as [Et Ekm]. apply negb_false_iff in Et.
      destruct (groups_of_seq plines metric_ok lname_ok lvalue_ok dur_ok int_ok thanos lines (unpack_nodes v) names acc)
        as [e|[names1 acc1]] eqn:GS; [discriminate|].
      pose proof (groups_of_entries_true _ _ _ _ _ _ H) as ->. cbn in H. inversion H; subst names' acc'. clear H.
      pose proof (Hl k v (or_introl eq_refl)) as Hrv.
      assert (Hpk : parent_is (Some k) "groups" = true).
      { unfold parent_is. rewrite Ek. reflexivity. }
      cbn [map concat_opt].
      assert (Hcases : n_kind v = KSequence \/ inert v).
      { destruct (Hwf v Hrv) as (_ & W4). exact (W4 KSequence Ekm). }
      destruct Hcases as [Hk|Hin].
      + destruct (groups_seq_relaxed fuel thanos lines (unpack_nodes v) names acc names1 acc1) as (gs & new & -> & Hc & Hr); auto.
        { intros c Hc. exact (unpack_entries_wf root v c Hwf Hrv Hc). }
        exists gs, new. split; [reflexivity|]. split; [|exact Hr].
        rewrite parse_node_S. rewrite Hk. cbn zeta. rewrite Hpk.
        change (concat_opt (map (relaxed_group (S fuel) lines) (unpack_nodes v))) with (concat_opt (map (relaxed_group (S fuel) lines) (unpack_nodes v))).
        unfold relaxed_group in Hc. rewrite Hc. now rewrite app_nil_r.
      + destruct (inert_relaxed (S fuel) lines 0 v (Some k) Hin) as (gs & E1 & E2).
        destruct Hin as [Hc _]. rewrite (unpack_nodes_inert v Hc) in GS. cbn in GS. inversion GS; subst.
        exists gs, []. rewrite E1, app_nil_r. split; [reflexivity|]. split; [now rewrite app_nil_r|exact E2].
  Qed.

  Lemma roots_relaxed fuel thanos lines root parent : forall roots names acc names' acc',
    (forall m, reach root m -> wf_node m) ->
    (forall n, In n roots -> reach root n) ->
    groups_of_roots plines metric_ok lname_ok lvalue_ok dur_ok int_ok thanos lines roots names acc = inr (names', acc') ->
    (forall g, In g acc' -> group_ok g) ->
    exists gs new, acc' = acc ++ new /\
      concat_opt (map (fun c => PN (S (S (S fuel))) lines 0 c parent None) roots) = Some gs /\
      all_rules gs = all_rules new.
  Proof.
    induction roots as [|n r IH]; intros names acc names' acc' Hwf Hr H Hok; cbn [groups_of_roots] in H.
    - inversion H; subst. exists [], []. now rewrite app_nil_r.
    - destruct (negb (is_tag (n_tag n) mapTag) || kind_mismatch n KMapping)%bool eqn:Eo; [discriminate|]. apply orb_false_iff in Eo. destruct Eo as [Et Ekm]. apply negb_false_iff in Et.
      destruct (groups_of_entries plines metric_ok lname_ok lvalue_ok dur_ok int_ok thanos lines (mapping_nodes n) false names acc)
        as [e|[names1 acc1]] eqn:GE; [discriminate|].
      destruct (IH _ _ _ _ Hwf (fun x Hx => Hr x (or_intror Hx)) H Hok) as (gs2 & new2 & -> & Hc2 & Hr2).
      assert (Hn : reach root n) by (apply Hr; left; reflexivity).
      assert (Hcases : n_kind n = KMapping \/ inert n).
      { destruct (Hwf n Hn) as (_ & W3). exact (W3 KMapping Ekm). }
      assert (Hok1 : forall g, In g acc1 -> group_ok g).
      { intros g Hg. apply Hok. apply in_or_app. left. exact Hg. }
      cbn [map concat_opt].
      destruct Hcases as [Hk|Hin].
      + destruct (entries_relaxed fuel thanos lines root (mapping_nodes n) names acc names1 acc1 Hwf) as (gs1 & new1 & -> & Hc1 & Hr1); auto.
        { intros k v Hin.
          destruct (mapping_nodes_l_In _ _ _ Hin) as [_ Hv].
          eapply reach_trans; [exact Hn|]. eapply reach_content; [exact Hv|apply reach_refl]. }
        exists (gs1 ++ gs2), (new1 ++ new2). split; [now rewrite app_assoc|].
        rewrite parse_node_S. rewrite Hk. cbn zeta. rewrite Hc1, Hc2. split; [reflexivity|].
        now rewrite !all_rules_app, Hr1, Hr2.
      + destruct (inert_relaxed (S (S fuel)) lines 0 n parent Hin) as (gs1 & E1 & E2).
        destruct Hin as [Hc _]. unfold mapping_nodes in GE. rewrite Hc in GE. cbn in GE. inversion GE; subst.
        exists (gs1 ++ gs2), new2. split; [reflexivity|]. rewrite E1, Hc2. split; [reflexivity|].
        now rewrite all_rules_app, E2, Hr2.
  Qed.

  Lemma doc_relaxed fuel thanos lines d gs :
    wf_doc d ->
    parse_groups plines metric_ok lname_ok lvalue_ok dur_ok int_ok thanos lines d = inr gs ->
    (forall g, In g gs -> group_ok g) ->
    exists gs', PN (S (S (S (S fuel)))) lines 0 d None None = Some gs' /\ all_rules gs' = all_rules gs.
  Proof.
    intros (Hk & Hna & Hwf) H Hok. unfold parse_groups in H.
    destruct (groups_of_roots plines metric_ok lname_ok lvalue_ok dur_ok int_ok thanos lines (unpack_nodes d) [] [])
      as [e|[names1 acc1]] eqn:GR; [discriminate|]. inversion H; subst acc1. clear H.
    destruct (roots_relaxed fuel thanos lines d (Some d) (unpack_nodes d) [] [] names1 gs Hwf) as (gs' & new & E & Hc & Hr); auto.
    { intros n Hn. eapply reach_content; [exact (unpack_noalias_In d n Hna Hn)|apply reach_refl]. }
    cbn [app] in E. subst new.
    exists gs'. split; [|exact Hr].
    rewrite parse_node_S. rewrite Hk. cbn zeta. exact Hc.
  Qed.

  (** relaxed_eq_strict for one document (the only strict-valid shape besides the empty stream). *)
  Theorem relaxed_eq_strict_doc thanos lines d nl :
    wf_doc d ->
    strict_valid (parse_strict plines metric_ok lname_ok lvalue_ok dur_ok int_ok null_ok thanos lines [(d, nl)] None) ->
    exists f', parse_relaxed plines metric_ok lname_ok lvalue_ok lines [(d, nl)] None = Some f' /\
               f_error f' = None /\
               all_rules (f_groups f') =
               all_rules (f_groups (parse_strict plines metric_ok lname_ok lvalue_ok dur_ok int_ok null_ok thanos lines [(d, nl)] None)).
  Proof.
    intros Hwf. unfold parse_strict, parse_relaxed. cbn [parse_strict_loop parse_relaxed_loop].
    destruct (too_big d); [intros [He _]; discriminate|].
    destruct (strict_prepass null_ok d) as [pe|]; [intros [He _]; discriminate|].
    destruct (parse_groups plines metric_ok lname_ok lvalue_ok dur_ok int_ok thanos (firstn nl lines) d) as [e|gs] eqn:PGs.
    - intros [He _]. discriminate.
    - cbn [app Nat.ltb Nat.leb f_groups f_error]. intros [_ Hok]. cbn [f_groups] in Hok.
      destruct (doc_relaxed (node_height d) thanos (firstn nl lines) d gs Hwf PGs Hok) as (gs' & E & Hr).
      change (doc_fuel d) with (S (S (S (S (node_height d))))). rewrite E.
      exists {| f_groups := gs'; f_error := None |}. repeat split. exact Hr.
  Qed.

  Lemma strict_loop_multi thanos lines yerr : forall r idx groups err,
    1 <= idx -> err <> None ->
    f_error (parse_strict_loop plines metric_ok lname_ok lvalue_ok dur_ok int_ok null_ok thanos lines r yerr idx groups err) <> None.
  Proof.
    induction r as [|[d nl] r IH]; intros idx groups err Hi He; cbn [parse_strict_loop].
    - destruct yerr; cbn; [discriminate|exact He].
    - destruct (too_big d); [cbn; discriminate|].
      destruct (strict_prepass null_ok d); [cbn; discriminate|].
      destruct (parse_groups _ _ _ _ _ _ _ _ d); [cbn; discriminate|].
      apply IH; [lia|]. destruct idx; [lia|]. cbn. discriminate.
  Qed.

  (** Strict mode never accepts a stream of two or more documents, so the one-document theorem is the general one. *)
  Lemma strict_valid_single thanos lines ds yerr :
    strict_valid (parse_strict plines metric_ok lname_ok lvalue_ok dur_ok int_ok null_ok thanos lines ds yerr) ->
    yerr = None /\ (ds = [] \/ exists d nl, ds = [(d, nl)]).
  Proof.
    unfold parse_strict. destruct ds as [|[d nl] [|[d2 nl2] r]]; cbn [parse_strict_loop].
    - destruct yerr; intros [He _]; [discriminate|]. auto.
    - destruct (too_big d); [intros [He _]; discriminate|].
      destruct (strict_prepass null_ok d); [intros [He _]; discriminate|].
      destruct (parse_groups _ _ _ _ _ _ _ _ d); [intros [He _]; discriminate|].
      destruct yerr; intros [He _]; [discriminate|]. split; [reflexivity|]. right. eauto.
    - destruct (too_big d); [intros [He _]; discriminate|].
      destruct (strict_prepass null_ok d); [intros [He _]; discriminate|].
      destruct (parse_groups _ _ _ _ _ _ _ _ d); [intros [He _]; discriminate|].
      destruct (too_big d2); [intros [He _]; discriminate|].
      destruct (strict_prepass null_ok d2); [intros [He _]; discriminate|].
      destruct (parse_groups _ _ _ _ _ _ _ _ d2); [intros [He _]; discriminate|].
      intros [He _]. exfalso. revert He. apply strict_loop_multi; [lia|]. cbn. discriminate.
  Qed.

  (** ---- the guard derived from strict validity (fixes b22de24 + 4a0d172 + b9483ac) ----
      Purely STRUCTURAL facts, true of every forest yaml.v3 builds (checked executably on every correspondence case
      by [shaped_b], Run/C19.v): the document node is a document whose roots are not aliases; alias fields only on
      alias nodes; alias and scalar nodes have no content; only scalars carry an embedded document. *)
  Definition shape_node (m : node) : Prop :=
    (n_alias m <> None -> n_kind m = KAlias) /\
    (n_kind m = KAlias \/ n_kind m = KScalar -> n_content m = []) /\
    (n_kind m <> KScalar -> n_embedded m = None).

  Definition shape_doc (d : node) : Prop :=
    n_kind d = KDocument /\ (forall c, In c (n_content d) -> n_alias c = None) /\ forall m, reach d m -> shape_node m.

  (** The one fact about the oracle [null_ok] (yaml.Node.Decode into `any` gives nil): such a scalar is one of the
      spellings of null, its value has no line break, so it never carries an embedded document. *)
  Definition null_oracle_ok : Prop :=
    forall m, n_kind m = KScalar -> n_tag m = nullTag -> null_ok m = true -> n_embedded m = None.

  Fixpoint find_first {A} (f : A -> option node) (l : list A) : option node :=
    match l with
    | [] => None
    | c :: r => match f c with Some x => Some x | None => find_first f r end
    end.

  Lemma find_node_unfold P n :
    find_node P n =
    match P n with
    | Some x => Some x
    | None =>
        match (match n_alias n with Some t => find_node P t | None => None end) with
        | Some x => Some x
        | None => find_first (find_node P) (n_content n)
        end
    end.
  Proof.
    destruct n as [k t v l c a content al em]. cbn [find_node n_alias n_content].
    destruct (P _); [reflexivity|].
    destruct (match al with Some t0 => find_node P t0 | None => None end); [reflexivity|].
    induction content as [|x r IH]; [reflexivity|]. cbn [find_first]. destruct (find_node P x); [reflexivity|exact IH].
  Qed.

  Lemma find_first_none {A} (f : A -> option node) : forall l c, find_first f l = None -> In c l -> f c = None.
  Proof.
    induction l as [|x r IH]; intros c H Hc; [destruct Hc|]. cbn [find_first] in H.
    destruct (f x) eqn:E; [discriminate|]. destruct Hc as [<-|Hc]; [exact E|exact (IH c H Hc)].
  Qed.

  (** a pre-pass that found nothing found nothing at any node reachable through content and aliases *)
  Lemma find_node_none P d m : reach d m -> find_node P d = None -> P m = None.
  Proof.
    induction 1 as [n|n c m Hc Hr IH|n t m Ha Hr IH]; intros H; rewrite find_node_unfold in H.
    - destruct (P n); [discriminate|reflexivity].
    - destruct (P n); [discriminate|].
      destruct (match n_alias n with Some t => find_node P t | None => None end); [discriminate|].
      exact (IH (find_first_none _ _ c H Hc)).
    - destruct (P n); [discriminate|]. rewrite Ha in H.
      destruct (find_node P t) eqn:E; [discriminate|]. exact (IH eq_refl).
  Qed.

  Lemma wf_node_of_shape m :
    shape_node m -> null_oracle_ok ->
    (n_kind m = KScalar -> n_tag m = nullTag -> null_ok m = true) ->
    wf_node m.
  Proof.
    intros (S1 & S2 & S3) Hor Hnull. split; [exact S1|].
    intros k Hkm. unfold kind_mismatch in Hkm.
    destruct (n_alias m) as [t|] eqn:Ea.
    - (* an alias node holds nothing itself *)
      right. assert (K : n_kind m = KAlias) by (apply S1; discriminate).
      split; [apply S2; left; exact K|apply S3; rewrite K; discriminate].
    - destruct ((n_tag m =? nullTag) && kind_eqb (n_kind m) KScalar)%bool eqn:E.
      + apply andb_true_iff in E. destruct E as [E1 E2]. apply String.eqb_eq in E1. apply kind_eqb_eq in E2.
        right. split; [apply S2; right; exact E2|exact (Hor m E2 E1 (Hnull E2 E1))].
      + apply negb_false_iff in Hkm. apply kind_eqb_eq in Hkm. left. exact Hkm.
  Qed.

  Lemma wf_doc_of_shape d :
    shape_doc d -> null_oracle_ok -> strict_prepass null_ok d = None -> wf_doc d.
  Proof.
    intros (Hk & Hna & Hs) Hor Hp. split; [exact Hk|]. split; [exact Hna|].
    intros m Hr. apply wf_node_of_shape; [exact (Hs m Hr)|exact Hor|].
    intros K T. unfold strict_prepass in Hp.
    destruct (find_node (null_with_text null_ok) d) as [x|] eqn:F; [discriminate|].
    pose proof (find_node_none _ d m Hr F) as N. unfold null_with_text in N.
    rewrite K, T in N. cbn [kind_eqb andb] in N. rewrite String.eqb_refl in N. cbn [andb] in N.
    destruct (null_ok m); [reflexivity|discriminate].
  Qed.

  (** relaxed = strict on EVERY strict-valid document of a yaml-shaped forest: no guard about tags is left. *)
  Theorem relaxed_eq_strict_shaped thanos lines d nl :
    shape_doc d -> null_oracle_ok ->
    strict_valid (parse_strict plines metric_ok lname_ok lvalue_ok dur_ok int_ok null_ok thanos lines [(d, nl)] None) ->
    exists f', parse_relaxed plines metric_ok lname_ok lvalue_ok lines [(d, nl)] None = Some f' /\
               f_error f' = None /\
               all_rules (f_groups f') =
               all_rules (f_groups (parse_strict plines metric_ok lname_ok lvalue_ok dur_ok int_ok null_ok thanos lines [(d, nl)] None)).
  Proof.
    intros Hs Hor Hv. apply relaxed_eq_strict_doc; [|exact Hv].
    apply wf_doc_of_shape; [exact Hs|exact Hor|].
    revert Hv. unfold parse_strict. cbn [parse_strict_loop].
    destruct (too_big d); [intros [He _]; discriminate|].
    destruct (strict_prepass null_ok d); [intros [He _]; discriminate|reflexivity].
  Qed.
End C19.
