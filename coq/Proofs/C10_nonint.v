(** C10 — non-interference and insert-shift of the documented meaning (Model.MaskSpec). *)
From Coq Require Import List String Ascii NArith ZArith Bool Arith Lia.
From PintV Require Import Common.Bytes Model.CommentsUnicode Model.Comments Model.Reader Model.MaskSpec Proofs.C10_refine.
Import ListNotations.
Open Scope string_scope.
Open Scope list_scope.
Open Scope nat_scope.

Arguments nl : simpl never.

(** ** strings *)
Fixpoint spaces (k : nat) : string := match k with O => EmptyString | S k' => String " "%char (spaces k') end.

(** "\n" when the chunk ends with the newline, "" otherwise *)
Fixpoint tail_nl (b : string) : string :=
  match b with
  | EmptyString => EmptyString
  | String c EmptyString => if Ascii.eqb c nl then b else EmptyString
  | String c r => tail_nl r
  end.

Lemma append_assoc' (a b c : string) : append (append a b) c = append a (append b c).
Proof. induction a; cbn; congruence. Qed.

Lemma append_nil_r (a : string) : append a EmptyString = a.
Proof. induction a; cbn; congruence. Qed.

Lemma length_append (a b : string) : String.length (append a b) = String.length a + String.length b.
Proof. induction a; cbn; congruence. Qed.

Lemma chunk_split b : b = append (strip_nl b) (tail_nl b).
Proof.
  induction b as [|c r IH]; [reflexivity|].
  destruct r as [|c' r'].
  - cbn. destruct (Ascii.eqb c nl); reflexivity.
  - change (strip_nl (String c (String c' r'))) with (String c (strip_nl (String c' r'))).
    change (tail_nl (String c (String c' r'))) with (tail_nl (String c' r')).
    cbn [append]. rewrite <- IH. reflexivity.
Qed.

Lemma tail_nl_cases b : tail_nl b = EmptyString \/ tail_nl b = String nl EmptyString.
Proof.
  induction b as [|c r IH]; [left; reflexivity|].
  destruct r as [|c' r'].
  - cbn. destruct (Ascii.eqb c nl) eqn:E; [right|left]; [|reflexivity].
    apply Ascii.eqb_eq in E. subst. reflexivity.
  - exact IH.
Qed.

Lemma blank_keep i off r : off <= i -> blank_from i off false r = r.
Proof.
  revert i. induction r as [|c r IH]; intros i H; cbn [blank_from]; [reflexivity|].
  rewrite (IH (S i)) by lia. replace (Nat.ltb i off) with false by (symmetry; apply Nat.ltb_ge; lia).
  cbn. destruct (Ascii.eqb c nl); reflexivity.
Qed.

Lemma blank_prefix p : forall i r, no_nl p = true ->
  blank_from i (i + String.length p) false (append p r) = append (spaces (String.length p)) r.
Proof.
  induction p as [|c p IH]; intros i r H; cbn [append String.length spaces].
  - apply blank_keep. lia.
  - cbn [no_nl] in H. apply andb_true_iff in H. destruct H as [Hc Hp].
    cbn [blank_from]. apply negb_true_iff in Hc. rewrite Hc.
    replace (Nat.ltb i (i + S (String.length p))) with true by (symmetry; apply Nat.ltb_lt; lia).
    cbn. f_equal. replace (i + S (String.length p)) with (S i + String.length p) by lia. apply IH. exact Hp.
Qed.

Lemma blank_all_line l t : no_nl l = true -> (t = EmptyString \/ t = String nl EmptyString) ->
  blank_from 0 0 true (append l t) = append (spaces (String.length l)) t.
Proof.
  intros Hl Ht. rewrite (blank_all_gen (append l t) 0 0 0 (0 + String.length l)).
  assert (G : forall i, blank_from i (i + String.length l) true (append l t) = append (spaces (String.length l)) t).
  { clear - Hl Ht. induction l as [|c l IH]; intros i; cbn [append String.length spaces].
    - destruct Ht as [-> | ->]; [reflexivity|]. cbn [blank_from]. rewrite Ascii.eqb_refl. reflexivity.
    - cbn [no_nl] in Hl. apply andb_true_iff in Hl. destruct Hl as [Hc Hp]. apply negb_true_iff in Hc.
      cbn [blank_from]. rewrite Hc, orb_true_r. f_equal.
      replace (i + S (String.length l)) with (S i + String.length l) by lia. apply IH. exact Hp. }
  apply G.
Qed.

Lemma blank_all_chunk b : wf_chunk b ->
  blank_from 0 0 true b = append (spaces (String.length (strip_nl b))) (tail_nl b).
Proof.
  intros H. rewrite (chunk_split b) at 1. apply blank_all_line; [exact H | apply tail_nl_cases].
Qed.

Section WithTime.
Variable tp : string -> option Z.

(** ** the spec, line by line *)
Definition spec_step (st : sstate) (n : nat) (b : string) : sstate * string * list comment * list diag :=
  let '(st', a, cs, d) := spec_action st (line_comment tp n b) in (st', apply_action a b, cs, diag_of n b d).

(** per line: (masked chunk, collected comments, diagnostics); and the final state *)
Fixpoint spec_steps (st : sstate) (n : nat) (bs : list string) : list (string * list comment * list diag) * sstate :=
  match bs with
  | [] => ([], st)
  | b :: t =>
    let '(st', m, cs, ds) := spec_step st (S n) b in
    let '(l, fin) := spec_steps st' (S n) t in
    ((m, cs, ds) :: l, fin)
  end.

Definition masked (x : string * list comment * list diag) : string := fst (fst x).
Definition collected (x : string * list comment * list diag) : list comment := snd (fst x).
Definition diagsof (x : string * list comment * list diag) : list diag := snd x.

Fixpoint concat_str (l : list string) : string :=
  match l with [] => EmptyString | a :: r => append a (concat_str r) end.

Lemma concat_str_app a b : concat_str (a ++ b) = append (concat_str a) (concat_str b).
Proof. induction a; cbn; [reflexivity|]. rewrite IHa, append_assoc'. reflexivity. Qed.

(** [spec_chunks] (the fold that mirrors the reader) in terms of [spec_steps] *)
Lemma spec_chunks_steps bs : forall s,
  let '(l, fin) := spec_steps (s_st s) (s_lineno s) bs in
  spec_chunks tp bs s =
  {| s_st := fin;
     s_out := append (s_out s) (concat_str (map masked l));
     s_lines := s_lines s ++ map (fun x => strip_nl (masked x)) l;
     s_comments := s_comments s ++ List.concat (map collected l);
     s_diags := s_diags s ++ List.concat (map diagsof l);
     s_lineno := s_lineno s + List.length bs |}.
Proof.
  induction bs as [|b t IH]; intros s.
  - cbn. rewrite append_nil_r, !app_nil_r, Nat.add_0_r. destruct s; reflexivity.
  - cbn [spec_steps]. unfold spec_step.
    destruct (spec_action (s_st s) (line_comment tp (S (s_lineno s)) b)) as [[[st' a] cs] d] eqn:Ha.
    specialize (IH (spec_line tp s b)).
    assert (Hst : s_st (spec_line tp s b) = st') by (unfold spec_line; rewrite Ha; reflexivity).
    assert (Hn : s_lineno (spec_line tp s b) = S (s_lineno s)) by (unfold spec_line; rewrite Ha; reflexivity).
    rewrite Hst, Hn in IH.
    destruct (spec_steps st' (S (s_lineno s)) t) as [l fin] eqn:Hl.
    change (spec_chunks tp (b :: t) s) with (spec_chunks tp t (spec_line tp s b)). rewrite IH.
    unfold spec_line. rewrite Ha.
    cbn [s_st s_out s_lines s_comments s_diags s_lineno map List.concat concat_str masked collected diagsof fst snd List.length].
    rewrite append_assoc', <- !app_assoc. cbn [app].
    f_equal; try lia.
Qed.

(** ** replacement of excluded text *)

(** what may replace chunk [b] in state [st] (line [n]): the excluded text, nothing else *)
Definition repl1 (st : sstate) (n : nat) (b b' : string) : Prop :=
  match spec_action st (line_comment tp n b) with
  | (_, Keep, _, _) => b' = b
  | (_, BlankAll, _, _) =>
      (* whole line excluded: any text, same line terminator; inside a block it must not be an ignore/end *)
      tail_nl b' = tail_nl b /\
      (st = SBlock -> forall c', line_comment tp n b' = Some c' -> c_type c' <> IgnoreEndType)
  | (_, BlankPrefix off, _, _) =>
      (* text in front of an ignore/line (ignore/file) directive: the new line must still carry that directive
         as its first pint comment (payload_ok: no pint control comment inside the new text) *)
      exists p p' r c c',
        b = append p r /\ b' = append p' r /\ String.length p = off /\ no_nl p = true /\ no_nl p' = true /\
        line_comment tp n b = Some c /\ line_comment tp n b' = Some c' /\
        c_type c' = c_type c /\ c_off c' = String.length p'
  end.

Fixpoint repl (st : sstate) (n : nat) (bs bs' : list string) : Prop :=
  match bs, bs' with
  | [], [] => True
  | b :: t, b' :: t' =>
      repl1 st (S n) b b' /\
      repl (fst (fst (fst (spec_action st (line_comment tp (S n) b))))) (S n) t t'
  | _, _ => False
  end.

(** equal up to the number of leading spaces *)
Definition blank_equiv (m m' : string) : Prop :=
  exists k k' r, m = append (spaces k) r /\ m' = append (spaces k') r.

Definition line_equiv (x y : string * list comment * list diag) : Prop :=
  blank_equiv (masked x) (masked y) /\ collected x = collected y /\
  map (fun d => fst (fst d)) (diagsof x) = map (fun d => fst (fst d)) (diagsof y).

Lemma blank_equiv_refl m : blank_equiv m m.
Proof. exists 0, 0, m. split; reflexivity. Qed.

Lemma no_nl_prefix p r : no_nl (append p r) = true -> no_nl p = true.
Proof.
  induction p as [|c p IH]; cbn; [reflexivity|]. intros H. apply andb_true_iff in H. destruct H as [-> H].
  cbn. apply IH. exact H.
Qed.

Lemma strip_nl_append p r : r <> EmptyString -> strip_nl (append p r) = append p (strip_nl r).
Proof.
  intros Hr. induction p as [|c p IH]; [reflexivity|].
  cbn [append]. destruct (append p r) as [|c' q] eqn:E.
  - destruct p; cbn in E; [congruence|discriminate].
  - change (strip_nl (String c (String c' q))) with (String c (strip_nl (String c' q))). rewrite IH. reflexivity.
Qed.

(** one line *)
Lemma step_nonint st n b b' :
  wf_chunk b -> wf_chunk b' -> repl1 st n b b' ->
  let '(s1, m, cs, ds) := spec_step st n b in
  let '(s2, m', cs', ds') := spec_step st n b' in
  s1 = s2 /\ line_equiv (m, cs, ds) (m', cs', ds') /\
  (String.length b = String.length b' -> (m, cs, ds) = (m', cs', ds')).
Proof.
  intros Hw Hw' Hr. unfold repl1 in Hr. unfold spec_step.
  destruct (spec_action st (line_comment tp n b)) as [[[s1 a] cs] d] eqn:Ha.
  destruct a as [| |off].
  - (* Keep *) subst b'. rewrite Ha. repeat split; try reflexivity. apply blank_equiv_refl.
  - (* BlankAll *)
    destruct Hr as [Ht Hend].
    assert (Hb' : spec_action st (line_comment tp n b') = (s1, BlankAll, cs, d)).
    { destruct st as [[|]| |]; cbn in Ha |- *.
      - inversion Ha; reflexivity.
      - destruct (line_comment tp n b) as [c|]; [destruct (c_type c)|]; inversion Ha.
      - assert (s1 = SBlock /\ cs = [] /\ d = None) as (-> & -> & ->).
        { destruct (line_comment tp n b) as [c|]; [destruct (c_type c)|]; inversion Ha; repeat split. }
        destruct (line_comment tp n b') as [c'|] eqn:E'; [|reflexivity].
        specialize (Hend eq_refl c' eq_refl). destruct (c_type c'); try reflexivity. congruence.
      - inversion Ha; reflexivity. }
    rewrite Hb'. cbn [apply_action]. rewrite (blank_all_chunk b Hw), (blank_all_chunk b' Hw'), Ht.
    assert (Hd : d = None).
    { destruct st as [[|]| |]; cbn in Ha.
      - inversion Ha; reflexivity.
      - destruct (line_comment tp n b) as [c|]; [destruct (c_type c)|]; inversion Ha.
      - destruct (line_comment tp n b) as [c|]; [destruct (c_type c)|]; inversion Ha; reflexivity.
      - inversion Ha; reflexivity. }
    subst d. cbn [diag_of].
    split; [reflexivity|]. split.
    + unfold line_equiv; cbn. repeat split.
      exists (String.length (strip_nl b)), (String.length (strip_nl b')), (tail_nl b). split; reflexivity.
    + intros Hlen. rewrite (chunk_split b), (chunk_split b'), !length_append, Ht in Hlen.
      replace (String.length (strip_nl b')) with (String.length (strip_nl b)) by lia. reflexivity.
  - (* BlankPrefix *)
    destruct Hr as (p & p' & r & c & c' & Hb & Hb' & Hp & Hnp & Hnp' & Hc & Hc' & Hty & Hoff).
    assert (Hst : st = SNormal false /\ off = c_off c /\ cs = [] /\
                  (c_type c = IgnoreFileType /\ s1 = SFile /\ d = Some (c_off c) \/
                   c_type c = IgnoreLineType /\ s1 = SNormal false /\ d = None)).
    { rewrite Hc in Ha. destruct st as [[|]| |]; cbn in Ha; try (inversion Ha; fail).
      - destruct (c_type c); inversion Ha; subst; repeat split; auto.
      - destruct (c_type c); inversion Ha. }
    destruct Hst as (-> & Hoffc & -> & Hk).
    assert (Ha' : spec_action (SNormal false) (line_comment tp n b') =
                  (s1, BlankPrefix (c_off c'), [], match d with Some _ => Some (c_off c') | None => None end)).
    { rewrite Hc'. cbn. rewrite Hty. destruct Hk as [(-> & -> & ->) | (-> & -> & ->)]; reflexivity. }
    rewrite Ha'. cbn [apply_action]. subst b b'. rewrite <- Hp, Hoff.
    pose proof (blank_prefix p 0 r Hnp) as X; cbn [Nat.add] in X; rewrite X; clear X.
    pose proof (blank_prefix p' 0 r Hnp') as X; cbn [Nat.add] in X; rewrite X; clear X.
    split; [reflexivity|]. split.
    + unfold line_equiv; cbn [masked collected diagsof fst snd]. repeat split.
      * exists (String.length p), (String.length p'), r. split; reflexivity.
      * destruct d; reflexivity.
    + intros Hlen. rewrite !length_append in Hlen.
      assert (E : String.length p' = String.length p) by lia. rewrite E.
      destruct d; cbn [diag_of]; [|reflexivity].
      rewrite !length_append, E.
      assert (n0 = String.length p) as -> by (destruct Hk as [(_ & _ & X) | (_ & _ & X)]; inversion X; congruence).
      reflexivity.
Qed.

Definition same_length (b b' : string) : Prop := String.length b = String.length b'.

Lemma steps_nonint bs : forall bs' st n,
  Forall wf_chunk bs -> Forall wf_chunk bs' -> repl st n bs bs' ->
  snd (spec_steps st n bs) = snd (spec_steps st n bs') /\
  Forall2 line_equiv (fst (spec_steps st n bs)) (fst (spec_steps st n bs')) /\
  (Forall2 same_length bs bs' -> fst (spec_steps st n bs) = fst (spec_steps st n bs')).
Proof.
  induction bs as [|b t IH]; intros bs' st n Hw Hw' Hr; destruct bs' as [|b' t']; cbn [repl] in Hr; try contradiction.
  - cbn. repeat split; constructor.
  - destruct Hr as [H1 Ht]. inversion Hw as [|? ? Hb Hwt]; inversion Hw' as [|? ? Hb' Hwt']; subst.
    pose proof (step_nonint st (S n) b b' Hb Hb' H1) as Hs.
    cbn [spec_steps]. unfold spec_step in *.
    destruct (spec_action st (line_comment tp (S n) b)) as [[[s1 a] cs] d] eqn:Ha.
    destruct (spec_action st (line_comment tp (S n) b')) as [[[s2 a'] cs'] d'] eqn:Ha'.
    cbn [fst] in Ht. destruct Hs as (<- & Hle & Heq).
    specialize (IH t' s1 (S n) Hwt Hwt' Ht).
    destruct (spec_steps s1 (S n) t) as [l fin]. destruct (spec_steps s1 (S n) t') as [l' fin'].
    cbn [fst snd] in *. destruct IH as (-> & Hl & Hleq). repeat split.
    + constructor; assumption.
    + intros HF. inversion HF; subst. rewrite Heq by assumption. rewrite Hleq by assumption. reflexivity.
Qed.

(** assembling the reader's outputs from the per-line results *)
Definition assemble (l : list (string * list comment * list diag)) (fin : sstate) (nlines : nat) : sd :=
  {| s_st := fin;
     s_out := concat_str (map masked l);
     s_lines := map (fun x => strip_nl (masked x)) l;
     s_comments := List.concat (map collected l);
     s_diags := List.concat (map diagsof l);
     s_lineno := nlines |}.

Lemma reader_spec_assemble f :
  reader_spec tp f = assemble (fst (spec_steps (SNormal false) 0 (chunks f))) (snd (spec_steps (SNormal false) 0 (chunks f)))
                              (List.length (chunks f)).
Proof.
  unfold reader_spec. pose proof (spec_chunks_steps (chunks f) sd_init) as H. cbn [sd_init s_st s_lineno] in H.
  destruct (spec_steps (SNormal false) 0 (chunks f)) as [l fin]. rewrite H. reflexivity.
Qed.

(** the result of the spec on two files: same state, line count, comments, diagnostic lines; masked text equal up to
    the number of leading spaces of each line *)
Definition sd_equiv (a b : sd) : Prop :=
  exists l l' fin k,
    a = assemble l fin k /\ b = assemble l' fin k /\ Forall2 line_equiv l l'.

Theorem spec_noninterference f f' :
  repl (SNormal false) 0 (chunks f) (chunks f') ->
  sd_equiv (reader_spec tp f) (reader_spec tp f').
Proof.
  intros Hr. pose proof (steps_nonint _ _ _ _ (chunks_wf f) (chunks_wf f') Hr) as (Hfin & Hl & _).
  exists (fst (spec_steps (SNormal false) 0 (chunks f))), (fst (spec_steps (SNormal false) 0 (chunks f'))),
         (snd (spec_steps (SNormal false) 0 (chunks f))), (List.length (chunks f)).
  split; [apply reader_spec_assemble|]. split; [|exact Hl].
  rewrite reader_spec_assemble, <- Hfin. f_equal.
  clear - Hr. revert Hr. generalize (SNormal false) 0 (chunks f'). induction (chunks f) as [|b t IH]; intros st n bs' Hr;
    destruct bs'; cbn [repl] in Hr; try contradiction; [reflexivity|]. cbn [List.length]. f_equal. destruct Hr as [_ Hr]. eapply IH; exact Hr.
Qed.

Theorem spec_noninterference_eq f f' :
  repl (SNormal false) 0 (chunks f) (chunks f') ->
  Forall2 same_length (chunks f) (chunks f') ->
  reader_spec tp f = reader_spec tp f'.
Proof.
  intros Hr Hlen. pose proof (steps_nonint _ _ _ _ (chunks_wf f) (chunks_wf f') Hr) as (Hfin & _ & Heq).
  rewrite !reader_spec_assemble, Hfin, (Heq Hlen). f_equal.
  clear - Hlen. induction Hlen; cbn; congruence.
Qed.

End WithTime.
