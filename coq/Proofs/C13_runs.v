(** C13 — index-level runs: the reference [runs] of a grid as index intervals, the normal form
    "sorted, separated by at least one missing point", and its uniqueness for a given coverage. *)
From Coq Require Import List ZArith NArith Bool Lia Arith.
From PintV Require Import Common.GoTime Model.Range Model.RangeRef Proofs.C13_fold Proofs.C13_overlaps
  Proofs.C13_stair Proofs.C13_imerge.
Import ListNotations.
Open Scope Z_scope.

(** sorted and pairwise separated (non-touching), non-empty intervals *)
Inductive sep_sorted : list ival -> Prop :=
| ss_nil : sep_sorted []
| ss_cons x l : fst x <= snd x -> (forall y, In y l -> snd x + 1 < fst y) -> sep_sorted l -> sep_sorted (x :: l).

(** --- uniqueness ------------------------------------------------------------------------------ *)

Lemma sep_sorted_lower x l : sep_sorted (x :: l) -> forall k, cov (x :: l) k -> fst x <= k.
Proof.
  intros H k [y [[E|Hy] Hk]]; [subst y; lia|]. inversion H as [|? ? Hv Hs Hr]; subst. specialize (Hs y Hy). lia.
Qed.

Lemma sep_sorted_tail_cov x l : sep_sorted (x :: l) -> forall k, cov l k <-> (cov (x :: l) k /\ snd x + 1 < k).
Proof.
  intros H k. inversion H as [|? ? Hv Hs Hr]; subst. split.
  - intros [y [Hy Hk]]. split; [exists y; split; [right; exact Hy|exact Hk]|]. specialize (Hs y Hy). lia.
  - intros [[y [[E|Hy] Hk]] Hgt]; [subst y; lia|exists y; split; assumption].
Qed.

Lemma sep_sorted_unique l1 : forall l2, sep_sorted l1 -> sep_sorted l2 ->
  (forall k, cov l1 k <-> cov l2 k) -> l1 = l2.
Proof.
  induction l1 as [|x r1 IH]; intros l2 H1 H2 Hc.
  - destruct l2 as [|y r2]; [reflexivity|]. exfalso. inversion H2 as [|? ? Hv _ _]; subst.
    assert (cov (y :: r2) (fst y)) as C by (exists y; split; [left; reflexivity|lia]).
    apply Hc in C. destruct C as [z [[] _]].
  - destruct l2 as [|y r2].
    + exfalso. inversion H1 as [|? ? Hv _ _]; subst.
      assert (cov (x :: r1) (fst x)) as C by (exists x; split; [left; reflexivity|lia]).
      apply Hc in C. destruct C as [z [[] _]].
    + inversion H1 as [|? ? Hv1 Hs1 Hr1]; subst. inversion H2 as [|? ? Hv2 Hs2 Hr2]; subst.
      assert (forall a ra b rb, sep_sorted (a :: ra) -> sep_sorted (b :: rb) ->
                (forall k, cov (a :: ra) k <-> cov (b :: rb) k) -> fst a <= fst b /\ snd a <= snd b) as Hhalf.
      { intros a ra b rb Ha Hb Hcab. inversion Ha as [|? ? Hva Hsa _]; subst. inversion Hb as [|? ? Hvb Hsb _]; subst.
        assert (fst a <= fst b) as La.
        { apply (sep_sorted_lower a ra Ha). apply Hcab. exists b. split; [left; reflexivity|lia]. }
        split; [exact La|].
        - destruct (Z_le_gt_dec (snd a) (snd b)) as [L|L]; [exact L|]. exfalso.
          (* snd b + 1 is covered by a but by nothing on the b side *)
          assert (cov (a :: ra) (snd b + 1)) as C by (exists a; split; [left; reflexivity|lia]).
          apply Hcab in C. destruct C as [z [[E|Hz] Hk]]; [subst z; lia|]. specialize (Hsb z Hz). lia. }
      destruct (Hhalf x r1 y r2 H1 H2 Hc) as [A1 A2].
      destruct (Hhalf y r2 x r1 H2 H1 (fun k => iff_sym (Hc k))) as [B1 B2].
      assert (x = y) as E by (destruct x, y; cbn [fst snd] in *; f_equal; lia). subst y.
      f_equal. apply IH; [exact Hr1|exact Hr2|].
      intros k. rewrite (sep_sorted_tail_cov x r1 H1), (sep_sorted_tail_cov x r2 H2), Hc. tauto.
Qed.

(** --- sorting a non-touching list gives the normal form ----------------------------------------- *)

Lemma iinsert_sep x s : sep_sorted s -> fst x <= snd x -> (forall y, In y s -> nontouch x y) ->
  sep_sorted (iinsert x s).
Proof.
  intros Hs Hx. induction Hs as [|y r Hy Hsep Hr IH]; intros Hnt; cbn [iinsert].
  - constructor; [exact Hx|intros ? []|constructor].
  - pose proof (Hnt y (or_introl eq_refl)) as Nxy. unfold nontouch, touch in Nxy.
    apply andb_false_iff in Nxy. rewrite !Z.leb_gt in Nxy.
    destruct (fst y <? fst x) eqn:E.
    + apply Z.ltb_lt in E. constructor; [exact Hy| |apply IH; intros z Hz; apply Hnt; right; exact Hz].
      intros z Hz. destruct (iinsert_split x r) as [l1 [l2 [E1 E2]]]. rewrite E2 in Hz.
      apply in_app_or in Hz. destruct Hz as [Hz|[Hz|Hz]].
      * apply Hsep. rewrite E1. apply in_or_app. left. exact Hz.
      * subst z. lia.
      * apply Hsep. rewrite E1. apply in_or_app. right. exact Hz.
    + apply Z.ltb_ge in E. constructor; [exact Hx| |constructor; assumption].
      intros z [Hz|Hz]; [subst z; lia|]. specialize (Hsep z Hz). lia.
Qed.

Lemma isort_sep l : ForallOrdPairs nontouch l -> valid l -> sep_sorted (isort l).
Proof.
  induction 1 as [|x r Hf Hr IH]; intros Hv; cbn [isort]; [constructor|].
  apply iinsert_sep.
  - apply IH. intros y Hy. apply Hv. right. exact Hy.
  - apply Hv. left. reflexivity.
  - rewrite Forall_forall in Hf. intros y Hy. apply Hf. apply isort_In. exact Hy.
Qed.

(** --- index-level runs --------------------------------------------------------------------------- *)

Fixpoint iruns (p : Z -> bool) (n : nat) (i : Z) (cur : option (Z * Z)) : list ival :=
  match n with
  | O => match cur with Some c => [c] | None => [] end
  | S n' =>
      if p i then iruns p n' (i + 1) (match cur with Some (s, _) => Some (s, i) | None => Some (i, i) end)
      else match cur with
           | Some c => c :: iruns p n' (i + 1) None
           | None => iruns p n' (i + 1) None
           end
  end.

Definition cur_ok (i : Z) (cur : option (Z * Z)) : Prop :=
  match cur with Some (s, l) => s <= l /\ l = i - 1 | None => True end.
Definition cur_lo (i : Z) (cur : option (Z * Z)) : Z := match cur with Some (s, _) => s | None => i end.
Definition in_cur (cur : option (Z * Z)) (k : Z) : Prop := match cur with Some (s, l) => s <= k <= l | None => False end.

Lemma iruns_props p : forall n i cur, cur_ok i cur ->
  sep_sorted (iruns p n i cur) /\
  (forall y, In y (iruns p n i cur) -> cur_lo i cur <= fst y /\ snd y < i + Z.of_nat n) /\
  (forall y, In y (iruns p n i cur) -> cur = None -> i <= fst y) /\
  (forall k, cov (iruns p n i cur) k <-> (in_cur cur k \/ (i <= k < i + Z.of_nat n /\ p k = true))).
Proof.
  induction n as [|n IH]; intros i cur Hc.
  - cbn [iruns]. destruct cur as [[s l]|]; cbn [cur_ok cur_lo in_cur] in *.
    + split; [constructor; [cbn [fst snd]; lia|intros ? []|constructor]|]. split; [intros y [E|[]]; subst y; cbn [fst snd]; lia|].
      split; [intros y _ E; discriminate|]. intros k. unfold cov. split.
      * intros [y [[E|[]] Hk]]. subst y. left. exact Hk.
      * intros [Hk|[Hk _]]; [exists (s, l); split; [left; reflexivity|exact Hk]|lia].
    + split; [constructor|]. split; [intros y []|]. split; [intros y []|]. intros k. unfold cov. split; [intros [y [[] _]]|intros [[]|[Hk _]]; lia].
  - cbn [iruns]. destruct (p i) eqn:Ep.
    + set (cur' := match cur with Some (s, _) => Some (s, i) | None => Some (i, i) end).
      assert (cur_ok (i + 1) cur') as Hc' by (unfold cur'; destruct cur as [[s l]|]; cbn [cur_ok] in *; lia).
      destruct (IH (i + 1) cur' Hc') as [H1 [H2 [H3 H4]]].
      split; [exact H1|]. split.
      * intros y Hy. destruct (H2 y Hy) as [A B]. split; [|lia].
        unfold cur' in A. destruct cur as [[s l]|]; cbn [cur_lo] in *; lia.
      * split.
        -- intros y Hy E. subst cur. destruct (H2 y Hy) as [A _]. cbn [cur' cur_lo] in A. exact A.
        -- intros k. rewrite H4. unfold cur'. destruct cur as [[s l]|]; cbn [in_cur cur_ok] in *.
           ++ split; [intros [Hk|[Hk Hp]]|intros [Hk|[Hk Hp]]].
              ** destruct (Z.eq_dec k i) as [->|Hne]; [right; split; [lia|exact Ep]|left; lia].
              ** right. split; [lia|exact Hp].
              ** left. lia.
              ** destruct (Z.eq_dec k i) as [->|Hne]; [left; lia|right; split; [lia|exact Hp]].
           ++ split; [intros [Hk|[Hk Hp]]|intros [[]|[Hk Hp]]].
              ** right. assert (k = i) by lia. subst k. split; [lia|exact Ep].
              ** right. split; [lia|exact Hp].
              ** destruct (Z.eq_dec k i) as [->|Hne]; [left; lia|right; split; [lia|exact Hp]].
    + destruct (IH (i + 1) None I) as [H1 [H2 [H3 H4]]]. cbn [cur_lo in_cur] in *.
      destruct cur as [[s l]|]; cbn [cur_ok cur_lo in_cur] in *.
      * split.
        -- constructor; [cbn [fst snd]; lia| |exact H1]. intros y Hy. specialize (H3 y Hy eq_refl). cbn [fst snd]. lia.
        -- split.
           ++ intros y [E|Hy]; [subst y; cbn [fst snd]; lia|]. destruct (H2 y Hy) as [A B]. lia.
           ++ split; [intros y _ E; discriminate|]. intros k. split.
              ** intros [y [[E|Hy] Hk]]; [subst y; left; exact Hk|].
                 assert (cov (iruns p n (i + 1) None) k) as C by (exists y; split; assumption).
                 apply H4 in C. destruct C as [[]|[Hk' Hp]]. right. split; [lia|exact Hp].
              ** intros [Hk|[Hk Hp]]; [exists (s, l); split; [left; reflexivity|exact Hk]|].
                 assert (k <> i) by (intro; subst k; congruence).
                 assert (cov (iruns p n (i + 1) None) k) as [y [Hy Hky]] by (apply H4; right; split; [lia|exact Hp]).
                 exists y. split; [right; exact Hy|exact Hky].
      * split; [exact H1|]. split; [intros y Hy; destruct (H2 y Hy); lia|]. split; [intros y Hy _; specialize (H3 y Hy eq_refl); lia|].
        intros k. rewrite H4. split; intros [[]|[Hk Hp]]; right; (split; [|exact Hp]); [lia|].
        assert (k <> i) by (intro; subst k; congruence). lia.
Qed.

(** --- relation with the time-level reference ---------------------------------------------------- *)

Section Img.
  Variables (g0 step : Z) (fp : N).
  Definition img (x : ival) : tr := (g0 + fst x * step, g0 + snd x * step).
  Definition pidx (pres : presence) : Z -> bool := fun k => pres (g0 + k * step).

  Lemma raw_runs_idx pres : forall n i cur,
    raw_runs pres (grid n (g0 + i * step) step) (option_map img cur) = map img (iruns (pidx pres) n i cur).
  Proof.
    induction n as [|n IH]; intros i cur; cbn [grid raw_runs iruns].
    - destruct cur as [[s l]|]; reflexivity.
    - replace (g0 + i * step + step) with (g0 + (i + 1) * step) by lia. unfold pidx at 1.
      destruct (pres (g0 + i * step)).
      + rewrite <- IH. f_equal. destruct cur as [[s l]|]; reflexivity.
      + destruct cur as [[s l]|]; cbn [option_map map]; [unfold img at 1; cbn [fst snd]; f_equal|]; apply (IH (i + 1) None).
  Qed.

  (** runs of the grid of [n] points starting at index [i], as index intervals *)
  Lemma runs_of_idx pres n i :
    map (fun r => mkR fp (fst r) (snd r)) (runs step pres (grid n (g0 + i * step) step) None)
    = map (R g0 step fp) (iruns (pidx pres) n i None).
  Proof.
    rewrite runs_raw. pose proof (raw_runs_idx pres n i None) as H. cbn [option_map] in H.
    transitivity (map (fun r : Z * Z => mkR fp (fst r) (snd r))
                   (map (fun r : Z * Z => (fst r, snd r + (step - sec))) (map img (iruns (pidx pres) n i None)))).
    - f_equal. f_equal. exact H.
    - rewrite !map_map. apply map_ext. intros [a b]. reflexivity.
  Qed.
End Img.
