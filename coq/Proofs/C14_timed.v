(** C14 — the timed transition system (Model/KeyLockTimed.v): every timed run projects to a run of the untimed
    system; its sequential cache and the untimed cache always agree; a cached answer keeps its value and expiry
    until a gc finds it expired or stale. *)
From Coq Require Import List ZArith NArith Bool Arith Lia.
From PintV Require Import Model.KeyLock Model.KeyLockCache Model.KeyLockTimed.
From PintV Require Import Proofs.C14_lists Proofs.C14_lts Proofs.C14_refine.
Import ListNotations.

(* ---- projection ----------------------------------------------------------------------------------- *)

Lemma run_app cf s l1 l2 s1 : run cf s l1 = Some s1 -> run cf s (l1 ++ l2) = run cf s1 l2.
Proof.
  revert s. induction l1 as [|a l1 IH]; intros s; cbn [run app].
  - intros H. injection H as <-. reflexivity.
  - destruct (step cf s a) as [s'|]; [apply IH|discriminate].
Qed.

Lemma evicted_keys_eq ms now st : evicted_keys ms now st = gc_evicts ms now st.
Proof. reflexivity. Qed.

(** a timed step performs exactly the untimed actions [untimed] names *)
Lemma tstep_untimed tc ts a ts' :
  tstep tc ts a = Some ts' -> run (t_cf tc) (t_s ts) (untimed tc ts a) = Some (t_s ts').
Proof.
  destruct a; cbn [tstep untimed run]; unfold lift.
  1-5: destruct (step _ _ _) as [s'|]; [|discriminate]; intros H; injection H as <-; reflexivity.
  - destruct (wst (t_s ts) w) as [|[c ck]| |]; try discriminate.
    destruct (step _ _ _) as [s'|]; [|discriminate]. intros H; injection H as <-; reflexivity.
  - destruct (wst (t_s ts) w) as [| |[c ck]|]; try discriminate.
    destruct (step _ _ _) as [s'|]; [|discriminate]. intros H; injection H as <-; reflexivity.
  - destruct (step _ _ _) as [s'|]; [|discriminate]. intros H; injection H as <-; reflexivity.
  - destruct (0 <=? d)%Z; [|discriminate]. intros H; injection H as <-; reflexivity.
Qed.

Lemma trun_projects tc l : forall ts ts', trun tc ts l = Some ts' -> exists l', run (t_cf tc) (t_s ts) l' = Some (t_s ts').
Proof.
  induction l as [|a l IH]; intros ts ts'; cbn [trun].
  - intros H. injection H as <-. exists []. reflexivity.
  - destruct (tstep tc ts a) as [ts1|] eqn:E; [|discriminate]. intros H.
    destruct (IH ts1 ts' H) as [l' Hl']. exists (untimed tc ts a ++ l').
    rewrite (run_app _ _ _ _ _ (tstep_untimed tc ts a ts1 E)). exact Hl'.
Qed.

(** every state the timed system reaches is a state the untimed system reaches *)
Lemma treachable_reachable tc ts : treachable tc ts -> reachable (t_cf tc) (t_s ts).
Proof. intros [l H]. exact (trun_projects tc l tinit ts H). Qed.

(* ---- the two caches agree --------------------------------------------------------------------------- *)

Record TInv (ts : tstate) : Prop := {
  ti_same : same_cache (cache (t_s ts)) (abs_cache (t_c ts));
  ti_unique : keys_unique (t_c ts)
}.

Lemma same_cache_trans a b c : same_cache a b -> same_cache b c -> same_cache a c.
Proof. intros H1 H2 x. rewrite H1. apply H2. Qed.

Lemma same_cache_sym a b : same_cache a b -> same_cache b a.
Proof. intros H x. symmetry. apply H. Qed.

Lemma same_cache_cons k v a b : same_cache a b -> same_cache ((k, v) :: a) ((k, v) :: b).
Proof. intros H x. cbn [lookup]. destruct (Nat.eqb x k); auto. Qed.

Lemma lookup_drop_keys ev l x : lookup x (drop_keys ev l) = if mem x ev then None else lookup x l.
Proof.
  unfold drop_keys. induction l as [|[k v] r IH]; cbn [filter lookup fst]; [destruct (mem x ev); reflexivity|].
  destruct (mem k ev) eqn:M; cbn [negb lookup].
  - rewrite IH. destruct (Nat.eqb_spec x k) as [->|N]; [now rewrite M|reflexivity].
  - destruct (Nat.eqb_spec x k) as [->|N]; [now rewrite M|exact IH].
Qed.

Lemma same_cache_drop ev a b : same_cache a b -> same_cache (drop_keys ev a) (drop_keys ev b).
Proof. intros H x. rewrite !lookup_drop_keys. destruct (mem x ev); auto. Qed.

Lemma tinv_init : TInv tinit.
Proof. split; [intros x; reflexivity|apply keys_unique_empty]. Qed.

Lemma step_cache_other cf s a s' :
  step cf s a = Some s' ->
  match a with ACheck _ | ALock _ | AEnq _ | ATake _ | AReply _ | AUnlock _ => cache s' = cache s | _ => True end.
Proof.
  destruct a; cbn [step]; auto.
  - destruct (phase s c); try discriminate. destruct (mem _ _); [discriminate|]. intros H; injection H as <-; reflexivity.
  - destruct (phase s c) as [|[|ck ts] out|]; try discriminate. intros H; injection H as <-; reflexivity.
  - destruct (Nat.ltb w (pool cf)); [|discriminate]. destruct (wst s w); try discriminate. destruct (queue s); try discriminate.
    intros H; injection H as <-; reflexivity.
  - destruct (wst s w) as [|[c ck]| |]; try discriminate. destruct (lookup ck (cache s)); intros H; injection H as <-; reflexivity.
  - destruct (wst s w) as [| | |[c ck] r]; try discriminate. destruct (phase s c); try discriminate.
    destruct (mem ck outst); [|discriminate]. intros H; injection H as <-; reflexivity.
  - destruct (phase s c) as [|[|] [|]|]; try discriminate. intros H; injection H as <-; reflexivity.
Qed.

Lemma tstep_tinv tc ts a ts' : TInv ts -> tstep tc ts a = Some ts' -> TInv ts'.
Proof.
  intros [S U]. destruct a; cbn [tstep]; unfold lift.
  1-5: destruct (step _ _ _) as [s'|] eqn:E; [|discriminate]; intros H; injection H as <-;
       pose proof (step_cache_other _ _ _ _ E) as K; cbn in K; split; cbn [t_s t_c]; [rewrite K; exact S|exact U].
  - destruct (wst (t_s ts) w) as [|[c ck]| |]; try discriminate.
    destruct (step _ _ _) as [s'|] eqn:E; [|discriminate]. intros H; injection H as <-.
    pose proof (step_cache_other _ _ _ _ E) as K; cbn in K. split; cbn [t_s t_c].
    + rewrite K. eapply same_cache_trans; [exact S|]. apply same_cache_sym. apply get_refines.
    + now apply keys_unique_get.
  - destruct (wst (t_s ts) w) as [| |[c ck]|] eqn:W; try discriminate.
    destruct (step _ _ _) as [s'|] eqn:E; [|discriminate]. intros H; injection H as <-.
    cbn [step] in E. rewrite W in E. destruct r as [v|]; injection E as <-; split; cbn [t_s t_c cache]; auto.
    + apply same_cache_sym. eapply same_cache_trans; [apply set_refines|].
      rewrite Nat2N.id, Nat2Z.id. apply same_cache_cons. now apply same_cache_sym.
    + now apply keys_unique_set.
  - destruct (step _ _ _) as [s'|] eqn:E; [|discriminate]. intros H; injection H as <-.
    cbn [step] in E. injection E as <-. split; cbn [t_s t_c cache].
    + apply same_cache_sym. eapply same_cache_trans; [apply gc_refines_ev; exact U|].
      change (evicted_keys (t_max_stale tc) (t_now ts) (t_c ts)) with (gc_evicts (t_max_stale tc) (t_now ts) (t_c ts)).
      apply same_cache_drop. now apply same_cache_sym.
    + now apply keys_unique_gc.
  - destruct (0 <=? d)%Z; [|discriminate]. intros H; injection H as <-. split; auto.
Qed.

Lemma trun_tinv tc l : forall ts ts', TInv ts -> trun tc ts l = Some ts' -> TInv ts'.
Proof.
  induction l as [|a l IH]; intros ts ts' I; cbn [trun]; [intros H; now injection H as <-|].
  destruct (tstep tc ts a) as [ts1|] eqn:E; [|discriminate]. apply IH. eapply tstep_tinv; eauto.
Qed.

Lemma treachable_tinv tc ts : treachable tc ts -> TInv ts.
Proof. intros [l H]. exact (trun_tinv tc l tinit ts tinv_init H). Qed.

(** the untimed cache is the timed cache with expiry and read instants forgotten *)
Lemma tinv_lookup ts ck : TInv ts ->
  lookup ck (cache (t_s ts)) = option_map (fun e => Z.to_nat (ce_val e)) (centry_find (N.of_nat ck) (cs_entries (t_c ts))).
Proof. intros [S _]. rewrite S. unfold abs_cache. rewrite <- find_lookup, Nat2N.id. reflexivity. Qed.

(** the clock never goes back *)
Lemma tstep_clock tc ts a ts' : tstep tc ts a = Some ts' -> (t_now ts <= t_now ts')%Z.
Proof.
  destruct a; cbn [tstep]; unfold lift.
  1-5: destruct (step _ _ _); [|discriminate]; intros H; injection H as <-; cbn; lia.
  - destruct (wst (t_s ts) w) as [|[c ck]| |]; try discriminate. destruct (step _ _ _); [|discriminate]. intros H; injection H as <-; cbn; lia.
  - destruct (wst (t_s ts) w) as [| |[c ck]|]; try discriminate. destruct (step _ _ _); [|discriminate]. intros H; injection H as <-; cbn; lia.
  - destruct (step _ _ _); [|discriminate]. intros H; injection H as <-; cbn; lia.
  - destruct (0 <=? d)%Z eqn:E; [|discriminate]. apply Z.leb_le in E. intros H; injection H as <-; cbn; lia.
Qed.

(* ---- the lifetime of a cached answer -------------------------------------------------------------- *)

Lemma find_put_same k e l : centry_find k (centry_put k e l) = Some e.
Proof.
  induction l as [|[k' e'] r IH]; cbn [centry_put centry_find]; [now rewrite N.eqb_refl|].
  destruct (N.eqb k k') eqn:E; cbn [centry_find]; [now rewrite N.eqb_refl|]. rewrite E. exact IH.
Qed.

Lemma find_put_other k k' e l : k <> k' -> centry_find k (centry_put k' e l) = centry_find k l.
Proof.
  intros N. induction l as [|[k0 e0] r IH]; cbn [centry_put centry_find].
  - apply N.eqb_neq in N. now rewrite N.
  - destruct (N.eqb_spec k' k0) as [->|N0]; cbn [centry_find].
    + apply N.eqb_neq in N. now rewrite N.
    + destruct (N.eqb k k0); auto.
Qed.

Lemma find_filter_keep (f : N * centry -> bool) k e l :
  centry_find k l = Some e -> f (k, e) = true -> centry_find k (filter f l) = Some e.
Proof.
  induction l as [|[k0 e0] r IH]; cbn [centry_find filter]; [discriminate|].
  destruct (N.eqb_spec k k0) as [->|N].
  - intros H Hf. injection H as ->. rewrite Hf. cbn [centry_find]. now rewrite N.eqb_refl.
  - intros H Hf. destruct (f (k0, e0)); cbn [centry_find]; [|now apply IH].
    apply N.eqb_neq in N. rewrite N. now apply IH.
Qed.

Lemma find_in k e l : centry_find k l = Some e -> In (k, e) l.
Proof.
  induction l as [|[k0 e0] r IH]; cbn [centry_find]; [discriminate|].
  destruct (N.eqb_spec k k0) as [->|N]; [intros H; injection H as ->; now left|intros H; right; auto].
Qed.

Lemma find_filter_drop (f : N * centry -> bool) k e l :
  NoDup (map fst l) -> centry_find k l = Some e -> f (k, e) = false -> centry_find k (filter f l) = None.
Proof.
  intros U H Hf. destruct (centry_find k (filter f l)) as [e'|] eqn:E; [|reflexivity]. exfalso.
  apply find_in in E. apply filter_In in E. destruct E as [Hin Hf']. apply find_in in H.
  assert (e' = e) as ->; [|congruence].
  clear - U Hin H. induction l as [|[k0 e0] r IH]; [destruct H|]. cbn in U. inversion U as [|? ? Hn Hr]; subst.
  destruct Hin as [E1|H1], H as [E2|H2].
  - congruence.
  - injection E1 as -> ->. exfalso. apply Hn. change k with (fst (k, e)). now apply in_map.
  - injection E2 as -> ->. exfalso. apply Hn. change k with (fst (k, e')). now apply in_map.
  - auto.
Qed.

(** what "still fresh" means at a gc: the TTL has not run out and the entry was read less than maxStale ago *)
Lemma evictable_false_iff ms now e :
  evictable ms now e = false <->
  (forall x, ce_expires e = Some x -> (now <= x)%Z) /\ (now - ce_lastget e < ms)%Z.
Proof.
  unfold evictable. rewrite orb_false_iff, Z.leb_gt. destruct (ce_expires e) as [x|].
  - rewrite Z.ltb_ge. split.
    + intros [H1 H2]. split; auto. intros y E. injection E as <-. exact H1.
    + intros [H1 H2]. split; auto.
  - split; intros [_ H]; split; auto. intros x E. discriminate.
Qed.

(** One step of the timed system and a cached answer: it keeps its value and its expiry (a hit only refreshes the
    last-read instant) - unless the step is a gc that finds it expired or stale, which removes it. *)
Lemma cached_entry_step tc ts a ts' k e :
  side_cond (t_cf tc) -> Inv (t_cf tc) (t_s ts) -> TInv ts ->
  centry_find k (cs_entries (t_c ts)) = Some e -> tstep tc ts a = Some ts' ->
  (exists e', centry_find k (cs_entries (t_c ts')) = Some e' /\ ce_val e' = ce_val e /\ ce_expires e' = ce_expires e /\
              (ce_lastget e' = ce_lastget e \/ ce_lastget e' = t_now ts)) \/
  (a = TGc /\ evictable (t_max_stale tc) (t_now ts) e = true /\ centry_find k (cs_entries (t_c ts')) = None).
Proof.
  intros SC I TI F. assert (Same : exists e', centry_find k (cs_entries (t_c ts)) = Some e' /\ ce_val e' = ce_val e /\
     ce_expires e' = ce_expires e /\ (ce_lastget e' = ce_lastget e \/ ce_lastget e' = t_now ts)) by (exists e; auto).
  destruct a; cbn [tstep]; unfold lift.
  1-5: destruct (step _ _ _) as [s'|]; [|discriminate]; intros H; injection H as <-; left; exact Same.
  - destruct (wst (t_s ts) w) as [|[c ck]| |]; try discriminate.
    destruct (step _ _ _) as [s'|]; [|discriminate]. intros H; injection H as <-. left. cbn [t_c].
    unfold cache_get. destruct (centry_find (N.of_nat ck) (cs_entries (t_c ts))) as [e0|] eqn:F0; cbn [snd cs_entries]; [|exact Same].
    destruct (N.eq_dec k (N.of_nat ck)) as [->|N].
    + rewrite find_put_same. rewrite F in F0. injection F0 as <-. eexists. split; [reflexivity|]. cbn. auto.
    + rewrite find_put_other by exact N. exact Same.
  - destruct (wst (t_s ts) w) as [| |[c ck]|] eqn:W; try discriminate.
    destruct (step _ _ _) as [s'|]; [|discriminate]. intros H; injection H as <-. left. cbn [t_c].
    destruct r as [v|]; [|exact Same]. unfold cache_set. cbn [cs_entries].
    destruct (N.eq_dec k (N.of_nat ck)) as [->|N]; [|rewrite find_put_other by exact N; exact Same].
    exfalso. pose proof (i_running_miss _ _ I w c ck W) as M. rewrite (tinv_lookup ts ck TI), F in M. discriminate.
  - destruct (step _ _ _) as [s'|]; [|discriminate]. intros H; injection H as <-. cbn [t_c]. unfold cache_gc. cbn [cs_entries].
    destruct (evictable (t_max_stale tc) (t_now ts) e) eqn:Ev.
    + right. repeat split; auto. apply (find_filter_drop _ k e); [apply (ti_unique _ TI)|exact F|]. cbn. now rewrite Ev.
    + left. exists e. split; [|auto]. apply find_filter_keep; [exact F|]. cbn. now rewrite Ev.
  - destruct (0 <=? d)%Z; [|discriminate]. intros H; injection H as <-. left. exact Same.
Qed.

(** ... and while it is cached, a worker that looks it up answers from the cache: no request is made *)
Lemma cached_entry_hit tc ts w c k e :
  TInv ts -> centry_find k (cs_entries (t_c ts)) = Some e -> wst (t_s ts) w = WTaken (c, N.to_nat k) ->
  exists ts', tstep tc ts (TCheck w) = Some ts' /\ wst (t_s ts') w = WReply (c, N.to_nat k) (ROk (Z.to_nat (ce_val e))).
Proof.
  intros TI F W. cbn [tstep step]. rewrite W.
  rewrite (tinv_lookup ts (N.to_nat k) TI), N2Nat.id, F. cbn [option_map].
  eexists. split; [reflexivity|]. cbn [t_s wst]. unfold upd. now rewrite Nat.eqb_refl.
Qed.

(** a successful request stores its answer with the TTL of its cache key, counted from now *)
Lemma stored_entry tc ts w c ck v ts' :
  wst (t_s ts) w = WRunning (c, ck) -> tstep tc ts (TEnd w (ROk v)) = Some ts' ->
  centry_find (N.of_nat ck) (cs_entries (t_c ts')) =
  Some (mk_centry (Z.of_nat v) (if (0 <? t_ttl tc ck)%Z then Some (t_now ts + t_ttl tc ck)%Z else None) (t_now ts)).
Proof.
  intros W. cbn [tstep]. rewrite W. destruct (step _ _ _) as [s'|]; [|discriminate]. intros H; injection H as <-.
  cbn [t_c]. unfold cache_set. cbn [cs_entries]. apply find_put_same.
Qed.
