(** C12: a join verdict of [can_join] that rests on a label the "many" side must have is sound:
    no series consistent with the flagged source can match, hence the flagged operand contributes nothing. *)
From Coq Require Import List String Bool Floats NArith Arith Lia.
From PintV Require Import Common.Bytes Gen.C04 Model.PromQL Model.Source Model.PromSem Model.PromFrag
  Proofs.C04_lists Proofs.C04_transfer Proofs.C04_walk Proofs.C04_sound Proofs.C04_calls Proofs.C04_binops Proofs.C04_main
  Proofs.C12_musthave.
Import ListNotations.
Open Scope string_scope.
Open Scope list_scope.

(** the source pint passes to canJoin, up to fields canJoin does not read *)
Definition join_view (vm : vmatch) (s0 : source) : source :=
  match vm_card vm with
  | OneToOne => one_to_one_labels vm s0
  | ManyToMany => mtm_labels vm s0
  | _ => group_labels vm s0
  end.

Lemma find_ext {A} (f g : A -> bool) l : (forall x, f x = g x) -> find f l = find g l.
Proof. intros H. induction l as [|x r IH]; simpl; auto. rewrite H, IH. reflexivity. Qed.

Lemma can_join_same_perm s s' rs vm : same_perm s s' -> can_join s rs vm = can_join s' rs vm.
Proof.
  intros Hs. unfold can_join. destruct Hs as [H1 [H2 [H3 H4]]].
  assert (Hc : forall n, can_have_label s n = can_have_label s' n).
  { intros n. apply same_perm_can_have. repeat split; auto. }
  rewrite H3. destruct (vm_on vm && _); auto. destruct (vm_on vm).
  - apply find_ext. intros x. rewrite Hc. reflexivity.
  - apply find_ext. intros x. rewrite Hc. reflexivity.
Qed.

Lemma forallb_false_of {A} (f : A -> bool) l x : In x l -> f x = false -> forallb f l = false.
Proof.
  intros Hin Hf. destruct (forallb f l) eqn:E; auto. rewrite forallb_forall in E. rewrite (E x Hin) in Hf. discriminate.
Qed.

Lemma has_in_dom ls n : has ls n = true -> In n (dom ls).
Proof.
  intros H. destruct (in_dec string_dec n (dom ls)) as [Hin|Hn]; auto.
  apply has_get in H. rewrite (get_notin_dom ls n Hn) in H. congruence.
Qed.

(** the heart of C12's join clause *)
Lemma can_join_no_match vm s rs n m o :
  can_join s rs vm = Some n ->
  (vm_on vm = true \/ n <> metric_name) ->
  has m n = true -> Cons rs o -> sig_match vm m o = false.
Proof.
  intros Hj Hname Hm HC. unfold can_join in Hj.
  assert (Hne : forall f names, find f names = Some n -> f n = true -> (f n = true -> can_have_label rs n = false) ->
                get m n <> get o n).
  { intros f names _ Hf Hr. specialize (Hr Hf).
    assert (Ho : has o n = false).
    { destruct (has o n) eqn:E; auto. rewrite (HC n E) in Hr. discriminate. }
    apply has_get in Hm. unfold has in Ho. apply negb_false_iff in Ho. apply String.eqb_eq in Ho. congruence. }
  destruct (vm_on vm && match vm_labels vm with [] => true | _ => false end) eqn:E0; [discriminate|].
  unfold sig_match. destruct (vm_on vm) eqn:Eon.
  - pose proof (find_some _ _ Hj) as [Hin Hf].
    apply (forallb_false_of _ _ n Hin). apply String.eqb_neq.
    apply (Hne _ _ Hj Hf). intros H. apply andb_true_iff in H. destruct H as [_ H]. apply negb_true_iff in H. exact H.
  - pose proof (find_some _ _ Hj) as [Hin Hf].
    assert (Hnl : ~ In n (vm_labels vm)).
    { apply andb_true_iff in Hf. destruct Hf as [Hf _]. apply negb_true_iff in Hf. apply mem_str_false. exact Hf. }
    assert (Hnn : n <> metric_name) by (destruct Hname as [H|H]; [discriminate | exact H]).
    apply (forallb_false_of _ _ n).
    + apply filter_In. split.
      * apply in_or_app. left. apply has_in_dom. exact Hm.
      * apply negb_true_iff. apply mem_str_of_notIn. simpl. intros [H|H]; [congruence | tauto].
    + apply String.eqb_neq. apply (Hne _ _ Hj Hf). intros H.
      apply andb_true_iff in H. destruct H as [_ H]. apply andb_true_iff in H. destruct H as [_ H].
      apply negb_true_iff in H. exact H.
Qed.

Lemma filter_none {A} (f : A -> bool) l : (forall x, In x l -> f x = false) -> filter f l = [].
Proof.
  induction l as [|x r IH]; intros H; simpl; auto. rewrite (H x (or_introl eq_refl)). apply IH.
  intros y Hy. apply H. right. exact Hy.
Qed.

Lemma filter_all {A} (f : A -> bool) l : (forall x, In x l -> f x = true) -> filter f l = l.
Proof.
  induction l as [|x r IH]; intros H; simpl; auto. rewrite (H x (or_introl eq_refl)). f_equal. apply IH.
  intros y Hy. apply H. right. exact Hy.
Qed.

Lemma existsb_none {A} (f : A -> bool) l : (forall x, In x l -> f x = false) -> existsb f l = false.
Proof.
  induction l as [|x r IH]; intros H; simpl; auto. rewrite (H x (or_introl eq_refl)). apply IH.
  intros y Hy. apply H. right. exact Hy.
Qed.

Lemma pairs_none vm (many one : list labelset) :
  (forall m o, In m many -> In o one -> sig_match vm m o = false) ->
  flat_map (fun m => map (fun o => (m, o)) (filter (sig_match vm m) one)) many = [].
Proof.
  induction many as [|m r IH]; intros H; simpl; auto.
  rewrite (filter_none (sig_match vm m) one); [|intros o Ho; apply H; [left; reflexivity | exact Ho]].
  simpl. apply IH. intros m' o Hm Ho. apply H; [right; exact Hm | exact Ho].
Qed.

Lemma pairs_nil_one vm (many : list labelset) :
  flat_map (fun m => map (fun o => (m, o)) (filter (sig_match vm m) (@nil labelset))) many = [].
Proof. induction many as [|m r IH]; simpl; auto. Qed.

(** no pair matches => the operation's rule does not see the "one"/right operand: it can be replaced by [] *)
Lemma bin_rule_no_match op rb vm Cl Cr R :
  op <> OOr ->
  (forall m o, In m (match vm_card vm with OneToMany => Cr | _ => Cl end) ->
               In o (match vm_card vm with OneToMany => Cl | _ => Cr end) -> sig_match vm m o = false) ->
  (is_setop op = true -> vm_card vm = ManyToMany) ->
  bin_rule op rb vm Cl Cr R =
  bin_rule op rb vm (match vm_card vm with OneToMany => [] | _ => Cl end)
                    (match vm_card vm with OneToMany => Cr | _ => [] end) R.
Proof.
  intros Hor Hno Hset.
  destruct (is_setop op) eqn:Eset.
  - specialize (Hset eq_refl). rewrite Hset in *.
    destruct op; try discriminate; try congruence; cbn [bin_rule]; f_equal; f_equal; apply filter_ext_in; intros l Hl;
      rewrite (existsb_none (sig_match vm l) Cr); auto.
  - rewrite !(bin_rule_arith op rb vm _ _ R Eset).
    destruct (vm_card vm); cbv zeta; rewrite pairs_none; auto; rewrite pairs_nil_one; reflexivity.
Qed.

Lemma seteq_nil R : seteq_ls R [] = true -> R = [].
Proof.
  unfold seteq_ls. intros H. apply andb_true_iff in H. destruct H as [H _]. destruct R as [|x r]; auto.
  simpl in H. discriminate.
Qed.

Lemma subset_nil R : subset_ls R [] = true -> R = [].
Proof. destruct R as [|x r]; auto. simpl. discriminate. Qed.

Section Join.
  Variables fmod fpow : float -> float -> float.
  Notation walk := (walk_node fmod fpow).
  Variable U : list string.
  Variable db : list labelset.
  Hypothesis Htotal : db_total U db.

  (** every (branch of the many side, branch of the other side) pair is flagged by canJoin on a label the many
      side must have (and that takes part in the matching) *)
  Definition all_flagged (vm : vmatch) (many_e other_e : expr) : Prop :=
    forall s0 rs, In s0 (walk many_e) -> In rs (walk other_e) ->
      exists n, can_join (join_view vm s0) rs vm = Some n /\ must_have U many_e n = true /\
                (vm_on vm = true \/ n <> metric_name).

  Lemma flagged_no_match vm many_e other_e Cm Co :
    wf many_e = true -> wf other_e = true ->
    Sem db many_e (RVec Cm) -> Sem db other_e (RVec Co) ->
    all_flagged vm many_e other_e ->
    forall m o, In m Cm -> In o Co -> sig_match vm m o = false.
  Proof.
    intros Hwm Hwo HSm HSo Hf m o Hm Ho.
    destruct (walk_sound fmod fpow db other_e Hwo _ HSo) as [_ O2]. destruct (O2 o Ho) as [rs [Hrs HC]].
    pose proof (walk_nonempty fmod fpow many_e Hwm) as Hne.
    destruct (walk many_e) as [|s0 rest] eqn:Ew; [congruence|].
    destruct (Hf s0 rs) as [n [Hj [Hmh Hname]]]; [rewrite Ew; left; reflexivity | exact Hrs|].
    destruct (must_have_sound U db Htotal many_e n Hmh _ HSm) as [_ M2].
    eapply can_join_no_match; [exact Hj | exact Hname | apply M2; exact Hm | exact HC].
  Qed.

  (** C12, join clause: when pint flags every join of the operation (on labels the many side must have), the
      flagged operand contributes nothing: the rule of the operation admits R with that operand replaced by
      the empty vector. *)
  Theorem join_contributes_nothing op rb vm l r Cl Cr R :
    wf (EBin op rb (Some vm) l r) = true -> op <> OOr ->
    Sem db l (RVec Cl) -> Sem db r (RVec Cr) ->
    (match vm_card vm with OneToMany => all_flagged vm r l | _ => all_flagged vm l r end) ->
    bin_rule op rb vm Cl Cr R = Some true ->
    bin_rule op rb vm (match vm_card vm with OneToMany => [] | _ => Cl end)
                      (match vm_card vm with OneToMany => Cr | _ => [] end) R = Some true.
  Proof.
    intros Hwf Hor HSl HSr Hfl Hrule.
    cbn [wf] in Hwf. apply andb_true_iff in Hwf. destruct Hwf as [Hwf Hwr]. apply andb_true_iff in Hwf. destruct Hwf as [Hwv Hwl].
    rewrite <- (bin_rule_no_match op rb vm Cl Cr R Hor); auto.
    - destruct (vm_card vm); intros m o Hm Ho.
      + apply (flagged_no_match vm l r Cl Cr); auto.
      + apply (flagged_no_match vm l r Cl Cr); auto.
      + apply (flagged_no_match vm r l Cr Cl); auto.
      + apply (flagged_no_match vm l r Cl Cr); auto.
    - intros Hs. unfold wf_vm in Hwv. rewrite Hs in Hwv. destruct (vm_card vm); simpl in Hwv; congruence.
  Qed.

  (** ... and for everything but [unless] the operation returns no series at all. *)
  Theorem join_returns_nothing op rb vm l r Cl Cr R :
    wf (EBin op rb (Some vm) l r) = true -> op <> OOr -> op <> OUnless ->
    Sem db l (RVec Cl) -> Sem db r (RVec Cr) ->
    (match vm_card vm with OneToMany => all_flagged vm r l | _ => all_flagged vm l r end) ->
    bin_rule op rb vm Cl Cr R = Some true -> R = [].
  Proof.
    intros Hwf Hor Hun HSl HSr Hfl Hrule.
    pose proof (join_contributes_nothing op rb vm l r Cl Cr R Hwf Hor HSl HSr Hfl Hrule) as H.
    destruct (is_setop op) eqn:Eset.
    - destruct op; try discriminate; try congruence. cbn [bin_rule] in H. apply Some_true_inj in H.
      cbn [wf] in Hwf. apply andb_true_iff in Hwf. destruct Hwf as [Hwf _]. apply andb_true_iff in Hwf. destruct Hwf as [Hwv _].
      unfold wf_vm in Hwv. simpl in Hwv. destruct (vm_card vm); try discriminate.
      rewrite (filter_none _ Cl) in H; [apply seteq_nil; exact H | intros x _; reflexivity].
    - rewrite (bin_rule_arith op rb vm _ _ R Eset) in H.
      destruct (vm_card vm); cbv zeta in H; rewrite pairs_nil_one in H; apply Some_true_inj in H;
        apply andb_true_iff in H; destruct H as [H _]; apply subset_nil; exact H.
  Qed.

  (** connection with the analyser's output: the join entries a node appends are [mark_join] verdicts *)
  Lemma mark_join_same_perm s s' rs vm : same_perm s s' -> mark_join s rs vm = mark_join s' rs vm.
  Proof. intros H. unfold mark_join. rewrite (can_join_same_perm s s' rs vm H). reflexivity. Qed.

  Lemma add_joins_spec vm others : forall s,
    s_joins (add_joins vm others s) = s_joins s ++ map (fun rs => mark_join s rs vm) others.
  Proof.
    unfold add_joins. induction others as [|o r IH]; intros s; simpl; [rewrite app_nil_r; reflexivity|].
    rewrite IH. cbn [s_joins set_joins]. rewrite <- app_assoc. reflexivity.
  Qed.

  Lemma mark_join_dead s rs vm : s_dead rs = false ->
    s_dead (mark_join s rs vm) = match can_join s rs vm with Some _ => true | None => false end.
  Proof. intros H. unfold mark_join. destruct (can_join s rs vm); [reflexivity | exact H]. Qed.
End Join.
