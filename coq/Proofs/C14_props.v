(** C14 — consequences of the invariant: the property-level statements. *)
From Coq Require Import List Arith Bool Lia Permutation.
From PintV Require Import Model.KeyLock Proofs.C14_lists Proofs.C14_lts.
Import ListNotations.

Lemma map_flat_map {A B C} (g : B -> C) (f : A -> list B) l :
  map g (flat_map f l) = flat_map (fun x => map g (f x)) l.
Proof. induction l; cbn; [reflexivity|]. rewrite map_app. congruence. Qed.

Lemma inflight_bound_any cf s : length (inflight cf s) <= pool cf.
Proof.
  unfold inflight. etransitivity; [apply length_flat_map_le | rewrite seq_length; reflexivity].
  intros w. destruct (wst s w) as [| |[c ck]|]; cbn; lia.
Qed.

Lemma inflight_sublist cf s : sublist (inflight cf s) (map snd (insys cf s)).
Proof.
  rewrite insys_wl, map_app. unfold wl. rewrite map_flat_map.
  replace (inflight cf s) with ([] ++ inflight cf s) by reflexivity.
  apply sublist_app; [apply sublist_nil|]. unfold inflight. apply sublist_flat_map.
  intros w. destruct (wst s w) as [|[c ck]|[c ck]|[c ck] r]; cbn;
    [apply sublist_nil | apply sublist_nil | apply sublist_refl | apply sublist_nil].
Qed.

Lemma insys_ck_nodup cf s : side_cond cf -> Inv cf s -> NoDup (map snd (insys cf s)).
Proof.
  intros SC I. apply NoDup_map_inj_on; [apply (i_jobs_nodup _ _ I)|].
  intros [c ck] [c' ck'] H1 H2 E. cbn in E. subst ck'. f_equal. eapply same_ck_same_job; eauto.
Qed.

Lemma inflight_nodup cf s : side_cond cf -> Inv cf s -> NoDup (inflight cf s).
Proof. intros SC I. eapply sublist_NoDup; [apply inflight_sublist | apply insys_ck_nodup; auto]. Qed.

(** * Cache lifetime: runs without eviction *)

Record Inv2 (s : state) : Prop := {
  i_delivered : forall c ck v, In (c, ck, ROk v) (delivered s) -> In (ck, v) (served s);
  i_reply : forall w j v, wst s w = WReply j (ROk v) -> In (snd j, v) (served s)
}.

Lemma inv2_init : Inv2 init.
Proof. constructor; cbn; [tauto | discriminate]. Qed.

Lemma step_inv2 cf s a s' :
  is_gc a = false -> Inv cf s -> Inv2 s -> step cf s a = Some s' -> Inv2 s'.
Proof.
  intros G I J H. destruct a as [c|c|w|w|w r|w|c|ev]; try discriminate G; clear G.
  - cbn in H. destruct (phase s c); try discriminate. destruct (mem _ _); [discriminate|]. injection H as <-.
    constructor; cbn; apply J.
  - cbn in H. destruct (phase s c) as [|[|ck ts] out|]; try discriminate. injection H as <-.
    constructor; cbn; apply J.
  - unfold step in H. destruct (Nat.ltb w (pool cf)); [|discriminate].
    destruct (wst s w) eqn:W; try discriminate. destruct (queue s); [discriminate|]. injection H as <-.
    constructor; cbn; [apply J|]. intros w0 j0 v. unfold upd. destruct (Nat.eqb_spec w0 w); [discriminate | apply J].
  - cbn in H. destruct (wst s w) as [|[c ck]| |] eqn:W; try discriminate.
    destruct (lookup ck (cache s)) as [v|] eqn:LK; injection H as <-.
    + constructor; cbn; [apply J|]. intros w0 j0 v0. unfold upd. destruct (Nat.eqb_spec w0 w); [|apply J].
      intros [= <- <-]. cbn. rewrite <- (i_served _ _ I). apply lookup_In. exact LK.
    + constructor; cbn; [apply J|]. intros w0 j0 v0. unfold upd. destruct (Nat.eqb_spec w0 w); [discriminate | apply J].
  - cbn in H. destruct (wst s w) as [| |[c ck]|] eqn:W; try discriminate.
    destruct r as [v|]; injection H as <-.
    + constructor; cbn.
      * intros c0 ck0 v0 Hd. right. apply (i_delivered _ J c0 ck0 v0 Hd).
      * intros w0 j0 v0. unfold upd. destruct (Nat.eqb_spec w0 w).
        -- intros [= <- <-]. left. reflexivity.
        -- intros W0. right. apply (i_reply _ J w0 j0 v0 W0).
    + constructor; cbn; [apply J|]. intros w0 j0 v0. unfold upd. destruct (Nat.eqb_spec w0 w); [discriminate | apply J].
  - cbn in H. destruct (wst s w) as [| | |[c ck] r] eqn:W; try discriminate.
    destruct (phase s c) as [|ts out|]; try discriminate. destruct (mem ck out); [|discriminate]. injection H as <-.
    constructor; cbn.
    + intros c0 ck0 v0 [E|Hd]; [|apply (i_delivered _ J c0 ck0 v0 Hd)].
      injection E as -> -> ->. apply (i_reply _ J w (c0, ck0) v0 W).
    + intros w0 j0 v0. unfold upd. destruct (Nat.eqb_spec w0 w); [discriminate | apply J].
  - cbn in H. destruct (phase s c) as [|[|] [|]|]; try discriminate. injection H as <-.
    constructor; cbn; apply J.
Qed.

Lemma run_inv2 cf (SC : side_cond cf) : forall l s s',
  forallb (fun a => negb (is_gc a)) l = true -> Inv cf s -> Inv2 s -> run cf s l = Some s' -> Inv cf s' /\ Inv2 s'.
Proof.
  induction l as [|a l IH]; cbn; intros s s' G I J H.
  - injection H as <-. split; assumption.
  - apply andb_prop in G. destruct G as [Ga Gl]. apply negb_true_iff in Ga.
    destruct (step cf s a) as [s1|] eqn:E; [|discriminate].
    apply (IH s1 s' Gl); [eapply step_inv; eauto | eapply step_inv2; eauto | exact H].
Qed.

(** * Calls can always complete: nothing is ever stuck holding a key *)

Lemma end_enabled cf s w j r : wst s w = WRunning j -> exists s', step cf s (AEnd w r) = Some s'.
Proof. intros W. destruct j as [c ck]. cbn. rewrite W. destruct r; eauto. Qed.

Lemma check_enabled cf s w j : wst s w = WTaken j -> exists s', step cf s (ACheck w) = Some s'.
Proof. intros W. destruct j as [c ck]. cbn. rewrite W. destruct (lookup ck (cache s)); eauto. Qed.

Lemma reply_enabled cf s w j r : Inv cf s -> wst s w = WReply j r -> exists s', step cf s (AReply w) = Some s'.
Proof.
  intros I W. destruct j as [c ck].
  assert (L : w < pool cf) by (apply (worker_in_pool cf s w I); rewrite W; discriminate).
  destruct (i_jobs_owner _ _ I c ck) as [ts [out [P O]]].
  { apply (worker_job_insys cf s w); [exact L | rewrite W; left; reflexivity]. }
  cbn. rewrite W, P. apply mem_In in O. rewrite O. eauto.
Qed.

Lemma unlock_enabled cf s c : Inv cf s -> phase s c = PCrit [] [] ->
  exists s', step cf s (AUnlock c) = Some s' /\ phase s' c = PDone /\ ~ In (key_of cf c) (held s').
Proof.
  intros I P. cbn. rewrite P. eexists. split; [reflexivity|]. cbn. split; [apply upd_same|].
  apply remove1_NoDup_notin. apply (i_held_nodup _ _ I).
Qed.

(** A call terminates only through its unlock. *)
Lemma done_only_by_unlock cf s a s' c :
  step cf s a = Some s' -> phase s c <> PDone -> phase s' c = PDone -> a = AUnlock c.
Proof.
  intros H N D. destruct a as [c0|c0|w|w|w r|w|c0|ev]; unfold step in H.
  - destruct (phase s c0) eqn:P; try discriminate. destruct (mem _ _); [discriminate|]. injection H as <-. cbn in D.
    unfold upd in D. destruct (Nat.eqb c c0); [discriminate | contradiction].
  - destruct (phase s c0) as [|[|ck ts] out|]; try discriminate. injection H as <-. cbn in D.
    unfold upd in D. destruct (Nat.eqb c c0); [discriminate | contradiction].
  - destruct (Nat.ltb w (pool cf)); [|discriminate]. destruct (wst s w); try discriminate. destruct (queue s); [discriminate|].
    injection H as <-. contradiction.
  - destruct (wst s w) as [|[c1 ck]| |]; try discriminate. destruct (lookup ck (cache s)); injection H as <-; contradiction.
  - destruct (wst s w) as [| |[c1 ck]|]; try discriminate. destruct r; injection H as <-; contradiction.
  - destruct (wst s w) as [| | |[c1 ck] r]; try discriminate. destruct (phase s c1) as [|ts out|]; try discriminate.
    destruct (mem ck out); [|discriminate]. injection H as <-. cbn in D. unfold upd in D.
    destruct (Nat.eqb c c1); [discriminate | contradiction].
  - destruct (phase s c0) as [|[|] [|]|] eqn:P; try discriminate. injection H as <-. cbn in D. unfold upd in D.
    destruct (Nat.eqb_spec c c0) as [->|]; [reflexivity | contradiction].
  - injection H as <-. contradiction.
Qed.

(** The lock discipline alone (no side condition): the held set is duplicate free, it is exactly the set of
    keys of callers inside their critical section, and a key has at most one such caller. *)
Lemma lock_inv_gen cf : forall l s, run cf init l = Some s ->
  NoDup (held s) /\
  (forall k, In k (held s) <-> exists c, crit (phase s c) = true /\ key_of cf c = k) /\
  (forall c c', crit (phase s c) = true -> crit (phase s c') = true -> key_of cf c = key_of cf c' -> c = c').
Proof.
  intros l. induction l as [|a l IH] using rev_ind; intros s R.
    - injection R as <-. cbn. repeat split; try constructor; try tauto; try discriminate.
      intros [c [H _]]. discriminate.
    - assert (exists s0, run cf init l = Some s0 /\ step cf s0 a = Some s) as [s0 [R0 St]].
      { clear IH. revert R. generalize init. induction l as [|b l IHl]; cbn; intros s1 R.
        - destruct (step cf s1 a) eqn:E; [|discriminate]. injection R as <-. eauto.
        - destruct (step cf s1 b); [|discriminate]. apply IHl. exact R. }
      destruct (IH s0 R0) as [H1 [H2 H3]]. clear IH R R0.
      destruct a as [c|c|w|w|w r|w|c|ev]; unfold step in St.
      + destruct (phase s0 c) eqn:P; try discriminate. destruct (mem (key_of cf c) (held s0)) eqn:M; [discriminate|].
        injection St as <-. apply mem_false in M. cbn.
        assert (Hcrit : forall c0, crit (upd (phase s0) c (PCrit (jobs_of cf c) []) c0) = true <-> c0 = c \/ crit (phase s0 c0) = true).
        { intros c0. unfold upd. destruct (Nat.eqb_spec c0 c) as [->|N]; cbn; [tauto|]. split; [auto | intros [X|X]; [congruence | exact X]]. }
        assert (Hfree : forall c0, crit (phase s0 c0) = true -> key_of cf c0 = key_of cf c -> False).
        { intros c0 Hc Hk. apply M. apply H2. exists c0. auto. }
        repeat split.
        * constructor; assumption.
        * intros [<-|Hk]; [exists c; split; [apply Hcrit; auto | reflexivity]|].
          apply H2 in Hk. destruct Hk as [c0 [Hc Hk]]. exists c0. split; [apply Hcrit; auto | exact Hk].
        * intros [c0 [Hc Hk]]. apply Hcrit in Hc. destruct Hc as [->|Hc]; [left; exact Hk|]. right. apply H2. eauto.
        * intros c1 c2 X1 X2 E. apply Hcrit in X1. apply Hcrit in X2.
          destruct X1 as [->|X1], X2 as [->|X2]; auto; exfalso; eapply Hfree; eauto.
      + destruct (phase s0 c) as [|[|ck ts] out|] eqn:P; try discriminate. injection St as <-. cbn.
        assert (Hcrit : forall c0, crit (upd (phase s0) c (PCrit ts (ck :: out)) c0) = crit (phase s0 c0)).
        { intros c0. unfold upd. destruct (Nat.eqb_spec c0 c) as [->|N]; [rewrite P; reflexivity | reflexivity]. }
        repeat split; [exact H1 | | |].
        * intros Hk. apply H2 in Hk. destruct Hk as [c0 [Hc Hk]]. exists c0. rewrite Hcrit. auto.
        * intros [c0 [Hc Hk]]. rewrite Hcrit in Hc. apply H2. eauto.
        * intros c1 c2. rewrite !Hcrit. apply H3.
      + destruct (Nat.ltb w (pool cf)); [|discriminate]. destruct (wst s0 w); try discriminate.
        destruct (queue s0); [discriminate|]. injection St as <-. cbn. auto.
      + destruct (wst s0 w) as [|[c ck]| |]; try discriminate. destruct (lookup ck (cache s0)); injection St as <-; cbn; auto.
      + destruct (wst s0 w) as [| |[c ck]|]; try discriminate. destruct r; injection St as <-; cbn; auto.
      + destruct (wst s0 w) as [| | |[c ck] r]; try discriminate. destruct (phase s0 c) as [|ts out|] eqn:P; try discriminate.
        destruct (mem ck out); [|discriminate]. injection St as <-. cbn.
        assert (Hcrit : forall c0, crit (upd (phase s0) c (PCrit ts (remove1 ck out)) c0) = crit (phase s0 c0)).
        { intros c0. unfold upd. destruct (Nat.eqb_spec c0 c) as [->|N]; [rewrite P; reflexivity | reflexivity]. }
        repeat split; [exact H1 | | |].
        * intros Hk. apply H2 in Hk. destruct Hk as [c0 [Hc Hk]]. exists c0. rewrite Hcrit. auto.
        * intros [c0 [Hc Hk]]. rewrite Hcrit in Hc. apply H2. eauto.
        * intros c1 c2. rewrite !Hcrit. apply H3.
      + destruct (phase s0 c) as [|[|] [|]|] eqn:P; try discriminate. injection St as <-. cbn.
        assert (Hcrit : forall c0, crit (upd (phase s0) c PDone c0) = true <-> c0 <> c /\ crit (phase s0 c0) = true).
        { intros c0. unfold upd. destruct (Nat.eqb_spec c0 c) as [->|N]; cbn; [split; [discriminate | tauto] | tauto]. }
        assert (Hc : crit (phase s0 c) = true) by (rewrite P; reflexivity).
        repeat split.
        * apply remove1_NoDup. exact H1.
        * intros Hk. assert (Hk' := remove1_In _ _ _ Hk). apply H2 in Hk'. destruct Hk' as [c0 [Hc0 Hk0]].
          exists c0. split; [|exact Hk0]. apply Hcrit. split; [|exact Hc0]. intros ->. subst k.
          apply (remove1_NoDup_notin (key_of cf c) (held s0) H1). exact Hk.
        * intros [c0 [Hc0 Hk0]]. apply Hcrit in Hc0. destruct Hc0 as [N Hc0]. apply remove1_In_neq.
          -- apply H2. eauto.
          -- intros E. apply N. apply H3; auto. congruence.
        * intros c1 c2 X1 X2. apply Hcrit in X1. apply Hcrit in X2. apply H3; tauto.
      + injection St as <-. cbn. auto.
Qed.
