(** C12: on the syntactic complement of known finding K3 ([k3_free]) the analyser's OWN "can have label" implies the
    verified [must_have] (under db_total: every series of every result carries the label).  Hence for joins without
    on()/group labels whose driving side is [k3_free], the guard [must_have] of [C12_join_partial] follows from the very
    condition under which canJoin flags the join. *)
From Coq Require Import List String Bool Floats NArith Arith Lia.
From PintV Require Import Common.Bytes Gen.C04 Model.PromQL Model.Source Model.PromSem Model.PromFrag Model.PromAlways
  Proofs.C04_lists Proofs.C04_transfer Proofs.C04_walk Proofs.C04_sound Proofs.C04_calls Proofs.C04_binops Proofs.C04_main
  Proofs.C12_musthave Proofs.C12_join Proofs.C12_flag.
Import ListNotations.
Open Scope string_scope.
Open Scope list_scope.

(** IncludedLabels and GuaranteedLabels stay duplicate-free (needed because removeFromSlice removes ONE occurrence) *)
Definition nd2 (s : source) : Prop := NoDup (s_included s) /\ NoDup (s_guaranteed s).

Lemma nd2_lists s s' : s_included s = s_included s' -> s_guaranteed s = s_guaranteed s' -> nd2 s' -> nd2 s.
Proof. intros H2 H3 [A B]. unfold nd2. rewrite H2, H3. split; assumption. Qed.

Lemma nd2_spr s s' : spr s s' -> nd2 s' -> nd2 s.
Proof. intros [[_ [H2 [H3 _]]] _]. apply nd2_lists; assumption. Qed.

Lemma nd2_exclude s ns : nd2 s -> nd2 (exclude_label s ns).
Proof.
  intros [A B]. split; cbn [exclude_label s_included s_guaranteed set_included set_guaranteed set_excluded];
    apply NoDup_remove_from; assumption.
Qed.

Lemma nd2_guarantee s ns : nd2 s -> nd2 (guarantee_label s ns).
Proof.
  intros [A B]. split; cbn [guarantee_label s_included s_guaranteed set_guaranteed set_excluded];
    [exact A | apply NoDup_append_to; exact B].
Qed.

Lemma nd2_mi_fold G it : forall s, nd2 s -> nd2 (fold_left (mi_step G) it s).
Proof.
  induction it as [|n r IH]; intros s H; simpl; [exact H|]. apply IH. unfold mi_step.
  destruct (mem_str n (s_excluded s)); [exact H|]. destruct H as [A B].
  split; cbn [s_included s_guaranteed set_included]; [apply NoDup_append_to; exact A | exact B].
Qed.

Lemma nd2_maybe_include s ns : nd2 s -> nd2 (maybe_include_label s ns).
Proof. rewrite maybe_include_unfold. apply nd2_mi_fold. Qed.

Lemma nd2_restrict s g : nd2 s -> nd2 (restrict_included (restrict_guaranteed s g) g).
Proof.
  intros [A B]. split; cbn [restrict_included restrict_guaranteed s_included s_guaranteed set_included set_guaranteed];
    apply NoDup_remove_from; assumption.
Qed.

Lemma nd2_fold_exclude names : forall s, nd2 s -> nd2 (fold_left (fun s name => exclude_label s [name]) names s).
Proof. induction names as [|n r IH]; intros s H; simpl; auto. apply IH. apply nd2_exclude; auto. Qed.

Lemma nd2_parse_aggregation1 s w g : nd2 s -> nd2 (parse_aggregation1 s w g).
Proof.
  intros H. unfold parse_aggregation1. destruct w.
  - eapply nd2_lists; [| |apply (nd2_exclude s g H)]; reflexivity.
  - destruct g as [|g0 gr].
    + split; constructor.
    + eapply nd2_lists; [| |apply (nd2_restrict (if negb (s_fixed s) then maybe_include_label s (g0 :: gr) else s) (g0 :: gr))];
        try reflexivity.
      destruct (negb (s_fixed s)); [apply nd2_maybe_include|]; exact H.
Qed.

Lemma nd2_exclude_metric_name s w g : nd2 s -> nd2 (exclude_metric_name s w g).
Proof. intros H. unfold exclude_metric_name. destruct (_ && _); [exact H | apply nd2_exclude; exact H]. Qed.

(** ** what a label the result of an aggregation can have says about the operand *)

Lemma can_have_exclude_inv s ns l :
  can_have_label (exclude_label s ns) l = true -> can_have_label s l = true /\ ~ In l ns.
Proof.
  intros H. apply can_have_iff in H. destruct H as [He Hr].
  cbn [exclude_label s_excluded s_included s_guaranteed s_fixed set_excluded set_included set_guaranteed] in He, Hr.
  rewrite In_append_to in He. split; [|tauto].
  apply can_have_iff. split; [tauto|].
  destruct Hr as [Hr|[Hr|Hr]]; [left; eapply In_remove_from; eauto | right; left; eapply In_remove_from; eauto | right; right; exact Hr].
Qed.

Lemma restrict_included_inv s g l :
  NoDup (s_included s) -> In l (s_included (restrict_included s g)) -> In l (s_included s) /\ In l g.
Proof.
  intros Hnd H. cbn [restrict_included s_included set_included] in H.
  assert (Hin : In l (s_included s)) by (eapply In_remove_from; eauto).
  split; [exact Hin|].
  destruct (in_dec string_dec l g) as [Hg|Hg]; [exact Hg|]. exfalso.
  revert H. apply notIn_remove_from; [exact Hnd|]. apply filter_In. split; [exact Hin|].
  rewrite (mem_str_of_notIn _ _ Hg). reflexivity.
Qed.

Lemma restrict_guaranteed_inv s g l :
  NoDup (s_guaranteed s) -> In l (s_guaranteed (restrict_guaranteed s g)) -> In l (s_guaranteed s) /\ In l g.
Proof.
  intros Hnd H. cbn [restrict_guaranteed s_guaranteed set_guaranteed] in H.
  assert (Hin : In l (s_guaranteed s)) by (eapply In_remove_from; eauto).
  split; [exact Hin|].
  destruct (in_dec string_dec l g) as [Hg|Hg]; [exact Hg|]. exfalso.
  revert H. apply notIn_remove_from; [exact Hnd|]. apply filter_In. split; [exact Hin|].
  rewrite (mem_str_of_notIn _ _ Hg). reflexivity.
Qed.

Lemma mi_fold_included_inv G it l : forall s,
  In l (s_included (fold_left (mi_step G) it s)) -> In l (s_included s) \/ In l G.
Proof.
  induction it as [|n r IH]; intros s H; simpl in H; [tauto|].
  apply IH in H. destruct H as [H|H]; [|tauto]. unfold mi_step in H.
  destruct (mem_str n (s_excluded s)); [tauto|]. cbn [s_included set_included] in H. apply In_append_to in H. exact H.
Qed.

(** by(G) / without(G): a label the aggregated source can have is one the operand can have, and is (not) in G *)
Lemma pa1_can_have_inv s w g l :
  nd2 s -> can_have_label (parse_aggregation1 s w g) l = true ->
  can_have_label s l = true /\ (if w then ~ In l g else In l g).
Proof.
  intros [NI NG] H. unfold parse_aggregation1 in H. destruct w.
  - rewrite (same_perm_can_have _ (exclude_label s g)) in H; [|repeat split]. apply can_have_exclude_inv. exact H.
  - destruct g as [|g0 gr].
    + apply can_have_iff in H. cbn in H. destruct H as [_ [[]|[[]|H]]]. discriminate.
    + set (G := g0 :: gr) in *. apply can_have_iff in H.
      cbn [s_excluded s_included s_guaranteed s_fixed set_returns set_type set_fixed] in H.
      destruct H as [He Hr]. destruct Hr as [Hr|[Hr|Hr]]; [| |discriminate].
      * (* included *)
        destruct (s_fixed s) eqn:Ef; cbn [negb] in He, Hr.
        -- apply restrict_included_inv in Hr; [|exact NI]. destruct Hr as [Hi Hg]. split; [|exact Hg].
           apply can_have_iff. split; [exact He | left; exact Hi].
        -- destruct (maybe_include_fields s G) as [H1 [H2 [H3 H4]]].
           cbn [restrict_included restrict_guaranteed s_excluded set_included set_guaranteed] in He. rewrite H1 in He.
           apply restrict_included_inv in Hr.
           ++ destruct Hr as [_ Hg]. split; [|exact Hg]. apply can_have_iff. split; [exact He | right; right; exact Ef].
           ++ cbn [restrict_guaranteed s_included set_guaranteed]. apply (nd2_maybe_include s G (conj NI NG)).
      * (* guaranteed *)
        destruct (s_fixed s) eqn:Ef; cbn [negb] in He, Hr.
        -- cbn [restrict_included s_guaranteed set_included] in Hr.
           apply restrict_guaranteed_inv in Hr; [|exact NG]. destruct Hr as [Hi Hg]. split; [|exact Hg].
           apply can_have_iff. split; [exact He | right; left; exact Hi].
        -- destruct (maybe_include_fields s G) as [H1 [H2 [H3 H4]]].
           cbn [restrict_included restrict_guaranteed s_excluded set_included set_guaranteed] in He. rewrite H1 in He.
           cbn [restrict_included s_guaranteed set_included] in Hr.
           apply restrict_guaranteed_inv in Hr; [|rewrite H2; exact NG].
           destruct Hr as [_ Hg]. split; [|exact Hg]. apply can_have_iff. split; [exact He | right; right; exact Ef].
Qed.

Lemma emn_can_have_inv s w g l :
  can_have_label (exclude_metric_name s w g) l = true ->
  can_have_label s l = true /\ (l = metric_name -> w = false /\ In l g).
Proof.
  unfold exclude_metric_name. destruct (negb w && mem_str metric_name g && negb (mem_str metric_name (s_excluded s))) eqn:E.
  - intros H. split; [exact H|]. intros ->. apply andb_true_iff in E. destruct E as [E _]. apply andb_true_iff in E.
    destruct E as [E1 E2]. apply negb_true_iff in E1. apply mem_str_In in E2. auto.
  - intros H. apply can_have_exclude_inv in H. destruct H as [H Hn]. split; [exact H|]. intros ->. simpl in Hn. tauto.
Qed.

Section K3.
  Variables fmod fpow : float -> float -> float.
  Notation walk := (walk_node fmod fpow).
  Variable U : list string.

  Definition K (e : expr) : Prop :=
    k3_free e = true ->
    (forall s, In s (walk e) -> nd2 s /\ isvec s = true) /\
    (forall s l, In s (walk e) -> In l U -> l <> metric_name -> can_have_label s l = true -> must_have U e l = true).

  Lemma nil_src op b e1 e2 s : In s (walk (EBin op b None e1 e2)) ->
    exists ls0 rs0, In ls0 (walk e1) /\ In rs0 (walk e2) /\ s = nil_pair fmod fpow op b ls0 rs0.
  Proof.
    intros Hin. cbn [walk_node] in Hin. unfold binops_nil in Hin. apply in_flat_map in Hin.
    destruct Hin as [ls0 [Hl Hin]]. apply in_map_iff in Hin. destruct Hin as [rs0 [<- Hr]]. eauto.
  Qed.

  Theorem analyser_can_have_must : forall e, K e.
  Proof.
    induction e using expr_ind'; intros Hk; cbn [k3_free] in Hk; try discriminate.
    - (* selector *)
      split.
      + intros s [<-|[]]. fold (sel_src ms). split.
        * unfold sel_src. apply nd2_fold_exclude. apply nd2_guarantee. split; constructor.
        * unfold isvec. rewrite sel_ret. reflexivity.
      + intros s l _ HU _ _. cbn [must_have]. apply mem_str_of_In. exact HU.
    - (* matrix *)
      destruct (IHe Hk) as [I1 I2]. split.
      + intros s Hin. cbn [walk_node] in Hin. apply in_map_iff in Hin. destruct Hin as [s0 [<- H0]].
        destruct (I1 s0 H0) as [A _]. split; [exact A | reflexivity].
      + intros s l Hin HU Hn Hc. cbn [walk_node] in Hin. apply in_map_iff in Hin. destruct Hin as [s0 [<- H0]].
        cbn [must_have]. apply (I2 s0 l H0 HU Hn). rewrite <- (same_perm_can_have _ s0 l (sp_returns s0 VMatrix)). exact Hc.
    - (* subquery *) destruct (IHe Hk) as [I1 I2]. split; cbn [walk_node must_have]; auto.
    - (* paren *) destruct (IHe Hk) as [I1 I2]. split; cbn [walk_node must_have]; auto.
    - (* unary *)
      destruct (IHe Hk) as [I1 I2]. split; cbn [walk_node must_have]; auto.
      intros s l Hin HU Hn Hc. rewrite (I2 s l Hin HU Hn Hc).
      apply String.eqb_neq in Hn. rewrite Hn. destruct b; reflexivity.
    - (* aggregation *)
      assert (Hke : k3_free e = true) by (destruct op; try discriminate; exact Hk).
      destruct (IHe Hke) as [I1 I2].
      destruct op; try discriminate.
      all: try (
        split;
        [ intros s Hin; cbn [walk_node] in Hin; apply in_map_iff in Hin; destruct Hin as [s0 [<- H0]];
          destruct (I1 s0 H0) as [A _]; split;
          [ unfold agg_src; apply nd2_exclude_metric_name;
            eapply nd2_lists; [| |apply (nd2_parse_aggregation1 s0 w g A)]; reflexivity
          | unfold isvec; rewrite agg_src_ret; reflexivity ]
        | intros s l Hin HU Hn Hc; cbn [walk_node] in Hin; apply in_map_iff in Hin; destruct Hin as [s0 [<- H0]];
          destruct (I1 s0 H0) as [A _];
          unfold agg_src in Hc; apply emn_can_have_inv in Hc; destruct Hc as [Hc _];
          rewrite (same_perm_can_have _ (parse_aggregation1 s0 w g)) in Hc; [|apply sp_operation];
          apply (pa1_can_have_inv s0 w g l A) in Hc; destruct Hc as [Hc Hg];
          cbn [must_have]; rewrite (I2 s0 l H0 HU Hn Hc);
          apply String.eqb_neq in Hn; destruct w;
          [ rewrite Hn, (mem_str_of_notIn _ _ Hg); reflexivity
          | rewrite (mem_str_of_In _ _ Hg); reflexivity ] ]).
      + (* topk *)
        split.
        * intros s Hin. cbn [walk_node] in Hin. apply in_map_iff in Hin. destruct Hin as [s0 [<- H0]].
          destruct (I1 s0 H0) as [A B]. split; [exact A | exact B].
        * intros s l Hin HU Hn Hc. cbn [walk_node] in Hin. apply in_map_iff in Hin. destruct Hin as [s0 [<- H0]].
          cbn [must_have]. apply (I2 s0 l H0 HU Hn). exact Hc.
      + (* bottomk *)
        split.
        * intros s Hin. cbn [walk_node] in Hin. apply in_map_iff in Hin. destruct Hin as [s0 [<- H0]].
          destruct (I1 s0 H0) as [A B]. split; [exact A | exact B].
        * intros s l Hin HU Hn Hc. cbn [walk_node] in Hin. apply in_map_iff in Hin. destruct Hin as [s0 [<- H0]].
          cbn [must_have]. apply (I2 s0 l H0 HU Hn). exact Hc.
    - (* vector/scalar binary operation *)
      destruct vm as [vm|]; [discriminate|].
      apply andb_true_iff in Hk. destruct Hk as [Hset Hk]. apply orb_true_iff in Hk.
      assert (Hmh : forall l, must_have U (EBin op b None e1 e2) l =
                              negb (is_setop op) && negb (String.eqb l metric_name) && (must_have U e1 l || must_have U e2 l))
        by reflexivity.
      destruct Hk as [Hk|Hk]; apply andb_true_iff in Hk; destruct Hk as [K1 K2].
      + destruct (IHe1 K1) as [I1 I2]. pose proof (scalar_like_ret fmod fpow e2 K2) as S2.
        assert (Hs : forall s, In s (walk (EBin op b None e1 e2)) -> exists ls0, In ls0 (walk e1) /\ spr s ls0).
        { intros s Hin. destruct (nil_src _ _ _ _ _ Hin) as [ls0 [rs0 [Hl [Hr ->]]]]. exists ls0. split; [exact Hl|].
          destruct (nil_pair_cases fmod fpow op b ls0 rs0) as [H1 _]. apply H1. destruct (I1 ls0 Hl) as [_ Hv]. exact Hv. }
        split.
        * intros s Hin. destruct (Hs s Hin) as [ls0 [Hl Hspr]]. destruct (I1 ls0 Hl) as [A B]. split.
          -- eapply nd2_spr; eauto.
          -- unfold isvec in *. destruct Hspr as [_ Hr]. rewrite Hr. exact B.
        * intros s l Hin HU Hn Hc. destruct (Hs s Hin) as [ls0 [Hl Hspr]].
          rewrite (spr_can_have s ls0 l Hspr) in Hc. rewrite Hmh, Hset, (I2 ls0 l Hl HU Hn Hc).
          apply String.eqb_neq in Hn. rewrite Hn. reflexivity.
      + destruct (IHe2 K2) as [I1 I2]. pose proof (scalar_like_ret fmod fpow e1 K1) as S1.
        assert (Hs : forall s, In s (walk (EBin op b None e1 e2)) -> exists rs0, In rs0 (walk e2) /\ spr s rs0).
        { intros s Hin. destruct (nil_src _ _ _ _ _ Hin) as [ls0 [rs0 [Hl [Hr ->]]]]. exists rs0. split; [exact Hr|].
          destruct (nil_pair_cases fmod fpow op b ls0 rs0) as [_ [H2 _]]. apply H2; [apply (S1 ls0 Hl)|].
          destruct (I1 rs0 Hr) as [_ Hv]. exact Hv. }
        split.
        * intros s Hin. destruct (Hs s Hin) as [rs0 [Hr Hspr]]. destruct (I1 rs0 Hr) as [A B]. split.
          -- eapply nd2_spr; eauto.
          -- unfold isvec in *. destruct Hspr as [_ Hrr]. rewrite Hrr. exact B.
        * intros s l Hin HU Hn Hc. destruct (Hs s Hin) as [rs0 [Hr Hspr]].
          rewrite (spr_can_have s rs0 l Hspr) in Hc. rewrite Hmh, Hset, (I2 rs0 l Hr HU Hn Hc).
          apply String.eqb_neq in Hn. rewrite Hn. cbn [negb andb]. apply orb_true_r.
  Qed.
End K3.

(** the label canJoin names is one the driving side can have *)
Lemma can_join_some_can_have s rs vm n : can_join s rs vm = Some n -> can_have_label s n = true.
Proof.
  unfold can_join. destruct (vm_on vm && _); [discriminate|].
  destruct (vm_on vm); intros H; apply find_some in H; destruct H as [_ H].
  - apply andb_true_iff in H. tauto.
  - apply andb_true_iff in H. destruct H as [_ H]. apply andb_true_iff in H. tauto.
Qed.

(** without on() and without group labels the source handed to canJoin can have no label the branch itself cannot *)
Lemma join_view_can_have vm s0 n :
  vm_on vm = false -> vm_include vm = [] ->
  can_have_label (join_view vm s0) n = true -> can_have_label s0 n = true.
Proof.
  intros Hon Hinc. unfold join_view, one_to_one_labels, mtm_labels, group_labels. rewrite Hon, Hinc.
  destruct (vm_card vm); intros H.
  - apply can_have_exclude_inv in H. tauto.
  - rewrite (same_perm_can_have _ s0) in H; [exact H | repeat split].
  - rewrite (same_perm_can_have _ s0) in H; [exact H | repeat split].
  - exact H.
Qed.
