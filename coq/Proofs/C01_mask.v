(** C01 glue ("mask_id", DESIGN §6 C01): on a file none of whose lines carries a pint control comment the masking
    ContentReader (Model/Reader.v, byte-exact model of internal/parser/read.go, tied to the source by C10's
    correspondence) masks nothing: its output is exactly the file's bytes, it records the file's lines and collects no comment
    and no diagnostic.  Since fix 670b316 the bytes handed to yaml.v3 are that output with every CR LF written as LF
    ([r_yaml], [mask_id_yaml]); yaml treats CR LF and LF as the same single line break, so pint's yaml.v3 and Prometheus'
    yaml.v3 decode the same document: that last step is not proved but re-checked on every case with the real reader and the
    real decoder (Run/C01.v: c_reader_id = the two forests are equal).  One exception is recorded by the harness: CR CR LF is
    two line breaks for yaml and one after the reader dropped a CR. *)
From Coq Require Import List String Ascii NArith ZArith Bool Arith Lia.
From PintV Require Import Common.Bytes Model.CommentsUnicode Model.Comments Model.Reader.
Import ListNotations.
Open Scope string_scope.
Open Scope list_scope.

Fixpoint concat_str (l : list string) : string :=
  match l with
  | [] => EmptyString
  | x :: r => append x (concat_str r)
  end.

Lemma append_assoc_s (a b c : string) : append (append a b) c = append a (append b c).
Proof. induction a as [|x a IH]; cbn; [reflexivity|]. now rewrite IH. Qed.

Lemma append_nil_r (a : string) : append a EmptyString = a.
Proof. induction a as [|x a IH]; cbn; [reflexivity|]. now rewrite IH. Qed.

(** the chunks ReadBytes('\n') returns concatenate to the file *)
Lemma concat_chunks : forall f, concat_str (chunks f) = f.
Proof.
  induction f as [|c r IH]; [reflexivity|]. cbn [chunks].
  destruct (Ascii.eqb c nl).
  - cbn [concat_str append]. now rewrite IH.
  - destruct (chunks r) as [|h t] eqn:E.
    + cbn [concat_str] in *. cbn. now rewrite <- IH.
    + cbn [concat_str append] in *. now rewrite IH.
Qed.

Section Mask.
  Variable tp : string -> option Z.

  (** no line of the file parses to a pint control comment, whatever its line number *)
  Definition comment_free (f : string) : Prop := forall n buf, In buf (chunks f) -> parse tp n buf = [].

  Lemma read_line_plain r buf :
    r_st r = rstate_init -> parse tp (S (r_lineno r)) buf = [] ->
    read_line tp r buf =
    {| r_st := rstate_init; r_out := append (r_out r) buf; r_lines := r_lines r ++ [strip_nl buf];
       r_comments := r_comments r; r_diags := r_diags r; r_lineno := S (r_lineno r) |}.
  Proof.
    intros Hst Hp. unfold read_line. rewrite Hp, Hst. cbn. now rewrite !app_nil_r.
  Qed.

  Lemma reader_chunks_plain : forall bs r,
    r_st r = rstate_init -> (forall n buf, In buf bs -> parse tp n buf = []) ->
    reader_chunks tp bs r =
    {| r_st := rstate_init; r_out := append (r_out r) (concat_str bs); r_lines := r_lines r ++ map strip_nl bs;
       r_comments := r_comments r; r_diags := r_diags r; r_lineno := r_lineno r + List.length bs |}.
  Proof.
    induction bs as [|b bs IH]; intros r Hst Hp.
    - cbn. rewrite append_nil_r, app_nil_r, Nat.add_0_r. destruct r; cbn in *. now subst.
    - cbn [reader_chunks fold_left]. fold (reader_chunks tp bs (read_line tp r b)).
      rewrite (read_line_plain r b Hst (Hp _ b (or_introl eq_refl))).
      rewrite IH; [|reflexivity|intros n buf Hin; apply Hp; right; exact Hin].
      cbn [r_out r_lines r_comments r_diags r_lineno concat_str map List.length].
      rewrite append_assoc_s, <- app_assoc. cbn [app]. f_equal. lia.
  Qed.

  (** mask_id *)
  Theorem mask_id f :
    comment_free f ->
    let r := reader_impl tp f in
    r_out r = f /\ r_lines r = map strip_nl (chunks f) /\ r_comments r = [] /\ r_diags r = [] /\
    r_lineno r = List.length (chunks f).
  Proof.
    intros Hf. cbv zeta. unfold reader_impl. rewrite (reader_chunks_plain (chunks f) rd_init eq_refl Hf).
    cbn [r_out r_lines r_comments r_diags r_lineno rd_init]. rewrite concat_chunks. repeat split.
  Qed.

  (** what the yaml decoder is given since fix 670b316 ([r_yaml] = the masked bytes with every CR LF turned into LF): the
      file with its CR LF line ends written as LF — and the file itself when it has no CR directly before an LF. *)
  Corollary mask_id_yaml f : comment_free f -> r_yaml (reader_impl tp f) = crlf_to_lf f.
  Proof. intros Hf. unfold r_yaml. destruct (mask_id f Hf) as (E & _). cbv zeta in E. now rewrite E. Qed.

  (** ---- a syntactic sufficient condition: no '#' rune anywhere ---- *)
  Definition hash_free (s : string) : Prop :=
    forall i r, In (i, r) (decode_all (s ++ String (ascii_of_N 10) EmptyString)) -> r <> hash.

  Lemma machine_idle : forall l st,
    p_state st = NeedsHash -> p_type st = UnknownType ->
    (forall i r, In (i, r) l -> r <> hash) ->
    p_type (fold_left pstep l st) = UnknownType.
  Proof.
    induction l as [|[i r] l IH]; intros st Hs Ht Hl; [exact Ht|].
    cbn [fold_left]. apply IH.
    - unfold pstep. rewrite Hs. assert (E : (r =? hash)%N = false) by (apply N.eqb_neq; exact (Hl i r (or_introl eq_refl))).
      now rewrite E.
    - unfold pstep. rewrite Hs. assert (E : (r =? hash)%N = false) by (apply N.eqb_neq; exact (Hl i r (or_introl eq_refl))).
      now rewrite E.
    - intros i0 r0 Hin. apply (Hl i0 r0). right. exact Hin.
  Qed.

  Lemma parse_comment_hash_free s line : hash_free s -> parse_comment tp s line = None.
  Proof.
    intros H. unfold parse_comment, run_machine, finish.
    now rewrite (machine_idle _ pinit eq_refl eq_refl H).
  Qed.

  Lemma parse_lines_hash_free : forall ls n, (forall l, In l ls -> hash_free l) -> parse_lines tp n ls = [].
  Proof.
    induction ls as [|l ls IH]; intros n H; [reflexivity|]. cbn [parse_lines].
    rewrite (parse_comment_hash_free l n (H l (or_introl eq_refl))). apply IH. intros l0 Hl0. apply H. right. exact Hl0.
  Qed.

  Corollary mask_id_hash_free f :
    (forall buf l, In buf (chunks f) -> In l (split_nl buf) -> hash_free l) ->
    r_out (reader_impl tp f) = f.
  Proof.
    intros H. apply mask_id. intros n buf Hin. unfold parse. apply parse_lines_hash_free.
    intros l Hl. exact (H buf l Hin Hl).
  Qed.
End Mask.
