(** C06 lemmas, part 6: shift-equivariance of [NewPositionRange] (inserting lines above, prefixing every line —
    what deeper nesting of a rule document does; also used by C19). *)
From Coq Require Import List String Ascii ZArith NArith Bool Lia.
From PintV Require Import Common.Bytes Model.CommentsUnicode Model.Position Model.Layout Proofs.C06_expand Proofs.C06_match.
Import ListNotations.
Local Open Scope Z_scope.
Local Open Scope list_scope.

Lemma add_offset_append k d : forall offs l c,
  append_position (add_offset k d offs) (l + k) (c + d) = add_offset k d (append_position offs l c).
Proof.
  induction offs as [|p r IH]; intros l c.
  - reflexivity.
  - destruct r as [|q r'].
    + cbn [add_offset map append_position pr_line pr_first pr_last].
      replace (pr_line p + k =? l + k) with (pr_line p =? l)
        by (destruct (pr_line p =? l) eqn:E; symmetry; [apply Z.eqb_eq; apply Z.eqb_eq in E|apply Z.eqb_neq; apply Z.eqb_neq in E]; lia).
      replace (pr_last p + d + 1 =? c + d) with (pr_last p + 1 =? c)
        by (destruct (pr_last p + 1 =? c) eqn:E; symmetry; [apply Z.eqb_eq; apply Z.eqb_eq in E|apply Z.eqb_neq; apply Z.eqb_neq in E]; lia).
      destruct ((pr_line p =? l) && (pr_last p + 1 =? c)); reflexivity.
    + change (add_offset k d (p :: q :: r')) with (mkp (pr_line p + k) (pr_first p + d) (pr_last p + d) :: add_offset k d (q :: r')).
      change (append_position (p :: q :: r') l c) with (p :: append_position (q :: r') l c).
      change (add_offset k d (p :: append_position (q :: r') l c))
        with (mkp (pr_line p + k) (pr_first p + d) (pr_last p + d) :: add_offset k d (append_position (q :: r') l c)).
      rewrite <- IH.
      change (add_offset k d (q :: r')) with (mkp (pr_line q + k) (pr_first q + d) (pr_last q + d) :: add_offset k d r').
      reflexivity.
Qed.

Definition shift_res (k d : Z) (r : scan_res) : scan_res :=
  match r with
  | ScanDone o => ScanDone (add_offset k d o)
  | ScanCont n r o => ScanCont n r (add_offset k d o)
  end.

Lemma scan_line_shift k d : forall bytes line col need rest offs,
  scan_line bytes (line + k) (col + d) need rest (add_offset k d offs) =
  shift_res k d (scan_line bytes line col need rest offs).
Proof.
  induction bytes as [|got more IH]; intros line col need rest offs.
  - reflexivity.
  - cbn [scan_line]. destruct (Ascii.eqb need got).
    + rewrite add_offset_append. destruct rest as [|n r]; [reflexivity|].
      replace (col + d + 1) with (col + 1 + d) by lia. apply IH.
    + replace (col + d + 1) with (col + 1 + d) by lia. apply IH.
Qed.

Lemma sdrop_app_plus : forall p m s, sdrop (String.length p + m) (p ++ s) = sdrop m s.
Proof. induction p as [|c p IH]; intros m s; [reflexivity|]. cbn. apply IH. Qed.

Lemma slen_app' a b : slen (a ++ b) = slen a + slen b.
Proof.
  unfold slen. induction a as [|c a IH]; cbn [append String.length]; [lia|].
  rewrite !Nat2Z.inj_succ. lia.
Qed.

Lemma adjust_col_shift p line col need rest col2 :
  adjust_col line col need rest = Some col2 ->
  adjust_col (p ++ line) (col + slen p) need rest = Some (col2 + slen p) /\
  sdrop (Z.to_nat (col2 + slen p - 1)) (p ++ line) = sdrop (Z.to_nat (col2 - 1)) line.
Proof.
  intros H. pose proof (adjust_col_ge1 _ _ _ _ _ H) as Hge.
  unfold adjust_col in *. rewrite slen_app'.
  pose proof (slen_nonneg p) as Hp.
  replace (Z.min (slen p + slen line) (col + slen p)) with (Z.min (slen line) col + slen p) by lia.
  set (c1 := Z.min (slen line) col) in *.
  destruct (c1 <=? 0) eqn:E; [discriminate|]. apply Z.leb_gt in E.
  replace (c1 + slen p <=? 0) with false by (symmetry; apply Z.leb_gt; lia).
  assert (Hd : forall c, 1 <= c -> sdrop (Z.to_nat (c + slen p - 1)) (p ++ line) = sdrop (Z.to_nat (c - 1)) line).
  { intros c Hc. replace (Z.to_nat (c + slen p - 1)) with (String.length p + Z.to_nat (c - 1))%nat by (unfold slen; lia).
    apply sdrop_app_plus. }
  rewrite (Hd c1) by lia.
  set (ls := count_leading_space (sdrop (Z.to_nat (c1 - 1)) line)) in *.
  set (vs := count_leading_space (String need rest)) in *.
  destruct (vs <? ls); injection H as <-.
  - split; [f_equal; lia|]. apply Hd. exact Hge.
  - split; [reflexivity|]. apply Hd. lia.
Qed.

Lemma line_step_shift k p line li col need rest offs r :
  (p = EmptyString \/ line <> EmptyString) ->
  line_step false line li col need rest offs = Some r ->
  line_step false (p ++ line) (li + k) (col + slen p) need rest (add_offset k (slen p) offs) = Some (shift_res k (slen p) r).
Proof.
  intros Hp H. unfold line_step, scan in *. rewrite slen_app'.
  destruct (slen line =? 0) eqn:E.
  - apply Z.eqb_eq in E. assert (line = EmptyString) by (destruct line; [reflexivity|rewrite slen_String in E; pose proof (slen_nonneg line); lia]).
    subst line. destruct Hp as [Hp|Hp]; [|contradiction]. subst p. cbn.
    inversion H; subst. reflexivity.
  - apply Z.eqb_neq in E. pose proof (slen_nonneg p). pose proof (slen_nonneg line).
    replace (slen p + slen line =? 0) with false by (symmetry; apply Z.eqb_neq; lia).
    destruct (adjust_col line col need rest) as [col2|] eqn:Ea; [|discriminate].
    destruct (adjust_col_shift p line col need rest col2 Ea) as [Hs1 Hs2].
    rewrite Hs1, Hs2. inversion H; subst. f_equal. apply scan_line_shift.
Qed.

Lemma add_offset_nil_iff k d offs : add_offset k d offs = [] <-> offs = [].
Proof. destruct offs; cbn; split; intros; congruence. Qed.

Lemma npr_loop_shift k p : forall ls prev prev' li col minCol need rest offs brk o,
  (p = EmptyString \/ Forall (fun l => l <> EmptyString) ls) ->
  (brk = false \/ prev' = prev + slen p) ->
  npr_loop false ls prev li col minCol need rest offs brk = Ok o ->
  npr_loop false (map (fun l => (p ++ l)%string) ls) prev' (li + k) (col + slen p) (minCol + slen p) need rest
           (add_offset k (slen p) offs) brk = Ok (add_offset k (slen p) o).
Proof.
  induction ls as [|line more IH]; intros prev prev' li col minCol need rest offs brk o Hp Hprev H.
  - cbn in *. inversion H; subst. reflexivity.
  - cbn [map npr_loop] in *.
    set (offs1 := if brk then append_position offs (li - 1) (prev + 1) else offs) in *.
    assert (Ho1 : (if brk then append_position (add_offset k (slen p) offs) (li + k - 1) (prev' + 1)
                   else add_offset k (slen p) offs) = add_offset k (slen p) offs1).
    { unfold offs1. destruct brk; [|reflexivity].
      destruct Hprev as [Hx|Hx]; [discriminate|]. subst prev'.
      replace (li + k - 1) with (li - 1 + k) by lia. replace (prev + slen p + 1) with (prev + 1 + slen p) by lia.
      apply add_offset_append. }
    rewrite Ho1.
    destruct (line_step false line li col need rest offs1) as [r|] eqn:Els; [|discriminate].
    assert (Hp1 : p = EmptyString \/ line <> EmptyString).
    { destruct Hp as [Hp|Hp]; [left; exact Hp|right]. inversion Hp; assumption. }
    rewrite (line_step_shift k p line li col need rest offs1 r Hp1 Els).
    destruct r as [o1|n1 r1 o1]; cbn [shift_res].
    + inversion H; subst. reflexivity.
    + destruct (advance n1 r1) as [[n' r']|].
      * rewrite slen_app'. replace (li + k + 1) with (li + 1 + k) by lia.
        apply (IH (slen line) (slen p + slen line) (li + 1) minCol minCol n' r' o1 (is_fold_char n1) o).
        -- destruct Hp as [Hp|Hp]; [left; exact Hp|right]. inversion Hp; assumption.
        -- right. lia.
        -- exact H.
      * inversion H; subst. reflexivity.
Qed.

(** ** The character column of the node's own line under an ASCII prefix *)

Lemma decode_from_ascii' c r i :
  N.ltb (N_of_ascii c) 128 = true ->
  decode_from 0 i (String c r) = (i, N_of_ascii c) :: decode_from 0 (S i) r.
Proof. intros H. cbn [decode_from decode1]. rewrite H. reflexivity. Qed.

Lemma decode_from_index_shift m : forall s sk i,
  map fst (decode_from sk (i + m) s) = map (fun x => (x + m)%nat) (map fst (decode_from sk i s)).
Proof.
  induction s as [|c r IH]; intros sk i; [reflexivity|].
  cbn [decode_from]. destruct sk as [|sk'].
  - destruct (decode1 (String c r)) as [rn w]. cbn [map fst]. f_equal. apply (IH (Nat.pred w) (S i)).
  - apply (IH sk' (S i)).
Qed.

Lemma byte_column_go_map_shift m : forall starts c len,
  byte_column_go (map (fun x => (x + m)%nat) starts) c (len + Z.of_nat m) = byte_column_go starts c len + Z.of_nat m.
Proof.
  induction starts as [|i r IH]; intros c len; cbn [map byte_column_go]; [lia|].
  destruct (c <=? 1); [lia|]. apply IH.
Qed.

Lemma byte_column_go_ascii_prefix : forall p l i c L,
  ascii_only p = true -> 1 <= c ->
  byte_column_go (map fst (decode_from 0 i (p ++ l))) (c + slen p) L =
  byte_column_go (map fst (decode_from 0 (i + String.length p) l)) c L.
Proof.
  induction p as [|a p IH]; intros l i c L Ha Hc.
  - cbn [append String.length]. change (slen "") with 0. rewrite Z.add_0_r, Nat.add_0_r. reflexivity.
  - cbn [ascii_only] in Ha. apply andb_true_iff in Ha. destruct Ha as [Hc1 Ha].
    cbn [append]. rewrite (decode_from_ascii' _ _ _ Hc1). cbn [map fst byte_column_go].
    rewrite slen_String. pose proof (slen_nonneg p).
    replace (c + (slen p + 1) <=? 1) with false by (symmetry; apply Z.leb_gt; lia).
    replace (c + (slen p + 1) - 1) with (c + slen p) by lia.
    rewrite (IH l (S i) c L Ha Hc). cbn [String.length]. replace (S i + String.length p)%nat with (i + S (String.length p))%nat by lia.
    reflexivity.
Qed.

Lemma byte_column_shift p l c :
  ascii_only p = true -> 1 <= c ->
  byte_column (p ++ l) (c + slen p) = byte_column l c + slen p.
Proof.
  intros Ha Hc. unfold byte_column, decode_all.
  rewrite (byte_column_go_ascii_prefix p l 0 c _ Ha Hc).
  rewrite (decode_from_index_shift (String.length p) l 0 0).
  rewrite slen_app'. replace (slen p + slen l) with (slen l + Z.of_nat (String.length p)) by (unfold slen; lia).
  rewrite byte_column_go_map_shift. unfold slen. lia.
Qed.

Lemma skipn_app_plus {A} : forall (pre l : list A) m, skipn (List.length pre + m) (pre ++ l) = skipn m l.
Proof. induction pre as [|x pre IH]; intros l m; [reflexivity|]. cbn. apply IH. Qed.

Lemma skipn_map {A B} (f : A -> B) : forall m l, skipn m (map f l) = map f (skipn m l).
Proof. induction m as [|m IH]; intros l; [reflexivity|]. destruct l; [reflexivity|]. cbn. apply IH. Qed.

Lemma Forall_skipn {A} (P : A -> Prop) : forall m l, Forall P l -> Forall P (skipn m l).
Proof.
  induction m as [|m IH]; intros l H; [exact H|]. destruct l; [constructor|]. cbn. apply IH. inversion H; assumption.
Qed.

(** SHIFT-EQUIVARIANCE. Inserting [pre] lines above and prefixing every line with the ASCII text [p] (with no empty
    line in the table unless [p] is empty: an empty line that becomes blanks is scanned, an empty line is skipped)
    shifts the result by (number of inserted lines, length of the prefix).  Stated for nodes without an anchor
    and with a column >= 1. *)
Theorem npr_shift_lemma : forall pre p lines n minCol pos,
  (p = EmptyString \/ Forall (fun l => l <> EmptyString) lines) ->
  ascii_only p = true -> sn_anchor n = EmptyString -> sn_dq n = false -> 1 <= sn_col n ->
  new_position_range lines n minCol = Ok pos ->
  new_position_range (shift_lines pre p lines) (shift_node (Z.of_nat (List.length pre)) (slen p) n) (minCol + slen p)
  = Ok (add_offset (Z.of_nat (List.length pre)) (slen p) pos).
Proof.
  intros pre p lines n minCol pos Hp Hasc Hanc Hdq Hcol H. unfold new_position_range in *.
  unfold shift_node at 1. cbn [sn_value].
  destruct (sn_value n) as [|need rest]; [inversion H; subst; reflexivity|].
  assert (Hent : forall o, npr_entry lines n minCol need rest = Ok o ->
            npr_entry (shift_lines pre p lines) (shift_node (Z.of_nat (List.length pre)) (slen p) n) (minCol + slen p) need rest
            = Ok (add_offset (Z.of_nat (List.length pre)) (slen p) o)).
  { intros o E. unfold npr_entry in *. unfold shift_node. cbn [sn_block sn_line sn_col sn_anchor sn_dq]. rewrite Hdq in *. unfold shift_lines.
    destruct (sn_block n).
    - destruct (sn_line n + 1 <=? 0) eqn:El; [discriminate|]. apply Z.leb_gt in El.
      replace (sn_line n + Z.of_nat (List.length pre) + 1 <=? 0) with false by (symmetry; apply Z.leb_gt; lia).
      replace (Z.to_nat (sn_line n + Z.of_nat (List.length pre))) with (List.length pre + Z.to_nat (sn_line n))%nat by lia.
      rewrite skipn_app_plus, skipn_map.
      replace (sn_line n + Z.of_nat (List.length pre) + 1) with (sn_line n + 1 + Z.of_nat (List.length pre)) by lia.
      change [] with (add_offset (Z.of_nat (List.length pre)) (slen p) []) at 1.
      apply (npr_loop_shift (Z.of_nat (List.length pre)) p _ 0 0 (sn_line n + 1) minCol minCol need rest [] false o).
      + destruct Hp as [Hp|Hp]; [left; exact Hp|right; apply Forall_skipn; exact Hp].
      + left. reflexivity.
      + exact E.
    - destruct (sn_line n <=? 0) eqn:El; [discriminate|]. apply Z.leb_gt in El.
      replace (sn_line n + Z.of_nat (List.length pre) <=? 0) with false by (symmetry; apply Z.leb_gt; lia).
      replace (Z.to_nat (sn_line n + Z.of_nat (List.length pre) - 1)) with (List.length pre + Z.to_nat (sn_line n - 1))%nat by lia.
      rewrite skipn_app_plus, skipn_map. cbv zeta in E |- *.
      set (ls := skipn (Z.to_nat (sn_line n - 1)) lines) in *.
      assert (Hpl : p = EmptyString \/ Forall (fun l => l <> EmptyString) ls).
      { destruct Hp as [Hp|Hp]; [left; exact Hp|right; apply Forall_skipn; exact Hp]. }
      clearbody ls.
      assert (Hc0 : match map (fun l => (p ++ l)%string) ls with
                    | [] => sn_col n + slen p
                    | l :: _ => if slen l =? 0 then sn_col n + slen p
                                else first_col l (mksn (sn_value n) (sn_line n + Z.of_nat (List.length pre)) (sn_col n + slen p) false (sn_anchor n) false)
                    end =
                    match ls with [] => sn_col n | l :: _ => if slen l =? 0 then sn_col n else first_col l n end + slen p).
      { destruct ls as [|l more]; [reflexivity|]. cbn [map]. rewrite slen_app'.
        pose proof (slen_nonneg p). pose proof (slen_nonneg l).
        destruct (slen l =? 0) eqn:E0.
        - apply Z.eqb_eq in E0. destruct (slen p + slen l =? 0) eqn:E1; [reflexivity|].
          apply Z.eqb_neq in E1.
          (* l is empty, p is not: excluded by the hypothesis on empty lines *)
          assert (l = EmptyString) by (destruct l; [reflexivity|rewrite slen_String in E0; pose proof (slen_nonneg l); lia]).
          subst l. destruct Hpl as [Hq|Hq].
          + subst p. change (slen "") with 0 in E1. lia.
          + inversion Hq; contradiction.
        - apply Z.eqb_neq in E0. replace (slen p + slen l =? 0) with false by (symmetry; apply Z.eqb_neq; lia).
          unfold first_col. cbn [sn_col sn_anchor]. rewrite Hanc. apply byte_column_shift; assumption. }
      rewrite Hc0.
      replace (sn_line n + Z.of_nat (List.length pre)) with (sn_line n + Z.of_nat (List.length pre)) by lia.
      change [] with (add_offset (Z.of_nat (List.length pre)) (slen p) []) at 1.
      apply (npr_loop_shift (Z.of_nat (List.length pre)) p _ 0 0 (sn_line n) _ minCol need rest [] false o).
      + exact Hpl.
      + left. reflexivity.
      + exact E. }
  destruct (npr_entry lines n minCol need rest) as [o|w] eqn:E; [|destruct w; discriminate].
  rewrite (Hent o eq_refl).
  destruct o as [|q o']; inversion H; subst; reflexivity.
Qed.
