(** C06 lemmas, part 6: shift-equivariance of [NewPositionRange] (inserting lines above, prefixing every line —
    what deeper nesting of a rule document does; also used by C19). *)
From Coq Require Import List String Ascii ZArith Bool Lia.
From PintV Require Import Common.Bytes Model.Position Model.Layout Proofs.C06_expand Proofs.C06_match.
Import ListNotations.
Local Open Scope Z_scope.
Local Open Scope list_scope.

Lemma add_offset_append k d : forall offs l c,
  append_position (add_offset k d offs) (l + k) (c + d) = add_offset k d (append_position offs l c).
Proof.
  induction offs as [|p r IH]; intros l c.
  - reflexivity.
  - destruct r as [|q r'].
    + cbn [add_offset map append_position pr_line pr_first pr_last].
      replace (pr_line p + k =? l + k) with (pr_line p =? l)
        by (destruct (pr_line p =? l) eqn:E; symmetry; [apply Z.eqb_eq; apply Z.eqb_eq in E|apply Z.eqb_neq; apply Z.eqb_neq in E]; lia).
      replace (pr_last p + d + 1 =? c + d) with (pr_last p + 1 =? c)
        by (destruct (pr_last p + 1 =? c) eqn:E; symmetry; [apply Z.eqb_eq; apply Z.eqb_eq in E|apply Z.eqb_neq; apply Z.eqb_neq in E]; lia).
      destruct ((pr_line p =? l) && (pr_last p + 1 =? c)); reflexivity.
    + change (add_offset k d (p :: q :: r')) with (mkp (pr_line p + k) (pr_first p + d) (pr_last p + d) :: add_offset k d (q :: r')).
      change (append_position (p :: q :: r') l c) with (p :: append_position (q :: r') l c).
      change (add_offset k d (p :: append_position (q :: r') l c))
        with (mkp (pr_line p + k) (pr_first p + d) (pr_last p + d) :: add_offset k d (append_position (q :: r') l c)).
      rewrite <- IH.
      change (add_offset k d (q :: r')) with (mkp (pr_line q + k) (pr_first q + d) (pr_last q + d) :: add_offset k d r').
      reflexivity.
Qed.

Definition shift_res (k d : Z) (r : scan_res) : scan_res :=
  match r with
  | ScanDone o => ScanDone (add_offset k d o)
  | ScanCont n r o => ScanCont n r (add_offset k d o)
  end.

Lemma scan_line_shift k d : forall bytes line col need rest offs,
  scan_line bytes (line + k) (col + d) need rest (add_offset k d offs) =
  shift_res k d (scan_line bytes line col need rest offs).
Proof.
  induction bytes as [|got more IH]; intros line col need rest offs.
  - reflexivity.
  - cbn [scan_line]. destruct (Ascii.eqb need got).
    + rewrite add_offset_append. destruct rest as [|n r]; [reflexivity|].
      replace (col + d + 1) with (col + 1 + d) by lia. apply IH.
    + replace (col + d + 1) with (col + 1 + d) by lia. apply IH.
Qed.

Lemma sdrop_app_plus : forall p m s, sdrop (String.length p + m) (p ++ s) = sdrop m s.
Proof. induction p as [|c p IH]; intros m s; [reflexivity|]. cbn. apply IH. Qed.

Lemma slen_app' a b : slen (a ++ b) = slen a + slen b.
Proof.
  unfold slen. induction a as [|c a IH]; cbn [append String.length]; [lia|].
  rewrite !Nat2Z.inj_succ. lia.
Qed.

Lemma adjust_col_shift p line col need rest col2 :
  adjust_col line col need rest = Some col2 ->
  adjust_col (p ++ line) (col + slen p) need rest = Some (col2 + slen p) /\
  sdrop (Z.to_nat (col2 + slen p - 1)) (p ++ line) = sdrop (Z.to_nat (col2 - 1)) line.
Proof.
  intros H. pose proof (adjust_col_ge1 _ _ _ _ _ H) as Hge.
  unfold adjust_col in *. rewrite slen_app'.
  pose proof (slen_nonneg p) as Hp.
  replace (Z.min (slen p + slen line) (col + slen p)) with (Z.min (slen line) col + slen p) by lia.
  set (c1 := Z.min (slen line) col) in *.
  destruct (c1 <=? 0) eqn:E; [discriminate|]. apply Z.leb_gt in E.
  replace (c1 + slen p <=? 0) with false by (symmetry; apply Z.leb_gt; lia).
  assert (Hd : forall c, 1 <= c -> sdrop (Z.to_nat (c + slen p - 1)) (p ++ line) = sdrop (Z.to_nat (c - 1)) line).
  { intros c Hc. replace (Z.to_nat (c + slen p - 1)) with (String.length p + Z.to_nat (c - 1))%nat by (unfold slen; lia).
    apply sdrop_app_plus. }
  rewrite (Hd c1) by lia.
  set (ls := count_leading_space (sdrop (Z.to_nat (c1 - 1)) line)) in *.
  set (vs := count_leading_space (String need rest)) in *.
  destruct (vs <? ls); injection H as <-.
  - split; [f_equal; lia|]. apply Hd. exact Hge.
  - split; [reflexivity|]. apply Hd. lia.
Qed.

Lemma line_step_shift k p line li col need rest offs r :
  (p = EmptyString \/ line <> EmptyString) ->
  line_step line li col need rest offs = Some r ->
  line_step (p ++ line) (li + k) (col + slen p) need rest (add_offset k (slen p) offs) = Some (shift_res k (slen p) r).
Proof.
  intros Hp H. unfold line_step in *. rewrite slen_app'.
  destruct (slen line =? 0) eqn:E.
  - apply Z.eqb_eq in E. assert (line = EmptyString) by (destruct line; [reflexivity|rewrite slen_String in E; pose proof (slen_nonneg line); lia]).
    subst line. destruct Hp as [Hp|Hp]; [|contradiction]. subst p. cbn.
    inversion H; subst. reflexivity.
  - apply Z.eqb_neq in E. pose proof (slen_nonneg p). pose proof (slen_nonneg line).
    replace (slen p + slen line =? 0) with false by (symmetry; apply Z.eqb_neq; lia).
    destruct (adjust_col line col need rest) as [col2|] eqn:Ea; [|discriminate].
    destruct (adjust_col_shift p line col need rest col2 Ea) as [Hs1 Hs2].
    rewrite Hs1, Hs2. inversion H; subst. f_equal. apply scan_line_shift.
Qed.

Lemma add_offset_nil_iff k d offs : add_offset k d offs = [] <-> offs = [].
Proof. destruct offs; cbn; split; intros; congruence. Qed.

Lemma npr_loop_shift k p : forall ls prev prev' li col minCol need rest offs o,
  (p = EmptyString \/ Forall (fun l => l <> EmptyString) ls) ->
  (offs = [] \/ prev' = prev + slen p) ->
  npr_loop ls prev li col minCol need rest offs = Ok o ->
  npr_loop (map (fun l => (p ++ l)%string) ls) prev' (li + k) (col + slen p) (minCol + slen p) need rest
           (add_offset k (slen p) offs) = Ok (add_offset k (slen p) o).
Proof.
  induction ls as [|line more IH]; intros prev prev' li col minCol need rest offs o Hp Hprev H.
  - cbn in *. inversion H; subst. reflexivity.
  - cbn [map npr_loop] in *.
    set (offs1 := match offs with [] => offs | _ => append_position offs (li - 1) (prev + 1) end) in *.
    assert (Ho1 : match add_offset k (slen p) offs with
                  | [] => add_offset k (slen p) offs
                  | _ => append_position (add_offset k (slen p) offs) (li + k - 1) (prev' + 1)
                  end = add_offset k (slen p) offs1).
    { unfold offs1. destruct offs as [|q r]; [reflexivity|].
      destruct Hprev as [Hx|Hx]; [discriminate|]. subst prev'.
      change (add_offset k (slen p) (q :: r)) with (mkp (pr_line q + k) (pr_first q + slen p) (pr_last q + slen p) :: add_offset k (slen p) r).
      cbv iota. change (mkp (pr_line q + k) (pr_first q + slen p) (pr_last q + slen p) :: add_offset k (slen p) r) with (add_offset k (slen p) (q :: r)).
      replace (li + k - 1) with (li - 1 + k) by lia. replace (prev + slen p + 1) with (prev + 1 + slen p) by lia.
      apply add_offset_append. }
    rewrite Ho1.
    destruct (line_step line li col need rest offs1) as [r|] eqn:Els; [|discriminate].
    assert (Hp1 : p = EmptyString \/ line <> EmptyString).
    { destruct Hp as [Hp|Hp]; [left; exact Hp|right]. inversion Hp; assumption. }
    rewrite (line_step_shift k p line li col need rest offs1 r Hp1 Els).
    destruct r as [o1|n1 r1 o1]; cbn [shift_res].
    + inversion H; subst. reflexivity.
    + destruct (advance n1 r1) as [[n' r']|].
      * rewrite slen_app'. replace (li + k + 1) with (li + 1 + k) by lia.
        apply (IH (slen line) (slen p + slen line) (li + 1) minCol minCol n' r' o1 o).
        -- destruct Hp as [Hp|Hp]; [left; exact Hp|right]. inversion Hp; assumption.
        -- right. lia.
        -- exact H.
      * inversion H; subst. reflexivity.
Qed.

Lemma skipn_app_plus {A} : forall (pre l : list A) m, skipn (List.length pre + m) (pre ++ l) = skipn m l.
Proof. induction pre as [|x pre IH]; intros l m; [reflexivity|]. cbn. apply IH. Qed.

Lemma skipn_map {A B} (f : A -> B) : forall m l, skipn m (map f l) = map f (skipn m l).
Proof. induction m as [|m IH]; intros l; [reflexivity|]. destruct l; [reflexivity|]. cbn. apply IH. Qed.

Lemma Forall_skipn {A} (P : A -> Prop) : forall m l, Forall P l -> Forall P (skipn m l).
Proof.
  induction m as [|m IH]; intros l H; [exact H|]. destruct l; [constructor|]. cbn. apply IH. inversion H; assumption.
Qed.

(** SHIFT-EQUIVARIANCE. Inserting [pre] lines above and prefixing every line with [p] (with no empty line in
    the table unless [p] is empty: an empty line that becomes blanks is scanned, an empty line is skipped)
    shifts the result by (number of inserted lines, length of the prefix). *)
Theorem npr_shift_lemma : forall pre p lines n minCol pos,
  (p = EmptyString \/ Forall (fun l => l <> EmptyString) lines) ->
  new_position_range lines n minCol = Ok pos ->
  new_position_range (shift_lines pre p lines) (shift_node (Z.of_nat (List.length pre)) (slen p) n) (minCol + slen p)
  = Ok (add_offset (Z.of_nat (List.length pre)) (slen p) pos).
Proof.
  intros pre p lines n minCol pos Hp H. unfold new_position_range in *. unfold shift_node. cbn [sn_value sn_line sn_col].
  destruct (sn_value n) as [|need rest]; [inversion H; subst; reflexivity|].
  destruct (sn_line n <=? 0) eqn:El; [discriminate|]. apply Z.leb_gt in El.
  replace (sn_line n + Z.of_nat (List.length pre) <=? 0) with false by (symmetry; apply Z.leb_gt; lia).
  unfold shift_lines.
  replace (Z.to_nat (sn_line n + Z.of_nat (List.length pre) - 1)) with (List.length pre + Z.to_nat (sn_line n - 1))%nat by lia.
  rewrite skipn_app_plus, skipn_map.
  destruct (npr_loop (skipn (Z.to_nat (sn_line n - 1)) lines) 0 (sn_line n) (sn_col n) minCol need rest []) as [o|w] eqn:E;
    [|destruct w; discriminate].
  rewrite (npr_loop_shift (Z.of_nat (List.length pre)) p _ 0 0 (sn_line n) (sn_col n) minCol need rest [] o).
  - destruct o as [|q o']; inversion H; subst; reflexivity.
  - destruct Hp as [Hp|Hp]; [left; exact Hp|right; apply Forall_skipn; exact Hp].
  - left. reflexivity.
  - exact E.
Qed.
