(** C10 — the reader (Model.Reader) refines the documented meaning (Model.MaskSpec) on every file in which no
    entirely excluded line parses to a pint control comment. *)
From Coq Require Import List String Ascii NArith ZArith Bool Arith Lia.
From PintV Require Import Common.Bytes Model.CommentsUnicode Model.Comments Model.Reader Model.MaskSpec.
Import ListNotations.
Open Scope string_scope.
Open Scope list_scope.

Arguments nl : simpl never.

(** ** well-formed chunks: what [ReadBytes('\n')] returns *)
Fixpoint no_nl (s : string) : bool :=
  match s with
  | EmptyString => true
  | String c r => negb (Ascii.eqb c nl) && no_nl r
  end.

Definition wf_chunk (b : string) : Prop := no_nl (strip_nl b) = true.

Lemma strip_nl_cons c r : Ascii.eqb c nl = false -> strip_nl (String c r) = String c (strip_nl r).
Proof. intros H. destruct r; cbn [strip_nl]; [rewrite H|]; reflexivity. Qed.

Lemma split_nl_chunk b :
  wf_chunk b -> split_nl b = [strip_nl b] \/ split_nl b = [strip_nl b; EmptyString].
Proof.
  unfold wf_chunk. induction b as [|c r IH]; intros H.
  - left. reflexivity.
  - destruct (Ascii.eqb c nl) eqn:E.
    + destruct r as [|c' r'].
      * right. cbn. rewrite E. reflexivity.
      * exfalso. cbn in H. rewrite E in H. cbn in H. discriminate.
    + rewrite (strip_nl_cons _ _ E) in *. cbn [no_nl] in H. rewrite E in H. cbn in H.
      cbn [split_nl]. rewrite E. destruct (IH H) as [-> | ->]; [left|right]; reflexivity.
Qed.

Lemma chunks_wf f : Forall wf_chunk (chunks f).
Proof.
  induction f as [|c r IH]; cbn [chunks]; [constructor|].
  destruct (Ascii.eqb c nl) eqn:E.
  - constructor; [|exact IH]. unfold wf_chunk. cbn. rewrite E. reflexivity.
  - destruct (chunks r) as [|h t].
    + constructor; [|constructor]. unfold wf_chunk. cbn. rewrite E. cbn. rewrite E. reflexivity.
    + inversion IH as [|? ? Hh Ht]; subst. constructor; [|exact Ht].
      unfold wf_chunk in *. rewrite (strip_nl_cons _ _ E). cbn [no_nl]. rewrite E, Hh. reflexivity.
Qed.

Section WithTime.
Variable tp : string -> option Z.

Definition olist {A} (o : option A) : list A := match o with Some x => [x] | None => [] end.

Lemma parse_comment_empty n : parse_comment tp EmptyString n = None.
Proof. reflexivity. Qed.

(** for a [ReadBytes] chunk, [comments.Parse(lineno, buf)] is the comment of its line *)
Lemma parse_chunk n b : wf_chunk b -> parse tp n b = olist (line_comment tp n b).
Proof.
  intros H. unfold parse, line_comment. destruct (split_nl_chunk b H) as [-> | ->]; cbn [parse_lines].
  - destruct (parse_comment tp (strip_nl b) n); reflexivity.
  - rewrite parse_comment_empty. destruct (parse_comment tp (strip_nl b) n); reflexivity.
Qed.

(** ** abstraction of the four flags *)
Definition R (s : sstate) (r : rstate) : Prop :=
  match s with
  | SNormal false => skipAll r = false /\ skipNext r = false /\ inBegin r = false
  | SNormal true => skipAll r = false /\ skipNext r = true /\ autoReset r = true /\ inBegin r = false
  | SBlock => skipAll r = false /\ skipNext r = true /\ autoReset r = false /\ inBegin r = true
  | SFile => skipAll r = true /\ inBegin r = false
  end.

Lemma blank_all_gen b : forall i off i' off', blank_from i off true b = blank_from i' off' true b.
Proof.
  induction b as [|c r IH]; intros i off i' off'; cbn [blank_from]; [reflexivity|].
  rewrite (IH (S i) off (S i') off'). rewrite !orb_true_r. reflexivity.
Qed.

Lemma blank_all_any i off b : blank_from i off true b = blank_from 0 0 true b.
Proof. apply blank_all_gen. Qed.

Lemma blank_before_all i off b :
  i + String.length b <= off -> blank_from i off false b = blank_from 0 0 true b.
Proof.
  revert i. induction b as [|c r IH]; intros i H; cbn [blank_from]; [reflexivity|].
  cbn [String.length] in H. rewrite (IH (S i)) by lia. rewrite (blank_all_gen r 1%nat 0%nat 0%nat 0%nat).
  replace (Nat.ltb i off) with true by (symmetry; apply Nat.ltb_lt; lia). reflexivity.
Qed.

Definition diag_of (n : nat) (buf : string) (d : option nat) : list diag :=
  match d with Some off => [(n, S off, Nat.pred (String.length buf))] | None => [] end.

(** one line: under related states, and when a line the spec blanks entirely carries no pint comment, the
    implementation does exactly what the spec says *)
Lemma step_refines s r n buf :
  R s r -> wf_chunk buf ->
  (forall st' cs d, spec_action s (line_comment tp n buf) = (st', BlankAll, cs, d) -> line_comment tp n buf = None) ->
  forall r' out cs ds s' a cs' d,
    parse_comments r n buf (parse tp n buf) = (r', out, cs, ds) ->
    spec_action s (line_comment tp n buf) = (s', a, cs', d) ->
    R s' r' /\ out = apply_action a buf /\ cs = cs' /\ ds = diag_of n buf d.
Proof.
  intros HR Hwf Hg r' out cs ds s' a cs' d Hi Hs.
  rewrite (parse_chunk n buf Hwf) in Hi.
  destruct r as [fa fn ft fb]. unfold R in HR. cbn [skipAll skipNext autoReset inBegin] in HR.
  destruct (line_comment tp n buf) as [c|] eqn:Hc.
  - (* the line carries a pint comment *)
    destruct s as [[|]| |].
    + (* target of next-line: excluded, guard contradicts *)
      specialize (Hg _ _ _ eq_refl). discriminate.
    + destruct HR as (-> & -> & ->).
      unfold parse_comments, olist, scan1, empty_line in Hi. cbn in Hi, Hs.
      destruct (c_type c) eqn:Ht; cbn in Hi, Hs; inversion Hi; inversion Hs; subst; cbn;
        repeat split; reflexivity.
    + destruct HR as (-> & -> & -> & ->).
      destruct (ctype_eqb (c_type c) IgnoreEndType) eqn:E.
      2:{ exfalso. assert (X : spec_action SBlock (Some c) = (SBlock, BlankAll, [], None))
            by (cbn; destruct (c_type c); try reflexivity; discriminate).
          specialize (Hg _ _ _ X). discriminate. }
      assert (Ht : c_type c = IgnoreEndType) by (destruct (c_type c); try discriminate; reflexivity).
      cbn in Hs. rewrite Ht in Hs.
      unfold parse_comments, olist, scan1, empty_line in Hi. cbn in Hi. rewrite Ht in Hi. cbn in Hi.
      inversion Hi; inversion Hs; subst; cbn. repeat split; reflexivity.
    + specialize (Hg _ _ _ eq_refl). discriminate.
  - (* no pint comment on the line *)
    destruct s as [[|]| |]; cbn in Hs; inversion Hs; subst; clear Hs.
    + destruct HR as (-> & -> & -> & ->).
      unfold parse_comments, olist, empty_line in Hi. cbn in Hi. inversion Hi; subst; cbn.
      repeat split; try reflexivity. apply blank_before_all. lia.
    + destruct HR as (-> & -> & ->).
      unfold parse_comments, olist in Hi. cbn in Hi. inversion Hi; subst; cbn. repeat split; reflexivity.
    + destruct HR as (-> & -> & -> & ->).
      unfold parse_comments, olist, empty_line in Hi. cbn in Hi. inversion Hi; subst; cbn.
      repeat split; try reflexivity. apply blank_all_any.
    + destruct HR as (-> & ->).
      unfold parse_comments, olist, empty_line in Hi. cbn in Hi. inversion Hi; subst; cbn.
      repeat split; try reflexivity. apply blank_before_all. lia.
Qed.

(** ** whole files *)
Definition sim (r : rd) (s : sd) : Prop :=
  R (s_st s) (r_st r) /\ r_out r = s_out s /\ r_lines r = s_lines s /\ r_comments r = s_comments s /\
  r_diags r = s_diags s /\ r_lineno r = s_lineno s.

Definition guard_from (st : sstate) (n : nat) (bs : list string) : Prop :=
  forall nb, In nb (excluded_lines tp st n bs) -> has_comment tp nb = false.

Lemma sim_chunks bs : forall r s,
  sim r s -> Forall wf_chunk bs -> guard_from (s_st s) (s_lineno s) bs ->
  sim (reader_chunks tp bs r) (spec_chunks tp bs s).
Proof.
  induction bs as [|b t IH]; intros r s Hsim Hwf Hg; [exact Hsim|].
  inversion Hwf as [|? ? Hb Ht]; subst.
  destruct Hsim as (HR & Ho & Hl & Hc & Hd & Hn).
  cbn [reader_chunks spec_chunks fold_left]. apply IH; [|exact Ht|].
  - unfold read_line, spec_line. rewrite Hn.
    destruct (parse_comments (r_st r) (S (s_lineno s)) b (parse tp (S (s_lineno s)) b)) as [[[r' out] cs] ds] eqn:Hi.
    destruct (spec_action (s_st s) (line_comment tp (S (s_lineno s)) b)) as [[[s' a] cs'] d] eqn:Hs.
    assert (Hguard : forall st' cs0 d0, spec_action (s_st s) (line_comment tp (S (s_lineno s)) b) = (st', BlankAll, cs0, d0) ->
                                  line_comment tp (S (s_lineno s)) b = None).
    { intros st' cs0 d0 E. specialize (Hg (s_st s, S (s_lineno s), b)).
      cbn [excluded_lines] in Hg. rewrite E in Hg. specialize (Hg (or_introl eq_refl)).
      unfold has_comment in Hg. cbn [fst snd] in Hg. destruct (line_comment tp (S (s_lineno s)) b); [discriminate|reflexivity]. }
    destruct (step_refines _ _ _ _ HR Hb Hguard _ _ _ _ _ _ _ _ Hi Hs) as (HR' & -> & -> & ->).
    unfold sim. cbn. rewrite Ho, Hl, Hc, Hd. repeat split; try reflexivity; try exact HR'.
  - unfold guard_from in *. intros nb Hin. apply Hg. cbn [excluded_lines].
    destruct (spec_action (s_st s) (line_comment tp (S (s_lineno s)) b)) as [[[s' a] cs'] d] eqn:Hs.
    unfold spec_line in Hin. rewrite Hs in Hin. cbn [s_st s_lineno] in Hin.
    destruct a; [exact Hin | right; exact Hin | exact Hin].
Qed.

Lemma sim_init : sim rd_init sd_init.
Proof. unfold sim, rd_init, sd_init, R; cbn. repeat split; reflexivity. Qed.

Theorem impl_refines_spec_partial f :
  control_comment_in_excluded_text tp f = false ->
  sim (reader_impl tp f) (reader_spec tp f).
Proof.
  intros H. unfold reader_impl, reader_spec. apply sim_chunks; [exact sim_init | apply chunks_wf |].
  unfold guard_from. cbn [sd_init s_st s_lineno]. intros nb Hin.
  unfold control_comment_in_excluded_text in H.
  destruct (has_comment tp nb) eqn:E; [|reflexivity].
  assert (existsb (has_comment tp) (excluded_lines tp (SNormal false) 0 (chunks f)) = true) as X
    by (apply existsb_exists; exists nb; split; assumption).
  congruence.
Qed.

End WithTime.

(** the known-finding class lies inside the guarded-out set of the refinement theorem *)
Lemma known_class_within_guard tp f :
  known_leak_class tp f = true -> control_comment_in_excluded_text tp f = true.
Proof.
  unfold known_leak_class, control_comment_in_excluded_text. intros H.
  apply existsb_exists in H. destruct H as (x & Hin & Hx). apply existsb_exists. exists x. split; [exact Hin|].
  unfold leaks in Hx. unfold has_comment. destruct (line_comment tp (snd (fst x)) (snd x)); [reflexivity|discriminate].
Qed.
