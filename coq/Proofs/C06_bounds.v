(** C06 lemmas, part 5 (unconditional): whatever the layout, the positions [NewPositionRange] returns are
    non-empty, well formed, on lines >= the node's line and — unless it is the fallback position of a node that
    itself lies outside the file — inside the file.  Rule line ranges enclose their parts and fields. *)
From Coq Require Import List String Ascii ZArith Bool Lia.
From PintV Require Import Common.Bytes Model.CommentsUnicode Model.Position Model.Layout Proofs.C06_expand Proofs.C06_match.
Import ListNotations.
Local Open Scope Z_scope.
Local Open Scope list_scope.

Definition lines_ge (lo : Z) (prs : list prange) : Prop := Forall (fun p => lo <= pr_line p) prs.

Definition inv (lo : Z) (lines : list string) (offs : list prange) : Prop :=
  wf offs /\ lines_ge lo offs /\ exists rb, read_back lines offs = Some rb.

Lemma append_position_lines_ge lo : forall src l c,
  lines_ge lo src -> lo <= l -> lines_ge lo (append_position src l c).
Proof.
  induction src as [|p r IH]; intros l c H Hl.
  - cbn. constructor; [cbn; lia|constructor].
  - destruct r as [|q r'].
    + cbn [append_position]. inversion H; subst.
      destruct ((pr_line p =? l) && (pr_last p + 1 =? c)).
      * constructor; [cbn; assumption|constructor].
      * constructor; [assumption|]. constructor; [cbn; lia|constructor].
    + change (append_position (p :: q :: r') l c) with (p :: append_position (q :: r') l c).
      inversion H; subst. constructor; [assumption|]. apply IH; assumption.
Qed.

Lemma inv_append lo lines offs l c ch :
  inv lo lines offs -> lo <= l -> char_at lines (l, c) = Some ch -> inv lo lines (append_position offs l c).
Proof.
  intros [Hwf [Hge [rb Hrb]]] Hl Hch. split; [apply append_position_wf; exact Hwf|].
  split; [apply append_position_lines_ge; assumption|].
  exists (rb ++ String ch EmptyString)%string.
  rewrite read_back_append by exact Hwf. rewrite Hrb, Hch. reflexivity.
Qed.

Lemma scan_line_inv lo : forall bytes lines l line col need rest offs,
  1 <= line -> lo <= line -> 1 <= col ->
  nth_error lines (Z.to_nat (line - 1)) = Some l ->
  sdrop (Z.to_nat (col - 1)) l = bytes ->
  inv lo lines offs ->
  match scan_line bytes line col need rest offs with
  | ScanDone o => inv lo lines o /\ o <> []
  | ScanCont _ _ o => inv lo lines o /\ (offs <> [] -> o <> [])
  end.
Proof.
  induction bytes as [|got more IH]; intros lines l line col need rest offs Hl Hlo Hc Hn Hd Hi.
  - cbn. split; [exact Hi|auto].
  - cbn [scan_line].
    assert (Hd' : sdrop (Z.to_nat (col + 1 - 1)) l = more).
    { replace (Z.to_nat (col + 1 - 1)) with (S (Z.to_nat (col - 1))) by lia.
      apply (sdrop_step _ _ _ _ Hd). }
    destruct (Ascii.eqb need got) eqn:E.
    + assert (Hch : char_at lines (line, col) = Some got) by (eapply char_at_in_line; eauto).
      pose proof (inv_append lo lines offs line col got Hi Hlo Hch) as Hi'.
      destruct rest as [|n2 r2].
      * split; [exact Hi'|apply append_position_nonempty].
      * specialize (IH lines l line (col + 1) n2 r2 (append_position offs line col) Hl Hlo ltac:(lia) Hn Hd' Hi').
        destruct (scan_line more line (col + 1) n2 r2 (append_position offs line col)).
        -- exact IH.
        -- destruct IH as [IH1 IH2]. split; [exact IH1|]. intros _. apply IH2. apply append_position_nonempty.
    + apply (IH lines l line (col + 1) need rest offs Hl Hlo ltac:(lia) Hn Hd' Hi).
Qed.

(** ** The token scanner of double-quoted scalars keeps the same invariant: the positions of decoded bytes lie on the
    columns of their escape sequence, which lies inside the line. *)

Lemma unescape_size s : s <> EmptyString ->
  (1 <= snd (unescape s) <= String.length s)%nat.
Proof.
  intros Hne. destruct s as [|b [|c r]]; [contradiction|cbn; lia|].
  unfold unescape. cbv zeta.
  assert (H2 : (1 <= 2 <= String.length (String b (String c r)))%nat) by (cbn [String.length]; lia).
  assert (Hhex : forall digits,
            (1 <= snd (if Nat.ltb (String.length r) digits then (EmptyString, String.length (String b (String c r)))
                       else match parse_hex digits r 0%N with
                            | Some code => (CommentsUnicode.encode_rune code, (2 + digits)%nat)
                            | None => (EmptyString, 2%nat)
                            end) <= String.length (String b (String c r)))%nat).
  { intros digits. destruct (Nat.ltb (String.length r) digits) eqn:E.
    - cbn [snd String.length]. lia.
    - apply Nat.ltb_ge in E. destruct (parse_hex digits r 0%N); cbn [snd String.length]; lia. }
  repeat match goal with
         | |- context [if (N.eqb ?a ?b) then _ else _] => destruct (N.eqb a b)
         | |- context [if (orb ?a ?b) then _ else _] => destruct (orb a b)
         end.
  all: try apply Hhex.
  all: cbn [snd]; exact H2.
Qed.

Lemma char_at_exists lines l line col d :
  1 <= line -> 1 <= col ->
  nth_error lines (Z.to_nat (line - 1)) = Some l ->
  0 <= d -> col + d <= slen l ->
  exists ch, char_at lines (line, col + d) = Some ch.
Proof.
  intros Hl Hc Hn Hd Hle. unfold char_at.
  replace (1 <=? line) with true by (symmetry; apply Z.leb_le; lia).
  replace (1 <=? col + d) with true by (symmetry; apply Z.leb_le; lia).
  cbn [andb]. rewrite Hn.
  replace (col + d =? slen l + 1) with false by (symmetry; apply Z.eqb_neq; lia).
  destruct (String.get (Z.to_nat (col + d - 1)) l) as [ch|] eqn:E; [exists ch; reflexivity|].
  exfalso. unfold slen in Hle.
  assert (Hlt : (Z.to_nat (col + d - 1) < String.length l)%nat) by lia.
  clear -E Hlt. revert E Hlt. generalize (Z.to_nat (col + d - 1)). intros k. revert k.
  induction l as [|x l IH]; intros k E Hlt; [cbn in Hlt; lia|].
  destruct k; [cbn in E; discriminate|]. cbn in E. apply (IH k E). cbn in Hlt. lia.
Qed.

Lemma sdrop_length : forall n s, String.length (sdrop n s) = (String.length s - n)%nat.
Proof.
  induction n as [|n IH]; intros s; [cbn; lia|]. destruct s as [|c s]; [reflexivity|]. cbn [sdrop String.length]. rewrite IH. lia.
Qed.

Lemma append_decoded_inv lo lines l line col size len : forall n i offs,
  1 <= line -> lo <= line -> 1 <= col ->
  nth_error lines (Z.to_nat (line - 1)) = Some l ->
  1 <= size -> col + size - 1 <= slen l ->
  0 <= i -> i + Z.of_nat n <= len ->
  inv lo lines offs ->
  inv lo lines (append_decoded n i line col size len offs) /\
  ((0 < n)%nat \/ offs <> [] -> append_decoded n i line col size len offs <> []).
Proof.
  induction n as [|n IH]; intros i offs Hl Hlo Hc Hn Hs Hle Hi Hin Hinv.
  - cbn [append_decoded]. split; [exact Hinv|]. intros [H|H]; [lia|exact H].
  - cbn [append_decoded].
    set (d := Z.max 0 (size - len + i)).
    assert (Hd : 0 <= d <= size - 1) by (unfold d; lia).
    destruct (char_at_exists lines l line col d Hl Hc Hn ltac:(lia) ltac:(lia)) as [ch Hch].
    pose proof (inv_append lo lines offs line (col + d) ch Hinv Hlo Hch) as Hinv'.
    destruct (IH (i + 1) (append_position offs line (col + d)) Hl Hlo Hc Hn Hs Hle ltac:(lia) ltac:(lia) Hinv') as [H1 H2].
    split; [exact H1|]. intros _. apply H2. right. apply append_position_nonempty.
Qed.

Lemma scan_line_dq_inv lo : forall bytes skip lines l line col need rest offs,
  1 <= line -> lo <= line -> 1 <= col ->
  nth_error lines (Z.to_nat (line - 1)) = Some l ->
  sdrop (Z.to_nat (col - 1)) l = bytes ->
  inv lo lines offs ->
  match scan_line_dq bytes skip line col need rest offs with
  | ScanDone o => inv lo lines o /\ o <> []
  | ScanCont _ _ o => inv lo lines o
  end.
Proof.
  induction bytes as [|got more IH]; intros skip lines l line col need rest offs Hl Hlo Hc Hn Hd Hi.
  - cbn. exact Hi.
  - assert (Hd' : sdrop (Z.to_nat (col + 1 - 1)) l = more).
    { replace (Z.to_nat (col + 1 - 1)) with (S (Z.to_nat (col - 1))) by lia. apply (sdrop_step _ _ _ _ Hd). }
    cbn [scan_line_dq]. destruct skip as [|k].
    + destruct (Ascii.eqb got backslash) eqn:Eb.
      * destruct (unescape (String got more)) as [decoded size] eqn:Eu.
        pose proof (unescape_size (String got more) ltac:(discriminate)) as Hsz. rewrite Eu in Hsz. cbn [snd] in Hsz.
        assert (Hlen : Z.of_nat (String.length (String got more)) <= slen l - (col - 1)).
        { pose proof (sdrop_length (Z.to_nat (col - 1)) l) as Hsl. rewrite Hd in Hsl. unfold slen. lia. }
        destruct decoded as [|d0 dr].
        -- apply (IH (Nat.pred size) lines l line (col + 1) need rest offs Hl Hlo ltac:(lia) Hn Hd' Hi).
        -- destruct (strip_prefix (String d0 dr) (String need rest)) as [left_|].
           ++ destruct (append_decoded_inv lo lines l line col (Z.of_nat size) (slen (String d0 dr))
                         (String.length (String d0 dr)) 0 offs Hl Hlo Hc Hn ltac:(lia) ltac:(lia) ltac:(lia)
                         ltac:(unfold slen; lia) Hi) as [Hinv' Hne'].
              destruct left_ as [|n' r'].
              ** split; [exact Hinv'|]. apply Hne'. left. cbn [String.length]. lia.
              ** apply (IH (Nat.pred size) lines l line (col + 1) n' r' _ Hl Hlo ltac:(lia) Hn Hd' Hinv').
           ++ apply (IH (Nat.pred size) lines l line (col + 1) need rest offs Hl Hlo ltac:(lia) Hn Hd' Hi).
      * destruct (Ascii.eqb need got) eqn:E.
        -- assert (Hch : char_at lines (line, col) = Some got) by (eapply char_at_in_line; eauto).
           pose proof (inv_append lo lines offs line col got Hi Hlo Hch) as Hi'.
           destruct rest as [|n2 r2].
           ++ split; [exact Hi'|apply append_position_nonempty].
           ++ apply (IH 0%nat lines l line (col + 1) n2 r2 _ Hl Hlo ltac:(lia) Hn Hd' Hi').
        -- apply (IH 0%nat lines l line (col + 1) need rest offs Hl Hlo ltac:(lia) Hn Hd' Hi).
    + apply (IH k lines l line (col + 1) need rest offs Hl Hlo ltac:(lia) Hn Hd' Hi).
Qed.

Lemma npr_loop_inv lo dq : forall ls lines k prev col minCol need rest offs brk o,
  skipn k lines = ls ->
  lo <= Z.of_nat k + 1 ->
  inv lo lines offs ->
  (brk = true -> lo <= Z.of_nat k /\ exists pl, (1 <= k)%nat /\ nth_error lines (k - 1) = Some pl /\ prev = slen pl) ->
  npr_loop dq ls prev (Z.of_nat k + 1) col minCol need rest offs brk = Ok o ->
  inv lo lines o.
Proof.
  induction ls as [|line more IH]; intros lines k prev col minCol need rest offs brk o Hsk Hlo Hi Hprev Hrun.
  - cbn in Hrun. inversion Hrun; subst. exact Hi.
  - destruct (skipn_cons_nth _ _ _ _ Hsk) as [Hnth Hsk'].
    cbn [npr_loop] in Hrun.
    set (offs1 := if brk then append_position offs (Z.of_nat k + 1 - 1) (prev + 1) else offs) in *.
    assert (Hi1 : inv lo lines offs1).
    { unfold offs1. destruct brk; [|exact Hi].
      destruct (Hprev eq_refl) as [Hlk [pl [Hk [Hpl Hpv]]]].
      eapply inv_append; [exact Hi|lia|].
      subst prev. apply char_at_line_break; [lia|].
      replace (Z.to_nat (Z.of_nat k + 1 - 1 - 1)) with (k - 1)%nat by lia. exact Hpl. }
    assert (Hnth' : nth_error lines (Z.to_nat (Z.of_nat k + 1 - 1)) = Some line)
      by (replace (Z.to_nat (Z.of_nat k + 1 - 1)) with k by lia; exact Hnth).
    assert (Hnext : forall n r o1, inv lo lines o1 ->
              match advance n r with
              | None => Ok o1
              | Some (n', r') => npr_loop dq more (slen line) (Z.of_nat k + 1 + 1) minCol minCol n' r' o1 (is_fold_char n)
              end = Ok o -> inv lo lines o).
    { intros n r o1 Hio Hr. destruct (advance n r) as [[n' r']|].
      - replace (Z.of_nat k + 1 + 1) with (Z.of_nat (S k) + 1) in Hr by lia.
        eapply (IH lines (S k) (slen line) minCol minCol n' r' o1 (is_fold_char n) o Hsk' ltac:(lia) Hio); [|exact Hr].
        intros _. split; [lia|]. exists line. repeat split; [lia|].
        replace (S k - 1)%nat with k by lia. exact Hnth.
      - inversion Hr; subst. exact Hio. }
    unfold line_step in Hrun. destruct (slen line =? 0).
    + apply (Hnext need rest offs1 Hi1 Hrun).
    + destruct (adjust_col line col need rest) as [col2|] eqn:Eadj; [|discriminate].
      pose proof (adjust_col_ge1 _ _ _ _ _ Eadj) as Hc2.
      assert (Hscan : match scan dq (sdrop (Z.to_nat (col2 - 1)) line) (Z.of_nat k + 1) col2 need rest offs1 with
                      | ScanDone o => inv lo lines o /\ o <> []
                      | ScanCont _ _ o => inv lo lines o
                      end).
      { unfold scan. destruct dq.
        - apply (scan_line_dq_inv lo _ 0%nat lines line (Z.of_nat k + 1) col2 need rest offs1 ltac:(lia) Hlo Hc2 Hnth' eq_refl Hi1).
        - pose proof (scan_line_inv lo (sdrop (Z.to_nat (col2 - 1)) line) lines line (Z.of_nat k + 1) col2 need rest offs1
                                    ltac:(lia) Hlo Hc2 Hnth' eq_refl Hi1) as H.
          destruct (scan_line (sdrop (Z.to_nat (col2 - 1)) line) (Z.of_nat k + 1) col2 need rest offs1); [exact H|exact (proj1 H)]. }
      destruct (scan dq (sdrop (Z.to_nat (col2 - 1)) line) (Z.of_nat k + 1) col2 need rest offs1) as [o1|n1 r1 o1].
      * inversion Hrun; subst. apply Hscan.
      * apply (Hnext n1 r1 o1 Hscan Hrun).
Qed.

Lemma inv_nil lo lines : inv lo lines [].
Proof. split; [constructor|]. split; [constructor|]. exists EmptyString. reflexivity. Qed.

Lemma npr_entry_inv lines n minCol need rest o :
  npr_entry lines n minCol need rest = Ok o -> inv (sn_line n) lines o.
Proof.
  unfold npr_entry. intros H. destruct (sn_block n).
  - destruct (sn_line n + 1 <=? 0) eqn:El; [discriminate|]. apply Z.leb_gt in El.
    replace (sn_line n + 1) with (Z.of_nat (Z.to_nat (sn_line n)) + 1) in H by lia.
    eapply (npr_loop_inv (sn_line n) (sn_dq n) _ lines (Z.to_nat (sn_line n)) 0 minCol minCol need rest [] false o eq_refl);
      [lia|apply inv_nil|discriminate|exact H].
  - destruct (sn_line n <=? 0) eqn:El; [discriminate|]. apply Z.leb_gt in El.
    cbv zeta in H.
    replace (sn_line n) with (Z.of_nat (Z.to_nat (sn_line n - 1)) + 1) in H at 2 by lia.
    eapply (npr_loop_inv (sn_line n) (sn_dq n) _ lines (Z.to_nat (sn_line n - 1)) 0 _ minCol need rest [] false o eq_refl);
      [lia|apply inv_nil|discriminate|exact H].
Qed.

(** Unconditional facts about every successful call. *)
Theorem npr_positions_bounds : forall lines n minCol pos,
  new_position_range lines n minCol = Ok pos ->
  pos <> [] /\ wf pos /\ lines_ge (sn_line n) pos /\
  (char_at lines (sn_line n, sn_col n) <> None -> exists rb, read_back lines pos = Some rb).
Proof.
  intros lines n minCol pos H. unfold new_position_range in H.
  assert (Hfb : fallback n <> [] /\ wf (fallback n) /\ lines_ge (sn_line n) (fallback n) /\
                (char_at lines (sn_line n, sn_col n) <> None -> exists rb, read_back lines (fallback n) = Some rb)).
  { unfold fallback. repeat split; try discriminate.
    - constructor; [unfold wf_range; cbn; lia|constructor].
    - constructor; [cbn; lia|constructor].
    - intros Hc. unfold read_back. rewrite expand_cons, expand_range_single. cbn [expand flat_map app map collect].
      destruct (char_at lines (sn_line n, sn_col n)) as [c|]; [|contradiction]. eexists. reflexivity. }
  destruct (sn_value n) as [|need rest]; [inversion H; subst; exact Hfb|].
  destruct (npr_entry lines n minCol need rest) as [o|w] eqn:E; [|destruct w; discriminate].
  pose proof (npr_entry_inv _ _ _ _ _ _ E) as Hi.
  destruct o as [|p o']; [inversion H; subst; exact Hfb|].
  inversion H; subst. destruct Hi as [H1 [H2 H3]]. repeat split; try assumption; try discriminate.
  intros _. exact H3.
Qed.

(** A position that can be read back is inside the file: line in [1, number of lines], column in [1, len+1]. *)
Lemma char_at_inside lines l c ch :
  char_at lines (l, c) = Some ch ->
  1 <= l <= Z.of_nat (List.length lines) /\ 1 <= c.
Proof.
  unfold char_at. destruct (1 <=? l) eqn:E1; [|discriminate]. destruct (1 <=? c) eqn:E2; [|discriminate].
  cbn [andb]. apply Z.leb_le in E1. apply Z.leb_le in E2.
  destruct (nth_error lines (Z.to_nat (l - 1))) as [s|] eqn:En; [|discriminate].
  intros _. assert (Z.to_nat (l - 1) < List.length lines)%nat by (apply nth_error_Some; congruence). lia.
Qed.

(** ** [Lines()] of a position list *)

Lemma lines_of_fold_bounds : forall r lo hi,
  lo <= hi ->
  let res := fold_left (fun acc q => (Z.min (fst acc) (pr_line q), Z.max (snd acc) (pr_line q))) r (lo, hi) in
  fst res <= lo /\ hi <= snd res /\ fst res <= snd res /\
  Forall (fun q => fst res <= pr_line q <= snd res) r /\
  (forall m, m <= lo -> Forall (fun q => m <= pr_line q) r -> m <= fst res) /\
  (forall m, hi <= m -> Forall (fun q => pr_line q <= m) r -> snd res <= m).
Proof.
  induction r as [|q r IH]; intros lo hi H.
  - cbn. repeat split; try lia; auto.
  - cbn [fold_left fst snd].
    destruct (IH (Z.min lo (pr_line q)) (Z.max hi (pr_line q)) ltac:(lia)) as [H1 [H2 [H3 [H4 [H5 H6]]]]].
    cbv zeta in *. repeat split; try lia.
    + constructor; [lia|exact H4].
    + intros m Hm Hf. inversion Hf; subst. apply H5; [lia|assumption].
    + intros m Hm Hf. inversion Hf; subst. apply H6; [lia|assumption].
Qed.

(** [Lines()] encloses every range, and is as tight as any enclosing interval. *)
Theorem lines_of_spec : forall prs, prs <> [] ->
  Forall (fun q => fst (lines_of prs) <= pr_line q <= snd (lines_of prs)) prs /\
  (forall m, Forall (fun q => m <= pr_line q) prs -> m <= fst (lines_of prs)) /\
  (forall m, Forall (fun q => pr_line q <= m) prs -> snd (lines_of prs) <= m).
Proof.
  intros [|p r] H; [contradiction|]. unfold lines_of.
  destruct (lines_of_fold_bounds r (pr_line p) (pr_line p) ltac:(lia)) as [H1 [H2 [H3 [H4 [H5 H6]]]]].
  cbv zeta in *. repeat split.
  - constructor; [lia|exact H4].
  - intros m Hf. inversion Hf; subst. apply H5; assumption.
  - intros m Hf. inversion Hf; subst. apply H6; assumption.
Qed.

(** ** parseRule's line range *)

Lemma rule_lines_fold : forall parts first last,
  (first = 0 \/ 1 <= first) -> first <= last \/ first = 0 ->
  0 <= last ->
  Forall (fun pt => 1 <= fst pt) parts ->
  let res := fold_left rule_lines_step parts (first, last) in
  (first <> 0 -> fst res <= first) /\ last <= snd res /\
  Forall (fun pt => fst res <= fst pt <= snd res /\ forall fl, snd pt = Some fl -> fl <= snd res) parts /\
  (forall m, last <= m -> Forall (fun pt => fst pt <= m /\ forall fl, snd pt = Some fl -> fl <= m) parts -> snd res <= m) /\
  (parts <> [] \/ first <> 0 -> 1 <= fst res).
Proof.
  induction parts as [|[pl fld] parts IH]; intros first last Hf Hfl Hl Hall.
  - cbn. repeat split; try lia; auto. intros [H|H]; [contradiction|lia].
  - inversion Hall as [|? ? Hp Hr]; subst. cbn [fst] in Hp.
    cbn [fold_left].
    set (first' := if (first =? 0) || (pl <? first) then pl else first).
    set (last' := match fld with Some fl => Z.max (Z.max last pl) fl | None => Z.max last pl end).
    replace (rule_lines_step (first, last) (pl, fld)) with (first', last')
      by (unfold rule_lines_step, first', last'; destruct fld; reflexivity).
    assert (Hf1 : 1 <= first' /\ first' <= pl /\ (first <> 0 -> first' <= first)).
    { unfold first'. destruct (first =? 0) eqn:E0.
      - apply Z.eqb_eq in E0. cbn. lia.
      - apply Z.eqb_neq in E0. cbn. destruct (pl <? first) eqn:E1.
        + apply Z.ltb_lt in E1. lia.
        + apply Z.ltb_ge in E1. lia. }
    assert (Hl1 : last <= last' /\ pl <= last' /\ (forall fl, fld = Some fl -> fl <= last')).
    { unfold last'. destruct fld; repeat split; try lia; intros fl E; inversion E; subst; lia. }
    destruct (IH first' last' ltac:(lia) ltac:(lia) ltac:(lia) Hr) as [H1 [H2 [H3 [H4 H5]]]].
    cbv zeta in *. repeat split.
    + intros Hn. specialize (H1 ltac:(lia)). lia.
    + lia.
    + constructor.
      * cbn [fst snd]. specialize (H1 ltac:(lia)). repeat split; try lia.
        intros fl E. destruct Hl1 as [_ [_ Hx]]. specialize (Hx fl E). lia.
      * exact H3.
    + intros m Hm Hfa. inversion Hfa as [|? ? [Ha Hb] Hc]; subst. cbn [fst snd] in *.
      apply H4; [|exact Hc]. unfold last'. destruct fld as [fl|]; [specialize (Hb fl eq_refl)|]; lia.
    + intros _. apply H5. right. lia.
Qed.

(** THE RULE-LINES THEOREM (model of the [lines] accumulation in parseRule): for a rule with at least one
    part whose part lines are >= 1, the range [First..Last] encloses every part's line and every field's last
    line, starts at a part's line or above 0, and [Last] is below any bound [m] (e.g. the number of lines of
    the file) that bounds every part line and every field's last line. *)
Theorem rule_lines_enclose_lemma : forall parts,
  parts <> [] -> Forall (fun pt => 1 <= fst pt) parts ->
  let lr := rule_lines parts in
  1 <= fst lr /\ fst lr <= snd lr /\
  Forall (fun pt => fst lr <= fst pt <= snd lr /\ forall fl, snd pt = Some fl -> fl <= snd lr) parts /\
  (forall m, 0 <= m -> Forall (fun pt => fst pt <= m /\ forall fl, snd pt = Some fl -> fl <= m) parts -> snd lr <= m).
Proof.
  intros parts Hne Hall. unfold rule_lines.
  destruct (rule_lines_fold parts 0 0 ltac:(lia) ltac:(lia) ltac:(lia) Hall) as [H1 [H2 [H3 [H4 H5]]]].
  cbv zeta in *. specialize (H5 (or_introl Hne)). repeat split.
  - exact H5.
  - destruct parts as [|pt parts]; [contradiction|]. inversion H3 as [|? ? [Ha _] _]; subst. lia.
  - exact H3.
  - intros m Hm Hf. apply H4; assumption.
Qed.

(** ** Readable positions lie on lines of the file *)

Lemma collect_all_some : forall l s, collect l = Some s -> Forall (fun o => o <> None) l.
Proof.
  induction l as [|[c|] l IH]; intros s H.
  - constructor.
  - cbn [collect] in H. destruct (collect l) as [s'|] eqn:E; [|discriminate].
    constructor; [discriminate|]. eapply IH. reflexivity.
  - cbn in H. discriminate.
Qed.

Lemma expand_range_head p : wf_range p -> exists r, expand_range p = (pr_line p, pr_first p) :: r.
Proof.
  unfold wf_range, expand_range. intros H.
  destruct (Z.to_nat (pr_last p - pr_first p + 1)) as [|n] eqn:E; [lia|].
  cbn [seq map]. eexists. f_equal. f_equal. lia.
Qed.

Lemma read_back_lines_inside : forall lines pos rb,
  wf pos -> read_back lines pos = Some rb ->
  Forall (fun p => 1 <= pr_line p <= Z.of_nat (List.length lines)) pos.
Proof.
  intros lines pos. induction pos as [|p r IH]; intros rb Hwf H; [constructor|].
  inversion Hwf as [|? ? Hp Hr]; subst.
  unfold read_back in H. rewrite expand_cons, map_app, collect_app in H.
  destruct (collect (map (char_at lines) (expand_range p))) as [s1|] eqn:E1; [|discriminate].
  destruct (collect (map (char_at lines) (expand r))) as [s2|] eqn:E2; [|discriminate].
  constructor.
  - destruct (expand_range_head p Hp) as [rest Eh]. rewrite Eh in E1. cbn [map] in E1.
    pose proof (collect_all_some _ _ E1) as Hall. inversion Hall as [|? ? Hc _]; subst.
    destruct (char_at lines (pr_line p, pr_first p)) as [ch|] eqn:Ec; [|contradiction].
    apply (char_at_inside _ _ _ _ Ec).
  - apply (IH s2 Hr). unfold read_back. exact E2.
Qed.

(** A rule whose part lines are lines of the file and whose fields' last lines come from readable positions has
    its whole range inside the file. *)
Theorem rule_lines_inside_file_lemma : forall lines parts,
  parts <> [] ->
  Forall (fun pt => 1 <= fst pt <= Z.of_nat (List.length lines) /\
                    forall fl, snd pt = Some fl ->
                      exists pos rb, pos <> [] /\ wf pos /\ read_back lines pos = Some rb /\ fl = snd (lines_of pos)) parts ->
  1 <= fst (rule_lines parts) /\ fst (rule_lines parts) <= snd (rule_lines parts) /\
  snd (rule_lines parts) <= Z.of_nat (List.length lines).
Proof.
  intros lines parts Hne Hall.
  assert (H1 : Forall (fun pt => 1 <= fst pt) parts).
  { eapply Forall_impl; [|exact Hall]. intros pt [Ha _]. lia. }
  destruct (rule_lines_enclose_lemma parts Hne H1) as [Hf [Hfl [_ Hup]]].
  cbv zeta in *. repeat split; [exact Hf|exact Hfl|].
  apply Hup; [lia|]. eapply Forall_impl; [|exact Hall].
  intros pt [Ha Hb]. split; [lia|]. intros fl Efl.
  destruct (Hb fl Efl) as [pos [rb [Hpne [Hwf [Hrb Ef]]]]]. subst fl.
  pose proof (read_back_lines_inside lines pos rb Hwf Hrb) as Hin.
  destruct (lines_of_spec pos Hpne) as [_ [_ Hmax]].
  apply Hmax. eapply Forall_impl; [|exact Hin]. intros q Hq. cbv beta in Hq. lia.
Qed.
