(** C04/C12: lemmas about the slice helpers of source.go and about label sets. *)
From Coq Require Import List String Bool Floats NArith Lia.
From PintV Require Import Common.Bytes Gen.C04 Model.PromQL Model.Source Model.PromSem.
Import ListNotations.
Open Scope string_scope.
Open Scope list_scope.

Lemma mem_str_true x l : mem_str x l = true -> In x l.
Proof. apply mem_str_In. Qed.

Lemma mem_str_false x l : mem_str x l = false -> ~ In x l.
Proof. intros H Hin. apply mem_str_In in Hin. congruence. Qed.

Lemma mem_str_of_In x l : In x l -> mem_str x l = true.
Proof. apply mem_str_In. Qed.

Lemma mem_str_of_notIn x l : ~ In x l -> mem_str x l = false.
Proof. intros H. destruct (mem_str x l) eqn:E; auto. apply mem_str_In in E. tauto. Qed.

(** ** remove_first / remove_from_slice / append_to_slice *)

Lemma In_remove_first x v l : In x (remove_first v l) -> In x l.
Proof.
  induction l as [|y r IH]; simpl; auto.
  destruct (String.eqb y v); simpl; intros H; tauto.
Qed.

Lemma In_remove_first_keep x v l : In x l -> x <> v -> In x (remove_first v l).
Proof.
  induction l as [|y r IH]; simpl; auto.
  intros [H|H] Hne.
  - subst. destruct (String.eqb x v) eqn:E.
    + apply String.eqb_eq in E. congruence.
    + left; reflexivity.
  - destruct (String.eqb y v); [exact H | right; auto].
Qed.

Lemma NoDup_remove_first v l : NoDup l -> NoDup (remove_first v l).
Proof.
  induction l as [|y r IH]; simpl; intros H; auto.
  inversion H; subst. destruct (String.eqb y v); auto.
  constructor; auto. intro Hin. apply In_remove_first in Hin. tauto.
Qed.

Lemma notIn_remove_first v l : NoDup l -> ~ In v (remove_first v l).
Proof.
  induction l as [|y r IH]; simpl; intros H; auto.
  inversion H; subst. destruct (String.eqb y v) eqn:E.
  - apply String.eqb_eq in E. subst. assumption.
  - apply String.eqb_neq in E. simpl. intros [H1|H1]; [congruence | apply IH; auto].
Qed.

Lemma In_remove_from x vs : forall l, In x (remove_from_slice l vs) -> In x l.
Proof.
  unfold remove_from_slice. induction vs as [|v r IH]; simpl; auto.
  intros l H. apply IH in H. eapply In_remove_first; eauto.
Qed.

Lemma In_remove_from_keep x vs : forall l, In x l -> ~ In x vs -> In x (remove_from_slice l vs).
Proof.
  unfold remove_from_slice. induction vs as [|v r IH]; simpl; auto.
  intros l H Hn. apply IH; [apply In_remove_first_keep; [assumption | intro; subst; tauto] | tauto].
Qed.

Lemma NoDup_remove_from vs : forall l, NoDup l -> NoDup (remove_from_slice l vs).
Proof.
  unfold remove_from_slice. induction vs as [|v r IH]; simpl; auto.
  intros l H. apply IH. apply NoDup_remove_first; auto.
Qed.

Lemma notIn_remove_from x vs : forall l, NoDup l -> In x vs -> ~ In x (remove_from_slice l vs).
Proof.
  unfold remove_from_slice. induction vs as [|v r IH]; simpl; [tauto|].
  intros l Hnd [H|H].
  - subst. intro Hin. apply (In_remove_from x r) in Hin. revert Hin. apply notIn_remove_first; auto.
  - apply IH; auto. apply NoDup_remove_first; auto.
Qed.

Lemma In_append_to x vs : forall d, In x (append_to_slice d vs) <-> In x d \/ In x vs.
Proof.
  unfold append_to_slice. induction vs as [|v r IH]; simpl; intros d; [tauto|].
  rewrite IH. destruct (mem_str v d) eqn:E.
  - apply mem_str_In in E. split; [tauto|]. intros [H|[H|H]]; subst; auto.
  - rewrite in_app_iff. simpl. split; [tauto|]. intros [H|[H|H]]; subst; tauto.
Qed.

Lemma NoDup_snoc (d : list string) v : NoDup d -> ~ In v d -> NoDup (d ++ [v]).
Proof.
  induction d as [|y r IH]; simpl; intros H Hn.
  - constructor; [simpl; tauto | constructor].
  - inversion H; subst. constructor.
    + rewrite in_app_iff. simpl. intros [H1|[H1|[]]]; [tauto | subst; tauto].
    + apply IH; auto.
Qed.

Lemma NoDup_append_to vs : forall d, NoDup d -> NoDup (append_to_slice d vs).
Proof.
  unfold append_to_slice. induction vs as [|v r IH]; simpl; auto.
  intros d H. apply IH. destruct (mem_str v d) eqn:E; auto.
  apply mem_str_false in E. apply NoDup_snoc; auto.
Qed.

(** ** label sets *)

Lemma assoc_None_dom {A} n (ls : list (string * A)) : assoc n ls = None <-> ~ In n (map fst ls).
Proof.
  induction ls as [|[k v] r IH]; simpl; [tauto|].
  destruct (String.eqb n k) eqn:E.
  - apply String.eqb_eq in E. subst. split; [discriminate | tauto].
  - apply String.eqb_neq in E. rewrite IH. split; [intros H [H1|H1]; [congruence|tauto] | tauto].
Qed.

Lemma get_notin_dom ls n : ~ In n (dom ls) -> get ls n = "".
Proof. intros H. unfold get. apply assoc_None_dom in H. rewrite H. reflexivity. Qed.

Lemma ls_agree_on_spec names a b : ls_agree_on names a b = true <-> forall n, In n names -> get a n = get b n.
Proof.
  unfold ls_agree_on. rewrite forallb_forall. split; intros H n Hn; specialize (H n Hn).
  - apply String.eqb_eq; auto.
  - apply String.eqb_eq; auto.
Qed.

Lemma ls_eqb_get a b : ls_eqb a b = true -> forall n, get a n = get b n.
Proof.
  unfold ls_eqb. rewrite ls_agree_on_spec. intros H n.
  destruct (in_dec string_dec n (dom a ++ dom b)) as [Hin|Hn]; auto.
  rewrite in_app_iff in Hn. rewrite !get_notin_dom; tauto.
Qed.

Lemma ls_eqb_has a b : ls_eqb a b = true -> forall n, has a n = has b n.
Proof. intros H n. unfold has. rewrite (ls_eqb_get a b H). reflexivity. Qed.

Lemma mem_ls_spec x l : mem_ls x l = true -> exists y, In y l /\ forall n, get x n = get y n.
Proof.
  unfold mem_ls. rewrite existsb_exists. intros [y [Hin He]]. exists y. split; auto. apply ls_eqb_get; auto.
Qed.

Lemma subset_ls_spec a b : subset_ls a b = true -> forall x, In x a -> exists y, In y b /\ forall n, get x n = get y n.
Proof.
  unfold subset_ls. rewrite forallb_forall. intros H x Hx. apply mem_ls_spec. auto.
Qed.

Lemma seteq_ls_l a b : seteq_ls a b = true -> forall x, In x a -> exists y, In y b /\ forall n, get x n = get y n.
Proof. unfold seteq_ls. intros H. apply andb_true_iff in H. apply subset_ls_spec. tauto. Qed.

Lemma assoc_filter {A} (f : string -> bool) n (ls : list (string * A)) :
  assoc n (filter (fun kv => f (fst kv)) ls) = if f n then assoc n ls else None.
Proof.
  induction ls as [|[k v] r IH]; simpl.
  - destruct (f n); reflexivity.
  - destruct (f k) eqn:Ek; simpl.
    + destruct (String.eqb n k) eqn:E.
      * apply String.eqb_eq in E. subst. rewrite Ek. reflexivity.
      * exact IH.
    + destruct (String.eqb n k) eqn:E.
      * apply String.eqb_eq in E. subst. rewrite Ek in IH |- *. exact IH.
      * exact IH.
Qed.

Lemma get_without ls ns n : get (ls_without ls ns) n = if mem_str n ns then "" else get ls n.
Proof.
  unfold get, ls_without. rewrite (assoc_filter (fun k => negb (mem_str k ns))).
  destruct (mem_str n ns); reflexivity.
Qed.

Lemma get_keep ls ns n : get (ls_keep ls ns) n = if mem_str n ns then get ls n else "".
Proof.
  unfold get, ls_keep. rewrite (assoc_filter (fun k => mem_str k ns)).
  destruct (mem_str n ns); reflexivity.
Qed.

Lemma get_set ls k v n : get (ls_set ls k v) n = if String.eqb n k then v else get ls n.
Proof.
  unfold ls_set. destruct (String.eqb v "") eqn:Ev.
  - apply String.eqb_eq in Ev. subst. rewrite get_without. simpl.
    destruct (String.eqb n k); reflexivity.
  - unfold get at 1. simpl. destruct (String.eqb n k) eqn:E; [reflexivity|].
    fold (get (ls_without ls [k]) n). rewrite get_without. simpl. rewrite E. reflexivity.
Qed.

Lemma get_drop_name ls n : get (drop_name ls) n = if String.eqb n metric_name then "" else get ls n.
Proof. unfold drop_name. rewrite get_without. simpl. destruct (String.eqb n metric_name); reflexivity. Qed.

Lemma has_get ls n : has ls n = true <-> get ls n <> "".
Proof.
  unfold has. destruct (String.eqb (get ls n) "") eqn:E; simpl.
  - apply String.eqb_eq in E. split; [discriminate | congruence].
  - apply String.eqb_neq in E. split; auto.
Qed.

Lemma has_ext a b : (forall n, get a n = get b n) -> forall n, has a n = has b n.
Proof. intros H n. unfold has. rewrite H. reflexivity. Qed.

Lemma and_opt_true o c : and_opt o c = Some true -> o = Some true /\ c = true.
Proof.
  destruct o as [b|]; simpl; [|discriminate]. intros H. inversion H as [H1]. apply andb_true_iff in H1.
  destruct H1 as [-> ->]. auto.
Qed.
