(** C11: H2 (the sort key is injective on isEqual classes) follows from two invariants of the job enumeration,
    and the channel protocol (Proofs/C11_lts.v) turns the permutation theorem into a statement about runs of
    checkRules with any worker count, channel capacity and schedule. *)
From Coq Require Import List String Ascii ZArith NArith Bool Lia Permutation.
From PintV Require Import Common.Bytes Common.Sorting Model.SummarySort Model.JobEnum Model.ScanLTS.
From PintV Require Import Proofs.C11_order Proofs.C11_perm Proofs.C11_lts.
Import ListNotations.

Section Jobs.
  Variable jobs : list job.

  (** J-loc: a location belongs to one entry.  Two problems (of any two jobs) reported for the same file with the
      same line range come from entries that agree on symlink target, owner and rule identity.  (True when every
      check reports inside the lines of its own rule and the rules of a file do not overlap; file-level error
      entries carry the lines of their own error.) *)
  Definition J_loc : Prop := forall j1 j2 p1 p2,
    In j1 jobs -> In j2 jobs -> In p1 (snd j1) -> In p2 (snd j2) ->
    e_path (fst j1) = e_path (fst j2) -> p_lfirst p1 = p_lfirst p2 -> p_llast p1 = p_llast p2 ->
    e_target (fst j1) = e_target (fst j2) /\ e_owner (fst j1) = e_owner (fst j2) /\ e_rule (fst j1) = e_rule (fst j2).

  (** Since fix 346020d the sort key holds ALL diagnostics (sorted), so key-equal reports have the same diagnostics
      and the second invariant the older code needed ("the first diagnostic determines the rest", which
      promql/aggregate with several labels to keep/strip violated: one job per label, a shared first diagnostic)
      is a theorem. *)
  Lemma key_eq_same_diags (a b : report) :
    sort_key (norm a) = sort_key (norm b) -> is_same_diags (r_diags b) (r_diags a) = true.
  Proof.
    intros K. unfold sort_key in K. injection K as _ _ _ _ _ _ _ K. cbn [norm r_diags] in K.
    assert (Pa : Permutation (map triple (r_diags a)) (map dkey (fsort (sort_diags (r_diags a)))))
      by (apply Permutation_map; unfold fsort, sort_diags;
          eapply Permutation_trans; [apply Permutation_sym, isort_perm|apply Permutation_sym, isort_perm]).
    assert (Pb : Permutation (map triple (r_diags b)) (map dkey (fsort (sort_diags (r_diags b)))))
      by (apply Permutation_map; unfold fsort, sort_diags;
          eapply Permutation_trans; [apply Permutation_sym, isort_perm|apply Permutation_sym, isort_perm]).
    apply is_same_diags_incl. split.
    - rewrite <- (map_length triple (r_diags b)), <- (map_length triple (r_diags a)).
      rewrite (Permutation_length Pa), (Permutation_length Pb), K. reflexivity.
    - intros t Ht. apply (Permutation_in _ (Permutation_sym Pa)). rewrite K. now apply (Permutation_in _ Pb).
  Qed.

  Theorem H2_from_job_invariants : J_loc -> H2 (sequential job report run_job jobs).
  Proof.
    intros L a b Ha Hb K. pose proof (key_eq_same_diags a b K) as SD. unfold sequential in Ha, Hb.
    apply in_flat_map in Ha, Hb. destruct Ha as (j1 & Hj1 & Ha), Hb as (j2 & Hj2 & Hb).
    unfold run_job in Ha, Hb. apply in_map_iff in Ha, Hb.
    destruct Ha as (p1 & <- & Hp1), Hb as (p2 & <- & Hp2).
    unfold sort_key in K. cbn [norm r_path r_lfirst r_llast r_sev r_reporter r_summary r_details mk_report] in K.
    injection K as K1 K2 K3 K4 K5 K6 K7 _.
    destruct (L j1 j2 p1 p2 Hj1 Hj2 Hp1 Hp2 K1 K2 K3) as (T & O & Ru).
    unfold is_equal. cbn [mk_report r_target r_path r_owner r_lfirst r_llast r_details r_rule r_reporter r_summary r_diags r_sev] in *.
    rewrite T, K1, O, K2, K3, K7, Ru, K5, K6, K4, SD.
    now rewrite !String.eqb_refl, !Z.eqb_refl, N.eqb_refl.
  Qed.
End Jobs.

(** Headline for the real pipeline: two complete runs of checkRules over the same jobs — any numbers of workers,
    any channel capacities >= 1, any schedules — feed Summary.Report with streams that [process] maps to the same
    result, provided the job-by-job stream satisfies H1 and H2. *)
Theorem runs_agree (jobs : list job) n1 n2 cap1 cap2 k1 k2 s1 s2 :
  1 <= n1 -> 1 <= n2 -> 1 <= cap1 -> 1 <= cap2 ->
  H1 (sequential job report run_job jobs) -> H2 (sequential job report run_job jobs) ->
  steps job report run_job cap1 (init job report n1 jobs) k1 s1 -> (forall s', ~ step job report run_job cap1 s1 s') ->
  steps job report run_job cap2 (init job report n2 jobs) k2 s2 -> (forall s', ~ step job report run_job cap2 s2 s') ->
  process (summary job report s1) = process (summary job report s2).
Proof.
  intros N1 N2 C1 C2 Hh1 Hh2 R1 M1 R2 M2.
  destruct (maximal_runs_deliver job report run_job cap1 n1 jobs k1 s1 N1 C1 R1 M1) as (_ & P1 & _).
  destruct (maximal_runs_deliver job report run_job cap2 n2 jobs k2 s2 N2 C2 R2 M2) as (_ & P2 & _).
  rewrite (process_perm_invariant _ _ Hh1 Hh2 (Permutation_sym P1)).
  rewrite (process_perm_invariant _ _ Hh1 Hh2 (Permutation_sym P2)). reflexivity.
Qed.
