(** C11: H2 (the sort key is injective on isEqual classes) follows from two invariants of the job enumeration,
    and the channel protocol (Proofs/C11_lts.v) turns the permutation theorem into a statement about runs of
    checkRules with any worker count, channel capacity and schedule. *)
From Coq Require Import List String Ascii ZArith NArith Bool Lia Permutation.
From PintV Require Import Common.Bytes Common.Sorting Model.SummarySort Model.JobEnum Model.ScanLTS.
From PintV Require Import Proofs.C11_order Proofs.C11_perm Proofs.C11_lts.
Import ListNotations.

(** Since fix 346020d the sort key holds ALL diagnostics (sorted), so key-equal reports have the same diagnostics; the
    invariant the older code needed ("the first diagnostic determines the rest", which promql/aggregate with several
    labels to keep/strip violated) is a theorem. *)
Lemma key_eq_same_diags (a b : report) :
  sort_key (norm a) = sort_key (norm b) -> is_same_diags (r_diags b) (r_diags a) = true.
Proof.
  intros K. unfold sort_key in K. injection K as _ _ _ _ _ _ _ K _. cbn [norm r_diags] in K.
  assert (Pa : Permutation (map triple (r_diags a)) (map dkey (fsort (sort_diags (r_diags a)))))
    by (apply Permutation_map; unfold fsort, sort_diags;
        eapply Permutation_trans; [apply Permutation_sym, isort_perm|apply Permutation_sym, isort_perm]).
  assert (Pb : Permutation (map triple (r_diags b)) (map dkey (fsort (sort_diags (r_diags b)))))
    by (apply Permutation_map; unfold fsort, sort_diags;
        eapply Permutation_trans; [apply Permutation_sym, isort_perm|apply Permutation_sym, isort_perm]).
  apply is_same_diags_incl. split.
  - rewrite <- (map_length triple (r_diags b)), <- (map_length triple (r_diags a)).
    rewrite (Permutation_length Pa), (Permutation_length Pb), K. reflexivity.
  - intros t Ht. apply (Permutation_in _ (Permutation_sym Pa)). rewrite K. now apply (Permutation_in _ Pb).
Qed.

Lemma sorted_diags_nil l : fsort (sort_diags l) = [] -> l = [].
Proof.
  intros E. unfold fsort, sort_diags in E.
  assert (P : Permutation [] l).
  { rewrite <- E. eapply Permutation_trans; apply isort_perm. }
  now apply Permutation_nil in P.
Qed.

(** Since fix bc86063 the comparator reads, after the diagnostics, Rule.Lines.First, Rule.Lines.Last, Owner and
    Path.SymlinkTarget.  What [isEqual] reads and the key still does NOT determine (the residue, stated over any stream):

    (R-kind)   [isEqual] calls Rule.IsSame, which compares the kind flags (AlertingRule / RecordingRule nil or not), the
               parse Error and Lines; only Lines are sort keys.  Residue: two reports of one file whose rules have the same
               Lines have rules of the same kind and Error (rules of a file do not share their line range).
    (R-nodiag) cmpDiagnostics answers -1 / 1 as soon as one slice is empty and cmp.Or stops at the first non-zero key, so
               for reports WITHOUT diagnostics the trailing keys are never read.  Residue: two diagnostic-less reports for the
               same file, lines and reporter come from entries that agree on target, owner and rule (parse errors are
               the only diagnostic-less problems: one entry per error location).
    Both are monitored through H2 on every recorded real stream. *)
Section Residue.
  Variable s : list report.

  Definition R_kind : Prop := forall a b, In a s -> In b s ->
    r_path a = r_path b -> r_rfirst a = r_rfirst b -> r_rlast a = r_rlast b -> r_rule a = r_rule b.

  Definition R_nodiag : Prop := forall a b, In a s -> In b s -> r_diags a = [] -> r_diags b = [] ->
    r_path a = r_path b -> r_lfirst a = r_lfirst b -> r_llast a = r_llast b -> r_reporter a = r_reporter b ->
    r_target a = r_target b /\ r_owner a = r_owner b /\ r_rule a = r_rule b.

  Theorem H2_from_residue : R_kind -> R_nodiag -> H2 s.
  Proof.
    intros RK RN a b Ha Hb K. pose proof (key_eq_same_diags a b K) as SD.
    unfold sort_key in K. cbn [norm r_path r_lfirst r_llast r_sev r_reporter r_summary r_details] in K.
    injection K as K1 K2 K3 K4 K5 K6 K7 _ K9.
    assert (X : r_target a = r_target b /\ r_owner a = r_owner b /\ r_rule a = r_rule b).
    { unfold tkey in K9. cbn [norm r_diags] in K9.
      destruct (fsort (sort_diags (r_diags a))) eqn:Ea, (fsort (sort_diags (r_diags b))) eqn:Eb; cbn in K9; try discriminate.
      - apply sorted_diags_nil in Ea, Eb. now apply RN.
      - injection K9 as T1 T2 T3 T4. repeat split; auto; try (now apply RK). }
    destruct X as (T & O & Ru).
    unfold is_equal. rewrite T, K1, O, K2, K3, K7, Ru, K5, K6, K4, SD.
    now rewrite !String.eqb_refl, !Z.eqb_refl, N.eqb_refl.
  Qed.
End Residue.

(** Headline for the real pipeline: two complete runs of checkRules over the same jobs — any numbers of workers,
    any channel capacities >= 1, any schedules — feed Summary.Report with streams that [process] maps to the same
    result, provided the job-by-job stream satisfies H1 and H2. *)
Theorem runs_agree (jobs : list job) n1 n2 cap1 cap2 k1 k2 s1 s2 :
  1 <= n1 -> 1 <= n2 -> 1 <= cap1 -> 1 <= cap2 ->
  H1 (sequential job report run_job jobs) -> H2 (sequential job report run_job jobs) ->
  steps job report run_job cap1 (init job report n1 jobs) k1 s1 -> (forall s', ~ step job report run_job cap1 s1 s') ->
  steps job report run_job cap2 (init job report n2 jobs) k2 s2 -> (forall s', ~ step job report run_job cap2 s2 s') ->
  process (summary job report s1) = process (summary job report s2).
Proof.
  intros N1 N2 C1 C2 Hh1 Hh2 R1 M1 R2 M2.
  destruct (maximal_runs_deliver job report run_job cap1 n1 jobs k1 s1 N1 C1 R1 M1) as (_ & P1 & _).
  destruct (maximal_runs_deliver job report run_job cap2 n2 jobs k2 s2 N2 C2 R2 M2) as (_ & P2 & _).
  rewrite (process_perm_invariant _ _ Hh1 Hh2 (Permutation_sym P1)).
  rewrite (process_perm_invariant _ _ Hh1 Hh2 (Permutation_sym P2)). reflexivity.
Qed.
