(** C13 — sliceRange: termination (exactly when the slice size is positive), the guard of RangeQuery, and
    the shape of the slices. *)
From Coq Require Import List ZArith NArith Bool Lia.
From PintV Require Import Common.GoTime Model.Range Model.RangeRef.
Import ListNotations.
Open Scope Z_scope.

Lemma slice_loop_none size end_ : size <= 0 ->
  forall fuel rstart, rstart < end_ -> slice_loop fuel rstart end_ size = None.
Proof.
  intros Hs fuel. induction fuel as [|f IH]; intros rstart Hlt; cbn [slice_loop]; [reflexivity|].
  destruct (rstart <? end_) eqn:E; [|apply Z.ltb_ge in E; lia].
  rewrite IH by lia. reflexivity.
Qed.

Lemma div_step_down a size : 0 < size -> (a - size) / size = a / size - 1.
Proof.
  intros Hs. replace (a - size) with (a + (-1) * size) by lia. rewrite Z.div_add by lia. lia.
Qed.

Lemma slice_loop_some size end_ : 0 < size ->
  forall fuel rstart, Z.max 0 ((end_ - rstart) / size + 1) < Z.of_nat fuel -> slice_loop fuel rstart end_ size <> None.
Proof.
  intros Hs fuel. induction fuel as [|f IH]; intros rstart Hf; cbn [slice_loop]; [lia|].
  destruct (rstart <? end_) eqn:E; [|discriminate].
  apply Z.ltb_lt in E.
  specialize (IH (rstart + size)).
  destruct (slice_loop f (rstart + size) end_ size) eqn:El; [discriminate|].
  exfalso. apply IH; [|reflexivity].
  replace (end_ - (rstart + size)) with ((end_ - rstart) - size) by lia.
  rewrite div_step_down by lia.
  assert (0 <= (end_ - rstart) / size) by (apply Z.div_pos; lia). lia.
Qed.

Lemma slice_fuel_suffices start end_ res size : 0 <= res -> 0 < size ->
  slice_range (slice_fuel start end_ size) start end_ res size <> None.
Proof.
  intros Hres Hs. unfold slice_range.
  destruct (end_ - start <=? res) eqn:E; [discriminate|]. apply Z.leb_gt in E.
  pose proof (time_round_near start size Hs) as [_ [Hlo _]].
  pose proof (slice_loop_some size end_ Hs (slice_fuel start end_ size) (time_round start size)) as H.
  destruct (slice_loop _ _ _ _); [discriminate|]. exfalso. apply H; [|reflexivity].
  unfold slice_fuel.
  assert ((end_ - time_round start size) / size <= (end_ - start) / size + 1).
  { replace ((end_ - start) / size + 1) with ((end_ - start + 1 * size) / size) by (rewrite Z.div_add by lia; lia).
    apply Z.div_le_mono; lia. }
  assert (0 <= (end_ - start) / size) by (apply Z.div_pos; lia).
  rewrite Z2Nat.id by lia. lia.
Qed.

(** sliceRange terminates exactly when the slice size is positive (or the range is at most one step long). *)
Lemma slice_range_terminates start end_ res size : 0 <= res ->
  ((exists fuel, slice_range fuel start end_ res size <> None) <-> (0 < size \/ end_ - start <= res)).
Proof.
  intros Hres. split.
  - intros [fuel H]. unfold slice_range in H.
    destruct (end_ - start <=? res) eqn:E; [right; apply Z.leb_le; exact E|].
    apply Z.leb_gt in E. destruct (Z_lt_le_dec 0 size) as [Hs|Hs]; [left; exact Hs|]. exfalso.
    rewrite time_round_nonpos in H by exact Hs.
    rewrite (slice_loop_none size end_ Hs fuel start) in H by lia. apply H. reflexivity.
  - intros [Hs|Hle].
    + exists (slice_fuel start end_ size). apply slice_fuel_suffices; assumption.
    + exists O. unfold slice_range. destruct (end_ - start <=? res) eqn:E; [discriminate|]. apply Z.leb_gt in E. lia.
Qed.

(** The pre-fix behaviour: with a slice size of zero (step > 4h) the loop never ends, whatever the fuel. *)
Lemma slice_range_zero_size_diverges start end_ res size fuel : 0 <= res -> size <= 0 -> res < end_ - start ->
  slice_range fuel start end_ res size = None.
Proof.
  intros Hres Hs Hlt. unfold slice_range.
  destruct (end_ - start <=? res) eqn:E; [apply Z.leb_le in E; lia|].
  rewrite time_round_nonpos by exact Hs.
  rewrite (slice_loop_none size end_ Hs fuel start) by lia. reflexivity.
Qed.

(** The slice bookkeeping of RangeQuery (with the guard [queryStep <= 0] of fix 43069bd) is total: for every
    start, end, lookback and step (even non-positive ones) it produces a slice list. *)
Lemma query_slices_total start end_ lookback step : 0 <= step ->
  query_slices (slice_fuel start end_ (slice_size step)) start end_ lookback step <> None.
Proof.
  intros Hstep. unfold query_slices.
  destruct (slice_size step <=? 0) eqn:E; cbn [orb]; [discriminate|].
  destruct (lookback <? slice_size step); [discriminate|].
  apply Z.leb_gt in E. apply slice_fuel_suffices; lia.
Qed.

Lemma slice_size_zero_iff step : 0 < step -> step <= max_int64 - 2 * hour -> (slice_size step = 0 <-> 4 * hour < step).
Proof.
  intros H1 H2. unfold slice_size. rewrite duration_round_zero_iff; unfold hour, sec in *; lia.
Qed.
