(** C11: the comparators of SortReports are lexicographic products of genuine three-way comparisons; the
    report comparator deviates from the order [kcmp] only when two reports tie on the whole sort key. *)
From Coq Require Import List String Ascii ZArith NArith Bool Lia.
From PintV Require Import Common.Bytes Common.Sorting Model.SummarySort.
Import ListNotations.

Record ok {A} (c : cmpf A) : Prop := {
  ok_refl : forall a, c a a = Eq;
  ok_anti : forall a b, c b a = CompOpp (c a b);
  ok_trans : forall a b d, c a b = Lt -> c b d = Lt -> c a d = Lt;
  ok_eq : forall a b d, c a b = Eq -> c a d = c b d }.

Lemma ok_eq_r {A} (c : cmpf A) : ok c -> forall a b d, c a b = Eq -> c d a = c d b.
Proof.
  intros H a b d E. rewrite (ok_anti c H a d), (ok_anti c H b d). f_equal. now apply (ok_eq c H).
Qed.

Lemma ok_gt_lt {A} (c : cmpf A) : ok c -> forall a b, c a b = Gt -> c b a = Lt.
Proof. intros H a b E. rewrite (ok_anti c H a b), E. reflexivity. Qed.

Lemma ok_lex {A} (c1 c2 : cmpf A) : ok c1 -> ok c2 -> ok (lex c1 c2).
Proof.
  intros H1 H2. split; unfold lex.
  - intros a. now rewrite (ok_refl c1 H1), (ok_refl c2 H2).
  - intros a b. rewrite (ok_anti c1 H1 a b). destruct (c1 a b); cbn; auto. apply (ok_anti c2 H2).
  - intros a b d. destruct (c1 a b) eqn:E1; try discriminate; destruct (c1 b d) eqn:E2; try discriminate; intros L1 L2.
    + rewrite (ok_eq c1 H1 a b d E1), E2. eapply (ok_trans c2 H2); eauto.
    + now rewrite (ok_eq c1 H1 a b d E1), E2.
    + now rewrite <- (ok_eq_r c1 H1 b d a E2), E1.
    + now rewrite (ok_trans c1 H1 a b d E1 E2).
  - intros a b d. destruct (c1 a b) eqn:E1; try discriminate. intros E2.
    rewrite (ok_eq c1 H1 a b d E1). destruct (c1 b d); auto. now apply (ok_eq c2 H2).
Qed.

Lemma ok_on {A B} (f : A -> B) (c : cmpf B) : ok c -> ok (on f c).
Proof.
  intros H. split; unfold on; intros.
  - apply (ok_refl c H).
  - apply (ok_anti c H).
  - eapply (ok_trans c H); eauto.
  - now apply (ok_eq c H).
Qed.

Lemma ok_Z : ok Z.compare.
Proof.
  split.
  - apply Z.compare_refl.
  - intros a b. apply Z.compare_antisym.
  - intros a b d. rewrite !Z.compare_lt_iff. lia.
  - intros a b d E. apply Z.compare_eq in E. now subst.
Qed.

Lemma ok_zflip : ok zflip.
Proof.
  unfold zflip. split.
  - intros; apply Z.compare_refl.
  - intros a b. apply Z.compare_antisym.
  - intros a b d. rewrite !Z.compare_lt_iff. lia.
  - intros a b d E. apply Z.compare_eq in E. now subst.
Qed.

Lemma ascii_compare_refl a : Ascii.compare a a = Eq.
Proof. unfold Ascii.compare. apply N.compare_refl. Qed.

Lemma string_compare_refl s : String.compare s s = Eq.
Proof. induction s as [|a s IH]; cbn; auto. now rewrite ascii_compare_refl. Qed.

Lemma string_compare_trans : forall a b d, String.compare a b = Lt -> String.compare b d = Lt -> String.compare a d = Lt.
Proof.
  induction a as [|x a IH]; intros [|y b] [|z d]; cbn; try discriminate; auto.
  destruct (Ascii.compare x y) eqn:E1; try discriminate; destruct (Ascii.compare y z) eqn:E2; try discriminate; intros L1 L2.
  - apply Ascii.compare_eq_iff in E1, E2. subst. rewrite ascii_compare_refl. eauto.
  - apply Ascii.compare_eq_iff in E1. subst. now rewrite E2.
  - apply Ascii.compare_eq_iff in E2. subst. now rewrite E1.
  - unfold Ascii.compare in *. rewrite N.compare_lt_iff in *.
    replace (N_of_ascii x ?= N_of_ascii z)%N with Lt; auto. symmetry. apply N.compare_lt_iff. lia.
Qed.

Lemma ok_string : ok String.compare.
Proof.
  split.
  - apply string_compare_refl.
  - intros a b. apply String.compare_antisym.
  - apply string_compare_trans.
  - intros a b d E. apply String.compare_eq_iff in E. now subst.
Qed.

Lemma ok_N : ok N.compare.
Proof.
  split.
  - apply N.compare_refl.
  - intros a b. apply N.compare_antisym.
  - intros a b d. rewrite !N.compare_lt_iff. lia.
  - intros a b d E. apply N.compare_eq in E. now subst.
Qed.

Lemma ok_dcmp : ok dcmp.
Proof.
  unfold dcmp. repeat apply ok_lex; apply ok_on; first [apply ok_zflip | apply ok_Z | apply ok_string | apply ok_N].
Qed.

Lemma ok_k7 : ok k7.
Proof.
  unfold k7. repeat apply ok_lex; apply ok_on; first [apply ok_Z | apply ok_string].
Qed.

Lemma lcmp_refl l : lcmp l l = Eq.
Proof. induction l as [|x l IH]; cbn; auto. now rewrite (ok_refl _ ok_dcmp). Qed.

Lemma ok_lcmp : ok lcmp.
Proof.
  pose proof ok_dcmp as H. split.
  - apply lcmp_refl.
  - induction a as [|x a IH]; intros [|y b]; cbn; auto.
    rewrite (ok_anti _ H x y). destruct (dcmp x y); cbn; auto.
  - induction a as [|x a IH]; intros [|y b] [|z d]; cbn; try discriminate; auto.
    destruct (dcmp x y) eqn:E1; try discriminate; destruct (dcmp y z) eqn:E2; try discriminate; intros L1 L2.
    + rewrite (ok_eq _ H x y z E1), E2. eauto.
    + now rewrite (ok_eq _ H x y z E1), E2.
    + now rewrite <- (ok_eq_r _ H y z x E2), E1.
    + now rewrite (ok_trans _ H x y z E1 E2).
  - induction a as [|x a IH]; intros [|y b] [|z d]; cbn; try discriminate; auto.
    all: destruct (dcmp x y) eqn:E1; try discriminate; intros E2; try reflexivity.
    rewrite (ok_eq _ H x y z E1). destruct (dcmp y z); auto.
Qed.

Lemma ok_tcmp : ok tcmp.
Proof. unfold tcmp. repeat apply ok_lex; apply ok_on; first [apply ok_Z | apply ok_string]. Qed.

Lemma ok_ocmp {A} (c : cmpf A) : ok c -> ok (ocmp c).
Proof.
  intros H. split.
  - intros [a|]; cbn; auto. apply (ok_refl _ H).
  - intros [a|] [b|]; cbn; auto. apply (ok_anti _ H).
  - intros [a|] [b|] [d|]; cbn; try discriminate; auto. apply (ok_trans _ H).
  - intros [a|] [b|] [d|]; cbn; try discriminate; auto. apply (ok_eq _ H).
Qed.

Lemma ok_kcmp : ok kcmp.
Proof.
  unfold kcmp. apply ok_lex; [apply ok_k7|]. apply ok_lex; [apply ok_on, ok_lcmp|apply ok_on, ok_ocmp, ok_tcmp].
Qed.

(** The Go comparator answers "less" exactly when the key order does, or when the keys tie and the left
    report has no diagnostics (the cmpDiagnostics quirk). *)
Lemma report_lt_spec a b :
  report_lt a b = true <-> kcmp a b = Lt \/ (kcmp a b = Eq /\ fsort (r_diags a) = []).
Proof.
  unfold report_lt, kcmp, lex, on, tkey. destruct (k7 a b); cbn -[lcmp].
  - destruct (fsort (r_diags a)) as [|x xs] eqn:Ea, (fsort (r_diags b)) as [|y ys] eqn:Eb.
    + cbn. split; auto.
    + cbn. split; auto.
    + cbn. split; [discriminate|]. intros [H|[H _]]; discriminate.
    + destruct (lcmp (x :: xs) (y :: ys)); cbn [ocmp].
      * destruct (tcmp a b); split; auto; try discriminate; intros [H|[_ H]]; discriminate.
      * split; auto.
      * split; [discriminate|]. intros [H|[H _]]; discriminate.
  - split; auto.
  - split; [discriminate|]. intros [H|[H _]]; discriminate.
Qed.

(** key equality as data *)
Lemma dcmp_eq a b : dcmp a b = Eq <->
  (dg_first a = dg_first b /\ dg_last a = dg_last b /\ dg_msg a = dg_msg b /\ dg_extra a = dg_extra b).
Proof.
  unfold dcmp, lex, on, zflip. split.
  - destruct (dg_first b ?= dg_first a)%Z eqn:E1; try discriminate.
    destruct (dg_last a ?= dg_last b)%Z eqn:E2; try discriminate.
    destruct (dg_msg a ?= dg_msg b)%string eqn:E3; try discriminate. intros E4.
    apply Z.compare_eq in E1, E2. apply String.compare_eq_iff in E3. apply N.compare_eq in E4. auto.
  - intros (-> & -> & -> & ->). now rewrite !Z.compare_refl, string_compare_refl, N.compare_refl.
Qed.

Lemma lcmp_eq sa sb : lcmp sa sb = Eq <-> map dkey sa = map dkey sb.
Proof.
  revert sb. induction sa as [|x sa IH]; intros [|y sb]; cbn; split; try discriminate; auto.
  - destruct (dcmp x y) eqn:E; try discriminate. intros L. apply dcmp_eq in E. destruct E as (E1 & E2 & E3 & E4).
    unfold dkey at 1 3. rewrite E1, E2, E3, E4. f_equal. now apply IH.
  - intros E. injection E as E1 E2 E3 E4 E5.
    assert (D : dcmp x y = Eq) by (apply dcmp_eq; auto). rewrite D. now apply IH.
Qed.

Lemma tcmp_eq a b : tcmp a b = Eq <->
  (r_rfirst a, r_rlast a, r_owner a, r_target a) = (r_rfirst b, r_rlast b, r_owner b, r_target b).
Proof.
  unfold tcmp, lex, on. split.
  - destruct (r_rfirst a ?= r_rfirst b)%Z eqn:E1; try discriminate.
    destruct (r_rlast a ?= r_rlast b)%Z eqn:E2; try discriminate.
    destruct (r_owner a ?= r_owner b)%string eqn:E3; try discriminate. intros E4.
    apply Z.compare_eq in E1, E2. apply String.compare_eq_iff in E3, E4. now rewrite E1, E2, E3, E4.
  - intros E. injection E as -> -> -> ->. now rewrite !Z.compare_refl, !string_compare_refl.
Qed.

Lemma kcmp_eq_sort_key a b : kcmp a b = Eq <-> sort_key a = sort_key b.
Proof.
  unfold kcmp, k7, lex, on, sort_key. split.
  - destruct (r_path a ?= r_path b)%string eqn:E1; try discriminate.
    destruct (r_lfirst a ?= r_lfirst b)%Z eqn:E2; try discriminate.
    destruct (r_llast a ?= r_llast b)%Z eqn:E3; try discriminate.
    destruct (r_sev a ?= r_sev b)%Z eqn:E4; try discriminate.
    destruct (r_reporter a ?= r_reporter b)%string eqn:E5; try discriminate.
    destruct (r_summary a ?= r_summary b)%string eqn:E6; try discriminate.
    destruct (r_details a ?= r_details b)%string eqn:E7; try discriminate.
    apply String.compare_eq_iff in E1, E5, E6, E7. apply Z.compare_eq in E2, E3, E4.
    rewrite E1, E2, E3, E4, E5, E6, E7.
    destruct (lcmp (fsort (r_diags a)) (fsort (r_diags b))) eqn:L; try discriminate.
    apply lcmp_eq in L. rewrite L. intros T. f_equal.
    unfold tkey in *. destruct (fsort (r_diags a)), (fsort (r_diags b)); cbn in *; try discriminate; auto.
    apply tcmp_eq in T. now rewrite T.
  - intros E. injection E as -> -> -> -> -> -> -> E8 E9.
    rewrite !string_compare_refl, !Z.compare_refl. apply lcmp_eq in E8. rewrite E8.
    unfold tkey in *. destruct (fsort (r_diags a)), (fsort (r_diags b)); cbn in *; try discriminate; auto.
    injection E9 as E9a E9b E9c E9d. apply tcmp_eq. now rewrite E9a, E9b, E9c, E9d.
Qed.
