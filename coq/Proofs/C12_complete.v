(** C12: promql/impossible reports nothing unless some operation node of the expression MARKS something: the dead
    flags (and with them every "dead code in query" problem) originate only from the four marking mechanisms of
    parseBinOps, each at a binary operation node.  Together with [impossible_sound] this makes the property a statement
    about [impossible_problems] for arbitrary nesting. *)
From Coq Require Import List String Bool Floats NArith Arith Lia.
From PintV Require Import Common.Bytes Gen.C04 Model.PromQL Model.Source Model.PromSem Model.PromFrag Model.PromAlways Model.PromClass
  Proofs.C04_lists Proofs.C04_transfer Proofs.C04_walk Proofs.C04_sound Proofs.C04_calls Proofs.C04_binops Proofs.C04_main
  Proofs.C04_live Proofs.C12_musthave Proofs.C12_join Proofs.C12_flag.
Import ListNotations.
Open Scope string_scope.
Open Scope list_scope.

Lemma walk_sources_eq s :
  walk_sources s = s :: flat_map walk_sources (s_joins s) ++ flat_map walk_sources (s_unless s).
Proof. destruct s; reflexivity. Qed.

(** no dead source reachable through Joins / Unless *)
Definition all_live (s : source) : Prop := forall d, In d (walk_sources s) -> s_dead d = false.

Lemma all_live_intro s :
  s_dead s = false -> (forall j, In j (s_joins s) -> all_live j) -> (forall u, In u (s_unless s) -> all_live u) -> all_live s.
Proof.
  intros Hd Hj Hu d Hin. rewrite walk_sources_eq in Hin. destruct Hin as [<-|Hin]; [exact Hd|].
  apply in_app_or in Hin. destruct Hin as [Hin|Hin]; apply in_flat_map in Hin; destruct Hin as [x [Hx Hdx]].
  - exact (Hj x Hx d Hdx).
  - exact (Hu x Hx d Hdx).
Qed.

Lemma all_live_elim s : all_live s ->
  s_dead s = false /\ (forall j, In j (s_joins s) -> all_live j) /\ (forall u, In u (s_unless s) -> all_live u).
Proof.
  intros H. split; [|split].
  - apply H. rewrite walk_sources_eq. left. reflexivity.
  - intros j Hj d Hd. apply H. rewrite walk_sources_eq. right. apply in_or_app. left. apply in_flat_map. eauto.
  - intros u Hu d Hd. apply H. rewrite walk_sources_eq. right. apply in_or_app. right. apply in_flat_map. eauto.
Qed.

(** same Joins / Unless, dead flag kept or cleared *)
Definition jpr (s s' : source) : Prop :=
  s_joins s = s_joins s' /\ s_unless s = s_unless s' /\ (s_dead s = s_dead s' \/ s_dead s = false).

Lemma jpr_refl s : jpr s s. Proof. repeat split. left. reflexivity. Qed.
Lemma jpr_trans a b c : jpr a b -> jpr b c -> jpr a c.
Proof.
  intros [J1 [U1 D1]] [J2 [U2 D2]]. split; [congruence|]. split; [congruence|].
  destruct D1 as [D1|D1]; [|right; exact D1]. destruct D2 as [D2|D2]; [left; congruence | right; congruence].
Qed.

Lemma all_live_jpr s s' : jpr s s' -> all_live s' -> all_live s.
Proof.
  intros [J [Un D]] H. destruct (all_live_elim s' H) as [Hd [Hj Hu]].
  apply all_live_intro; [destruct D; congruence | rewrite J; exact Hj | rewrite Un; exact Hu].
Qed.

Lemma jpr_fold {X} (f : source -> X -> source) :
  (forall s x, jpr (f s x) s) -> forall l s, jpr (fold_left f l s) s.
Proof.
  intros Hf l. induction l as [|x r IH]; intros s; simpl; [apply jpr_refl|].
  eapply jpr_trans; [apply IH | apply Hf].
Qed.

Lemma jpr_exclude s ns : jpr (exclude_label s ns) s. Proof. repeat split. left. reflexivity. Qed.
Lemma jpr_guarantee s ns : jpr (guarantee_label s ns) s. Proof. repeat split. left. reflexivity. Qed.
Lemma jpr_include s ns : jpr (include_label s ns) s. Proof. repeat split. left. reflexivity. Qed.

Lemma jpr_maybe_include s ns : jpr (maybe_include_label s ns) s.
Proof.
  unfold maybe_include_label. apply jpr_fold. intros s0 x. destruct (mem_str x (s_excluded s0)); repeat split; left; reflexivity.
Qed.

Lemma jpr_exclude_metric_name s w g : jpr (exclude_metric_name s w g) s.
Proof. unfold exclude_metric_name. destruct (_ && _); repeat split; left; reflexivity. Qed.

Lemma jpr_parse_aggregation1 s w g : jpr (parse_aggregation1 s w g) s.
Proof.
  unfold parse_aggregation1. destruct w; [repeat split; left; reflexivity|].
  destruct g as [|g0 gr]; [repeat split; left; reflexivity|].
  destruct (negb (s_fixed s)); [|repeat split; left; reflexivity].
  destruct (jpr_maybe_include s (g0 :: gr)) as [J [Un D]]. repeat split; try assumption.
Qed.

Lemma jpr_agg_src op w g p s : jpr (agg_src op w g p s) s.
Proof.
  assert (H : forall o, jpr (exclude_metric_name (set_operation (parse_aggregation1 s w g) o) w g) s).
  { intros o. eapply jpr_trans; [apply jpr_exclude_metric_name|].
    destruct (jpr_parse_aggregation1 s w g) as [J [Un D]]. repeat split; assumption. }
  unfold agg_src. destruct op; try apply H.
  destruct (jpr_parse_aggregation1 s w g) as [J [Un D]].
  destruct (w || negb (String.eqb (str_of_expr p) metric_name)).
  - eapply jpr_trans; [apply jpr_exclude_metric_name|]. destruct (lit_of p); repeat split; assumption.
  - destruct (lit_of p); repeat split; assumption.
Qed.

Lemma jpr_fold_absent names : forall s,
  jpr (fold_left (fun s name => guarantee_label (include_label s [name]) [name]) names s) s.
Proof. apply jpr_fold. intros s x. repeat split. left. reflexivity. Qed.

Lemma jpr_call_src f args a0 es : jpr (call_src f args a0 es) es.
Proof.
  rewrite call_src_unfold. unfold parse_promql_func.
  repeat match goal with |- context [if String.eqb ?a ?b then _ else _] => destruct (String.eqb a b) end;
    try (repeat split; left; reflexivity).
  - eapply jpr_trans; [apply jpr_fold_absent|]. repeat split. right. reflexivity.
  - destruct args; repeat split; left; reflexivity.
  - destruct (lit_of (nth_error args 1)); repeat split; left; reflexivity.
  - eapply jpr_trans; [apply jpr_fold; intros s x; destruct (s_known x); repeat split; left; reflexivity|].
    repeat split. left. reflexivity.
Qed.

Lemma jpr_apply_conditions s op rb : jpr (apply_conditions s op rb) s.
Proof. unfold apply_conditions. destruct (check_conditions s op rb). repeat split. left. reflexivity. Qed.

Lemma jpr_set_op_default s c : jpr (set_op_default s c) s.
Proof. unfold set_op_default. destruct (String.eqb (s_operation s) ""); repeat split; left; reflexivity. Qed.

Lemma static_not_dead fm fp ls rs op d :
  is_comparison op = false -> snd (calculate_static_return fm fp ls rs op d) = d.
Proof. destruct op; simpl; intros H; try discriminate; reflexivity. Qed.

Section Complete.
  Variables fmod fpow : float -> float -> float.
  Notation walk := (walk_node fmod fpow).

  (** the node marks something: one of the conditions under which parseBinOps sets IsDead at this node *)
  Definition marks (n : expr) : Prop :=
    match n with
    | EBin op rb vm l r =>
        (* static folding of a comparison is applied to some pair of branches *)
        (is_comparison op = true /\
         exists ls0 rs0, In ls0 (walk l) /\ In rs0 (walk r) /\ s_always ls0 = true /\ s_always rs0 = true)
        \/
        match vm with
        | None => False
        | Some vm =>
            (* canJoin flags some pair *)
            (exists s0 rs, In s0 (walk (many_side vm l r)) /\ In rs (walk (other_side vm l r)) /\
                           can_join (join_view vm s0) rs vm <> None)
            (* unless on(): some right hand branch always returns *)
            \/ (op = OUnless /\ vm_on_empty vm = true /\ exists rs, In rs (walk r) /\ s_always rs = true /\ s_cond rs = false)
            (* or: no left hand branch can be empty *)
            \/ (op = OOr /\ forall s, In s (walk l) -> s_always s = true /\ s_cond s = false)
        end
    | _ => False
    end.

  Definition Q (e : expr) : Prop :=
    (forall n, subterm n e -> ~ marks n) -> forall s, In s (walk e) -> all_live s.

  Lemma quiet_kid e c : In c (kids e) -> (forall n, subterm n e -> ~ marks n) -> forall n, subterm n c -> ~ marks n.
  Proof. intros Hc H n Hn. apply H. eapply st_step; eauto. Qed.

  Lemma static_applies_always a b : static_applies a b = true -> s_always a = true /\ s_always b = true.
  Proof.
    unfold static_applies. intros H. repeat (apply andb_true_iff in H; destruct H as [H ?]). split; assumption.
  Qed.

  Lemma ac_always s op rb : s_always (apply_conditions s op rb) = s_always s.
  Proof. unfold apply_conditions. destruct (check_conditions s op rb). reflexivity. Qed.

  Lemma apply_static_jpr side ls rs op d :
    s_dead side = false -> d = false ->
    (is_comparison op = true -> static_applies ls rs = true -> False) ->
    static_applies ls rs = true ->
    jpr (apply_static fmod fpow side ls rs op d) side.
  Proof.
    intros Hs Hd Hno Hst. unfold apply_static.
    destruct (calculate_static_return fmod fpow ls rs op d) as [v dd] eqn:E.
    repeat split. left. cbn [s_dead set_dead_label set_dead set_number].
    destruct (is_comparison op) eqn:Ec; [exfalso; auto|].
    pose proof (static_not_dead fmod fpow ls rs op d Ec) as H. rewrite E in H. simpl in H. congruence.
  Qed.

  Lemma mark_join_live s rs vm : can_join s rs vm = None -> mark_join s rs vm = rs.
  Proof. intros H. unfold mark_join. rewrite H. reflexivity. Qed.

  Lemma add_joins_fields vm others : forall s,
    s_dead (add_joins vm others s) = s_dead s /\ s_unless (add_joins vm others s) = s_unless s.
  Proof.
    unfold add_joins. induction others as [|o r IH]; intros s1; simpl; [split; reflexivity|].
    destruct (IH (set_joins s1 (s_joins s1 ++ [mark_join s1 o vm]))) as [A B]. rewrite A, B. split; reflexivity.
  Qed.

  Lemma add_joins_live vm others s s0 :
    same_perm s (join_view vm s0) ->
    all_live s -> (forall rs, In rs others -> all_live rs) ->
    (forall rs, In rs others -> can_join (join_view vm s0) rs vm = None) ->
    all_live (add_joins vm others s).
  Proof.
    intros Hsp Hs Ho Hn. destruct (all_live_elim s Hs) as [Hd [Hj Hu]].
    assert (Hjj : s_joins (add_joins vm others s) = s_joins s ++ map (fun rs => mark_join s rs vm) others) by apply add_joins_spec.
    destruct (add_joins_fields vm others s) as [Hfd Hfu].
    apply all_live_intro; [congruence| |rewrite Hfu; exact Hu].
    rewrite Hjj. intros j Hin. apply in_app_or in Hin. destruct Hin as [Hin|Hin]; [exact (Hj j Hin)|].
    apply in_map_iff in Hin. destruct Hin as [rs [<- Hrs]].
    rewrite (mark_join_same_perm s (join_view vm s0) rs vm Hsp), (mark_join_live _ _ _ (Hn rs Hrs)). exact (Ho rs Hrs).
  Qed.

  Lemma jpr_one_to_one_labels vm s : jpr (one_to_one_labels vm s) s.
  Proof. unfold one_to_one_labels. destruct (vm_on vm); repeat split; left; reflexivity. Qed.

  Lemma jpr_group_labels vm s : jpr (group_labels vm s) s.
  Proof. unfold group_labels. destruct (vm_on vm); repeat split; left; reflexivity. Qed.

  Lemma jpr_mtm_labels vm s : jpr (mtm_labels vm s) s.
  Proof. unfold mtm_labels. destruct (vm_on vm); repeat split; left; reflexivity. Qed.

  Lemma apply_static_always side ls rs op d : s_always (apply_static fmod fpow side ls rs op d) = s_always side.
  Proof. unfold apply_static. destruct (calculate_static_return _ _ _ _ _ _). reflexivity. Qed.

  (** the static folding of one-to-one matching without on(): harmless when no comparison folding applies *)
  Lemma oto_static_jpr op rb vm rhs : forall s,
    s_dead s = false ->
    (is_comparison op = true -> s_always s = true -> forall rs0, In rs0 rhs -> s_always rs0 = true -> False) ->
    jpr (one_to_one_static fmod fpow op rb vm rhs s) s.
  Proof.
    intros s Hd Hno. unfold one_to_one_static. destruct (vm_on vm); [apply jpr_refl|].
    revert s Hd Hno. induction rhs as [|r rest IH]; intros s Hd Hno; cbn [fold_left]; [apply jpr_refl|].
    destruct (static_applies s (apply_conditions r op rb)) eqn:Est.
    - assert (Hj : jpr (apply_static fmod fpow s s (apply_conditions r op rb) op (s_dead s)) s).
      { apply apply_static_jpr; auto. intros Hc _. apply static_applies_always in Est. destruct Est as [A B].
        rewrite ac_always in B. apply (Hno Hc A r); [left; reflexivity | exact B]. }
      eapply jpr_trans; [|exact Hj]. apply IH.
      + destruct Hj as [_ [_ [D|D]]]; congruence.
      + intros Hc Ha rs0 Hin. rewrite apply_static_always in Ha. apply (Hno Hc Ha rs0). right. exact Hin.
    - apply IH; [exact Hd|]. intros Hc Ha rs0 Hin. apply (Hno Hc Ha rs0). right. exact Hin.
  Qed.

  Lemma oto_static_always op rb vm rhs : forall s, s_always (one_to_one_static fmod fpow op rb vm rhs s) = s_always s.
  Proof.
    intros s. unfold one_to_one_static. destruct (vm_on vm); [reflexivity|].
    revert s. induction rhs as [|r rest IH]; intros s; cbn [fold_left]; [reflexivity|].
    destruct (static_applies s _); rewrite IH; [apply apply_static_always | reflexivity].
  Qed.

  Lemma mtm_src_snd op rb vm rhs s : snd (mtm_src op rb vm rhs s) = negb (s_always s) || s_cond s.
  Proof.
    unfold mtm_src.
    destruct (fold_left (mtm_step op rb vm) rhs (set_op_default (mtm_labels vm s) (vm_card vm), false)) as [s' rc].
    cbn [snd].
    assert (H : s_always (set_op_default (mtm_labels vm s) (vm_card vm)) = s_always s /\
                s_cond (set_op_default (mtm_labels vm s) (vm_card vm)) = s_cond s).
    { unfold set_op_default, mtm_labels. destruct (vm_on vm); destruct (String.eqb _ ""); split; reflexivity. }
    destruct H as [A C]. rewrite A, C. reflexivity.
  Qed.

  (** many-to-many: the fold over the right hand branches *)
  Lemma mtm_fold_live op rb vm s0 rhs :
    (forall rs, In rs rhs -> all_live rs) ->
    (forall rs, In rs rhs -> can_join (join_view vm s0) rs vm = None) ->
    (op = OUnless -> vm_on_empty vm = true -> forall rs, In rs rhs -> s_always rs = true -> s_cond rs = false -> False) ->
    forall acc, all_live (fst acc) -> same_perm (fst acc) (join_view vm s0) ->
                all_live (fst (fold_left (mtm_step op rb vm) rhs acc)) .
  Proof.
    induction rhs as [|r rest IH]; intros Hl Hn Hu acc Ha Hsp; cbn [fold_left]; [exact Ha|].
    assert (Hl' : forall rs, In rs rest -> all_live rs) by (intros; apply Hl; right; assumption).
    assert (Hn' : forall rs, In rs rest -> can_join (join_view vm s0) rs vm = None) by (intros; apply Hn; right; assumption).
    assert (Hu' : op = OUnless -> vm_on_empty vm = true -> forall rs, In rs rest -> s_always rs = true -> s_cond rs = false -> False)
      by (intros E1 E2 rs Hin; apply (Hu E1 E2 rs); right; exact Hin).
    destruct acc as [s rc]. cbn [fst] in Ha, Hsp.
    assert (Hm : mark_join s r vm = r).
    { rewrite (mark_join_same_perm s (join_view vm s0) r vm Hsp). apply mark_join_live. apply Hn. left. reflexivity. }
    destruct (all_live_elim s Ha) as [Hd [Hj Hun]].
    apply (IH Hl' Hn' Hu'); unfold mtm_step; rewrite Hm.
    - destruct op; cbn [fst]; try exact Ha;
        try (apply all_live_intro; cbn [s_dead s_joins s_unless set_joins]; [exact Hd | | exact Hun];
             intros j Hin; apply in_app_or in Hin; destruct Hin as [Hin|[<-|[]]]; [exact (Hj j Hin) | apply Hl; left; reflexivity]).
      (* unless *)
      destruct (vm_on_empty vm && s_always r && negb (s_cond r)) eqn:E.
      + exfalso. apply andb_true_iff in E. destruct E as [E Hc]. apply andb_true_iff in E. destruct E as [Hon Hal].
        apply negb_true_iff in Hc. apply (Hu eq_refl Hon r); [left; reflexivity | exact Hal | exact Hc].
      + apply all_live_intro; cbn [s_dead s_joins s_unless set_unless]; [exact Hd | exact Hj|].
        intros u Hin. apply in_app_or in Hin. destruct Hin as [Hin|[<-|[]]]; [exact (Hun u Hin) | apply Hl; left; reflexivity].
    - destruct op; cbn [fst]; try exact Hsp; try (eapply same_perm_trans; [apply sp_joins | exact Hsp]).
      destruct (vm_on_empty vm && s_always r && negb (s_cond r)).
      + eapply same_perm_trans; [apply sp_unless|]. eapply same_perm_trans; [apply sp_dead_label|].
        eapply same_perm_trans; [apply sp_dead | exact Hsp].
      + eapply same_perm_trans; [apply sp_unless | exact Hsp].
  Qed.

  Theorem no_mark_no_problem : forall e, Q e.
  Proof.
    induction e using expr_ind'; intros Hq s0 Hin.
    - destruct Hin as [<-|[]]. apply all_live_intro; [reflexivity | intros j [] | intros u []].
    - destruct Hin as [<-|[]]. apply all_live_intro; [reflexivity | intros j [] | intros u []].
    - destruct Hin as [<-|[]]. fold (sel_src ms). unfold sel_src.
      eapply all_live_jpr; [apply jpr_fold; intros s x; apply jpr_exclude|].
      eapply all_live_jpr; [apply jpr_guarantee|].
      apply all_live_intro; [reflexivity | intros j [] | intros u []].
    - cbn [walk_node] in Hin. apply in_map_iff in Hin. destruct Hin as [s1 [<- H1]].
      eapply all_live_jpr; [|apply (IHe (quiet_kid (EMatrix e) e (or_introl eq_refl) Hq) s1 H1)]. repeat split. left. reflexivity.
    - exact (IHe (quiet_kid (ESubq e) e (or_introl eq_refl) Hq) s0 Hin).
    - exact (IHe (quiet_kid (EParen e) e (or_introl eq_refl) Hq) s0 Hin).
    - exact (IHe (quiet_kid (EUnary b e) e (or_introl eq_refl) Hq) s0 Hin).
    - (* aggregation *)
      pose proof (IHe (quiet_kid (EAgg op w g p e) e (or_introl eq_refl) Hq)) as IH.
      destruct op; cbn [walk_node] in Hin; try (apply in_map_iff in Hin; destruct Hin as [s1 [<- H1]];
        first [ eapply all_live_jpr; [apply jpr_agg_src | exact (IH s1 H1)]
              | eapply all_live_jpr; [|exact (IH s1 H1)]; repeat split; left; reflexivity ]).
      destruct Hin.
    - (* call *)
      cbn [walk_node] in Hin.
      set (arg0 := match args with [] => [] | a :: _ => walk a end) in *.
      destruct (call_srcs walk (call_src f args arg0) ats 0 args) as [|c0 cr] eqn:E.
      + destruct Hin as [<-|[]]. eapply all_live_jpr; [apply jpr_call_src|].
        apply all_live_intro; [reflexivity | intros j [] | intros u []].
      + rewrite <- E in Hin. apply In_call_srcs in Hin. destruct Hin as [a [s1 [Ha [Hs1 ->]]]].
        eapply all_live_jpr; [apply jpr_call_src|]. rewrite Forall_forall in H.
        apply (H a Ha); [|exact Hs1]. apply (quiet_kid (ECall f ats args) a); [exact Ha | exact Hq].
    - (* binary *)
      pose proof (IHe1 (quiet_kid (EBin op b vm e1 e2) e1 (or_introl eq_refl) Hq)) as IHl.
      pose proof (IHe2 (quiet_kid (EBin op b vm e1 e2) e2 (or_intror (or_introl eq_refl)) Hq)) as IHr.
      pose proof (Hq _ (st_refl _)) as Hnm. cbn [marks] in Hnm.
      assert (Hstat : is_comparison op = true -> forall ls0 rs0, In ls0 (walk e1) -> In rs0 (walk e2) ->
                      s_always ls0 = true -> s_always rs0 = true -> False).
      { intros Hc ls0 rs0 H1 H2 A1 A2. apply Hnm. left. split; [exact Hc|]. exists ls0, rs0. auto. }
      destruct vm as [vm|].
      + assert (Hnj : forall s1 rs, In s1 (walk (many_side vm e1 e2)) -> In rs (walk (other_side vm e1 e2)) ->
                                     can_join (join_view vm s1) rs vm = None).
        { intros s1 rs H1 H2. destruct (can_join (join_view vm s1) rs vm) eqn:Ej; [|reflexivity].
          exfalso. apply Hnm. right. left. exists s1, rs. rewrite Ej. repeat split; auto. discriminate. }
        cbn [walk_node] in Hin. unfold many_side, other_side in Hnj. destruct (vm_card vm) eqn:Ecard.
        * (* one-to-one *)
          unfold binops_one_to_one in Hin. apply in_map_iff in Hin. destruct Hin as [s1 [<- H1]].
          unfold one_to_one_src.
          eapply all_live_jpr; [apply jpr_apply_conditions|].
          set (sl := one_to_one_labels vm s1).
          assert (Hsl : all_live sl) by (eapply all_live_jpr; [apply jpr_one_to_one_labels | exact (IHl s1 H1)]).
          assert (Hal : s_always sl = s_always s1) by (unfold sl, one_to_one_labels; destruct (vm_on vm); reflexivity).
          assert (Hst : jpr (one_to_one_static fmod fpow op b vm (walk e2) sl) sl).
          { apply oto_static_jpr; [exact (proj1 (all_live_elim _ Hsl))|].
            intros Hc A1 rs0 Hin' A2. rewrite Hal in A1. exact (Hstat Hc s1 rs0 H1 Hin' A1 A2). }
          apply (add_joins_live vm (walk e2) _ s1).
          -- unfold join_view. rewrite Ecard.
             eapply same_perm_trans; [apply sp_set_op_default|].
             destruct (spr_one_to_one_static fmod fpow op b vm (walk e2) sl) as [Hp _]. exact Hp.
          -- eapply all_live_jpr; [apply jpr_set_op_default|]. eapply all_live_jpr; [exact Hst | exact Hsl].
          -- exact IHr.
          -- intros rs Hrs. exact (Hnj s1 rs H1 Hrs).
        * (* many-to-one *)
          unfold binops_group in Hin. apply in_map_iff in Hin. destruct Hin as [s1 [<- H1]].
          unfold group_src. eapply all_live_jpr; [apply jpr_apply_conditions|].
          apply (add_joins_live vm (walk e2) _ s1).
          -- unfold join_view. rewrite Ecard. apply sp_set_op_default.
          -- eapply all_live_jpr; [apply jpr_set_op_default|]. eapply all_live_jpr; [apply jpr_group_labels | exact (IHl s1 H1)].
          -- exact IHr.
          -- intros rs Hrs. exact (Hnj s1 rs H1 Hrs).
        * (* one-to-many *)
          unfold binops_group in Hin. apply in_map_iff in Hin. destruct Hin as [s1 [<- H1]].
          unfold group_src. eapply all_live_jpr; [apply jpr_apply_conditions|].
          apply (add_joins_live vm (walk e1) _ s1).
          -- unfold join_view. rewrite Ecard. apply sp_set_op_default.
          -- eapply all_live_jpr; [apply jpr_set_op_default|]. eapply all_live_jpr; [apply jpr_group_labels | exact (IHr s1 H1)].
          -- exact IHl.
          -- intros rs Hrs. exact (Hnj s1 rs H1 Hrs).
        * (* many-to-many *)
          unfold binops_many_to_many in Hin. apply in_app_or in Hin. destruct Hin as [Hin|Hin].
          -- rewrite map_map in Hin. apply in_map_iff in Hin. destruct Hin as [s1 [<- H1]].
             unfold mtm_src.
             pose proof (mtm_fold_live op b vm s1 (walk e2) IHr (fun rs Hrs => Hnj s1 rs H1 Hrs)) as Hfold.
             assert (Hun : op = OUnless -> vm_on_empty vm = true -> forall rs, In rs (walk e2) -> s_always rs = true -> s_cond rs = false -> False).
             { intros Eo Hon rs Hrs A C. apply Hnm. right. right. left. split; [exact Eo|]. split; [exact Hon|]. exists rs. auto. }
             specialize (Hfold Hun (set_op_default (mtm_labels vm s1) (vm_card vm), false)).
             cbn [fst] in Hfold.
             assert (Hacc : all_live (set_op_default (mtm_labels vm s1) (vm_card vm))).
             { eapply all_live_jpr; [apply jpr_set_op_default|]. eapply all_live_jpr; [apply jpr_mtm_labels | exact (IHl s1 H1)]. }
             assert (Hsp : same_perm (set_op_default (mtm_labels vm s1) (vm_card vm)) (join_view vm s1)).
             { unfold join_view. rewrite Ecard. apply sp_set_op_default. }
             specialize (Hfold Hacc Hsp).
             destruct (fold_left (mtm_step op b vm) (walk e2) (set_op_default (mtm_labels vm s1) (vm_card vm), false)) as [s' rc].
             cbn [fst] in *. destruct (binop_eqb op OAnd && rc); [|exact Hfold].
             eapply all_live_jpr; [|exact Hfold]. repeat split. left. reflexivity.
          -- destruct (binop_eqb op OOr) eqn:Eor; [|destruct Hin].
             assert (Eo : op = OOr) by (destruct op; try discriminate; reflexivity).
             apply in_map_iff in Hin. destruct Hin as [s1 [<- H1]].
             unfold or_rhs_src.
             destruct (existsb snd (map (mtm_src op b vm (walk e2)) (walk e1))) eqn:Eb; cbn [negb].
             ++ eapply all_live_jpr; [apply jpr_set_op_default | exact (IHr s1 H1)].
             ++ exfalso. apply Hnm. right. right. right. split; [exact Eo|].
                intros s Hs.
                assert (Hsnd : snd (mtm_src op b vm (walk e2) s) = false).
                { destruct (snd (mtm_src op b vm (walk e2) s)) eqn:E1; [|reflexivity].
                  assert (existsb snd (map (mtm_src op b vm (walk e2)) (walk e1)) = true).
                  { apply existsb_exists. exists (mtm_src op b vm (walk e2) s). split; [apply in_map; exact Hs | exact E1]. }
                  congruence. }
                rewrite mtm_src_snd in Hsnd. apply orb_false_iff in Hsnd. destruct Hsnd as [A C].
                apply negb_false_iff in A. split; assumption.
      + (* an operand is a scalar *)
        cbn [walk_node] in Hin. unfold binops_nil in Hin. apply in_flat_map in Hin. destruct Hin as [ls0 [Hl0 Hin]].
        apply in_map_iff in Hin. destruct Hin as [rs0 [<- Hr0]].
        unfold nil_pair.
        set (ls := apply_conditions ls0 op b). set (rs := apply_conditions rs0 op b).
        assert (Hls : all_live ls) by (eapply all_live_jpr; [apply jpr_apply_conditions | exact (IHl ls0 Hl0)]).
        assert (Hrs : all_live rs) by (eapply all_live_jpr; [apply jpr_apply_conditions | exact (IHr rs0 Hr0)]).
        assert (Hside : all_live (if is_vec_or_matrix (s_returns ls) then ls else if is_vec_or_matrix (s_returns rs) then rs else ls))
          by (destruct (is_vec_or_matrix (s_returns ls)); [exact Hls | destruct (is_vec_or_matrix (s_returns rs)); assumption]).
        destruct (static_applies ls rs) eqn:Est; [|exact Hside].
        eapply all_live_jpr; [|exact Hside].
        apply apply_static_jpr; [exact (proj1 (all_live_elim _ Hside)) | exact (proj1 (all_live_elim _ Hls)) | | exact Est].
        intros Hc _. apply static_applies_always in Est. destruct Est as [A1 A2].
        unfold ls in A1. unfold rs in A2. rewrite ac_always in A1, A2. exact (Hstat Hc ls0 rs0 Hl0 Hr0 A1 A2).
  Qed.

  (** promql/impossible has nothing to report for an expression none of whose operation nodes marks anything *)
  Corollary no_mark_no_impossible e :
    (forall n, subterm n e -> ~ marks n) -> impossible_problems (walk e) = [].
  Proof.
    intros Hq. unfold impossible_problems.
    assert (H : forall d, In d (flat_map walk_sources (walk e)) -> s_dead d = false).
    { intros d Hd. apply in_flat_map in Hd. destruct Hd as [s [Hs Hd]]. exact (no_mark_no_problem e Hq s Hs d Hd). }
    induction (flat_map walk_sources (walk e)) as [|x r IH]; [reflexivity|].
    cbn [filter]. rewrite (H x (or_introl eq_refl)). apply IH. intros d Hd. apply H. right. exact Hd.
  Qed.
End Complete.
