(** C06 lemmas, part 3: the layout relations of the one-line styles imply the guard [node_ok]. *)
From Coq Require Import List String Ascii ZArith NArith Bool Lia.
From PintV Require Import Common.Bytes Model.CommentsUnicode Model.Position Model.Layout Proofs.C06_expand Proofs.C06_match.
Import ListNotations.
Local Open Scope Z_scope.
Local Open Scope list_scope.

(** ** Embeddings: the greedy leftmost scan finds an embedding whenever one exists *)

Lemma Sub_tail a v src : Sub (String a v) src -> Sub v src.
Proof.
  intros H. remember (String a v) as w eqn:Ew. revert a v Ew.
  induction H as [src|c v0 src H IH|c v0 src H IH]; intros a v Ew.
  - discriminate.
  - inversion Ew; subst. apply Sub_skip. exact H.
  - apply Sub_skip. eapply IH. exact Ew.
Qed.

Lemma subseq_complete : forall src v, Sub v src -> subseq v src = true.
Proof.
  induction src as [|b src IH]; intros v H.
  - inversion H; subst. reflexivity.
  - destruct v as [|a v]; [reflexivity|].
    cbn [subseq]. destruct (Ascii.eqb a b) eqn:E.
    + inversion H; subst.
      * apply IH. assumption.
      * apply IH. eapply Sub_tail. eassumption.
    + inversion H; subst.
      * rewrite Ascii.eqb_refl in E. discriminate.
      * apply IH. assumption.
Qed.

Lemma gscan_subseq : forall bytes need rest,
  subseq (String need rest) bytes = true -> snd (gscan bytes need rest) = None.
Proof.
  induction bytes as [|b bytes IH]; intros need rest H.
  - cbn in H. discriminate.
  - cbn [subseq] in H. cbn [gscan].
    destruct (Ascii.eqb need b) eqn:E.
    + destruct rest as [|n r]; [reflexivity|].
      cbn [snd]. apply IH. exact H.
    + apply IH. exact H.
Qed.

Lemma Sub_refl v : Sub v v.
Proof. induction v; constructor; assumption. Qed.

Lemma Sub_app_r v src post : Sub v src -> Sub v (src ++ post).
Proof. induction 1; cbn; constructor; assumption. Qed.

Lemma Sub_sq_escape v : Sub v (sq_escape v).
Proof.
  induction v as [|c v IH]; [constructor|].
  cbn [sq_escape]. destruct (Ascii.eqb c "'"%char).
  - apply Sub_take. apply Sub_skip. exact IH.
  - apply Sub_take. exact IH.
Qed.

Lemma Sub_dq_escape_simple v : Sub v (dq_escape_simple v).
Proof.
  induction v as [|c v IH]; [constructor|].
  cbn [dq_escape_simple]. destruct (Ascii.eqb c """"%char || Ascii.eqb c "\"%char).
  - apply Sub_skip. apply Sub_take. exact IH.
  - apply Sub_take. exact IH.
Qed.

(** The value embeds in its presentation token, for every one-line style. *)
Lemma Sub_token st v : Sub v (token_of st v).
Proof.
  destruct st; cbn [token_of].
  - apply Sub_refl.
  - apply Sub_skip. apply Sub_app_r. apply Sub_sq_escape.
  - apply Sub_skip. apply Sub_app_r. apply Sub_dq_escape_simple.
Qed.

(** ** [sdrop] over a known prefix *)

Lemma sdrop_app_length : forall pre s, sdrop (String.length pre) (pre ++ s) = s.
Proof. induction pre as [|c pre IH]; intros s; [reflexivity|]. cbn. apply IH. Qed.

Lemma slen_app a b : slen (a ++ b) = slen a + slen b.
Proof.
  unfold slen. induction a as [|c a IH]; cbn [append String.length]; [lia|].
  rewrite !Nat2Z.inj_succ. lia.
Qed.

(** ** Character columns are byte columns after an ASCII prefix *)

Lemma decode_from_ascii c r i :
  N.ltb (N_of_ascii c) 128 = true ->
  decode_from 0 i (String c r) = (i, N_of_ascii c) :: decode_from 0 (S i) r.
Proof. intros H. cbn [decode_from decode1]. rewrite H. reflexivity. Qed.

Lemma byte_column_go_ascii : forall pre s i L,
  ascii_only pre = true ->
  L = Z.of_nat i + slen pre + slen s ->
  byte_column_go (map fst (decode_from 0 i (pre ++ s))) (slen pre + 1) L = Z.of_nat i + slen pre + 1.
Proof.
  induction pre as [|c pre IH]; intros s i L Ha HL.
  - cbn [append]. change (slen "") with 0 in *. destruct s as [|d r].
    + cbn [decode_from map byte_column_go]. change (slen "") with 0 in HL. lia.
    + cbn [decode_from]. destruct (decode1 (String d r)) as [rn w]. cbn [map fst byte_column_go].
      replace (0 + 1 <=? 1) with true by reflexivity. lia.
  - cbn [ascii_only] in Ha. apply andb_true_iff in Ha. destruct Ha as [Hc Ha].
    cbn [append]. rewrite (decode_from_ascii _ _ _ Hc). cbn [map fst byte_column_go].
    rewrite slen_String. pose proof (slen_nonneg pre) as Hp.
    replace (slen pre + 1 + 1 <=? 1) with false by (symmetry; apply Z.leb_gt; lia).
    replace (slen pre + 1 + 1 - 1) with (slen pre + 1) by lia.
    rewrite (IH s (S i) L Ha); [lia|]. rewrite slen_String in HL. lia.
Qed.

Lemma byte_column_ascii pre s :
  ascii_only pre = true -> byte_column (pre ++ s) (slen pre + 1) = slen pre + 1.
Proof.
  intros Ha. unfold byte_column, decode_all.
  rewrite (byte_column_go_ascii pre s 0 (slen (pre ++ s)) Ha); [lia|].
  rewrite slen_app. lia.
Qed.

(** ** One-line styles *)

Lemma token_nonempty st v : v <> EmptyString -> token_of st v <> EmptyString.
Proof. destruct st; cbn [token_of]; [auto|discriminate|discriminate]. Qed.

Lemma token_starts_nonspace st v :
  v <> EmptyString -> (st = Plain -> starts_with_space v = false) ->
  count_leading_space (token_of st v) = 0 \/ exists c r, token_of st v = String c r /\ Ascii.eqb c space = false.
Proof.
  intros Hv Hp. right. destruct st; cbn [token_of].
  - destruct v as [|c r]; [contradiction|]. exists c, r. split; [reflexivity|].
    specialize (Hp eq_refl). exact Hp.
  - eexists _, _. split; [reflexivity|reflexivity].
  - eexists _, _. split; [reflexivity|reflexivity].
Qed.

Theorem lay1_node_ok : forall st lines n minCol,
  Lay1 st lines n -> node_ok lines n minCol = true.
Proof.
  intros st lines n minCol [Hv [Hnn [Hblk [Hanc [Hdq [[l [pre [post [Hl [El [Hasc Ec]]]]]] [Hp Hnb]]]]]]].
  unfold node_ok. destruct (sn_value n) as [|need rest] eqn:Ev; [contradiction|].
  rewrite Hblk.
  rewrite Hnn. cbn [negb andb].
  unfold line_at in Hl. destruct (1 <=? sn_line n) eqn:E1; [|discriminate].
  cbn [andb].
  (* the suffix of the line table starts with l *)
  assert (Hsk : exists more, skipn (Z.to_nat (sn_line n - 1)) lines = l :: more).
  { clear -Hl. revert Hl. generalize (Z.to_nat (sn_line n - 1)). intros k. revert lines.
    induction k as [|k IH]; intros lines H.
    - destruct lines as [|x r]; [discriminate|]. cbn in H. inversion H; subst. exists r. reflexivity.
    - destruct lines as [|x r]; [discriminate|]. cbn in H. cbn [skipn]. apply IH. exact H. }
  destruct Hsk as [more Hsk]. rewrite Hsk. cbv zeta.
  assert (Hlen0 : slen l =? 0 = false).
  { apply Z.eqb_neq. subst l. rewrite !slen_app.
    pose proof (slen_nonneg pre). pose proof (slen_nonneg post).
    assert (token_of st (String need rest) <> EmptyString) by (apply token_nonempty; discriminate).
    destruct (token_of st (String need rest)); [contradiction|]. rewrite slen_String. pose proof (slen_nonneg s). lia. }
  rewrite Hlen0.
  assert (Hfc : first_col l n = sn_col n).
  { unfold first_col. rewrite Hanc. rewrite Ec. subst l. apply byte_column_ascii. exact Hasc. }
  rewrite Hfc. cbn [lay_ok].
  set (tok := token_of st (String need rest)) in *.
  assert (Htok : tok <> EmptyString) by (apply token_nonempty; discriminate).
  assert (Hlen : slen l = slen pre + slen tok + slen post) by (subst l; rewrite !slen_app; lia).
  assert (Htl : 1 <= slen tok).
  { destruct tok; [contradiction|]. rewrite slen_String. pose proof (slen_nonneg tok). lia. }
  pose proof (slen_nonneg pre) as Hpre. pose proof (slen_nonneg post) as Hpost.
  replace (slen l =? 0) with false by (symmetry; apply Z.eqb_neq; lia).
  (* column adjustment does nothing: the token starts with a non-blank byte *)
  assert (Hdrop : sdrop (Z.to_nat (sn_col n - 1)) l = (tok ++ post)%string).
  { rewrite Ec. replace (Z.to_nat (slen pre + 1 - 1)) with (String.length pre) by (unfold slen; lia).
    subst l. apply sdrop_app_length. }
  assert (Hadj : adjust_col l (sn_col n) need rest = Some (sn_col n)).
  { unfold adjust_col. replace (Z.min (slen l) (sn_col n)) with (sn_col n) by lia.
    replace (sn_col n <=? 0) with false by (symmetry; apply Z.leb_gt; lia).
    rewrite Hdrop.
    pose proof (count_leading_space_nonneg (String need rest)) as Hvs.
    set (vs := count_leading_space (String need rest)) in *.
    destruct (token_starts_nonspace st (String need rest) ltac:(discriminate) Hp) as [H0|[c [r [Et Ecs]]]].
    - fold tok in H0. assert (count_leading_space (tok ++ post) = 0).
      { destruct tok as [|c r]; [contradiction|]. cbn [append count_leading_space] in *.
        destruct (Ascii.eqb c space); [|reflexivity].
        pose proof (count_leading_space_nonneg r). lia. }
      rewrite H.
      replace (vs <? 0) with false by (symmetry; apply Z.ltb_ge; lia).
      reflexivity.
    - fold tok in Et. rewrite Et. cbn [append count_leading_space]. rewrite Ecs.
      replace (vs <? 0) with false by (symmetry; apply Z.ltb_ge; lia).
      reflexivity. }
  rewrite Hadj, Hdrop.
  assert (Hnobs : sn_dq n && negb (no_backslash_b (tok ++ post)) = false).
  { rewrite Hdq. destruct st; try reflexivity.
    destruct (Hnb eq_refl) as [l' [Hl' Hb]]. unfold line_at in Hl'. rewrite E1 in Hl'.
    assert (l' = l) by congruence. subst l'. rewrite Hdrop in Hb. fold tok in Hb. rewrite Hb. reflexivity. }
  rewrite Hnobs.
  assert (Hg : snd (gscan (tok ++ post) need rest) = None).
  { apply gscan_subseq. apply subseq_complete. apply Sub_app_r. apply Sub_token. }
  destruct (gscan (tok ++ post) need rest) as [m res]. cbn [snd] in Hg. subst res. reflexivity.
Qed.
