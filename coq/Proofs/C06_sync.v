(** C06 lemmas, part 12 (unconditional, EVERY node incl. double-quoted scalars with any escape sequences): the positions
    stay IN STEP with the value — the k-th position belongs to the k-th byte of the value: whatever the layout, the number of
    positions equals the length of the prefix of the value that was located.  (For nodes that are not double quoted the
    positions moreover read back that prefix: [positions_spell_prefix].)  This is what a diagnostic's column offsets
    rely on, and what the escape-token scanner of fix a2fc6da restores for double-quoted scalars. *)
From Coq Require Import List String Ascii ZArith NArith Bool Lia.
From PintV Require Import Common.Bytes Model.Position Model.Layout Proofs.C06_expand Proofs.C06_match Proofs.C06_readrange.
Import ListNotations.
Local Open Scope Z_scope.
Local Open Scope list_scope.

Definition synced (offs : list prange) (pre : string) : Prop :=
  wf offs /\ Z.of_nat (List.length (expand offs)) = slen pre.

Lemma slen_app2 a b : slen (a ++ b) = slen a + slen b.
Proof.
  unfold slen. induction a as [|c a IH]; cbn [append String.length]; [lia|].
  rewrite !Nat2Z.inj_succ. lia.
Qed.

Lemma synced_append offs pre l c ch :
  synced offs pre -> synced (append_position offs l c) (pre ++ String ch EmptyString).
Proof.
  intros [Hwf Hn]. split; [apply append_position_wf; exact Hwf|].
  rewrite (append_position_expand offs l c Hwf), app_length, slen_app2, slen_String. cbn [List.length]. change (slen "") with 0. lia.
Qed.

Lemma append_decoded_synced line col size len : forall d i offs pre,
  synced offs pre ->
  synced (append_decoded (String.length d) i line col size len offs) (pre ++ d).
Proof.
  induction d as [|x d IH]; intros i offs pre H.
  - cbn [String.length append_decoded]. rewrite sapp_nil_r. exact H.
  - cbn [String.length append_decoded].
    replace (pre ++ String x d)%string with ((pre ++ String x EmptyString) ++ d)%string by (rewrite sapp_assoc; reflexivity).
    apply IH. apply synced_append. exact H.
Qed.

Lemma strip_prefix_app : forall d v left_, strip_prefix d v = Some left_ -> v = (d ++ left_)%string.
Proof.
  induction d as [|a d IH]; intros v left_ H.
  - cbn in H. injection H as <-. reflexivity.
  - destruct v as [|b v]; [discriminate|]. cbn [strip_prefix] in H.
    destruct (Ascii.eqb a b) eqn:E; [|discriminate]. apply Ascii.eqb_eq in E. subst b.
    cbn [append]. f_equal. apply IH. exact H.
Qed.

Definition scan_sync (res : scan_res) (pre : string) (need : ascii) (rest : string) : Prop :=
  match res with
  | ScanDone o => synced o (pre ++ String need rest)
  | ScanCont n r o => exists m, (String need rest = m ++ String n r)%string /\ synced o (pre ++ m)
  end.

Lemma scan_line_sync : forall bytes line col need rest offs pre,
  synced offs pre -> scan_sync (scan_line bytes line col need rest offs) pre need rest.
Proof.
  induction bytes as [|got more IH]; intros line col need rest offs pre H.
  - cbn. exists EmptyString. split; [reflexivity|]. rewrite sapp_nil_r. exact H.
  - cbn [scan_line]. destruct (Ascii.eqb need got).
    + pose proof (synced_append offs pre line col need H) as H'.
      destruct rest as [|n' r'].
      * exact H'.
      * specialize (IH line (col + 1) n' r' _ _ H'). unfold scan_sync in *.
        destruct (scan_line more line (col + 1) n' r' (append_position offs line col)) as [o|n2 r2 o].
        -- rewrite sapp_cons_mid in IH. exact IH.
        -- destruct IH as [m [Hm Hs]]. exists (String need m). split; [cbn; rewrite Hm; reflexivity|].
           rewrite sapp_cons_mid in Hs. exact Hs.
    + apply IH. exact H.
Qed.

Lemma scan_line_dq_sync : forall bytes skip line col need rest offs pre,
  synced offs pre -> scan_sync (scan_line_dq bytes skip line col need rest offs) pre need rest.
Proof.
  induction bytes as [|got more IH]; intros skip line col need rest offs pre H.
  - cbn. exists EmptyString. split; [reflexivity|]. rewrite sapp_nil_r. exact H.
  - cbn [scan_line_dq]. destruct skip as [|k]; [|apply IH; exact H].
    destruct (Ascii.eqb got backslash).
    + destruct (unescape (String got more)) as [decoded size].
      destruct decoded as [|d0 dr]; [apply IH; exact H|].
      destruct (strip_prefix (String d0 dr) (String need rest)) as [left_|] eqn:Es; [|apply IH; exact H].
      pose proof (strip_prefix_app _ _ _ Es) as Ev.
      pose proof (append_decoded_synced line col (Z.of_nat size) (slen (String d0 dr)) (String d0 dr) 0 offs pre H) as H'.
      destruct left_ as [|n' r'].
      * unfold scan_sync. rewrite Ev. rewrite sapp_nil_r. exact H'.
      * specialize (IH (Nat.pred size) line (col + 1) n' r' _ _ H'). unfold scan_sync in *. rewrite Ev.
        destruct (scan_line_dq more (Nat.pred size) line (col + 1) n' r' _) as [o|n2 r2 o].
        -- rewrite sapp_assoc in IH. exact IH.
        -- destruct IH as [m [Hm Hs]]. exists (String d0 dr ++ m)%string. split.
           ++ rewrite Hm. rewrite sapp_assoc. reflexivity.
           ++ rewrite <- sapp_assoc. exact Hs.
    + destruct (Ascii.eqb need got).
      * pose proof (synced_append offs pre line col need H) as H'.
        destruct rest as [|n' r'].
        -- exact H'.
        -- specialize (IH 0%nat line (col + 1) n' r' _ _ H'). unfold scan_sync in *.
           destruct (scan_line_dq more 0 line (col + 1) n' r' (append_position offs line col)) as [o|n2 r2 o].
           ++ rewrite sapp_cons_mid in IH. exact IH.
           ++ destruct IH as [m [Hm Hs]]. exists (String need m). split; [cbn; rewrite Hm; reflexivity|].
              rewrite sapp_cons_mid in Hs. exact Hs.
      * apply IH. exact H.
Qed.

Lemma npr_loop_sync dq : forall ls prev li col minCol pending need rest offs pre o,
  synced offs pre ->
  npr_loop dq ls prev li col minCol need rest offs (brk_of pending) = Ok o ->
  exists done_ left_,
    (pre ++ pend_str pending ++ String need rest = done_ ++ left_)%string /\ synced o done_.
Proof.
  induction ls as [|line more IH]; intros prev li col minCol pending need rest offs pre o Hs Hrun.
  - cbn [npr_loop] in Hrun. injection Hrun as <-.
    exists pre, (pend_str pending ++ String need rest)%string. split; [reflexivity|exact Hs].
  - cbn [npr_loop] in Hrun.
    set (offs1 := if brk_of pending then append_position offs (li - 1) (prev + 1) else offs) in *.
    assert (Hs1 : synced offs1 (pre ++ pend_str pending)).
    { unfold offs1. destruct pending as [c|]; cbn [brk_of pend_str].
      - apply synced_append. exact Hs.
      - rewrite sapp_nil_r. exact Hs. }
    assert (Hstep : match line_step dq line li col need rest offs1 with
                    | None => True
                    | Some res => scan_sync res (pre ++ pend_str pending) need rest
                    end).
    { unfold line_step. destruct (slen line =? 0).
      - exists EmptyString. split; [reflexivity|]. rewrite sapp_nil_r. exact Hs1.
      - destruct (adjust_col line col need rest) as [col2|]; [|exact I].
        unfold scan. destruct dq; [apply scan_line_dq_sync|apply scan_line_sync]; exact Hs1. }
    destruct (line_step dq line li col need rest offs1) as [[o1|n r o1]|]; [| |discriminate].
    + injection Hrun as <-. cbn [scan_sync] in Hstep.
      exists ((pre ++ pend_str pending) ++ String need rest)%string, EmptyString.
      split; [rewrite sapp_nil_r, sapp_assoc; reflexivity|exact Hstep].
    + destruct Hstep as [m [Hm Hso]]. unfold advance in Hrun.
      destruct (is_fold_char n) eqn:Ef.
      * destruct r as [|n' r'].
        -- injection Hrun as <-.
           exists ((pre ++ pend_str pending) ++ m)%string, (String n EmptyString).
           split; [|exact Hso]. rewrite Hm. rewrite !sapp_assoc. reflexivity.
        -- change true with (brk_of (Some n)) in Hrun.
           destruct (IH (slen line) (li + 1) minCol minCol (Some n) n' r' o1 ((pre ++ pend_str pending) ++ m)%string o Hso Hrun)
             as [d [l [Hdl Hd]]].
           exists d, l. split; [|exact Hd]. rewrite <- Hdl. rewrite Hm. cbn [pend_str]. rewrite !sapp_assoc. reflexivity.
      * change false with (brk_of None) in Hrun.
        destruct (IH (slen line) (li + 1) minCol minCol None n r o1 ((pre ++ pend_str pending) ++ m)%string o Hso Hrun)
          as [d [l [Hdl Hd]]].
        exists d, l. split; [|exact Hd]. rewrite <- Hdl. rewrite Hm. cbn [pend_str]. rewrite !sapp_assoc. reflexivity.
Qed.

Lemma synced_nil : synced [] EmptyString.
Proof. split; [constructor|reflexivity]. Qed.

(** UNCONDITIONAL, every node: a returning call gives the fallback or positions in step with the value. *)
Theorem positions_in_step : forall lines n minCol pos,
  new_position_range lines n minCol = Ok pos ->
  pos = fallback n \/
  exists done_ left_, sn_value n = (done_ ++ left_)%string /\ wf pos /\ plen pos = slen done_.
Proof.
  intros lines n minCol pos H.
  destruct (sn_value n) as [|need rest] eqn:Ev.
  - unfold new_position_range in H. rewrite Ev in H. injection H as <-. left. reflexivity.
  - rewrite (new_position_range_entry _ _ _ _ _ Ev) in H.
    destruct (npr_entry lines n minCol need rest) as [o|w] eqn:E; [|discriminate].
    assert (Hs : exists d l, (String need rest = d ++ l)%string /\ synced o d).
    { unfold npr_entry in E. destruct (sn_block n).
      - destruct (sn_line n + 1 <=? 0); [discriminate|].
        change false with (brk_of None) in E.
        destruct (npr_loop_sync _ _ _ _ _ _ None need rest [] EmptyString o synced_nil E) as [d [l [Hdl Hd]]].
        exists d, l. split; [rewrite <- Hdl; reflexivity|exact Hd].
      - destruct (sn_line n <=? 0); [discriminate|]. cbv zeta in E.
        change false with (brk_of None) in E.
        destruct (npr_loop_sync _ _ _ _ _ _ None need rest [] EmptyString o synced_nil E) as [d [l [Hdl Hd]]].
        exists d, l. split; [rewrite <- Hdl; reflexivity|exact Hd]. }
    destruct Hs as [d [l [Hdl [Hwf Hn]]]].
    destruct o as [|p o'].
    + injection H as <-. left. reflexivity.
    + injection H as <-. right. exists d, l. split; [exact Hdl|]. split; [exact Hwf|].
      rewrite (plen_points _ Hwf). exact Hn.
Qed.
