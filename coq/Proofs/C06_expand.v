(** C06 lemmas, part 1: position ranges as lists of (line, column) points.
    [append_position] appends exactly one point; [read_range] selects a window of points;
    [add_offset] and [lines_of] in terms of points. *)
From Coq Require Import List String Ascii ZArith Bool Lia.
From PintV Require Import Common.Bytes Model.Position.
Import ListNotations.
Local Open Scope Z_scope.
Local Open Scope list_scope.

(** A range list is well formed when no range is empty. *)
Definition wf_range (p : prange) : Prop := pr_first p <= pr_last p.
Definition wf (prs : list prange) : Prop := Forall wf_range prs.

Lemma expand_range_single l c : expand_range (mkp l c c) = [(l, c)].
Proof.
  unfold expand_range. cbn [pr_line pr_first pr_last].
  replace (c - c + 1) with 1 by lia. change (Z.to_nat 1) with 1%nat. cbn [seq map Z.of_nat]. rewrite Z.add_0_r. reflexivity.
Qed.

Lemma expand_range_extend l a b :
  a <= b -> expand_range (mkp l a (b + 1)) = expand_range (mkp l a b) ++ [(l, b + 1)].
Proof.
  intros Hab. unfold expand_range. cbn [pr_line pr_first pr_last].
  replace (Z.to_nat (b + 1 - a + 1)) with (S (Z.to_nat (b - a + 1))) by lia.
  rewrite seq_S, map_app. cbn [map]. f_equal. f_equal. f_equal. lia.
Qed.

Lemma expand_app a b : expand (a ++ b) = expand a ++ expand b.
Proof. unfold expand. apply flat_map_app. Qed.

Lemma expand_cons p r : expand (p :: r) = expand_range p ++ expand r.
Proof. reflexivity. Qed.

Lemma append_position_spec : forall src l c,
  wf src -> wf (append_position src l c) /\ expand (append_position src l c) = expand src ++ [(l, c)].
Proof.
  induction src as [|p r IH]; intros l c Hwf.
  - cbn [append_position]. split.
    + constructor; [unfold wf_range; cbn [pr_first pr_last]; lia | constructor].
    + rewrite expand_cons, expand_range_single. reflexivity.
  - destruct r as [|q r'].
    + cbn [append_position].
      destruct ((pr_line p =? l) && (pr_last p + 1 =? c)) eqn:E.
      * apply andb_true_iff in E. destruct E as [E1 E2].
        apply Z.eqb_eq in E1. apply Z.eqb_eq in E2. subst.
        inversion Hwf as [|? ? Hp _]; subst. unfold wf_range in Hp.
        split.
        -- constructor; [unfold wf_range; cbn [pr_first pr_last]; lia | constructor].
        -- rewrite !expand_cons. cbn [expand flat_map]. rewrite !app_nil_r.
           destruct p as [pl pa pb]. cbn [pr_line pr_first pr_last] in *.
           apply expand_range_extend. exact Hp.
      * split.
        -- inversion Hwf; subst. constructor; [assumption|].
           constructor; [unfold wf_range; cbn [pr_first pr_last]; lia | constructor].
        -- rewrite !expand_cons. cbn [expand flat_map]. rewrite expand_range_single.
           rewrite !app_nil_r. reflexivity.
    + change (append_position (p :: q :: r') l c) with (p :: append_position (q :: r') l c).
      inversion Hwf as [|? ? Hp Hr]; subst.
      destruct (IH l c Hr) as [IH1 IH2].
      split.
      * constructor; assumption.
      * rewrite expand_cons, IH2, (expand_cons p (q :: r')). rewrite app_assoc. reflexivity.
Qed.

Lemma append_position_wf src l c : wf src -> wf (append_position src l c).
Proof. intros H. apply (append_position_spec src l c H). Qed.

Lemma append_position_expand src l c : wf src -> expand (append_position src l c) = expand src ++ [(l, c)].
Proof. intros H. apply (append_position_spec src l c H). Qed.

Lemma append_position_nonempty src l c : append_position src l c <> [].
Proof.
  destruct src as [|p [|q r]]; cbn [append_position]; try discriminate.
  destruct ((pr_line p =? l) && (pr_last p + 1 =? c)); discriminate.
Qed.

Lemma expand_range_nonempty p : wf_range p -> expand_range p <> [].
Proof.
  unfold wf_range, expand_range. intros H.
  destruct (Z.to_nat (pr_last p - pr_first p + 1)) eqn:E; [lia|]. cbn. discriminate.
Qed.

Lemma wf_expand_nil prs : wf prs -> expand prs = [] -> prs = [].
Proof.
  intros Hwf He. destruct prs as [|p r]; [reflexivity|].
  inversion Hwf; subst. rewrite expand_cons in He.
  apply app_eq_nil in He. destruct He as [He _].
  exfalso. eapply expand_range_nonempty; eauto.
Qed.

(** [collect] distributes over append. *)
Lemma collect_app a b :
  collect (a ++ b) = match collect a, collect b with
                     | Some x, Some y => Some (x ++ y)%string
                     | _, _ => None
                     end.
Proof.
  induction a as [|[c|] a IH]; cbn [collect app].
  - destruct (collect b); reflexivity.
  - rewrite IH. destruct (collect a); [destruct (collect b)|]; reflexivity.
  - reflexivity.
Qed.

Lemma read_back_append lines prs l c :
  wf prs ->
  read_back lines (append_position prs l c) =
  match read_back lines prs, char_at lines (l, c) with
  | Some s, Some ch => Some (s ++ String ch EmptyString)%string
  | _, _ => None
  end.
Proof.
  intros Hwf. unfold read_back. rewrite append_position_expand by assumption.
  rewrite map_app, collect_app. cbn [map collect].
  destruct (collect (map (char_at lines) (expand prs))); [|reflexivity].
  destruct (char_at lines (l, c)); reflexivity.
Qed.
