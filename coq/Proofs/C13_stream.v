(** C13 — the streaming decoder hands every series of a response to AppendSampleToRanges under ITS OWN labels. *)
From Coq Require Import List String ZArith NArith Bool.
From PintV Require Import Common.Bytes Common.GoTime Model.Range Model.RangeRef Model.RangeStream.
Import ListNotations.

Lemma unmarshal_into_fresh obj : unmarshal_into [] obj = obj.
Proof. unfold unmarshal_into. cbn [filter]. apply app_nil_r. Qed.

(** why the reset matters: decoding {"a":"3"} into a map that still holds the previous element's {"a":"1","b":"2"} *)
Example unmarshal_into_keeps_stale_labels :
  unmarshal_into [("a", "1"); ("b", "2")]%string [("a", "3")]%string = [("a", "3"); ("b", "2")]%string.
Proof. reflexivity. Qed.

Section S.
  Variable hash : metric -> N.
  Variable step : Z.

  (** because the variable is reset after every element, each element is folded under the hash of its own metric *)
  Lemma stream_elems_fold elems : forall dst,
    stream_elems hash step [] elems dst
    = fold_left (fun d (e : elem) => append_samples d (hash (fst e)) (snd e) step) elems dst.
  Proof.
    induction elems as [|[obj vals] r IH]; intros dst; [reflexivity|].
    cbn [stream_elems fold_left fst snd]. rewrite unmarshal_into_fresh. apply IH.
  Qed.

  (** a response that carries, for every series of [ss] (labels, presence), the samples a Prometheus-compatible server
      returns for the slice, decodes to exactly [per_slice] of the series identified by the hash of their labels *)
  Lemma stream_response_per_slice (ss : list (metric * presence)) (sl : tr) :
    stream_response hash step (map (fun s => (fst s, server_samples (snd s) (fst sl) (snd sl) step)) ss)
    = per_slice step (map (fun s => (hash (fst s), snd s)) ss) sl.
  Proof.
    unfold stream_response, per_slice. rewrite stream_elems_fold. f_equal.
    generalize (@nil range). induction ss as [|s r IH]; intros dst; [reflexivity|].
    cbn [map fold_left fst snd]. apply IH.
  Qed.
End S.
