(** C12: on the syntactic complement of known finding K7 ([k7_free_vec]) the analyser's OWN AlwaysReturns flag is
    sound: a result branch with AlwaysReturns and not IsConditional implies [always_ne], hence (C12_always) every
    admitted result is a non-empty vector.  This replaces the verified guard [always_ne] of the [unless on()] /
    [or on()] theorems by the very condition under which source.go marks the code dead. *)
From Coq Require Import List String Bool Floats NArith Arith Lia.
From PintV Require Import Common.Bytes Gen.C04 Model.PromQL Model.Source Model.PromSem Model.PromFrag Model.PromAlways
  Proofs.C04_lists Proofs.C04_transfer Proofs.C04_walk Proofs.C04_sound Proofs.C04_calls Proofs.C04_binops Proofs.C04_main.
Import ListNotations.
Open Scope string_scope.
Open Scope list_scope.

(** same AlwaysReturns / IsConditional / Returns *)
Definition fpr (s s' : source) : Prop :=
  s_always s = s_always s' /\ s_cond s = s_cond s' /\ s_returns s = s_returns s'.

Lemma fpr_refl s : fpr s s. Proof. repeat split. Qed.
Lemma fpr_trans a b c : fpr a b -> fpr b c -> fpr a c.
Proof. unfold fpr. intuition congruence. Qed.

Lemma fpr_fold {X} (f : source -> X -> source) :
  (forall s x, fpr (f s x) s) -> forall l s, fpr (fold_left f l s) s.
Proof.
  intros Hf l. induction l as [|x r IH]; intros s; simpl; [apply fpr_refl|].
  eapply fpr_trans; [apply IH | apply Hf].
Qed.

Lemma fpr_include s ns : fpr (include_label s ns) s. Proof. repeat split. Qed.
Lemma fpr_guarantee s ns : fpr (guarantee_label s ns) s. Proof. repeat split. Qed.
Lemma fpr_exclude s ns : fpr (exclude_label s ns) s. Proof. repeat split. Qed.
Lemma fpr_restrict_included s ns : fpr (restrict_included s ns) s. Proof. repeat split. Qed.
Lemma fpr_restrict_guaranteed s ns : fpr (restrict_guaranteed s ns) s. Proof. repeat split. Qed.

Lemma fpr_maybe_include s ns : fpr (maybe_include_label s ns) s.
Proof.
  unfold maybe_include_label. apply fpr_fold. intros s0 x. destruct (mem_str x (s_excluded s0)); repeat split.
Qed.

Lemma fpr_exclude_metric_name s w g : fpr (exclude_metric_name s w g) s.
Proof. unfold exclude_metric_name. destruct (_ && _); repeat split. Qed.

(** aggregations keep both flags *)
Lemma agg_src_flags op w g p s :
  s_always (agg_src op w g p s) = s_always s /\ s_cond (agg_src op w g p s) = s_cond s.
Proof.
  assert (H1 : s_always (parse_aggregation1 s w g) = s_always s /\ s_cond (parse_aggregation1 s w g) = s_cond s).
  { unfold parse_aggregation1. cbn [s_always s_cond set_returns set_type].
    destruct w; [split; reflexivity|]. cbn [s_always s_cond set_fixed].
    destruct g as [|g0 gr]; [split; reflexivity|].
    destruct (negb (s_fixed s)); [|split; reflexivity].
    destruct (fpr_maybe_include s (g0 :: gr)) as [Ha [Hc _]].
    cbn [restrict_included restrict_guaranteed s_always s_cond set_included set_guaranteed]. split; assumption. }
  destruct H1 as [Ha Hc].
  assert (H2 : forall o, s_always (exclude_metric_name (set_operation (parse_aggregation1 s w g) o) w g) = s_always s /\
                         s_cond (exclude_metric_name (set_operation (parse_aggregation1 s w g) o) w g) = s_cond s).
  { intros o. destruct (fpr_exclude_metric_name (set_operation (parse_aggregation1 s w g) o) w g) as [E1 [E2 _]].
    rewrite E1, E2. cbn [s_always s_cond set_operation]. split; assumption. }
  unfold agg_src. destruct op; try apply H2.
  destruct (w || negb (String.eqb (str_of_expr p) metric_name)).
  - match goal with |- context [exclude_metric_name ?x w g] => destruct (fpr_exclude_metric_name x w g) as [E1 [E2 _]] end.
    rewrite E1, E2. destruct (lit_of p); cbn [s_always s_cond guarantee_label include_label set_excluded set_included set_guaranteed set_operation];
    split; assumption.
  - destruct (lit_of p); cbn [s_always s_cond guarantee_label include_label set_excluded set_included set_guaranteed set_operation]; split; assumption.
Qed.

Lemma sel_src_always ms : s_always (sel_src ms) = false.
Proof.
  unfold sel_src.
  match goal with |- context [fold_left ?f ?names ?s0] =>
    destruct (fpr_fold f (fun s x => fpr_exclude s [x]) names s0) as [H _] end.
  rewrite H. reflexivity.
Qed.

(** calls of the label-preserving kinds keep both flags of the argument's source *)
Lemma call_src_flags_preserve f args a0 es :
  (func_kind f = "preserve" \/ func_kind f = "sort" \/ (func_kind f = "timelike" /\ args <> [])) ->
  s_always (call_src f args a0 es) = s_always es /\ s_cond (call_src f args a0 es) = s_cond es.
Proof.
  intros H. rewrite call_src_unfold. destruct H as [H|[H|[H Ha]]].
  - rewrite (ppf_preserve _ _ _ _ H). split; reflexivity.
  - rewrite (ppf_sort _ _ _ _ H). split; reflexivity.
  - rewrite (ppf_timelike _ _ _ _ H). destruct args; [congruence|]. split; reflexivity.
Qed.

(** vector/scalar operations: the flags of the chosen side, IsConditional set by comparisons *)
Lemma nil_pair_flags fm fp op rb ls0 rs0 :
  let side0 := if is_vec_or_matrix (s_returns ls0) then ls0
               else if is_vec_or_matrix (s_returns rs0) then rs0 else ls0 in
  s_always (nil_pair fm fp op rb ls0 rs0) = s_always side0 /\
  s_cond (nil_pair fm fp op rb ls0 rs0) = (if s_cond side0 then true else is_comparison op).
Proof.
  cbv zeta. unfold nil_pair.
  assert (Hac : forall s, s_always (apply_conditions s op rb) = s_always s /\
                          s_cond (apply_conditions s op rb) = (if s_cond s then true else is_comparison op) /\
                          s_returns (apply_conditions s op rb) = s_returns s).
  { intros s. unfold apply_conditions, check_conditions. cbn [s_always s_cond s_returns set_retbool set_cond].
    destruct (s_cond s); repeat split. }
  destruct (Hac ls0) as [La [Lc Lr]]. destruct (Hac rs0) as [Ra [Rc Rr]].
  assert (Hst : forall side d, s_always (apply_static fm fp side (apply_conditions ls0 op rb) (apply_conditions rs0 op rb) op d) = s_always side /\
                               s_cond (apply_static fm fp side (apply_conditions ls0 op rb) (apply_conditions rs0 op rb) op d) = s_cond side).
  { intros side d. unfold apply_static. destruct (calculate_static_return _ _ _ _ _ _). split; reflexivity. }
  rewrite Lr, Rr.
  destruct (is_vec_or_matrix (s_returns ls0)).
  - destruct (static_applies _ _); [destruct (Hst (apply_conditions ls0 op rb) (s_dead (apply_conditions ls0 op rb))) as [E1 E2]; rewrite E1, E2|]; split; assumption.
  - destruct (is_vec_or_matrix (s_returns rs0)).
    + destruct (static_applies _ _); [destruct (Hst (apply_conditions rs0 op rb) (s_dead (apply_conditions ls0 op rb))) as [E1 E2]; rewrite E1, E2|]; split; assumption.
    + destruct (static_applies _ _); [destruct (Hst (apply_conditions ls0 op rb) (s_dead (apply_conditions ls0 op rb))) as [E1 E2]; rewrite E1, E2|]; split; assumption.
Qed.

Section Flag.
  Variables fmod fpow : float -> float -> float.
  Notation walk := (walk_node fmod fpow).

  Definition isvec (s : source) : bool := is_vec_or_matrix (s_returns s).

  (** syntactically scalar expressions have scalar-typed sources only *)
  Lemma scalar_like_ret : forall e, scalar_like e = true -> forall s, In s (walk e) -> isvec s = false.
  Proof.
    induction e using expr_ind'; intros Hs s0 Hin; cbn [scalar_like] in Hs; try discriminate.
    - cbn [walk_node] in Hin. destruct Hin as [<-|[]]. reflexivity.
    - cbn [walk_node] in Hin. auto.
    - cbn [walk_node] in Hin. auto.
    - destruct (sem_class f) eqn:Ec; try discriminate.
      assert (Hne : sem_class f <> SCNone) by (rewrite Ec; discriminate).
      unfold isvec. rewrite (call_ret fmod fpow f ats args s0 Hne Hin), Ec. reflexivity.
    - destruct vm as [vm|]; [discriminate|].
      apply andb_true_iff in Hs. destruct Hs as [Hs Hb]. apply andb_true_iff in Hs. destruct Hs as [_ Ha].
      cbn [walk_node] in Hin. unfold binops_nil in Hin. apply in_flat_map in Hin. destruct Hin as [ls0 [Hl Hin]].
      apply in_map_iff in Hin. destruct Hin as [rs0 [<- Hr]].
      pose proof (IHe1 Ha ls0 Hl) as H1. pose proof (IHe2 Hb rs0 Hr) as H2. unfold isvec in *.
      destruct (nil_pair_cases fmod fpow op b ls0 rs0) as [_ [_ H3]]. destruct (H3 H1 H2) as [_ Hret].
      rewrite Hret. exact H1.
  Qed.

  Definition Q (e : expr) : Prop :=
    k7_free_vec e = true ->
    (forall s, In s (walk e) -> isvec s = true) /\
    (forall s, In s (walk e) -> s_always s = true -> s_cond s = false -> always_ne e = true).

  Lemma single_arg_sources f ats a s :
    In s (walk (ECall f ats [a])) ->
    s = call_src f [a] (walk a) zero_source \/ exists s0, In s0 (walk a) /\ s = call_src f [a] (walk a) s0.
  Proof.
    cbn [walk_node call_srcs]. rewrite app_nil_r.
    destruct (is_vec_or_matrix (arg_type ats 0)).
    - destruct (map (call_src f [a] (walk a)) (walk a)) as [|c0 cr] eqn:E.
      + intros [<-|[]]. left. reflexivity.
      + rewrite <- E. intros H. apply in_map_iff in H. destruct H as [s0 [<- H0]]. right. eauto.
    - intros [<-|[]]. left. reflexivity.
  Qed.

  Lemma zero_always : s_always zero_source = false. Proof. reflexivity. Qed.

  Lemma Q_call_single f ats a :
    sem_class f <> SCNone ->
    (func_kind f = "preserve" \/ func_kind f = "sort" \/ func_kind f = "timelike") ->
    (match sem_class f with SCScalar => false | _ => true end = true) ->
    (always_ne a = true -> always_ne (ECall f ats [a]) = true) ->
    Q a -> k7_free_vec a = true ->
    (forall s, In s (walk (ECall f ats [a])) -> isvec s = true) /\
    (forall s, In s (walk (ECall f ats [a])) -> s_always s = true -> s_cond s = false -> always_ne (ECall f ats [a]) = true).
  Proof.
    intros Hne Hk Hsc Hal IH Hka. destruct (IH Hka) as [_ I2]. split.
    - intros s Hin. unfold isvec. rewrite (call_ret fmod fpow f ats [a] s Hne Hin).
      destruct (sem_class f); try reflexivity. discriminate.
    - intros s Hin Ha Hc.
      assert (Hk' : func_kind f = "preserve" \/ func_kind f = "sort" \/ (func_kind f = "timelike" /\ [a] <> [])).
      { destruct Hk as [Hk|[Hk|Hk]]; auto. right; right. split; [exact Hk | discriminate]. }
      apply single_arg_sources in Hin. destruct Hin as [->|[s0 [H0 ->]]].
      + destruct (call_src_flags_preserve f [a] (walk a) zero_source Hk') as [E _]. rewrite E in Ha. discriminate.
      + destruct (call_src_flags_preserve f [a] (walk a) s0 Hk') as [E1 E2]. rewrite E1 in Ha. rewrite E2 in Hc.
        apply Hal. exact (I2 s0 H0 Ha Hc).
  Qed.

  Theorem analyser_always_ne : forall e, Q e.
  Proof.
    induction e using expr_ind'; intros Hk; cbn [k7_free_vec] in Hk; try discriminate.
    - (* selector *)
      split; intros s Hin; cbn [walk_node] in Hin; destruct Hin as [<-|[]].
      + unfold isvec. fold (sel_src ms). rewrite sel_ret. reflexivity.
      + fold (sel_src ms). rewrite sel_src_always. discriminate.
    - (* paren *) destruct (IHe Hk) as [I1 I2]. split; cbn [walk_node always_ne]; auto.
    - (* unary *) destruct (IHe Hk) as [I1 I2]. split; cbn [walk_node always_ne]; auto.
    - (* aggregation *)
      assert (Hop : match op with ATopk | ABottomk | AOther => False | _ => True end /\ k7_free_vec e = true)
        by (destruct op; try discriminate; split; auto).
      destruct Hop as [Hop Hke]. destruct (IHe Hke) as [I1 I2].
      assert (Hw : walk (EAgg op w g p e) = map (agg_src op w g p) (walk e)) by (destruct op; try reflexivity; contradiction).
      rewrite Hw. split.
      + intros s Hin. apply in_map_iff in Hin. destruct Hin as [s0 [<- _]]. unfold isvec. rewrite agg_src_ret. reflexivity.
      + intros s Hin Ha Hc. apply in_map_iff in Hin. destruct Hin as [s0 [<- H0]].
        destruct (agg_src_flags op w g p s0) as [E1 E2]. rewrite E1 in Ha. rewrite E2 in Hc.
        cbn [always_ne]. destruct op; try contradiction; exact (I2 s0 H0 Ha Hc).
    - (* call *)
      destruct (sem_class f) eqn:Ec; try discriminate.
      + (* SCMap _ true, single argument *)
        destruct exact; [|discriminate]. destruct args as [|a [|a2 ar]]; try discriminate.
        apply andb_true_iff in Hk. destruct Hk as [Hv Hka].
        assert (Hne : sem_class f <> SCNone) by (rewrite Ec; discriminate).
        pose proof (compat_of f Hne) as Hcomp. unfold compat in Hcomp. rewrite Ec in Hcomp.
        apply orb_true_iff in Hcomp.
        inversion H as [|? ? HQa _]; subst.
        apply (Q_call_single f ats a Hne); auto.
        * destruct Hcomp as [Hc|Hc]; apply String.eqb_eq in Hc; auto.
        * rewrite Ec. reflexivity.
        * intros Haa. cbn [always_ne]. rewrite Ec. cbn [List.length first_vec_arg]. rewrite Hv. exact Haa.
      + (* absent: never AlwaysReturns (fix f3c0f95) *)
        assert (Hne : sem_class f <> SCNone) by (rewrite Ec; discriminate).
        pose proof (compat_of f Hne) as Hcomp. unfold compat in Hcomp. rewrite Ec in Hcomp. apply String.eqb_eq in Hcomp.
        split.
        * intros s Hin. unfold isvec. rewrite (call_ret fmod fpow f ats args s Hne Hin), Ec. reflexivity.
        * intros s Hin Ha _. apply walk_call_In in Hin. destruct Hin as [es [-> _]]. rewrite call_src_unfold in Ha.
          destruct (ppf_absent_flags (pre_call f args es) f args (arg0_of fmod fpow args) Hcomp) as [_ [E _]].
          rewrite E in Ha. discriminate.
      + (* vector *)
        assert (Hne : sem_class f <> SCNone) by (rewrite Ec; discriminate).
        split.
        * intros s Hin. unfold isvec. rewrite (call_ret fmod fpow f ats args s Hne Hin), Ec. reflexivity.
        * intros. cbn [always_ne]. rewrite Ec. reflexivity.
      + (* time-like *)
        assert (Hne : sem_class f <> SCNone) by (rewrite Ec; discriminate).
        pose proof (compat_of f Hne) as Hcomp. unfold compat in Hcomp. rewrite Ec in Hcomp. apply String.eqb_eq in Hcomp.
        destruct args as [|a [|a2 ar]]; try discriminate.
        * split.
          -- intros s Hin. unfold isvec. rewrite (call_ret fmod fpow f ats [] s Hne Hin), Ec. reflexivity.
          -- intros. cbn [always_ne]. rewrite Ec. reflexivity.
        * apply andb_true_iff in Hk. destruct Hk as [Hv Hka].
          inversion H as [|? ? HQa _]; subst.
          apply (Q_call_single f ats a Hne); auto.
          -- rewrite Ec. reflexivity.
          -- intros Haa. cbn [always_ne]. rewrite Ec. exact Haa.
    - (* vector/scalar binary operation *)
      destruct vm as [vm|]; [discriminate|].
      apply andb_true_iff in Hk. destruct Hk as [Hset Hk]. apply orb_true_iff in Hk.
      assert (Hsrc : forall s, In s (walk (EBin op b None e1 e2)) ->
                exists ls0 rs0, In ls0 (walk e1) /\ In rs0 (walk e2) /\ s = nil_pair fmod fpow op b ls0 rs0).
      { intros s Hin. cbn [walk_node] in Hin. unfold binops_nil in Hin. apply in_flat_map in Hin.
        destruct Hin as [ls0 [Hl Hin]]. apply in_map_iff in Hin. destruct Hin as [rs0 [<- Hr]]. eauto. }
      assert (Han : always_ne (EBin op b None e1 e2) =
                    negb (is_setop op) && negb (is_comparison op && negb b) && (always_ne e1 || always_ne e2))
        by (destruct op; reflexivity).
      destruct Hk as [Hk|Hk]; apply andb_true_iff in Hk; destruct Hk as [K1 K2].
      + (* vector op scalar *)
        destruct (IHe1 K1) as [I1 I2]. pose proof (scalar_like_ret e2 K2) as S2.
        split.
        * intros s Hin. destruct (Hsrc s Hin) as [ls0 [rs0 [Hl [Hr ->]]]].
          destruct (nil_pair_cases fmod fpow op b ls0 rs0) as [H1 _]. destruct (H1 (I1 ls0 Hl)) as [_ Hret].
          unfold isvec. rewrite Hret. exact (I1 ls0 Hl).
        * intros s Hin Ha Hc. destruct (Hsrc s Hin) as [ls0 [rs0 [Hl [Hr ->]]]].
          destruct (nil_pair_flags fmod fpow op b ls0 rs0) as [E1 E2]. cbv zeta in E1, E2.
          pose proof (I1 ls0 Hl) as Hv. unfold isvec in Hv. rewrite Hv in E1, E2.
          rewrite E1 in Ha. rewrite E2 in Hc.
          destruct (s_cond ls0) eqn:Ecl; [discriminate|].
          rewrite Han, Hset, Hc, (I2 ls0 Hl Ha Ecl). reflexivity.
      + (* scalar op vector *)
        destruct (IHe2 K2) as [I1 I2]. pose proof (scalar_like_ret e1 K1) as S1.
        split.
        * intros s Hin. destruct (Hsrc s Hin) as [ls0 [rs0 [Hl [Hr ->]]]].
          destruct (nil_pair_cases fmod fpow op b ls0 rs0) as [_ [H2 _]].
          destruct (H2 (S1 ls0 Hl) (I1 rs0 Hr)) as [_ Hret].
          unfold isvec. rewrite Hret. exact (I1 rs0 Hr).
        * intros s Hin Ha Hc. destruct (Hsrc s Hin) as [ls0 [rs0 [Hl [Hr ->]]]].
          destruct (nil_pair_flags fmod fpow op b ls0 rs0) as [E1 E2]. cbv zeta in E1, E2.
          pose proof (S1 ls0 Hl) as Hs. pose proof (I1 rs0 Hr) as Hv. unfold isvec in Hs, Hv. rewrite Hs, Hv in E1, E2.
          rewrite E1 in Ha. rewrite E2 in Hc.
          destruct (s_cond rs0) eqn:Ecr; [discriminate|].
          rewrite Han, Hset, Hc, (I2 rs0 Hr Ha Ecr). cbn [negb andb]. apply orb_true_r.
  Qed.
End Flag.
